(* C36 — callbacks from non-Python threads get a valid, persistent thread state.
   Statements only; proofs in C36/Proofs.v.  `reach` is closed under every event of every
   thread in any order (C36/Model.v): callbacks (first and later ones, overlapping), the steps of
   the zombie sweep, thread exits (which need no GIL and fall anywhere), interpreter finalization.
   Partial: CPython's PyGILState / PyThreadState internals appear only through counter, dict and
   deletion; allocation failures are not modelled.
   Tie: Model.step_fn consults the regenerated facts of C36/Gen.v (gen_gil_ensure_incr_unlocked/_locked,
   gen_gil_release_plain, gen_register_sweeps_first/_sets_local/_incr): every theorem below about `reach`
   is about the model instantiated with what the current source does on those lines. *)
From Coq Require Import Arith List Bool.
Import ListNotations.
From Cffi Require Import C36.Model C36.Gen C36.Proofs C36.Proofs2 C36.Proofs3 C36.Proofs4 C36.Proofs5.

(* none of the code's Py_FatalError conditions fires, no callback runs on a destroyed thread state,
   no Clear/Delete is applied to a destroyed one, the zombie list never links a freed canary *)
Theorem C36_no_fatal : forall s, reach s -> fatal s = false.
Proof. exact no_fatal. Qed.
Print Assumptions C36_no_fatal.

(* a thread state is deleted at most once ... *)
Theorem C36_deleted_at_most_once : forall s ts, reach s -> ndel s ts <= 1.
Proof. exact deleted_at_most_once. Qed.
Print Assumptions C36_deleted_at_most_once.

(* ... and never while its thread can still call back: a live thread's state is live, owned by it *)
Theorem C36_valid_thread_state : forall s t ts, reach s -> thr s t = Alive -> finalized s = false ->
  gts s t = Some ts -> exists k d, tss s ts = TsLive t k d /\ ndel s ts = 0.
Proof. exact valid_thread_state. Qed.
Print Assumptions C36_valid_thread_state.

(* the thread state (hence threading.local data) of a live foreign thread is the same across its callbacks *)
Theorem C36_persistent : forall s e s' t ts, reach s -> step s e s' ->
  gts s t = Some ts -> thr s' t = Alive -> finalized s' = false -> gts s' t = Some ts.
Proof. exact persistent. Qed.
Print Assumptions C36_persistent.

(* ... over whole executions (any number of callbacks of any threads, sweeps, exits of other threads in
   between): a thread that is alive at the end, interpreter not finalized, still has the thread state it had
   at the beginning *)
Theorem C36_persistent_trace : forall s es s' t ts, reach s -> steps s es s' ->
  gts s t = Some ts -> thr s' t = Alive -> finalized s' = false -> gts s' t = Some ts.
Proof. exact persistent_trace. Qed.
Print Assumptions C36_persistent_trace.

(* the counter accounts for every unreturned entry: the keep-alive reference of
   thread_canary_register, the outer callback, every callback entered with the GIL already held
   (gil_ensure's PyGILState_LOCKED branch) and the thread's own PyGILState_Ensure; in particular it is
   at least 2 inside a callback, so no gil_release / PyGILState_Release destroys the state *)
Theorem C36_counter_keeps_alive : forall s t ts k d, reach s -> thr s t = Alive -> gts s t = Some ts ->
  tss s ts = TsLive t k d ->
  (reg s = None -> 1 + (if incb s t then 1 else 0) + nest s t + (if ownb s t then 1 else 0) <= k) /\
  (incb s t = true -> 2 <= k).
Proof. exact counter_keeps_alive. Qed.
Print Assumptions C36_counter_keeps_alive.

(* different live threads never share a thread state *)
Theorem C36_distinct : forall s t1 t2 ts, reach s -> finalized s = false ->
  thr s t1 = Alive -> thr s t2 = Alive -> gts s t1 = Some ts -> gts s t2 = Some ts -> t1 = t2.
Proof. exact distinct_threads_distinct_states. Qed.
Print Assumptions C36_distinct.

(* a canary is in the zombie list at most once; every linked canary is allocated, marked, holds a
   live thread state whose thread has exited *)
Theorem C36_zombies_ok : forall s, reach s ->
  NoDup (zombies s) /\
  forall c, In c (zombies s) -> exists ts o k, cans s c = CAlive ts None true /\
                                               tss s ts = TsLive o k (Some c) /\ thr s o = Exited.
Proof. exact zombies_ok. Qed.
Print Assumptions C36_zombies_ok.

(* no pointer to a freed canary: tls->local_thread_canary and the thread-state dict entries are allocated canaries *)
Theorem C36_canary_pointers_valid : forall s, reach s ->
  (forall t c, tlsc s t = Some (Some c) -> exists ts, cans s c = CAlive ts (Some t) false /\ thr s t = Alive) /\
  (forall ts o k c, tss s ts = TsLive o k (Some c) -> exists tl z, cans s c = CAlive ts tl z).
Proof. exact canary_pointers_valid. Qed.
Print Assumptions C36_canary_pointers_valid.

(* thread exits do not leak thread states: the state of an exited thread is destroyed, or queued
   in the zombie list (destroyed by the next registration), or being destroyed right now — unless
   its canary had been deallocated under cffi's feet while the thread was alive (EvDictDrop: then
   the extra gilstate_counter reference is never given back and the state lives until Py_Finalize;
   it stays valid and private to its thread, see C36_valid_thread_state / C36_distinct) *)
Theorem C36_no_leak : forall s t ts, reach s -> thr s t = Exited -> gts s t = Some ts ->
  tss s ts = TsDeleted \/
  (exists c, In c (zombies s) /\ cans s c = CAlive ts None true) \/
  (exists t' c, reg s = Some (t', Clearing c ts)) \/
  dropped s ts = true.
Proof. exact no_leak. Qed.
Print Assumptions C36_no_leak.

(* the zombie list is bounded by the exited-but-unswept threads: two linked canaries never belong
   to the same thread (each zombie is the canary of a distinct exited thread, by C36_zombies_ok) *)
Theorem C36_zombies_distinct_threads : forall s c1 c2 ts1 ts2 o k1 k2, reach s ->
  In c1 (zombies s) -> In c2 (zombies s) ->
  tss s ts1 = TsLive o k1 (Some c1) -> tss s ts2 = TsLive o k2 (Some c2) -> c1 = c2.
Proof. exact zombies_distinct_threads. Qed.
Print Assumptions C36_zombies_distinct_threads.

(* an UNINTERRUPTED thread_canary_register of any thread (the macro event: a first callback run to
   completion with no exit in between) empties it; see C36_registration_total for definedness and
   C36_sweep_frees_initial_zombies for the interleaved form *)
Theorem C36_registration_empties : forall s t s', gts s t = None -> mstep s (MCb t) = Some s' ->
  zombies s' = [] /\ reg s' = None.
Proof. exact registration_empties. Qed.
Print Assumptions C36_registration_empties.

(* ... and with an empty list and no sweep in progress every exited thread's state is destroyed
   (or had lost its canary while alive).  Residual leak, stated explicitly: the states of threads that
   exited after the LAST registration stay queued (C36_no_leak, second disjunct) until another
   foreign thread registers or the interpreter finalizes; nothing else frees them. *)
Theorem C36_swept_means_destroyed : forall s t ts, reach s -> zombies s = [] -> reg s = None ->
  thr s t = Exited -> gts s t = Some ts -> tss s ts = TsDeleted \/ dropped s ts = true.
Proof. exact swept_means_destroyed. Qed.
Print Assumptions C36_swept_means_destroyed.

(* ---- the list at pointer level: the regenerated code of thread_canary_make_zombie and
   _thread_canary_detach_with_lock (C36/Gen.v) on a doubly linked ring through cffi_zombie_head
   (`ring h l`: following zombie_next from the head visits exactly l and returns, zombie_prev visits
   rev l, unlinked canaries have NULL fields) implements the sequence operations of the model *)
Theorem C36_ring_empty : ring heap0 [].
Proof. exact ring_empty. Qed.
Print Assumptions C36_ring_empty.
Theorem C36_make_zombie_appends : forall h l c, ring h l -> ~ In c (0 :: l) ->
  exists e' h', exec_p gen_make_zombie (env0 c) h = Some (e', h') /\ ring h' (l ++ [c]).
Proof. exact make_zombie_appends. Qed.
Print Assumptions C36_make_zombie_appends.
Theorem C36_detach_removes : forall h l c, ring h l -> In c l ->
  exists e' h', exec_p gen_detach (env0 c) h = Some (e', h') /\ ring h' (remove Nat.eq_dec c l).
Proof. exact detach_removes. Qed.
Print Assumptions C36_detach_removes.
(* what the sweep reads: head.next is the first element; it is the head itself iff the list is empty *)
Theorem C36_ring_head : forall h l, ring h l -> hnext h 0 = Some (hd 0 l) /\ (hd 0 l = 0 <-> l = []).
Proof. exact ring_head. Qed.
Print Assumptions C36_ring_head.
(* the test `ob->zombie_next != NULL` of dealloc / make_zombie means "linked" *)
Theorem C36_ring_linked_iff : forall h l c, ring h l -> c <> 0 -> (hnext h c <> None <-> In c l).
Proof. exact ring_linked_iff. Qed.
Print Assumptions C36_ring_linked_iff.
(* the guard is consumed by C36_shutdown_twice_fatal below (run_x passes it to the interpreter) *)
Theorem C36_make_zombie_guarded : gen_make_zombie_guarded = true.
Proof. reflexivity. Qed.
Print Assumptions C36_make_zombie_guarded.

(* ---- the locked regions of cffi_thread_shutdown / thread_canary_dealloc / thread_canary_free_zombies,
   regenerated as programs (C36/Gen.v, language and interpreter in C36/Ptr.v; run_x runs them with the
   regenerated ring code and guard).  On a heap whose zombie_next/zombie_prev form `ring (rp h) l` they
   perform exactly the list operations of Model.do_exit / Model.dealloc / step EvSweepPop on `zombies`. *)
(* thread exit with an unlinked canary: appended at the END, canary->tls cleared, nothing else written *)
Theorem C36_shutdown_links : forall (h : xheap) l u c,
  ring (rp h) l -> tloc h u = Some c -> ~ In c (0 :: l) ->
  exists e' r', run_x gen_shutdown_locked (xenv_tls u) h
                = Some (e', mkX r' (upd (ctls h) c None) (ctst h) (tloc h)) /\ ring r' (l ++ [c]).
Proof. exact shutdown_links. Qed.
Print Assumptions C36_shutdown_links.
(* thread exit without canary (never called back / canary deallocated, C36_drop_clears_backpointer): no write *)
Theorem C36_shutdown_nothing : forall (h : xheap) u,
  tloc h u = None -> exists e', run_x gen_shutdown_locked (xenv_tls u) h = Some (e', h).
Proof. exact shutdown_nothing. Qed.
Print Assumptions C36_shutdown_nothing.
(* a canary that is already linked is never linked twice: the Py_FatalError guard (None = fatal) *)
Theorem C36_shutdown_twice_fatal : forall (h : xheap) l u c,
  ring (rp h) l -> tloc h u = Some c -> In c l -> run_x gen_shutdown_locked (xenv_tls u) h = None.
Proof. exact shutdown_twice_fatal. Qed.
Print Assumptions C36_shutdown_twice_fatal.
(* dealloc: unlinked iff it was linked (`remove` is the identity otherwise); its thread's tls forgets it *)
Theorem C36_dealloc_unlinks : forall (h : xheap) l c,
  ring (rp h) l -> c <> 0 ->
  exists e' r', run_x gen_dealloc_locked (xenv_ob c) h
                = Some (e', mkX r' (ctls h) (ctst h)
                                (match ctls h c with Some u => upd (tloc h) u None | None => tloc h end))
                /\ ring r' (remove Nat.eq_dec c l).
Proof. exact dealloc_unlinks. Qed.
Print Assumptions C36_dealloc_unlinks.
(* the sweep's locked region: empty list -> tstate stays NULL (loop ends), no write; otherwise the FIRST
   zombie is popped and tstate is its ->tstate (non-NULL: no fatal) *)
Theorem C36_sweep_pops : forall (h : xheap) l,
  ring (rp h) l -> (forall c, In c l -> ctst h c <> None) ->
  exists e' h', run_x gen_sweep_locked xenv_none h = Some (e', h') /\
    ctls h' = ctls h /\ ctst h' = ctst h /\ tloc h' = tloc h /\
    match l with
    | [] => e' XTstate = None /\ rp h' = rp h
    | c :: rest => e' XOb = Some c /\ e' XTstate = ctst h c /\ ring (rp h') rest
    end.
Proof. exact sweep_pops. Qed.
Print Assumptions C36_sweep_pops.
(* NOT proved (C36_heap_refines): a simulation `reach s -> exists h, ring (rp h) (map S (zombies s)) /\ ...`
   composing the five theorems above with every step of the model; they are its per-event obligations. *)

(* ---- progress of the sweep *)
(* a first callback (registration run without interruption) is DEFINED in every reachable state where the
   thread may start one — the fuel of Model.sweep_all always suffices — ends without fatal error, with the
   zombie list empty *)
Theorem C36_registration_total : forall s t, reach s -> finalized s = false -> thr s t = Alive ->
  gts s t = None -> reg s = None -> incb s t = false ->
  exists s', mstep s (MCb t) = Some s' /\ fatal s' = false /\ zombies s' = [] /\ reg s' = None.
Proof. exact registration_total. Qed.
Print Assumptions C36_registration_total.

(* composition through the runner: a completed (uninterrupted) registration has destroyed the thread state
   of EVERY thread that had exited before it (or that state had lost its canary while its thread lived) *)
Theorem C36_registration_destroys : forall s t s' u ts, reach s -> gts s t = None ->
  mstep s (MCb t) = Some s' -> thr s u = Exited -> gts s u = Some ts ->
  tss s' ts = TsDeleted \/ dropped s' ts = true.
Proof. exact registration_destroys. Qed.
Print Assumptions C36_registration_destroys.

(* fine-grained, any interleaving (exits of other threads between any two sweep steps, overlapping
   callbacks): every canary queued when a registration starts is freed once that sweep loop has ended
   (phase MakeCanary, or registration complete).  Canaries appended by exits during the sweep are either
   swept too or — if the loop had already seen the list empty — stay for the next registration
   (C36_example_residual): that is the honest form of "the next registration empties the list". *)
Theorem C36_sweep_frees_initial_zombies : forall s0 t es s1 c,
  reach s0 -> reg s0 = Some (t, Registering) -> steps s0 es s1 -> In c (zombies s0) ->
  (reg s1 = None \/ exists t', reg s1 = Some (t', MakeCanary)) ->
  cans s1 c = CFreed.
Proof. exact sweep_frees_initial_zombies. Qed.
Print Assumptions C36_sweep_frees_initial_zombies.

(* non-vacuity: thread 0 exits, thread 2 registers; thread 1 exits between the pop and the clear; both swept *)
Definition ex_prefix : list event :=
  [EvCb 0; EvSweepPop; EvMakeCanary; EvCbEnd 0; EvCb 1; EvSweepPop; EvMakeCanary; EvCbEnd 1; EvExit 0; EvCb 2].
Example C36_example_interleaved_sweep :
  match frun init (ex_prefix ++ [EvSweepPop; EvExit 1; EvSweepClear; EvSweepPop; EvSweepClear; EvSweepPop; EvMakeCanary]) with
  | Some s => (cans s 0, cans s 1, zombies s, reg s, fatal s)
  | None => (CFree, CFree, [], None, true)
  end = (CFreed, CFreed, [], None, false).
Proof. vm_compute. reflexivity. Qed.
(* the residual: an exit after the loop saw the list empty stays queued when the registration ends *)
Example C36_example_residual :
  match frun init (ex_prefix ++ [EvSweepPop; EvSweepClear; EvSweepPop; EvExit 1; EvMakeCanary]) with
  | Some s => (cans s 0, zombies s, reg s, fatal s)
  | None => (CFree, [], None, true)
  end = (CFreed, [1], None, false).
Proof. vm_compute. reflexivity. Qed.
Example C36_example_prefix_state :
  match frun init ex_prefix with Some s => (zombies s, reg s) | None => ([], None) end = ([0], Some (2, Registering)).
Proof. vm_compute. reflexivity. Qed.

(* regenerated from gil_ensure / gil_release: with an existing thread state the counter is incremented
   exactly once on BOTH paths — the one that takes the GIL (model event EvCb, returns PyGILState_UNLOCKED)
   and the one entered with the GIL already held (EvCbNested, returns PyGILState_LOCKED) — and gil_release
   is PyGILState_Release(oldstate), which decrements on both (EvCbEnd / EvCbNestedEnd).  Model.step_fn
   CONSULTS these facts (bump / set_fatal) and the three facts about thread_canary_register: with one of them
   false the invariant proof (C36/Proofs.v) fails, not only this lemma. *)
Theorem C36_gen_gil_ensure_counts :
  gen_gil_ensure_incr_unlocked = true /\ gen_gil_ensure_incr_locked = true /\ gen_gil_release_plain = true /\
  gen_register_sweeps_first = true /\ gen_register_sets_local = true /\ gen_register_incr = true.
Proof. repeat split; reflexivity. Qed.
Print Assumptions C36_gen_gil_ensure_counts.

Theorem C36_runner_sound : forall s e s', reach s -> mstep s e = Some s' -> reach s'.
Proof. exact mstep_reach. Qed.
Print Assumptions C36_runner_sound.

(* the line `ob->tls->local_thread_canary = NULL` of thread_canary_dealloc is what keeps
   C36_canary_pointers_valid true across EvDictDrop / EvFinalize: after the canary of a live thread
   has been deallocated, the thread's tls points to no canary, so its later exit links nothing *)
Theorem C36_drop_clears_backpointer : forall s t s', reach s -> step s (EvDictDrop t) s' ->
  tlsc s' t = Some None /\ exists ts, gts s' t = Some ts /\ dropped s' ts = true /\
  exists k, tss s' ts = TsLive t k None.
Proof. exact drop_clears_backpointer. Qed.
Print Assumptions C36_drop_clears_backpointer.

Example C36_example_drop :
  mrun 2 init [MCb 0; MDrop 0; MCbEnd 0; MCb 0; MCbEnd 0; MExit 0; MCb 1; MCbEnd 1; MExit 1]
  = Some [[1;0;0;0]; [0;0;0;0]; [0;0;0;0]; [1;0;0;0]; [0;0;0;0]; [0;0;0;0]; [2;0;0;0]; [0;0;0;0]; [0;0;0;0]].
Proof. vm_compute. reflexivity. Qed.

(* callbacks entered with the GIL held (nested in an outer callback; inside the thread's own
   PyGILState_Ensure bracket) keep the same thread state, before and after *)
Example C36_example_gil_held :
  mrun 2 init [MCb 0; MNest 0; MNest 0; MCbEnd 0; MOwn 0; MCb 0; MCbEnd 0; MOwn 0; MExit 0; MCb 1; MCbEnd 1]
  = Some [[1;0;0;0]; [1;0;0;0]; [1;0;0;0]; [0;0;0;0]; [1;0;0;0]; [1;0;0;0]; [0;0;0;0]; [1;0;0;0]; [0;0;0;0];
          [2;1;0;0]; [0;1;0;0]].
Proof. vm_compute. reflexivity. Qed.

(* non-vacuity: two threads call back, overlap, thread 0 exits, a third thread's first callback
   sweeps its state; then finalization *)
Example C36_example :
  mrun 3 init [MCb 0; MCb 1; MCbEnd 0; MCb 0; MCbEnd 0; MExit 0; MCbEnd 1; MCb 2; MCbEnd 2; MCb 1; MCbEnd 1; MFinalize]
  = Some [[1;0;0;0;0]; [2;0;0;0;0]; [0;0;0;0;0]; [1;0;0;0;0]; [0;0;0;0;0]; [0;0;0;0;0]; [0;0;0;0;0];
          [3;1;0;0;0]; [0;1;0;0;0]; [2;1;0;0;0]; [0;1;0;0;0]; [0;1;1;1;0]].
Proof. vm_compute. reflexivity. Qed.
