(* C36 — the regenerated locked regions (C36/Gen.v: gen_shutdown_locked, gen_dealloc_locked,
   gen_sweep_locked; src/c/misc_thread_common.h 278-283, 109-123, 157-166) implement, on a heap whose
   zombie_next/zombie_prev fields form `ring (rp h) l`, the list operations that C36/Model.v performs on
   `zombies s`:
     cffi_thread_shutdown   ~ Model.do_exit     append the thread's canary, clear its ->tls   (or nothing)
     thread_canary_dealloc  ~ Model.dealloc     remove the canary if linked, clear tls->local_thread_canary
     free_zombies (locked)  ~ step EvSweepPop   pop the first zombie and read its ->tstate    (or see "empty")
   Proved for any ring code with the append/remove behaviour, then instantiated with the regenerated
   gen_make_zombie / gen_detach (C36/Proofs2.v). *)
From Coq Require Import Arith List Bool Lia.
Import ListNotations.
From Cffi Require Import C36.Model C36.Gen C36.Proofs2.

Section Locked.
Variables (mz det : list pstmt) (guarded : bool).
Hypothesis Hmz : forall h l c, ring h l -> ~ In c (0 :: l) ->
  exists e' h', exec_p mz (env0 c) h = Some (e', h') /\ ring h' (l ++ [c]).
Hypothesis Hdet : forall h l c, ring h l -> In c l ->
  exists e' h', exec_p det (env0 c) h = Some (e', h') /\ ring h' (remove Nat.eq_dec c l).

Lemma ring_unlinked_null h l c : ring h l -> ~ In c (0 :: l) -> hnext h c = None.
Proof. intros (_ & _ & _ & Hu) Hc. apply Hu. exact Hc. Qed.

Lemma ring_in_nonzero h l c : ring h l -> In c l -> c <> 0.
Proof. intros (Hnd & _) Hin ->. inversion Hnd; subst. contradiction. Qed.

(* cffi_thread_shutdown, the thread has a canary that is not linked: it is appended, its ->tls cleared *)
Lemma shutdown_links_S (h : xheap) l u c :
  ring (rp h) l -> tloc h u = Some c -> ~ In c (0 :: l) ->
  exists e' r', exec_x mz det guarded gen_shutdown_locked (xenv_tls u) h
                = Some (e', mkX r' (upd (ctls h) c None) (ctst h) (tloc h)) /\ ring r' (l ++ [c]).
Proof.
  intros Hr Hl Hc.
  pose proof (ring_unlinked_null _ _ _ Hr Hc) as Hn.
  destruct (Hmz (rp h) l c Hr Hc) as (e1 & r1 & He & Hring).
  unfold gen_shutdown_locked. cbn. rewrite Hl. cbn. rewrite Hl. cbn. rewrite Hn, andb_false_r, He.
  eexists; eexists; split; [reflexivity|exact Hring].
Qed.

(* ... the thread has no canary (never called back, or the canary was deallocated): nothing happens *)
Lemma shutdown_nothing_S (h : xheap) u :
  tloc h u = None -> exists e', exec_x mz det guarded gen_shutdown_locked (xenv_tls u) h = Some (e', h).
Proof. intros Hl. unfold gen_shutdown_locked. cbn. rewrite Hl. cbn. eexists; reflexivity. Qed.

(* ... its canary is already linked: the Py_FatalError of thread_canary_make_zombie (needs the guard) *)
Lemma shutdown_twice_fatal_S (h : xheap) l u c :
  guarded = true -> ring (rp h) l -> tloc h u = Some c -> In c l ->
  exec_x mz det guarded gen_shutdown_locked (xenv_tls u) h = None.
Proof.
  intros -> Hr Hl Hin.
  assert (Hn : hnext (rp h) c <> None).
  { apply (ring_linked_iff _ l); auto. eapply ring_in_nonzero; eauto. }
  unfold gen_shutdown_locked. cbn. rewrite Hl. cbn. rewrite Hl. cbn.
  destruct (hnext (rp h) c); [reflexivity|congruence].
Qed.

(* thread_canary_dealloc: unlinked if it was linked; the owning thread's tls no longer points to it *)
Lemma dealloc_S (h : xheap) l c :
  ring (rp h) l -> c <> 0 ->
  exists e' r', exec_x mz det guarded gen_dealloc_locked (xenv_ob c) h
                = Some (e', mkX r' (ctls h) (ctst h)
                                (match ctls h c with Some u => upd (tloc h) u None | None => tloc h end))
                /\ ring r' (remove Nat.eq_dec c l).
Proof.
  intros Hr Hc0. unfold gen_dealloc_locked.
  destruct (in_dec Nat.eq_dec c l) as [Hin|Hnin].
  - assert (Hn : hnext (rp h) c <> None) by (apply (ring_linked_iff _ l); auto).
    destruct (Hdet (rp h) l c Hr Hin) as (e1 & r1 & He & Hring).
    cbn. destruct (hnext (rp h) c) eqn:En; [|congruence]. cbn. rewrite He. cbn.
    destruct (ctls h c) as [u|]; cbn.
    + eexists; eexists; split; [reflexivity|exact Hring].
    + eexists; eexists; split; [reflexivity|exact Hring].
  - assert (Hn : hnext (rp h) c = None).
    { eapply ring_unlinked_null; eauto. intros [E|E]; [congruence|contradiction]. }
    rewrite notin_remove by assumption.
    cbn. rewrite Hn. cbn.
    destruct (ctls h c) as [u|]; cbn.
    + destruct h as [r a b t]; cbn in *. eexists; eexists; split; [reflexivity|exact Hr].
    + destruct h as [r a b t]; cbn in *. eexists; eexists; split; [reflexivity|exact Hr].
Qed.

(* the locked region of thread_canary_free_zombies: on an empty list tstate stays NULL (the loop ends) and
   nothing is written; otherwise the FIRST zombie is popped and tstate is its ->tstate *)
Lemma sweep_S (h : xheap) l :
  ring (rp h) l -> (forall c, In c l -> ctst h c <> None) ->
  exists e' h', exec_x mz det guarded gen_sweep_locked xenv_none h = Some (e', h') /\
    ctls h' = ctls h /\ ctst h' = ctst h /\ tloc h' = tloc h /\
    match l with
    | [] => e' XTstate = None /\ rp h' = rp h
    | c :: rest => e' XOb = Some c /\ e' XTstate = ctst h c /\ ring (rp h') rest
    end.
Proof.
  intros Hr Hts. destruct (ring_head _ _ Hr) as [Hh _].
  unfold gen_sweep_locked. cbn. rewrite Hh.
  destruct l as [|c rest]; cbn.
  - eexists; eexists; split; [reflexivity|]. repeat split; reflexivity.
  - assert (Hin : In c (c :: rest)) by (left; reflexivity).
    pose proof (ring_in_nonzero _ _ _ Hr Hin) as Hc0.
    destruct c as [|c']; [congruence|].
    destruct (Hdet (rp h) _ _ Hr Hin) as (e1 & r1 & He & Hring).
    cbn. rewrite He. cbn.
    destruct (ctst h (S c')) eqn:Et; [|exfalso; eapply Hts; eauto].
    cbn. eexists; eexists; split; [reflexivity|]. cbn.
    do 5 (split; [first [reflexivity | symmetry; exact Et | exact Et]|]).
    assert (Hnin : ~ In (S c') rest).
    { destruct Hr as (Hnd & _). inversion Hnd as [|? ? _ Hnd']; subst. inversion Hnd'; subst. assumption. }
    cbn [remove] in Hring. destruct (Nat.eq_dec (S c') (S c')); [|congruence].
    rewrite notin_remove in Hring by exact Hnin. exact Hring.
Qed.
End Locked.

(* ---- instantiated with the regenerated ring code *)
Definition run_x := exec_x gen_make_zombie gen_detach gen_make_zombie_guarded.

Lemma shutdown_links (h : xheap) l u c :
  ring (rp h) l -> tloc h u = Some c -> ~ In c (0 :: l) ->
  exists e' r', run_x gen_shutdown_locked (xenv_tls u) h
                = Some (e', mkX r' (upd (ctls h) c None) (ctst h) (tloc h)) /\ ring r' (l ++ [c]).
Proof. apply shutdown_links_S. exact make_zombie_appends. Qed.

Lemma shutdown_nothing (h : xheap) u :
  tloc h u = None -> exists e', run_x gen_shutdown_locked (xenv_tls u) h = Some (e', h).
Proof. apply shutdown_nothing_S. Qed.

Lemma shutdown_twice_fatal (h : xheap) l u c :
  ring (rp h) l -> tloc h u = Some c -> In c l -> run_x gen_shutdown_locked (xenv_tls u) h = None.
Proof. apply shutdown_twice_fatal_S. reflexivity. Qed.

Lemma dealloc_unlinks (h : xheap) l c :
  ring (rp h) l -> c <> 0 ->
  exists e' r', run_x gen_dealloc_locked (xenv_ob c) h
                = Some (e', mkX r' (ctls h) (ctst h)
                                (match ctls h c with Some u => upd (tloc h) u None | None => tloc h end))
                /\ ring r' (remove Nat.eq_dec c l).
Proof. apply dealloc_S. exact detach_removes. Qed.

Lemma sweep_pops (h : xheap) l :
  ring (rp h) l -> (forall c, In c l -> ctst h c <> None) ->
  exists e' h', run_x gen_sweep_locked xenv_none h = Some (e', h') /\
    ctls h' = ctls h /\ ctst h' = ctst h /\ tloc h' = tloc h /\
    match l with
    | [] => e' XTstate = None /\ rp h' = rp h
    | c :: rest => e' XOb = Some c /\ e' XTstate = ctst h c /\ ring (rp h') rest
    end.
Proof. apply sweep_S. exact detach_removes. Qed.
