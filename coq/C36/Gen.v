(* C36/Gen.v — regenerated from src/c/misc_thread_common.h.  Do not edit: rewritten by tools/props/c36.py regen() on every run.
   Straight-line pointer code of thread_canary_make_zombie (after its guard) and
   _thread_canary_detach_with_lock; the regions between TLS_ZOM_LOCK() and TLS_ZOM_UNLOCK() of
   cffi_thread_shutdown, thread_canary_dealloc and thread_canary_free_zombies; order/counter facts of
   gil_ensure, gil_release and thread_canary_register.  src/c/misc_thread_common.h. *)
From Coq Require Import List.
Import ListNotations.
From Cffi Require Import C36.Ptr.
Definition gen_make_zombie : list pstmt :=
  [PLoad VLast VHead FPrev; PStore VOb FNext VHead; PStore VOb FPrev VLast; PStore VLast FNext VOb; PStore VHead FPrev VOb].
Definition gen_make_zombie_guarded : bool := true.
Definition gen_detach : list pstmt :=
  [PLoad VP VOb FPrev; PLoad VN VOb FNext; PStore VP FNext VN; PStore VN FPrev VP; PStoreNull VOb FPrev; PStoreNull VOb FNext].
(* gil_ensure with an existing thread state: ts->gilstate_counter++ happens exactly once on the path that
   returns PyGILState_UNLOCKED (after/before PyEval_RestoreThread) resp. PyGILState_LOCKED (ts already
   current: the callback was entered with the GIL held); gil_release is PyGILState_Release(oldstate).
   Consulted by C36.Model.step_fn (EvCb / EvCbNested / EvCbEnd / EvCbNestedEnd). *)
Definition gen_gil_ensure_incr_unlocked : bool := true.
Definition gen_gil_ensure_incr_locked : bool := true.
Definition gen_gil_release_plain : bool := true.
(* thread_canary_register: thread_canary_free_zombies() is its first statement; after the dict store
   succeeded: tls->local_thread_canary = canary; exactly one tstate->gilstate_counter++.
   Consulted by C36.Model.step_fn (EvCb first callback / EvMakeCanary). *)
Definition gen_register_sweeps_first : bool := true.
Definition gen_register_sets_local : bool := true.
Definition gen_register_incr : bool := true.
(* the locked regions, as programs of C36/Ptr.v (specified in C36/Proofs3.v) *)
Definition gen_shutdown_locked : list xstmt :=
  [XS (XLoadLocal XCan XTls);
   XIfNonNull XCan [XLoadLocal XCan XTls; XStoreTlsNull XCan; XLoadLocal XCan XTls; XMakeZombie XCan]].
Definition gen_dealloc_locked : list xstmt :=
  [XIfLinked XOb [XDetach XOb];
   XS (XLoadTls XTls XOb);
   XIfNonNull XTls [XLoadTls XTls XOb; XStoreLocalNull XTls]].
Definition gen_sweep_locked : list xstmt :=
  [XS (XLoadHeadNext XOb);
   XIfNotHead XOb [XLoadTstate XTstate XOb; XDetach XOb; XFatalIfNull XTstate]].
