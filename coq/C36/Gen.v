(* C36/Gen.v — regenerated from src/c/misc_thread_common.h.  Do not edit: rewritten by tools/props/c36.py regen() on every run.
   Straight-line pointer code of thread_canary_make_zombie (after its guard) and
   _thread_canary_detach_with_lock, src/c/misc_thread_common.h. *)
From Coq Require Import List.
Import ListNotations.
From Cffi Require Import C36.Model.
Definition gen_make_zombie : list pstmt :=
  [PLoad VLast VHead FPrev; PStore VOb FNext VHead; PStore VOb FPrev VLast; PStore VLast FNext VOb; PStore VHead FPrev VOb].
Definition gen_make_zombie_guarded : bool := true.
Definition gen_detach : list pstmt :=
  [PLoad VP VOb FPrev; PLoad VN VOb FNext; PStore VP FNext VN; PStore VN FPrev VP; PStoreNull VOb FPrev; PStoreNull VOb FNext].
(* gil_ensure with an existing thread state: ts->gilstate_counter++ happens exactly once on the path that
   returns PyGILState_UNLOCKED (after/before PyEval_RestoreThread) resp. PyGILState_LOCKED (ts already
   current: the callback was entered with the GIL held); gil_release is PyGILState_Release(oldstate) *)
Definition gen_gil_ensure_incr_unlocked : bool := true.
Definition gen_gil_ensure_incr_locked : bool := true.
Definition gen_gil_release_plain : bool := true.
