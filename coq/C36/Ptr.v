(* C36/Ptr.v — the pointer level of the zombie list (src/c/misc_thread_common.h): the statement
   languages into which tools/props/c36.py regenerates the code (C36/Gen.v), their interpreters, and the
   representation predicate `ring`.  Definitions only; proofs in C36/Proofs2.v (ring code) and
   C36/Proofs3.v (the locked regions of cffi_thread_shutdown / thread_canary_dealloc /
   thread_canary_free_zombies). *)
From Coq Require Import Arith NArith List Bool Lia.
Import ListNotations.

Definition upd {A} (f : nat -> A) (k : nat) (v : A) : nat -> A := fun k' => if Nat.eqb k' k then v else f k'.

(* ---- the zombie list at pointer level.  The model above keeps the list as a sequence; the code
   keeps a doubly linked ring through cffi_zombie_head with the fields zombie_next / zombie_prev.
   The straight-line pointer code of thread_canary_make_zombie and _thread_canary_detach_with_lock
   is regenerated from the source into C36/Gen.v as programs over the statements below and shown
   (C36/Proofs2.v) to implement append / removal / head of the sequence.
   Nodes: 0 is &cffi_zombie_head, canary c is node S c. *)
Inductive fld := FNext | FPrev.
Inductive pvar := VOb | VLast | VP | VN | VHead.
Inductive pstmt :=
| PLoad (dst src : pvar) (f : fld)         (* dst = src->f *)
| PStore (dst : pvar) (f : fld) (src : pvar) (* dst->f = src *)
| PStoreNull (dst : pvar) (f : fld).       (* dst->f = NULL *)

Record heap := mkHeap { hnext : nat -> option nat; hprev : nat -> option nat }.
Definition penv := pvar -> option nat.
Definition pvar_eqb (a b : pvar) : bool :=
  match a, b with
  | VOb, VOb | VLast, VLast | VP, VP | VN, VN | VHead, VHead => true
  | _, _ => false
  end.
Definition setv (e : penv) (v : pvar) (x : option nat) : penv := fun v' => if pvar_eqb v' v then x else e v'.
Definition getf (h : heap) (f : fld) (a : nat) : option nat :=
  match f with FNext => hnext h a | FPrev => hprev h a end.
Definition setf (h : heap) (f : fld) (a : nat) (x : option nat) : heap :=
  match f with
  | FNext => mkHeap (upd (hnext h) a x) (hprev h)
  | FPrev => mkHeap (hnext h) (upd (hprev h) a x)
  end.

(* None = a NULL pointer is dereferenced *)
Fixpoint exec_p (p : list pstmt) (e : penv) (h : heap) : option (penv * heap) :=
  match p with
  | [] => Some (e, h)
  | PLoad dst src f :: rest =>
      match e src with Some a => exec_p rest (setv e dst (getf h f a)) h | None => None end
  | PStore dst f src :: rest =>
      match e dst with Some a => exec_p rest e (setf h f a (e src)) | None => None end
  | PStoreNull dst f :: rest =>
      match e dst with Some a => exec_p rest e (setf h f a None) | None => None end
  end.

Definition env0 (ob : nat) : penv := fun v => match v with VOb => Some ob | VHead => Some 0 | _ => None end.

(* f a = x1, f x1 = x2, ..., f xn = z *)
Fixpoint chain (f : nat -> option nat) (a : nat) (l : list nat) (z : nat) : Prop :=
  match l with
  | [] => f a = Some z
  | x :: r => f a = Some x /\ chain f x r z
  end.

(* the heap represents the sequence l (of nodes) as a ring through node 0, unlinked nodes have NULL fields *)
Definition ring (h : heap) (l : list nat) : Prop :=
  NoDup (0 :: l) /\ chain (hnext h) 0 l 0 /\ chain (hprev h) 0 (rev l) 0 /\
  forall x, ~ In x (0 :: l) -> hnext h x = None /\ hprev h x = None.

Definition heap0 : heap := mkHeap (upd (fun _ => None) 0 (Some 0)) (upd (fun _ => None) 0 (Some 0)).

(* ---- the locked regions that call the ring code.  Besides zombie_next / zombie_prev the code reads and
   writes canary->tls, canary->tstate and tls->local_thread_canary.  The regions between TLS_ZOM_LOCK()
   and TLS_ZOM_UNLOCK() of cffi_thread_shutdown (270), thread_canary_dealloc (101) and
   thread_canary_free_zombies (157-166) are regenerated into C36/Gen.v as programs over the statements
   below (one level of `if`, whose bodies are straight-line).  Canary c is node S c, a cffi_tls_s is
   named by its thread, a PyThreadState by its id. *)
Record xheap := mkX {
  rp : heap;                       (* zombie_next / zombie_prev of every node *)
  ctls : nat -> option nat;        (* node -> its ->tls *)
  ctst : nat -> option nat;        (* node -> its ->tstate *)
  tloc : nat -> option nat         (* cffi_tls_s of thread u -> its ->local_thread_canary (a node) *)
}.
Inductive xvar := XOb | XTls | XTstate | XCan.
Definition xenv := xvar -> option nat.
Definition xvar_eqb (a b : xvar) : bool :=
  match a, b with
  | XOb, XOb | XTls, XTls | XTstate, XTstate | XCan, XCan => true
  | _, _ => false
  end.
Definition xset (e : xenv) (v : xvar) (x : option nat) : xenv := fun v' => if xvar_eqb v' v then x else e v'.

Inductive xsimple :=
| XLoadLocal (dst tlsv : xvar)        (* dst = tlsv->local_thread_canary *)
| XStoreLocalNull (tlsv : xvar)       (* tlsv->local_thread_canary = NULL *)
| XLoadTls (dst src : xvar)           (* dst = src->tls *)
| XStoreTlsNull (c : xvar)            (* c->tls = NULL *)
| XLoadTstate (dst src : xvar)        (* dst = src->tstate *)
| XLoadHeadNext (dst : xvar)          (* dst = cffi_zombie_head.zombie_next *)
| XMakeZombie (v : xvar)              (* thread_canary_make_zombie(v) *)
| XDetach (v : xvar)                  (* _thread_canary_detach_with_lock(v) *)
| XFatalIfNull (v : xvar).            (* if (v == NULL) Py_FatalError(...) *)
Inductive xstmt :=
| XS (s : xsimple)
| XIfNonNull (v : xvar) (body : list xsimple)      (* if (v != NULL) { body } *)
| XIfLinked (v : xvar) (body : list xsimple)       (* if (v->zombie_next != NULL) { body } *)
| XIfNotHead (v : xvar) (body : list xsimple).     (* if (v != &cffi_zombie_head) { body } *)

Definition set_rp (h : xheap) (r : heap) : xheap := mkX r (ctls h) (ctst h) (tloc h).

(* None = NULL dereference or Py_FatalError.  mz / det: the ring code of thread_canary_make_zombie /
   _thread_canary_detach_with_lock (C36/Gen.v); guarded: make_zombie starts with the
   "already a zombie" Py_FatalError test *)
Definition exec_x1 (mz det : list pstmt) (guarded : bool) (s : xsimple) (e : xenv) (h : xheap)
  : option (xenv * xheap) :=
  match s with
  | XLoadLocal dst tlsv =>
      match e tlsv with Some u => Some (xset e dst (tloc h u), h) | None => None end
  | XStoreLocalNull tlsv =>
      match e tlsv with Some u => Some (e, mkX (rp h) (ctls h) (ctst h) (upd (tloc h) u None)) | None => None end
  | XLoadTls dst src =>
      match e src with Some a => Some (xset e dst (ctls h a), h) | None => None end
  | XStoreTlsNull c =>
      match e c with Some a => Some (e, mkX (rp h) (upd (ctls h) a None) (ctst h) (tloc h)) | None => None end
  | XLoadTstate dst src =>
      match e src with Some a => Some (xset e dst (ctst h a), h) | None => None end
  | XLoadHeadNext dst => Some (xset e dst (hnext (rp h) 0), h)
  | XMakeZombie v =>
      match e v with
      | Some a =>
          if andb guarded (match hnext (rp h) a with Some _ => true | None => false end) then None
          else match exec_p mz (env0 a) (rp h) with
               | Some (_, r') => Some (e, set_rp h r')
               | None => None
               end
      | None => None
      end
  | XDetach v =>
      match e v with
      | Some a => match exec_p det (env0 a) (rp h) with
                  | Some (_, r') => Some (e, set_rp h r')
                  | None => None
                  end
      | None => None
      end
  | XFatalIfNull v => match e v with Some _ => Some (e, h) | None => None end
  end.

Fixpoint exec_xs (mz det : list pstmt) (guarded : bool) (p : list xsimple) (e : xenv) (h : xheap)
  : option (xenv * xheap) :=
  match p with
  | [] => Some (e, h)
  | s :: rest => match exec_x1 mz det guarded s e h with
                 | Some (e1, h1) => exec_xs mz det guarded rest e1 h1
                 | None => None
                 end
  end.

Fixpoint exec_x (mz det : list pstmt) (guarded : bool) (p : list xstmt) (e : xenv) (h : xheap)
  : option (xenv * xheap) :=
  match p with
  | [] => Some (e, h)
  | st :: rest =>
      let r := match st with
               | XS s => exec_x1 mz det guarded s e h
               | XIfNonNull v body =>
                   match e v with Some _ => exec_xs mz det guarded body e h | None => Some (e, h) end
               | XIfLinked v body =>
                   match e v with
                   | Some a => match hnext (rp h) a with
                               | Some _ => exec_xs mz det guarded body e h
                               | None => Some (e, h)
                               end
                   | None => None
                   end
               | XIfNotHead v body =>
                   match e v with
                   | Some 0 => Some (e, h)
                   | Some _ => exec_xs mz det guarded body e h
                   | None => None
                   end
               end in
      match r with Some (e1, h1) => exec_x mz det guarded rest e1 h1 | None => None end
  end.

(* initial locals: cffi_thread_shutdown(tls) / thread_canary_dealloc(ob) / the sweep (tstate = NULL) *)
Definition xenv_tls (u : nat) : xenv := fun v => match v with XTls => Some u | _ => None end.
Definition xenv_ob (a : nat) : xenv := fun v => match v with XOb => Some a | _ => None end.
Definition xenv_none : xenv := fun _ => None.
