(* C34 x C25 — the linear scans [find_struct] / [lookup] of the model stand for search_in_struct_unions /
   search_in_globals (MAKE_SEARCH_FUNC, src/c/parse_c_type.c): on a table strictly sorted in byte order (what the
   recompiler emits, C25_python_sort_gives_table) they return exactly what C25's binary search returns. *)
From Coq Require Import NArith ZArith List Bool Arith Lia.
From Cffi Require C25.Model C25.Proofs.
From Cffi Require Import C34.Gen C34.Model C34.Proofs.
Import ListNotations.

Definition sentry_dflt : sentry := mkS [] false false.

Lemma find_struct_first : forall nm l idx i,
  i < length l -> s_name (nth i l sentry_dflt) = nm ->
  (forall k, k < i -> s_name (nth k l sentry_dflt) <> nm) ->
  find_struct nm l idx = Some (idx + i, nth i l sentry_dflt).
Proof.
induction l as [|a l IH]; intros idx i Hi Hn Hfirst; [cbn in Hi; lia|]. cbn [find_struct].
destruct i as [|i].
- cbn in Hn. subst nm. rewrite str_eqb_refl, Nat.add_0_r. reflexivity.
- destruct (str_eqb nm (s_name a)) eqn:E.
  + apply str_eqb_eq in E. exfalso. apply (Hfirst 0); [lia|]. cbn. auto.
  + cbn [nth]. cbn in Hi. rewrite (IH (S idx) i); [f_equal; f_equal; lia|lia|exact Hn|].
    intros k Hk. apply (Hfirst (S k)). lia.
Qed.

Lemma find_struct_none_all : forall nm l idx,
  (forall i, i < length l -> s_name (nth i l sentry_dflt) <> nm) -> find_struct nm l idx = None.
Proof.
induction l as [|a l IH]; intros idx H; [reflexivity|]. cbn [find_struct].
destruct (str_eqb nm (s_name a)) eqn:E.
- apply str_eqb_eq in E. exfalso. apply (H 0); cbn; [lia|auto].
- apply IH. intros i Hi. apply (H (S i)). cbn. lia.
Qed.

Lemma nth_map_name : forall l i, nth i (map s_name l) [] = s_name (nth i l sentry_dflt).
Proof. intros. change (@nil N) with (s_name sentry_dflt). apply map_nth. Qed.

Lemma find_struct_is_search_sorted : forall l nm,
  Forall C25.Model.nulfree (map s_name l) -> C25.Model.nulfree nm ->
  (forall i j, i < j < length (map s_name l) ->
     C25.Model.lex (nth i (map s_name l) []) (nth j (map s_name l) []) = Lt) ->
  find_struct nm l 0 =
  match C25.Model.search_sorted (map s_name l) nm with
  | Some i => Some (i, nth i l sentry_dflt)
  | None => None
  end.
Proof.
intros l nm H1 H2 Hs.
pose proof (C25.Proofs.search_sorted_correct (map s_name l) nm H1 H2 Hs) as Hc.
destruct (C25.Model.search_sorted (map s_name l) nm) as [m|].
- destruct Hc as [Hm Hn]. rewrite map_length in Hm. rewrite nth_map_name in Hn.
  apply (find_struct_first nm l 0 m Hm Hn).
  intros k Hk Heq. assert (Hlt := Hs k m). rewrite map_length in Hlt. specialize (Hlt (conj Hk Hm)).
  rewrite !nth_map_name, Hn, Heq, C25.Proofs.lex_refl in Hlt. discriminate.
- apply find_struct_none_all. intros i Hi. rewrite <- nth_map_name. apply Hc. now rewrite map_length.
Qed.

(* the same for the globals table *)
Lemma lookup_first : forall V nm (l : list (str * V)) i kv,
  nth_error l i = Some kv -> fst kv = nm ->
  (forall k kv', k < i -> nth_error l k = Some kv' -> fst kv' <> nm) ->
  lookup nm l = Some (snd kv).
Proof.
induction l as [|[k0 v0] l IH]; intros i kv Hi Hn Hfirst; [destruct i; discriminate|]. cbn [lookup].
destruct i as [|i].
- cbn in Hi. inversion Hi; subst. cbn. now rewrite str_eqb_refl.
- destruct (str_eqb nm k0) eqn:E.
  + apply str_eqb_eq in E. exfalso. apply (Hfirst 0 (k0, v0)); [lia|reflexivity|]. cbn. auto.
  + apply (IH i kv); auto. intros k kv' Hk Hk'. apply (Hfirst (S k) kv'); [lia|exact Hk'].
Qed.

Lemma lookup_none_all : forall V nm (l : list (str * V)),
  (forall kv, In kv l -> fst kv <> nm) -> lookup nm l = None.
Proof.
induction l as [|[k0 v0] l IH]; intros H; [reflexivity|]. cbn [lookup].
destruct (str_eqb nm k0) eqn:E.
- apply str_eqb_eq in E. exfalso. apply (H (k0, v0)); cbn; auto.
- apply IH. intros kv Hin. apply H. now right.
Qed.

Lemma lookup_is_search_sorted : forall V (l : list (str * V)) nm,
  Forall C25.Model.nulfree (map fst l) -> C25.Model.nulfree nm ->
  (forall i j, i < j < length (map fst l) ->
     C25.Model.lex (nth i (map fst l) []) (nth j (map fst l) []) = Lt) ->
  lookup nm l =
  match C25.Model.search_sorted (map fst l) nm with
  | Some i => option_map snd (nth_error l i)
  | None => None
  end.
Proof.
intros V l nm H1 H2 Hs.
pose proof (C25.Proofs.search_sorted_correct (map fst l) nm H1 H2 Hs) as Hc.
assert (Hnth : forall i kv, nth_error l i = Some kv -> nth i (map fst l) [] = fst kv).
{ intros i kv H. apply nth_error_nth. now apply map_nth_error. }
destruct (C25.Model.search_sorted (map fst l) nm) as [m|].
- destruct Hc as [Hm Hn]. rewrite map_length in Hm.
  destruct (nth_error l m) as [kv|] eqn:Em; [|apply nth_error_None in Em; lia].
  cbn [option_map]. apply (lookup_first V nm l m kv Em).
  + rewrite <- (Hnth m kv Em). exact Hn.
  + intros k kv' Hk Hk' Heq. assert (Hlt := Hs k m). rewrite map_length in Hlt. specialize (Hlt (conj Hk Hm)).
    assert (Hkv : fst kv = nm) by (rewrite <- (Hnth m kv Em); exact Hn).
    rewrite (Hnth k kv' Hk'), (Hnth m kv Em), Hkv, Heq, C25.Proofs.lex_refl in Hlt. discriminate.
- apply lookup_none_all. intros kv Hin Heq.
  assert (Hin' : In (fst kv) (map fst l)) by now apply in_map.
  destruct (In_nth _ _ [] Hin') as (i & Hi & Hi'). apply (Hc i Hi). rewrite <- Heq. exact Hi'.
Qed.
