(* C34 — proofs about C34/Model.v *)
From Coq Require Import NArith ZArith List Bool Arith Lia.
From Cffi Require Import C34.Gen C34.Model.
Import ListNotations.

(* ================================================================== *)

(* ---- Part A: Parser.include *)
Lemma str_eqb_eq : forall a b, str_eqb a b = true <-> a = b.
Proof.
induction a as [|x a IH]; destruct b as [|y b]; cbn; split; try discriminate; auto.
- intros H. apply andb_prop in H. destruct H as [H1 H2]. apply N.eqb_eq in H1. apply IH in H2. congruence.
- intros H. inversion H; subst. rewrite N.eqb_refl. cbn. now apply IH.
Qed.

Lemma str_eqb_refl : forall a, str_eqb a a = true.
Proof. intros. now apply str_eqb_eq. Qed.

Lemma lookup_dict_set_same : forall V k (v : V) l, lookup k (dict_set k v l) = Some v.
Proof.
induction l as [|[k' v'] l IH]; cbn.
- now rewrite str_eqb_refl.
- destruct (str_eqb k k') eqn:E; cbn; [now rewrite str_eqb_refl|now rewrite E].
Qed.

Lemma lookup_dict_set_other : forall V k k' (v : V) l, k' <> k -> lookup k' (dict_set k v l) = lookup k' l.
Proof.
induction l as [|[k2 v2] l IH]; intros Hne; cbn.
- destruct (str_eqb k' k) eqn:E; auto. apply str_eqb_eq in E. congruence.
- destruct (str_eqb k k2) eqn:E; cbn.
  + apply str_eqb_eq in E. subst k2.
    destruct (str_eqb k' k) eqn:E2; auto. apply str_eqb_eq in E2. congruence.
  + destruct (str_eqb k' k2); auto.
Qed.

(* without override a successful _declare binds the name as asked and changes no existing binding *)
Lemma declare_ok : forall p name obj q inc p',
  declare false p name obj q inc = inl p' ->
  lookup name (decls p') = Some (obj, q) /\
  consts p' = consts p /\
  (forall n v, lookup n (decls p) = Some v -> lookup n (decls p') = Some v) /\
  (forall n, n <> name -> lookup n (decls p') = lookup n (decls p)).
Proof.
intros p name obj q inc p'. unfold declare.
destruct (lookup name (decls p)) as [[po pq]|] eqn:El.
- destruct (N.eqb po obj && N.eqb pq q) eqn:E; [|discriminate].
  intros H; inversion H; subst. apply andb_prop in E. destruct E as [E1 E2].
  apply N.eqb_eq in E1, E2. subst. auto.
- intros H; inversion H; subst. cbn. split; [apply lookup_dict_set_same|]. split; auto. split.
  + intros n v Hn. destruct (list_eq_dec N.eq_dec n name) as [->|Hne]; [congruence|].
    now rewrite lookup_dict_set_other.
  + intros n Hne. now apply lookup_dict_set_other.
Qed.

Lemma declare_err : forall p name obj q inc e,
  declare false p name obj q inc = inr e ->
  exists v, lookup name (decls p) = Some v /\ v <> (obj, q).
Proof.
intros p name obj q inc e. unfold declare.
destruct (lookup name (decls p)) as [[po pq]|] eqn:El; [|discriminate].
destruct (N.eqb po obj && N.eqb pq q) eqn:E; [discriminate|]. intros _.
exists (po, pq). split; auto. intros H; inversion H; subst. now rewrite !N.eqb_refl in E.
Qed.

Lemma include_decls_ok : forall items self self',
  include_decls self items = (self', None) ->
  consts self' = consts self /\
  (forall n v, lookup n (decls self) = Some v -> lookup n (decls self') = Some v) /\
  (forall n o q, In (n, (o, q)) items -> copied n = true -> lookup n (decls self') = Some (o, q)) /\
  (forall n, lookup n (decls self) = None ->
             (forall o q, In (n, (o, q)) items -> copied n = false) -> lookup n (decls self') = None).
Proof.
induction items as [|[name [tp quals]] rest IH]; intros self self' H; cbn [include_decls] in H.
- inversion H; subst. repeat split; auto. intros n o q [].
- unfold copied in *.
  destruct (startswith include_skip_prefix name) eqn:Es.
  + destruct (IH _ _ H) as (C & M & S & F). repeat split; auto.
    * intros n o q [Hin|Hin] Hc; [|eauto]. inversion Hin; subst. rewrite Es in Hc. discriminate.
    * intros n Hn Hall. apply F; auto. intros o q Hin. apply (Hall o q). now right.
  + destruct (copied_kind name) eqn:Ek.
    * destruct (declare false self name tp quals true) as [s1|e] eqn:Ed; [|discriminate].
      destruct (declare_ok _ _ _ _ _ _ Ed) as (B & C1 & M1 & O1).
      destruct (IH _ _ H) as (C & M & S & F). repeat split.
      -- congruence.
      -- intros n v Hn. apply M, M1, Hn.
      -- intros n o q [Hin|Hin] Hc; [|eauto]. inversion Hin; subst. apply M, B.
      -- intros n Hn Hall. apply F.
         ++ destruct (list_eq_dec N.eq_dec n name) as [->|Hne].
            ** specialize (Hall tp quals (or_introl eq_refl)). rewrite Es, Ek in Hall. discriminate.
            ** rewrite O1; auto.
         ++ intros o q Hin. apply (Hall o q). now right.
    * destruct (IH _ _ H) as (C & M & S & F). repeat split; auto.
      -- intros n o q [Hin|Hin] Hc; [|eauto]. inversion Hin; subst. rewrite Ek, andb_false_r in Hc. discriminate.
      -- intros n Hn Hall. apply F; auto. intros o q Hin. apply (Hall o q). now right.
Qed.

Lemma add_constants_ok : forall p k v p', add_constants p k v = inl p' ->
  lookup k (consts p') = Some v /\ decls p' = decls p /\
  (forall n x, lookup n (consts p) = Some x -> lookup n (consts p') = Some x).
Proof.
intros p k v p'. unfold add_constants. destruct (lookup k (consts p)) as [x|] eqn:El.
- destruct (Z.eqb x v) eqn:E; [|discriminate]. intros H; inversion H; subst. apply Z.eqb_eq in E. subst. auto.
- intros H; inversion H; subst. cbn. split; [apply lookup_dict_set_same|]. split; auto.
  intros n x Hn. destruct (list_eq_dec N.eq_dec n k) as [->|Hne]; [congruence|]. now rewrite lookup_dict_set_other.
Qed.

Lemma include_consts_ok : forall items self self',
  include_consts self items = (self', None) ->
  decls self' = decls self /\
  (forall n x, lookup n (consts self) = Some x -> lookup n (consts self') = Some x) /\
  (forall k v, In (k, v) items -> lookup k (consts self') = Some v).
Proof.
induction items as [|[k v] rest IH]; intros self self' H; cbn [include_consts] in H.
- inversion H; subst. repeat split; auto. intros ? ? [].
- destruct (add_constants self k v) as [s1|e] eqn:Ea; [|discriminate].
  destruct (add_constants_ok _ _ _ _ Ea) as (B & D & M1). destruct (IH _ _ H) as (D2 & M & S).
  repeat split.
  + congruence.
  + intros n x Hn. apply M, M1, Hn.
  + intros k' v' [Hin|Hin]; [|eauto]. inversion Hin; subst. apply M, B.
Qed.

(* THE SHARING THEOREM (in-line): after a successful include every typedef/struct/union/enum name
   of the included parser is bound, in the including one, to the same object (and quals), every
   integer constant to the same value, and nothing that was bound before has changed *)
Lemma parser_include_shares : forall self other self',
  parser_include self other = (self', None) ->
  (forall n o q, In (n, (o, q)) (decls other) -> copied n = true -> lookup n (decls self') = Some (o, q)) /\
  (forall k v, In (k, v) (consts other) -> lookup k (consts self') = Some v) /\
  (forall n v, lookup n (decls self) = Some v -> lookup n (decls self') = Some v) /\
  (forall k v, lookup k (consts self) = Some v -> lookup k (consts self') = Some v) /\
  (forall n, lookup n (decls self) = None ->
             (forall o q, In (n, (o, q)) (decls other) -> copied n = false) -> lookup n (decls self') = None).
Proof.
intros self other self'. unfold parser_include.
destruct (include_decls self (decls other)) as [s1 [e|]] eqn:E1; [discriminate|].
intros E2. destruct (include_decls_ok _ _ _ E1) as (C1 & M1 & S1 & F1).
destruct (include_consts_ok _ _ _ E2) as (D2 & M2 & S2).
rewrite D2. repeat split; auto. intros k v Hk. apply M2. now rewrite C1.
Qed.

(* lookups agree with membership for dicts (unique keys) *)
Lemma lookup_in : forall V (l : list (str * V)) k v, NoDup (map fst l) -> In (k, v) l -> lookup k l = Some v.
Proof.
induction l as [|[k' v'] l IH]; intros k v Hnd Hin; [destruct Hin|].
destruct Hin as [Hin|Hin]; cbn.
- inversion Hin; subst. now rewrite str_eqb_refl.
- inversion Hnd; subst. destruct (str_eqb k k') eqn:E.
  + apply str_eqb_eq in E. subst. exfalso. apply H1. change k' with (fst (k', v)). now apply in_map.
  + auto.
Qed.

Lemma lookup_some_in : forall V (l : list (str * V)) k v, lookup k l = Some v -> In (k, v) l.
Proof.
induction l as [|[k' v'] l IH]; intros k v; cbn; [discriminate|].
destruct (str_eqb k k') eqn:E; auto. apply str_eqb_eq in E. intros H; inversion H; subst. auto.
Qed.

(* the conflict rule: include fails exactly when a copied name is already bound to another object
   (or other quals), or a constant to another value *)
Lemma include_decls_conflict : forall items self,
  NoDup (map fst items) ->
  (snd (include_decls self items) = None <->
   forall n o q, In (n, (o, q)) items -> copied n = true ->
                 forall v, lookup n (decls self) = Some v -> v = (o, q)).
Proof.
induction items as [|[name [tp quals]] rest IH]; intros self Hnd; cbn [include_decls].
- split; auto. intros _ n o q [].
- inversion Hnd as [|? ? Hnotin Hnd']; subst. unfold copied in *.
  destruct (startswith include_skip_prefix name) eqn:Es.
  + rewrite IH by auto. split.
    * intros H n o q [Hin|Hin] Hc; [|eauto]. inversion Hin; subst. rewrite Es in Hc. discriminate.
    * intros H n o q Hin. apply H. now right.
  + destruct (copied_kind name) eqn:Ek.
    * destruct (declare false self name tp quals true) as [s1|e] eqn:Ed.
      -- destruct (declare_ok _ _ _ _ _ _ Ed) as (B & C1 & M1 & O1).
         rewrite IH by auto. split.
         ++ intros H n o q [Hin|Hin] Hc v Hv.
            ** inversion Hin; subst. apply M1 in Hv. congruence.
            ** apply (H n o q Hin Hc). rewrite O1; auto.
               intros ->. apply Hnotin. change name with (fst (name, (o, q))). now apply in_map.
         ++ intros H n o q Hin Hc v Hv. apply (H n o q (or_intror Hin) Hc).
            rewrite O1 in Hv; auto.
            intros ->. apply Hnotin. change name with (fst (name, (o, q))). now apply in_map.
      -- cbn [snd]. split; [discriminate|]. intros H. exfalso.
         destruct (declare_err _ _ _ _ _ _ Ed) as (v & Hv & Hne). apply Hne.
         apply (H name tp quals (or_introl eq_refl)); auto. now rewrite Es, Ek.
    * rewrite IH by auto. split.
      -- intros H n o q [Hin|Hin] Hc; [|eauto]. inversion Hin; subst. rewrite Ek, andb_false_r in Hc. discriminate.
      -- intros H n o q Hin. apply H. now right.
Qed.

(* including again what is already included changes no binding *)
Lemma parser_include_again : forall self other s1 s2,
  parser_include self other = (s1, None) -> parser_include s1 other = (s2, None) ->
  (forall n, lookup n (decls s2) = lookup n (decls s1)) /\ (forall k, lookup k (consts s2) = lookup k (consts s1)).
Proof.
intros self other s1 s2 H1 H2.
destruct (parser_include_shares _ _ _ H1) as (A1 & B1 & _).
destruct (parser_include_shares _ _ _ H2) as (A2 & B2 & M2 & N2 & F2).
split.
- intros n. destruct (lookup n (decls s1)) as [v|] eqn:E; [now apply M2|].
  apply F2; auto. intros o q Hin. destruct (copied n) eqn:Ec; auto.
  rewrite (A1 n o q Hin Ec) in E. discriminate.
- intros k. destruct (lookup k (consts s1)) as [v|] eqn:E; [now apply N2|].
  destruct (lookup k (consts s2)) as [v2|] eqn:E2; auto. exfalso.
  (* a constant of s2 is one of s1 or one of other; both are in s1 *)
  revert E2. unfold parser_include in H2.
  destruct (include_decls s1 (decls other)) as [t [e|]] eqn:Ed; [discriminate|].
  destruct (include_decls_ok _ _ _ Ed) as (C & _).
  assert (G : forall items a b, include_consts a items = (b, None) ->
              forall k, lookup k (consts b) <> None -> lookup k (consts a) <> None \/ exists v, In (k, v) items).
  { induction items as [|[k0 v0] r IH]; intros a b Hi k1 Hk; cbn in Hi.
    - inversion Hi; subst; auto.
    - destruct (add_constants a k0 v0) as [a1|] eqn:Ea; [|discriminate].
      destruct (IH _ _ Hi k1 Hk) as [G1|(v & G1)]; [|right; exists v; now right].
      unfold add_constants in Ea. destruct (lookup k0 (consts a)) eqn:E0.
      + destruct (Z.eqb z v0); inversion Ea; subst; auto.
      + inversion Ea; subst. cbn in G1.
        destruct (list_eq_dec N.eq_dec k1 k0) as [->|Hne]; [right; exists v0; now left|].
        rewrite lookup_dict_set_other in G1; auto. }
  intros E2. destruct (G _ _ _ H2 k) as [G1|(v & G1)]; [congruence| |].
  + rewrite C in G1. congruence.
  + rewrite (B1 k v G1) in E. discriminate.
Qed.

(* chain: C includes B which included A  ==>  C sees A's objects *)
Lemma parser_include_chain : forall a b b' c c',
  parser_include b a = (b', None) -> NoDup (map fst (decls b')) ->
  parser_include c b' = (c', None) ->
  forall n o q, In (n, (o, q)) (decls a) -> copied n = true -> lookup n (decls c') = Some (o, q).
Proof.
intros a b b' c c' H1 Hnd H2 n o q Hin Hc.
destruct (parser_include_shares _ _ _ H1) as (A1 & _).
destruct (parser_include_shares _ _ _ H2) as (A2 & _).
apply A2; auto. apply lookup_some_in. now apply A1.
Qed.

(* the four user-visible kinds are among the copied kinds of the CURRENT source (Gen.v) *)
Lemma kinds_copied :
  forallb (fun k => existsb (str_eqb k) include_kinds)
          [[116;121;112;101;100;101;102]; [115;116;114;117;99;116]; [117;110;105;111;110]; [101;110;117;109]]%N = true.
Proof. vm_compute. reflexivity. Qed.

(* ================================================================== *)

(* ---- Part B: the delegating lookups are "first hit in depth-first preorder" *)

(* preorder with the pruning predicate of the search *)
Fixpoint preorder_d (descend : nat -> module -> bool) (fuel : nat) (w : world) (included : list nat) : list nat :=
  match fuel with
  | O => []
  | S f => flat_map (fun i => i :: match nth_error w i with
                                   | Some m1 => if descend i m1 then preorder_d descend f w (includes m1) else []
                                   | None => [] end) included
  end.

Lemma preorder_d_true : forall fuel w l, preorder_d (fun _ _ => true) fuel w l = preorder fuel w l.
Proof.
induction fuel; intros; cbn [preorder_d preorder]; auto.
apply flat_map_ext. intros i. destruct (nth_error w i); auto. now rewrite IHfuel.
Qed.

Section DFSProofs.
  Context {A : Type}.
  Variable own : nat -> module -> option (fres A).
  Variable descend : nat -> module -> bool.
  Hypothesis own_stops : forall i m, own i m <> Some NotFound.

  Lemma first_hit_app : forall w a b,
    first_hit own w (a ++ b) =
    match first_hit own w a with NotFound => first_hit own w b | r => r end.
  Proof.
  induction a as [|i a IH]; intros b; cbn [first_hit app]; auto.
  destruct (nth_error w i) as [m1|]; auto.
  destruct (own i m1) as [x|] eqn:E; auto.
  destruct x; auto. exfalso. eapply own_stops; eauto.
  Qed.

  Lemma dfs_first_hit : forall k w, wf_world w ->
    forall f fp included r,
    Forall (fun i => i < k) included -> k < f -> k <= fp -> r + k <= 101 ->
    dfs own descend f w included r = first_hit own w (preorder_d descend fp w included).
  Proof.
  induction k as [|k IH]; intros w Hwf f fp included r Hinc Hf Hfp Hr.
  - destruct included as [|i l].
    + destruct f; [lia|]. destruct fp; reflexivity.
    + inversion Hinc; lia.
  - destruct f as [|f]; [lia|]. destruct fp as [|fp]; [lia|].
    cbn [dfs preorder_d].
    destruct included as [|i0 l0]; [reflexivity|].
    replace (100 <? r) with false by (symmetry; apply Nat.ltb_ge; lia).
    generalize dependent (i0 :: l0). clear i0 l0.
    induction l as [|i l IHl]; intros Hinc; [reflexivity|].
    inversion Hinc as [|? ? Hi Hl]; subst.
    cbn [flat_map dfs_loop]. cbn [app first_hit].
    destruct (nth_error w i) as [m1|] eqn:En.
    + destruct (own i m1) as [x|] eqn:Eo; [reflexivity|].
      destruct (descend i m1).
      * rewrite first_hit_app.
        rewrite (IH w Hwf f fp (includes m1) (S r)); try lia.
        -- destruct (first_hit own w (preorder_d descend fp w (includes m1))); auto.
        -- specialize (Hwf i m1 En). eapply Forall_impl; [|exact Hwf]. cbn. intros; lia.
      * cbn [app]. auto.
    + cbn [app]. auto.
  Qed.

  (* a Found answer always comes from some visited module's own table *)
  Lemma first_hit_found : forall w l x, first_hit own w l = Found x ->
    exists i m1, In i l /\ nth_error w i = Some m1 /\ own i m1 = Some (Found x).
  Proof.
  induction l as [|i l IH]; intros x H; cbn [first_hit] in H; [discriminate|].
  destruct (nth_error w i) as [m1|] eqn:En.
  - destruct (own i m1) as [y|] eqn:Eo.
    + subst y. exists i, m1. cbn; auto.
    + destruct (IH _ H) as (j & m2 & ? & ? & ?). exists j, m2. cbn; auto.
  - destruct (IH _ H) as (j & m2 & ? & ? & ?). exists j, m2. cbn; auto.
  Qed.

  Lemma first_hit_notfound : forall w l, first_hit own w l = NotFound <->
    (forall i m1, In i l -> nth_error w i = Some m1 -> own i m1 = None).
  Proof.
  induction l as [|i l IH]; cbn [first_hit].
  - split; auto. intros _ i m1 [].
  - destruct (nth_error w i) as [m1|] eqn:En.
    + destruct (own i m1) as [y|] eqn:Eo.
      * split.
        -- intros ->. exfalso. eapply own_stops; eauto.
        -- intros H. rewrite (H i m1) in Eo; cbn; auto. discriminate.
      * rewrite IH. split.
        -- intros H j m2 [<-|Hj] Hn; [congruence|eauto].
        -- intros H j m2 Hj Hn. apply H; cbn; auto.
    + rewrite IH. split.
      -- intros H j m2 [<-|Hj] Hn; [congruence|eauto].
      -- intros H j m2 Hj Hn. apply H; cbn; auto.
  Qed.
End DFSProofs.

(* ================================================================== *)

(* j is a transitive include of i *)
Inductive reach (w : world) : nat -> nat -> Prop :=
  | reach_step : forall i m j, nth_error w i = Some m -> In j (includes m) -> reach w i j
  | reach_trans : forall i m j k, nth_error w i = Some m -> In j (includes m) -> reach w j k -> reach w i k.

Lemma preorder_reach : forall k w, wf_world w -> forall fp included x,
  Forall (fun i => i < k) included -> k <= fp ->
  (In x (preorder fp w included) <-> In x included \/ exists j, In j included /\ reach w j x).
Proof.
induction k as [|k IH]; intros w Hwf fp included x Hinc Hfp.
- destruct included as [|i l]; [|inversion Hinc; lia].
  destruct fp; cbn; split; auto; intros [[]|(j & [] & _)].
- destruct fp as [|fp]; [lia|]. cbn [preorder].
  rewrite in_flat_map. split.
  + intros (i & Hi & Hx). destruct Hx as [<-|Hx]; auto.
    destruct (nth_error w i) as [m1|] eqn:En; [|destruct Hx].
    rewrite Forall_forall in Hinc. specialize (Hinc i Hi).
    apply (IH w Hwf fp (includes m1) x) in Hx; try lia.
    * right. exists i. split; auto. destruct Hx as [Hx|(j & Hj & Hr)].
      -- eapply reach_step; eauto.
      -- eapply reach_trans; eauto.
    * specialize (Hwf i m1 En). eapply Forall_impl; [|exact Hwf]. cbn; intros; lia.
  + intros [Hx|(j & Hj & Hr)].
    * exists x. split; auto. now left.
    * exists j. split; auto. right.
      rewrite Forall_forall in Hinc. specialize (Hinc j Hj).
      inversion Hr as [i m y En Hy|i m y z En Hy Hr']; subst; rewrite En.
      -- apply (IH w Hwf fp (includes m) x); try lia; auto.
         specialize (Hwf j m En). eapply Forall_impl; [|exact Hwf]. cbn; intros; lia.
      -- apply (IH w Hwf fp (includes m) x); try lia.
         ++ specialize (Hwf j m En). eapply Forall_impl; [|exact Hwf]. cbn; intros; lia.
         ++ right. exists y. auto.
Qed.

(* ---- integer constants *)
Lemma const_own_stops : forall nm i m, const_own nm i m <> Some NotFound.
Proof. intros nm i m. unfold const_own. destruct (lookup nm (globals m)) as [[v|]|]; discriminate. Qed.

Lemma includes_lt : forall w m md, wf_world w -> nth_error w m = Some md -> Forall (fun i => i < m) (includes md).
Proof. intros w m md H E. exact (H m md E). Qed.

(* ffi.integer_const(name) through any chain of includes of depth <= 100: the first module in
   depth-first order (the module itself first) that has the name decides *)
Lemma integer_const_first_hit : forall w m nm, wf_world w -> m <= 100 ->
  integer_const w m nm =
  match first_hit (const_own nm) w (m :: preorder m w (match nth_error w m with Some md => includes md | None => [] end)) with
  | NotFound => Error AttributeError
  | r => r
  end.
Proof.
intros w m nm Hwf Hm. unfold integer_const, fetch_int_constant_from. cbn [first_hit].
destruct (nth_error w m) as [md|] eqn:En.
- destruct (const_own nm m md) as [x|] eqn:Eo.
  + destruct x; auto.
  + rewrite (dfs_first_hit (const_own nm) (fun _ _ => true) (const_own_stops nm) m w Hwf cap_fuel m);
      try (unfold cap_fuel; lia); [|eapply includes_lt; eauto].
    now rewrite preorder_d_true.
- destruct m; reflexivity.
Qed.

(* found (value or FFIError) iff the module itself or some transitive include declares the name *)
Lemma integer_const_found_iff : forall w m md nm, wf_world w -> m <= 100 -> nth_error w m = Some md ->
  (integer_const w m nm <> Error AttributeError <->
   exists j mj, (j = m \/ reach w m j) /\ nth_error w j = Some mj /\ lookup nm (globals mj) <> None).
Proof.
intros w m md nm Hwf Hm En. rewrite integer_const_first_hit by auto. rewrite En.
set (l := m :: preorder m w (includes md)).
assert (Hl : forall j, In j l <-> j = m \/ reach w m j).
{ intros j. unfold l. cbn [In].
  rewrite (preorder_reach m w Hwf m (includes md) j (includes_lt w m md Hwf En) (le_n _)).
  split.
  - intros [<-|[H|(i & Hi & Hr)]]; auto; right.
    + eapply reach_step; eauto.
    + eapply reach_trans; eauto.
  - intros [->|H]; auto. right.
    inversion H as [i m0 y E1 Hy|i m0 y z E1 Hy Hr']; subst; rewrite En in E1; inversion E1; subst; eauto. }
destruct (first_hit (const_own nm) w l) as [v| |e] eqn:Ef.
- split; [|discriminate]. intros _.
  apply (first_hit_found (const_own nm)) in Ef. destruct Ef as (i & m1 & Hi & Hn & Ho).
  exists i, m1. rewrite <- Hl. repeat split; auto. unfold const_own in Ho.
  destruct (lookup nm (globals m1)); discriminate.
- split; [congruence|]. intros (j & mj & Hj & Hn & Hlk). exfalso.
  rewrite (first_hit_notfound (const_own nm) (const_own_stops nm)) in Ef.
  rewrite <- Hl in Hj. specialize (Ef j mj Hj Hn). unfold const_own in Ef.
  destruct (lookup nm (globals mj)) as [[v|]|]; try discriminate. now apply Hlk.
- assert (e <> AttributeError).
  { clear Hl. unfold l in Ef. clear l. revert Ef. generalize (m :: preorder m w (includes md)).
    induction l as [|i l IH]; cbn [first_hit]; [discriminate|].
    destruct (nth_error w i) as [m1|]; auto. unfold const_own at 1.
    destruct (lookup nm (globals m1)) as [[v|]|]; auto; [discriminate|]. intros H; inversion H. discriminate. }
  split; [|congruence]. intros _.
  assert (Ef' := Ef). clear H.
  (* an Error answer also comes from a declaring module *)
  revert Ef. clear Ef'. intros Ef.
  assert (exists i m1, In i l /\ nth_error w i = Some m1 /\ const_own nm i m1 = Some (Error e)).
  { revert Ef. generalize l. induction l0 as [|i l0 IH]; cbn [first_hit]; [discriminate|].
    destruct (nth_error w i) as [m1|] eqn:E1.
    - destruct (const_own nm i m1) as [y|] eqn:Eo.
      + intros ->. exists i, m1. cbn; auto.
      + intros H. destruct (IH H) as (a & b & ? & ? & ?). exists a, b; cbn; auto.
    - intros H. destruct (IH H) as (a & b & ? & ? & ?). exists a, b; cbn; auto. }
  destruct H as (i & m1 & Hi & Hn & Ho). exists i, m1. rewrite <- Hl. repeat split; auto.
  unfold const_own in Ho. destruct (lookup nm (globals m1)); discriminate.
Qed.

(* ================================================================== *)

(* ---- structs / unions *)
Lemma struct_own_stops : forall nm un i m, struct_own nm un i m <> Some NotFound.
Proof.
intros. unfold struct_own. destruct (find_struct nm (structs m) 0) as [[sidx s1]|]; [|discriminate].
destruct (negb (s_external s1) && Bool.eqb (s_union s1) un); discriminate.
Qed.

(* module j holds the definition (non-external entry of that kind) of struct/union nm at index idx *)
Definition defines (w : world) (j idx : nat) (nm : str) (un : bool) : Prop :=
  exists mj s, nth_error w j = Some mj /\ find_struct nm (structs mj) 0 = Some (idx, s) /\
               s_external s = false /\ s_union s = un.

Definition has_entry (w : world) (j : nat) (nm : str) : Prop :=
  exists mj, nth_error w j = Some mj /\ find_struct nm (structs mj) 0 <> None.

Lemma struct_own_found : forall w nm un i m1 d, nth_error w i = Some m1 ->
  struct_own nm un i m1 = Some (Found d) -> defines w (fst d) (snd d) nm un.
Proof.
intros w nm un i m1 d En. unfold struct_own.
destruct (find_struct nm (structs m1) 0) as [[sidx s1]|] eqn:Ef; [|discriminate].
destruct (s_external s1) eqn:Ee; cbn [negb andb]; [discriminate|].
destruct (Bool.eqb (s_union s1) un) eqn:Eu; [|discriminate].
intros H. inversion H; subst. cbn. exists m1, s1. repeat split; auto; try now apply eqb_prop.
Qed.

Lemma fetch_external_first_hit : forall w m md nm un, wf_world w -> m <= 100 -> nth_error w m = Some md ->
  fetch_external w m nm un =
  first_hit (struct_own nm un) w (preorder_d (struct_descend nm) m w (includes md)).
Proof.
intros w m md nm un Hwf Hm En. unfold fetch_external. rewrite En.
apply (dfs_first_hit (struct_own nm un) (struct_descend nm) (struct_own_stops nm un) m w Hwf cap_fuel m);
  try (unfold cap_fuel; lia). eapply includes_lt; eauto.
Qed.

(* soundness: what a module resolves "struct nm" to is a real definition of that kind *)
Lemma resolve_struct_sound : forall w m nm un d, wf_world w -> m <= 100 ->
  resolve_struct w m nm un = Found d -> defines w (fst d) (snd d) nm un.
Proof.
intros w m nm un d Hwf Hm. unfold resolve_struct.
destruct (nth_error w m) as [md|] eqn:En; [|discriminate].
destruct (find_struct nm (structs md) 0) as [[sidx s]|] eqn:Ef; [|discriminate].
destruct (Bool.eqb (s_union s) un) eqn:Eu; cbn [negb]; [|discriminate].
destruct (s_external s) eqn:Ee; cbn [negb].
- rewrite (fetch_external_first_hit w m md) by auto.
  destruct (first_hit _ w _) as [x| |e] eqn:E1; try discriminate.
  intros H; inversion H; subst.
  apply (first_hit_found (struct_own nm un)) in E1. destruct E1 as (i & m1 & _ & Hn & Ho).
  eapply struct_own_found; eauto.
- intros H; inversion H; subst. cbn. exists md, s. repeat split; auto; try now apply eqb_prop.
Qed.

(* the invariant the recompiler maintains: a module re-declares (as external entries) the structs and
   unions of the modules it includes *)
Definition closed (w : world) (nm : str) : Prop :=
  forall i mi j, nth_error w i = Some mi -> In j (includes mi) -> has_entry w j nm -> has_entry w i nm.

Lemma reach_has_entry : forall w nm i j, closed w nm -> reach w i j -> has_entry w j nm -> has_entry w i nm.
Proof. intros w nm i j Hc Hr. induction Hr; intros He; eauto. Qed.

Lemma descend_of_entry : forall w nm i mi, nth_error w i = Some mi -> has_entry w i nm ->
  struct_descend nm i mi = true.
Proof.
intros w nm i mi En (m' & En' & Hf). rewrite En in En'. inversion En'; subst.
unfold struct_descend. destruct (find_struct nm (structs m') 0); auto; try now elim Hf.
Qed.

Lemma pruned_preorder_complete : forall nm k w, wf_world w -> closed w nm -> forall fp included j,
  Forall (fun i => i < k) included -> k <= fp -> has_entry w j nm ->
  (In j included \/ exists i, In i included /\ reach w i j) ->
  In j (preorder_d (struct_descend nm) fp w included).
Proof.
induction k as [|k IH]; intros w Hwf Hc fp included j Hinc Hfp He Hj.
- destruct included; [destruct Hj as [[]|(i & [] & _)]|inversion Hinc; lia].
- destruct fp as [|fp]; [lia|]. cbn [preorder_d]. rewrite in_flat_map.
  destruct Hj as [Hj|(i & Hi & Hr)].
  + exists j. split; auto. now left.
  + exists i. split; auto. right.
    rewrite Forall_forall in Hinc. specialize (Hinc i Hi).
    assert (Hei : has_entry w i nm) by (eapply reach_has_entry; eauto).
    inversion Hr as [a m y En Hy|a m y z En Hy Hr']; subst; rewrite En;
      rewrite (descend_of_entry w nm i m En Hei).
    * apply (IH w Hwf Hc fp (includes m) j); try lia; auto.
      specialize (Hwf i m En). eapply Forall_impl; [|exact Hwf]. cbn; intros; lia.
    * apply (IH w Hwf Hc fp (includes m) j); try lia; auto.
      -- specialize (Hwf i m En). eapply Forall_impl; [|exact Hwf]. cbn; intros; lia.
      -- right. exists y. auto.
Qed.

(* sharing: if module d is the only one that defines "struct nm", every module that (transitively)
   includes d and re-declares it as external resolves the name to d's own object *)
Lemma include_shares_struct : forall w m md nm un d didx sidx s,
  wf_world w -> m <= 100 -> closed w nm ->
  nth_error w m = Some md -> find_struct nm (structs md) 0 = Some (sidx, s) ->
  s_external s = true -> s_union s = un ->
  reach w m d -> defines w d didx nm un ->
  (forall j idx, defines w j idx nm un -> j = d) ->
  resolve_struct w m nm un = Found (d, didx) /\ resolve_struct w d nm un = Found (d, didx).
Proof.
intros w m md nm un d didx sidx s Hwf Hm Hc En Ef Hext Hun Hr Hd Huniq.
assert (Hfound : forall x, defines w (fst x) (snd x) nm un -> x = (d, didx)).
{ intros [j idx] Hx. cbn in Hx. assert (j = d) by (eapply Huniq; eauto). subst j.
  destruct Hx as (m1 & s1 & E1 & F1 & _). destruct Hd as (m2 & s2 & E2 & F2 & _).
  rewrite E1 in E2. inversion E2; subst. rewrite F1 in F2. inversion F2; subst. reflexivity. }
split.
- assert (Hs := resolve_struct_sound w m nm un).
  unfold resolve_struct in *. rewrite En, Ef in *. rewrite Hun, eqb_reflx, Hext in *. cbn [negb] in *.
  rewrite (fetch_external_first_hit w m md) in * by auto.
  destruct (first_hit (struct_own nm un) w _) as [x| |e] eqn:E1.
  + f_equal. apply Hfound. apply Hs; auto.
  + exfalso. rewrite (first_hit_notfound (struct_own nm un) (struct_own_stops nm un)) in E1.
    destruct Hd as (m2 & s2 & E2 & F2 & X2 & U2).
    assert (In d (preorder_d (struct_descend nm) m w (includes md))).
    { assert (G1 : Forall (fun i => i < m) (includes md)) by (eapply includes_lt; eauto).
      assert (G2 : has_entry w d nm) by (exists m2; split; auto; rewrite F2; discriminate).
      assert (G3 : In d (includes md) \/ exists i, In i (includes md) /\ reach w i d).
      { inversion Hr as [a m0 y Ea Hy|a m0 y z Ea Hy Hr']; subst; rewrite En in Ea; inversion Ea; subst; eauto. }
      exact (pruned_preorder_complete nm m w Hwf Hc m (includes md) d G1 (le_n _) G2 G3). }
    specialize (E1 d m2 H E2). unfold struct_own in E1. rewrite F2, X2, U2, eqb_reflx in E1. discriminate.
  + exfalso. clear Hs.
    (* struct_own never answers Error *)
    revert E1. generalize (preorder_d (struct_descend nm) m w (includes md)).
    induction l as [|i l IH]; cbn [first_hit]; [discriminate|].
    destruct (nth_error w i) as [m1|]; auto. unfold struct_own at 1.
    destruct (find_struct nm (structs m1) 0) as [[a b]|]; auto.
    destruct (negb (s_external b) && Bool.eqb (s_union b) un); auto. discriminate.
- destruct Hd as (m2 & s2 & E2 & F2 & X2 & U2). unfold resolve_struct.
  rewrite E2, F2, U2, eqb_reflx, X2. reflexivity.
Qed.

(* ---- lib attributes *)
Lemma lib_own_stops : forall nm i m, lib_own nm i m <> Some NotFound.
Proof.
intros. unfold lib_own. destruct (has_lib m); destruct (lookup nm (globals m)) as [[v|]|]; discriminate.
Qed.

Lemma lib_getattr_first_hit : forall w m md nm, wf_world w -> m <= 100 -> nth_error w m = Some md ->
  lib_getattr w m nm =
  match lookup nm (globals md) with
  | Some (GInt v) => Found (AInt v)
  | Some GOther => Found (AObj m)
  | None => match first_hit (lib_own nm) w (preorder m w (includes md)) with
            | NotFound => Error AttributeError
            | r => r
            end
  end.
Proof.
intros w m md nm Hwf Hm En. unfold lib_getattr. rewrite En.
destruct (lookup nm (globals md)) as [[v|]|]; auto.
rewrite (dfs_first_hit (lib_own nm) (fun _ _ => true) (lib_own_stops nm) m w Hwf cap_fuel m);
  try (unfold cap_fuel; lia); [|eapply includes_lt; eauto].
now rewrite preorder_d_true.
Qed.

(* an object reached through the including lib is the one the declaring module's own lib gives *)
Lemma lib_getattr_shares : forall w m md nm j, wf_world w -> m <= 100 -> nth_error w m = Some md ->
  lib_getattr w m nm = Found (AObj j) ->
  (j = m \/ reach w m j) /\ j <= 100 /\ lib_getattr w j nm = Found (AObj j).
Proof.
intros w m md nm j Hwf Hm En. rewrite (lib_getattr_first_hit w m md) by auto.
destruct (lookup nm (globals md)) as [[v|]|] eqn:El.
- discriminate.
- intros H. inversion H; subst. split; auto. split; auto. unfold lib_getattr. now rewrite En, El.
- destruct (first_hit (lib_own nm) w _) as [x| |e] eqn:E1; try discriminate.
  intros H. inversion H; subst.
  apply (first_hit_found (lib_own nm)) in E1. destruct E1 as (i & m1 & Hi & Hn & Ho).
  assert (i = j /\ lookup nm (globals m1) = Some GOther) as [-> Hlk].
  { unfold lib_own in Ho. destruct (has_lib m1); destruct (lookup nm (globals m1)) as [[v|]|]; inversion Ho; auto. }
  apply (preorder_reach m w Hwf m (includes md) j (includes_lt w m md Hwf En) (le_n _)) in Hi.
  assert (Hr : reach w m j).
  { destruct Hi as [Hi|(a & Ha & Hr)]; [eapply reach_step|eapply reach_trans]; eauto. }
  assert (j < m).
  { clear -Hwf Hr. induction Hr.
    - specialize (Hwf i m H). rewrite Forall_forall in Hwf. auto.
    - specialize (Hwf i m H). rewrite Forall_forall in Hwf. specialize (Hwf j H0). lia. }
  split; auto. split; [lia|]. unfold lib_getattr. now rewrite Hn, Hlk.
Qed.

(* ================================================================== *)
(* ---- statements that hold for ANY world (cyclic include graphs, dangling indices, any depth) *)

Section DFSAnyWorld.
  Context {A : Type}.
  Variable own : nat -> module -> option (fres A).
  Variable descend : nat -> module -> bool.

  (* the loop returns the answer of some module's own table, or what a recursive call returned *)
  Lemma dfs_loop_cases : forall rc w l r, dfs_loop own descend rc w l = r ->
    r = NotFound \/
    (exists i m1, In i l /\ nth_error w i = Some m1 /\ own i m1 = Some r) \/
    (exists i m1, In i l /\ nth_error w i = Some m1 /\ own i m1 = None /\ rc (includes m1) = r /\ r <> NotFound).
  Proof.
  induction l as [|i l IH]; intros r H; cbn [dfs_loop] in H; [now left|].
  destruct (nth_error w i) as [m1|] eqn:En.
  - destruct (own i m1) as [x|] eqn:Eo.
    + subst. right. left. exists i, m1. cbn; auto.
    + destruct (descend i m1).
      * destruct (rc (includes m1)) as [a| |e] eqn:Er.
        -- subst. right. right. exists i, m1. cbn. repeat split; auto. discriminate.
        -- destruct (IH r H) as [?|[(j & m2 & ? & ? & ?)|(j & m2 & ? & ? & ? & ? & ?)]]; auto.
           ++ right. left. exists j, m2. cbn; auto.
           ++ right. right. exists j, m2. cbn; repeat split; auto.
        -- subst. right. right. exists i, m1. cbn. repeat split; auto. discriminate.
      * destruct (IH r H) as [?|[(j & m2 & ? & ? & ?)|(j & m2 & ? & ? & ? & ? & ?)]]; auto.
        -- right. left. exists j, m2. cbn; auto.
        -- right. right. exists j, m2. cbn; repeat split; auto.
  - destruct (IH r H) as [?|[(j & m2 & ? & ? & ?)|(j & m2 & ? & ? & ? & ? & ?)]]; auto.
    + right. left. exists j, m2. cbn; auto.
    + right. right. exists j, m2. cbn; repeat split; auto.
  Qed.

  (* every outcome other than NotFound is a module's own answer, or the RuntimeError of the cap, or OutOfFuel *)
  Lemma dfs_outcome_origin : forall f w included r x,
    dfs own descend f w included r = x -> x <> NotFound ->
    x = Error RuntimeError \/ x = Error OutOfFuel \/ exists i m1, nth_error w i = Some m1 /\ own i m1 = Some x.
  Proof.
  induction f as [|f IH]; intros w included r x H Hx; cbn [dfs] in H.
  - subst. auto.
  - destruct included as [|i0 l0]; [congruence|].
    destruct (100 <? r); [subst; auto|].
    destruct (dfs_loop_cases _ _ _ _ H) as [?|[(i & m1 & _ & En & Eo)|(i & m1 & _ & En & _ & Er & _)]].
    + congruence.
    + right. right. eauto.
    + eapply IH; eauto.
  Qed.

  (* THE FUEL LEMMA: started with recursion = 0 and cap_fuel = 103 units, the search never runs out of fuel:
     the recursion cap (100) fires first.  No hypothesis on the world. *)
  Lemma dfs_never_out_of_fuel :
    (forall i m, own i m <> Some (Error OutOfFuel)) ->
    forall f w included r, r <= 101 -> 102 <= f + r ->
    dfs own descend f w included r <> Error OutOfFuel.
  Proof.
  intros Hown. induction f as [|f IH]; intros w included r Hr Hf; [lia|].
  cbn [dfs]. destruct included as [|i0 l0]; [discriminate|].
  destruct (100 <? r) eqn:Ec; [discriminate|]. apply Nat.ltb_ge in Ec.
  intros H. destruct (dfs_loop_cases _ _ _ _ H) as [?|[(i & m1 & _ & En & Eo)|(i & m1 & _ & En & _ & Er & _)]].
  - discriminate.
  - eapply Hown; eauto.
  - revert Er. apply IH; lia.
  Qed.
End DFSAnyWorld.

Lemma struct_own_never_error : forall nm un i m e, struct_own nm un i m <> Some (Error e).
Proof.
intros. unfold struct_own. destruct (find_struct nm (structs m) 0) as [[a b]|]; [|discriminate].
destruct (negb (s_external b) && Bool.eqb (s_union b) un); discriminate.
Qed.

Lemma const_own_no_fuel : forall nm i m, const_own nm i m <> Some (Error OutOfFuel).
Proof. intros. unfold const_own. destruct (lookup nm (globals m)) as [[v|]|]; discriminate. Qed.

Lemma lib_own_no_fuel : forall nm i m, lib_own nm i m <> Some (Error OutOfFuel).
Proof. intros. unfold lib_own. destruct (has_lib m); destruct (lookup nm (globals m)) as [[v|]|]; discriminate. Qed.

(* none of the three lookups ever reports OutOfFuel, on any world, from any module *)
Lemma lookups_never_out_of_fuel : forall w m nm un,
  resolve_struct w m nm un <> Error OutOfFuel /\
  integer_const w m nm <> Error OutOfFuel /\
  lib_getattr w m nm <> Error OutOfFuel.
Proof.
intros w m nm un. repeat split.
- unfold resolve_struct, fetch_external. destruct (nth_error w m) as [md|]; [|discriminate].
  destruct (find_struct nm (structs md) 0) as [[sidx s]|]; [|discriminate].
  destruct (negb (Bool.eqb (s_union s) un)); [discriminate|].
  destruct (negb (s_external s)); [discriminate|].
  pose proof (dfs_never_out_of_fuel (struct_own nm un) (struct_descend nm)
               (fun i m0 => struct_own_never_error nm un i m0 OutOfFuel) cap_fuel w (includes md) 0) as H.
  destruct (dfs (struct_own nm un) (struct_descend nm) cap_fuel w (includes md) 0) as [x| |e] eqn:E; try discriminate.
  intros X. inversion X; subst. apply H; unfold cap_fuel; auto; lia.
- unfold integer_const, fetch_int_constant_from. destruct (nth_error w m) as [md|]; [|discriminate].
  destruct (const_own nm m md) as [x|] eqn:Eo.
  + destruct x as [v| |e]; try discriminate. intros X. inversion X; subst. eapply const_own_no_fuel; eauto.
  + pose proof (dfs_never_out_of_fuel (const_own nm) (fun _ _ => true) (const_own_no_fuel nm) cap_fuel w (includes md) 0) as H.
    destruct (dfs (const_own nm) (fun _ _ => true) cap_fuel w (includes md) 0) as [x| |e] eqn:E; try discriminate.
    intros X. inversion X; subst. apply H; unfold cap_fuel; auto; lia.
- unfold lib_getattr. destruct (nth_error w m) as [md|]; [|discriminate].
  destruct (lookup nm (globals md)) as [[v|]|]; try discriminate.
  pose proof (dfs_never_out_of_fuel (lib_own nm) (fun _ _ => true) (lib_own_no_fuel nm) cap_fuel w (includes md) 0) as H.
  destruct (dfs (lib_own nm) (fun _ _ => true) cap_fuel w (includes md) 0) as [x| |e] eqn:E; try discriminate.
  intros X. inversion X; subst. apply H; unfold cap_fuel; auto; lia.
Qed.

(* soundness of struct resolution on ANY world: whatever "struct nm" resolves to is a real non-external
   definition of that kind (no wf_world, no depth bound) *)
Lemma resolve_struct_sound_any : forall w m nm un d,
  resolve_struct w m nm un = Found d -> defines w (fst d) (snd d) nm un.
Proof.
intros w m nm un d. unfold resolve_struct, fetch_external.
destruct (nth_error w m) as [md|] eqn:En; [|discriminate].
destruct (find_struct nm (structs md) 0) as [[sidx s]|] eqn:Ef; [|discriminate].
destruct (Bool.eqb (s_union s) un) eqn:Eu; cbn [negb]; [|discriminate].
destruct (s_external s) eqn:Ee; cbn [negb].
- destruct (dfs (struct_own nm un) (struct_descend nm) cap_fuel w (includes md) 0) as [x| |e] eqn:E; try discriminate.
  intros H; inversion H; subst.
  destruct (dfs_outcome_origin _ _ _ _ _ _ _ E) as [X|[X|(i & m1 & Hn & Ho)]]; try discriminate.
  eapply struct_own_found; eauto.
- intros H; inversion H; subst. cbn. exists md, s. repeat split; auto; try now apply eqb_prop.
Qed.

(* a RuntimeError can only be the recursion cap; FFIError for a struct only "external entry without definition" *)
Lemma integer_const_error_origin : forall w m nm e, integer_const w m nm = Error e ->
  e = AttributeError \/ e = RuntimeError \/
  (e = FFIError /\ exists j mj, nth_error w j = Some mj /\ lookup nm (globals mj) = Some GOther).
Proof.
intros w m nm e. unfold integer_const, fetch_int_constant_from.
destruct (nth_error w m) as [md|] eqn:En.
2: { cbn. intros H. inversion H. left. reflexivity. }
assert (G : forall i m1, const_own nm i m1 = Some (Error e) ->
            e = FFIError /\ lookup nm (globals m1) = Some GOther).
{ intros i m1. unfold const_own. destruct (lookup nm (globals m1)) as [[v|]|]; try discriminate.
  intros H; inversion H; subst; auto. }
destruct (const_own nm m md) as [x|] eqn:Eo.
- destruct x as [v| |e0]; try discriminate.
  + intros H; inversion H; subst; auto.
  + intros H; inversion H; subst. destruct (G _ _ Eo). right. right. split; eauto.
- destruct (dfs (const_own nm) (fun _ _ => true) cap_fuel w (includes md) 0) as [x| |e0] eqn:E; try discriminate.
  + intros H; inversion H; subst; auto.
  + intros H; inversion H; subst.
    destruct (dfs_outcome_origin _ _ _ _ _ _ _ E) as [X|[X|(i & m1 & Hn & Ho)]]; try discriminate.
    * inversion X; subst; auto.
    * exfalso. inversion X; subst. destruct (lookups_never_out_of_fuel w m nm false) as (_ & H2 & _).
      apply H2. unfold integer_const, fetch_int_constant_from. rewrite En, Eo, E. reflexivity.
    * destruct (G _ _ Ho). right. right. split; eauto.
Qed.
