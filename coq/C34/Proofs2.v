(* C34 — the regenerated rows of the three delegating searches (C34/Gen.v, from src/c/ffi_obj.c and
   src/c/lib_obj.c) are the searches of the model: every theorem of Proofs.v about resolve_struct /
   integer_const / lib_getattr is a theorem about resolve_structG / integer_constG / lib_getattrG, the
   functions that read their cap, guards, increment, passed-down tuple, miss action and flag masks from Gen.v.
   An edit of any of these in the C source changes a row and [gen_rows_as_modelled] stops checking. *)
From Coq Require Import NArith ZArith List Bool Arith Lia.
From Cffi Require Import C34.Gen C34.Model C34.Proofs.
Import ListNotations.

(* the rows the hand model (dfs, struct_own, const_own, lib_own of Model.v) stands for *)
Definition std_guards : list guard := [GNullTuple; GCap 100].
Definition op_constant_int : str :=   (* "_CFFI_OP_CONSTANT_INT" *)
  [95;67;70;70;73;95;79;80;95;67;79;78;83;84;65;78;84;95;73;78;84]%N.
Definition op_enum : str := [95;67;70;70;73;95;79;80;95;69;78;85;77]%N.   (* "_CFFI_OP_ENUM" *)

(* _fetch_external_struct_or_union: NULL tuple -> not found; recursion > 100 -> RuntimeError; `continue` when the
   included ffi has no entry; hit when (s1->flags & (EXTERNAL|UNION)) == (s->flags & UNION); otherwise the
   recursive call on ffi1's own included_ffis at recursion + 1 *)
Definition std_struct : search_row :=
  mkRow [] std_guards 1 1 DownItemIncludes MissContinue [FExternal; FUnion] [FUnion] [].
(* ffi_fetch_int_constant: NO early exit in front of the local lookup or of the delegation; _CFFI_OP_CONSTANT_INT and
   _CFFI_OP_ENUM answer with the value, any other op with FFIError; then the same loop *)
Definition std_const : search_row :=
  mkRow [] std_guards 1 1 DownItemIncludes MissContinue [] [] [op_constant_int; op_enum].
(* lib_build_and_cache_attr: no early exit (other than the UTF-8 conversion of the name); the loop runs over
   included_libs; both recursive calls at recursion + 1 *)
Definition std_lib : search_row :=
  mkRow [] std_guards 1 1 DownItemIncludes MissContinue [] [] [].

(* THE REGENERATED FACT *)
Lemma gen_rows_as_modelled : gen_search = [std_struct; std_const; std_lib].
Proof. reflexivity. Qed.

Lemma gen_row_struct_std : gen_row_struct = std_struct.
Proof. pose proof gen_rows_as_modelled as H. unfold gen_search in H. now inversion H. Qed.
Lemma gen_row_const_std : gen_row_const = std_const.
Proof. pose proof gen_rows_as_modelled as H. unfold gen_search in H. now inversion H. Qed.
Lemma gen_row_lib_std : gen_row_lib = std_lib.
Proof. pose proof gen_rows_as_modelled as H. unfold gen_search in H. now inversion H. Qed.

Section Bridge.
  Context {A : Type}.
  Variable r : search_row.
  Hypothesis Hg : sr_guards r = std_guards.
  Hypothesis Hi : sr_inc r = 1.
  Hypothesis Hd : sr_down r = DownItemIncludes.
  Variables own own' : nat -> module -> option (fres A).
  Variables descend descend' : nat -> module -> bool.
  Hypothesis Hown : forall i m, own' i m = own i m.
  Hypothesis Hdesc : forall i m, descend' i m = descend i m.

  Lemma dfs_loopG_std : forall rc rc' w cur l, (forall inc, rc' inc = rc inc) ->
    dfs_loopG r own' descend' rc' w cur l = dfs_loop own descend rc w l.
  Proof.
  intros rc rc' w cur l Hrc. induction l as [|i l IH]; cbn [dfs_loopG dfs_loop]; [reflexivity|].
  destruct (nth_error w i) as [m1|]; [|exact IH].
  rewrite Hown, Hdesc, Hd, Hrc, IH. reflexivity.
  Qed.

  Lemma dfsG_std : forall f w included recursion,
    dfsG r own' descend' f w included recursion = dfs own descend f w included recursion.
  Proof.
  induction f as [|f IH]; intros w included recursion; cbn [dfsG dfs]; [reflexivity|].
  rewrite Hg. unfold std_guards. cbn [run_guards].
  destruct included as [|i0 l0]; cbn [is_nil]; [reflexivity|].
  destruct (100 <? recursion); [reflexivity|].
  apply dfs_loopG_std. intros inc. rewrite Hi, Nat.add_1_r. apply IH.
  Qed.
End Bridge.

Lemma struct_ownG_std : forall nm un i m, struct_ownG std_struct nm un i m = struct_own nm un i m.
Proof.
intros. unfold struct_ownG, struct_own, flag_test. cbn.
destruct (find_struct nm (structs m) 0) as [[sindex s1]|]; [|reflexivity].
destruct (s_external s1), (s_union s1), un; reflexivity.
Qed.

Lemma resolve_structG_eq : forall w m nm un, resolve_structG w m nm un = resolve_struct w m nm un.
Proof.
intros. unfold resolve_structG, resolve_struct, fetch_externalG, fetch_external. rewrite gen_row_struct_std.
destruct (nth_error w m) as [md|]; [|reflexivity].
rewrite (dfsG_std std_struct eq_refl eq_refl eq_refl (struct_own nm un) (struct_ownG std_struct nm un)
           (struct_descend nm) (struct_descend nm) (struct_ownG_std nm un) (fun _ _ => eq_refl)).
reflexivity.
Qed.

Lemma integer_constG_eq : forall w m nm, integer_constG w m nm = integer_const w m nm.
Proof.
intros. unfold integer_constG, integer_const, fetch_int_constant_fromG, fetch_int_constant_from.
rewrite gen_row_const_std.
destruct (nth_error w m) as [md|]; [|reflexivity]. cbn [pre_fires std_const sr_pre_exits is_nil negb].
rewrite (dfsG_std std_const eq_refl eq_refl eq_refl (const_own nm) (const_ownG std_const nm)
           (fun _ _ => true) (fun _ _ => negb (pre_fires std_const)) (fun _ _ => eq_refl) (fun _ _ => eq_refl)).
reflexivity.
Qed.

Lemma lib_getattrG_eq : forall w m nm, lib_getattrG w m nm = lib_getattr w m nm.
Proof.
intros. unfold lib_getattrG, lib_getattr. rewrite gen_row_lib_std.
destruct (nth_error w m) as [md|]; [|reflexivity]. cbn [pre_fires std_lib sr_pre_exits is_nil negb].
rewrite (dfsG_std std_lib eq_refl eq_refl eq_refl (lib_own nm) (lib_ownG std_lib nm)
           (fun _ _ => true) (fun _ _ => negb (pre_fires std_lib)) (fun _ _ => eq_refl) (fun _ _ => eq_refl)).
reflexivity.
Qed.

Lemma regenerated_searches_are_the_model : forall w m nm un,
  resolve_structG w m nm un = resolve_struct w m nm un /\
  integer_constG w m nm = integer_const w m nm /\
  lib_getattrG w m nm = lib_getattr w m nm.
Proof. intros. split; [apply resolve_structG_eq|split; [apply integer_constG_eq|apply lib_getattrG_eq]]. Qed.

(* what a changed row means, on the world of the seed C34-c (a <- b <- c, b declares no global): an early
   `return NULL` in front of ffi_fetch_int_constant's delegation hides a's constant from c; with the row of the
   current source c finds it *)
Definition row_with_early_exit : search_row :=
  mkRow [[110]%N] std_guards 1 1 DownItemIncludes MissContinue [] [] [op_constant_int; op_enum].
Definition const_with_row (r : search_row) (w : world) (m : nat) (nm : str) : fres Z :=
  match nth_error w m with
  | None => NotFound
  | Some md =>
    if pre_fires r then NotFound else
    match const_own nm m md with
    | Some x => x
    | None => dfsG r (const_ownG r nm) (fun _ _ => negb (pre_fires r)) cap_fuel w (includes md) 0
    end
  end.
