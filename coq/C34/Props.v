(* C34 — ffi.include() shares declarations instead of copying them.
   Statements only; proofs are in C34/Proofs.v, Proofs2.v (regenerated rows), Proofs3.v (bridge), Proofs4.v (C25).  No axioms expected. *)
From Coq Require Import NArith ZArith List Bool Arith.
From Cffi Require C25.Model.
From Cffi Require Import C34.Gen C34.Model C34.Proofs C34.Proofs2 C34.Proofs3 C34.Proofs4.
Import ListNotations.

(* ---------------- in-line FFI (Parser.include, regenerated kind table C34/Gen.v) *)

(* after a successful include every copied declaration name (typedef/struct/union/enum/anonymous,
   except 'anonymous $enum_$...') of the included parser is bound in the including parser to the SAME
   object with the same quals, every integer constant to the same value; bindings that existed
   before are unchanged; names neither bound before nor copied stay unbound *)
Theorem C34_include_shares_objects : forall self other self',
  parser_include self other = (self', None) ->
  (forall n o q, In (n, (o, q)) (decls other) -> copied n = true -> lookup n (decls self') = Some (o, q)) /\
  (forall k v, In (k, v) (consts other) -> lookup k (consts self') = Some v) /\
  (forall n v, lookup n (decls self) = Some v -> lookup n (decls self') = Some v) /\
  (forall k v, lookup k (consts self) = Some v -> lookup k (consts self') = Some v) /\
  (forall n, lookup n (decls self) = None ->
             (forall o q, In (n, (o, q)) (decls other) -> copied n = false) -> lookup n (decls self') = None).
Proof. exact parser_include_shares. Qed.
Print Assumptions C34_include_shares_objects.

(* "typedef", "struct", "union", "enum" are copied kinds in the source as it is now *)
Theorem C34_user_kinds_are_copied :
  forallb (fun k => existsb (str_eqb k) include_kinds)
          [[116;121;112;101;100;101;102]; [115;116;114;117;99;116]; [117;110;105;111;110]; [101;110;117;109]]%N = true.
Proof. exact kinds_copied. Qed.
Print Assumptions C34_user_kinds_are_copied.

(* the _declare conflict rule: the declaration loop of include raises exactly when a copied name is
   already bound to a different object or different quals *)
Theorem C34_include_conflict_rule : forall items self,
  NoDup (map fst items) ->
  (snd (include_decls self items) = None <->
   forall n o q, In (n, (o, q)) items -> copied n = true ->
                 forall v, lookup n (decls self) = Some v -> v = (o, q)).
Proof. exact include_decls_conflict. Qed.
Print Assumptions C34_include_conflict_rule.

(* chains: C.include(B) after B.include(A) makes A's objects visible through C *)
Theorem C34_include_chain : forall a b b' c c',
  parser_include b a = (b', None) -> NoDup (map fst (decls b')) ->
  parser_include c b' = (c', None) ->
  forall n o q, In (n, (o, q)) (decls a) -> copied n = true -> lookup n (decls c') = Some (o, q).
Proof. exact parser_include_chain. Qed.
Print Assumptions C34_include_chain.

(* including the same FFI again changes nothing *)
Theorem C34_include_idempotent : forall self other s1 s2,
  parser_include self other = (s1, None) -> parser_include s1 other = (s2, None) ->
  (forall n, lookup n (decls s2) = lookup n (decls s1)) /\ (forall k, lookup k (consts s2) = lookup k (consts s1)).
Proof. exact parser_include_again. Qed.
Print Assumptions C34_include_idempotent.

(* ---------------- out-of-line modules: the three delegating lookups *)

(* the C search (loop + recursion + cap 100) is "first answer in depth-first preorder", for any own /
   descend rule, on every acyclic include graph of depth <= 100 *)
Theorem C34_dfs_is_first_hit_in_preorder :
  forall (A : Type) (own : nat -> module -> option (fres A)) (descend : nat -> module -> bool),
  (forall i m, own i m <> Some NotFound) ->
  forall k w, wf_world w ->
  forall f fp included r,
  Forall (fun i => i < k) included -> k < f -> k <= fp -> r + k <= 101 ->
  dfs own descend f w included r = first_hit own w (preorder_d descend fp w included).
Proof. exact @dfs_first_hit. Qed.
Print Assumptions C34_dfs_is_first_hit_in_preorder.

(* the preorder list is exactly the transitive includes *)
Theorem C34_preorder_is_transitive_closure : forall k w, wf_world w -> forall fp included x,
  Forall (fun i => i < k) included -> k <= fp ->
  (In x (preorder fp w included) <-> In x included \/ exists j, In j included /\ reach w j x).
Proof. exact preorder_reach. Qed.
Print Assumptions C34_preorder_is_transitive_closure.

(* ffi.integer_const through a chain: first declaring module in depth-first order (itself first) ... *)
Theorem C34_integer_const_first_in_dfs_order : forall w m nm, wf_world w -> m <= 100 ->
  integer_const w m nm =
  match first_hit (const_own nm) w (m :: preorder m w (match nth_error w m with Some md => includes md | None => [] end)) with
  | NotFound => Error AttributeError
  | r => r
  end.
Proof. exact integer_const_first_hit. Qed.
Print Assumptions C34_integer_const_first_in_dfs_order.

(* ... and it finds the name iff the module or some transitive include declares it *)
Theorem C34_integer_const_found_iff_declared : forall w m md nm, wf_world w -> m <= 100 -> nth_error w m = Some md ->
  (integer_const w m nm <> Error AttributeError <->
   exists j mj, (j = m \/ reach w m j) /\ nth_error w j = Some mj /\ lookup nm (globals mj) <> None).
Proof. exact integer_const_found_iff. Qed.
Print Assumptions C34_integer_const_found_iff_declared.

(* ---- statements for ANY world: no acyclicity, no depth bound, dangling include indices allowed *)

(* the recursion fuel of the model (cap_fuel = 103) is never exhausted: the code's recursion cap (100) always
   fires first.  OutOfFuel is the model's own outcome, distinct from the RuntimeError of the cap, so a fuel bug
   cannot hide behind the cap. *)
Theorem C34_dfs_never_out_of_fuel :
  forall (A : Type) (own : nat -> module -> option (fres A)) (descend : nat -> module -> bool),
  (forall i m, own i m <> Some (Error OutOfFuel)) ->
  forall f w included r, r <= 101 -> 102 <= f + r ->
  dfs own descend f w included r <> Error OutOfFuel.
Proof. exact @dfs_never_out_of_fuel. Qed.
Print Assumptions C34_dfs_never_out_of_fuel.

Theorem C34_lookups_never_out_of_fuel : forall w m nm un,
  resolve_struct w m nm un <> Error OutOfFuel /\
  integer_const w m nm <> Error OutOfFuel /\
  lib_getattr w m nm <> Error OutOfFuel.
Proof. exact lookups_never_out_of_fuel. Qed.
Print Assumptions C34_lookups_never_out_of_fuel.

(* every outcome of the search other than "not found" is some module's own answer, or the RuntimeError of the cap *)
Theorem C34_dfs_outcome_origin :
  forall (A : Type) (own : nat -> module -> option (fres A)) (descend : nat -> module -> bool) f w included r x,
  dfs own descend f w included r = x -> x <> NotFound ->
  x = Error RuntimeError \/ x = Error OutOfFuel \/ exists i m1, nth_error w i = Some m1 /\ own i m1 = Some x.
Proof. exact @dfs_outcome_origin. Qed.
Print Assumptions C34_dfs_outcome_origin.

(* structs/unions: whatever "struct nm" resolves to is a real non-external definition of that kind — on any
   world, from any module *)
Theorem C34_resolve_struct_sound : forall w m nm un d,
  resolve_struct w m nm un = Found d -> defines w (fst d) (snd d) nm un.
Proof. exact resolve_struct_sound_any. Qed.
Print Assumptions C34_resolve_struct_sound.

(* ffi.integer_const fails only with AttributeError (not found), RuntimeError (the cap) or FFIError because
   some module declares the name as a function / variable / non-integer constant *)
Theorem C34_integer_const_error_origin : forall w m nm e, integer_const w m nm = Error e ->
  e = AttributeError \/ e = RuntimeError \/
  (e = FFIError /\ exists j mj, nth_error w j = Some mj /\ lookup nm (globals mj) = Some GOther).
Proof. exact integer_const_error_origin. Qed.
Print Assumptions C34_integer_const_error_origin.

(* ---- back to acyclic include graphs of depth <= 100, where the search equals the unbounded specification *)

(* sharing: when module d is the only definer of "struct nm" and the including modules re-declare it
   as external (what the recompiler emits: [closed]), every module that transitively includes d
   resolves the name to d's own object — the same (module, index), hence the same ctype *)
Theorem C34_included_struct_is_the_same_object : forall w m md nm un d didx sidx s,
  wf_world w -> m <= 100 -> closed w nm ->
  nth_error w m = Some md -> find_struct nm (structs md) 0 = Some (sidx, s) ->
  s_external s = true -> s_union s = un ->
  reach w m d -> defines w d didx nm un ->
  (forall j idx, defines w j idx nm un -> j = d) ->
  resolve_struct w m nm un = Found (d, didx) /\ resolve_struct w d nm un = Found (d, didx).
Proof. exact include_shares_struct. Qed.
Print Assumptions C34_included_struct_is_the_same_object.

(* lib attributes (API mode: functions, globals, constants of included modules) *)
Theorem C34_lib_getattr_first_in_dfs_order : forall w m md nm, wf_world w -> m <= 100 -> nth_error w m = Some md ->
  lib_getattr w m nm =
  match lookup nm (globals md) with
  | Some (GInt v) => Found (AInt v)
  | Some GOther => Found (AObj m)
  | None => match first_hit (lib_own nm) w (preorder m w (includes md)) with
            | NotFound => Error AttributeError
            | r => r
            end
  end.
Proof. exact lib_getattr_first_hit. Qed.
Print Assumptions C34_lib_getattr_first_in_dfs_order.

Theorem C34_lib_object_is_the_declaring_libs_object : forall w m md nm j, wf_world w -> m <= 100 -> nth_error w m = Some md ->
  lib_getattr w m nm = Found (AObj j) ->
  (j = m \/ reach w m j) /\ j <= 100 /\ lib_getattr w j nm = Found (AObj j).
Proof. exact lib_getattr_shares. Qed.
Print Assumptions C34_lib_object_is_the_declaring_libs_object.

(* ---------------- the three searches as REGENERATED from ffi_obj.c / lib_obj.c (C34/Gen.v) *)

(* the rows read from the current source are the rows the model stands for: guards [NULL tuple; recursion > 100]
   in that order and NO other early exit (in particular none in front of ffi_fetch_int_constant's local lookup
   and delegation), recursive calls at recursion + 1, on the included_ffis of the item just looked at, `continue`
   when the item has no entry, hit when (s1->flags & (EXTERNAL|UNION)) == (s->flags & UNION), integer ops
   _CFFI_OP_CONSTANT_INT and _CFFI_OP_ENUM.  Re-checked by reflexivity against every regenerated Gen.v. *)
Theorem C34_gen_rows_as_modelled : gen_search = [std_struct; std_const; std_lib].
Proof. exact gen_rows_as_modelled. Qed.
Print Assumptions C34_gen_rows_as_modelled.

(* hence the searches that READ their parameters from Gen.v (the ones the correspondence check evaluates) are
   the searches all theorems of this file talk about — on every world, from every module *)
Theorem C34_regenerated_searches_are_the_model : forall w m nm un,
  resolve_structG w m nm un = resolve_struct w m nm un /\
  integer_constG w m nm = integer_const w m nm /\
  lib_getattrG w m nm = lib_getattr w m nm.
Proof. exact regenerated_searches_are_the_model. Qed.
Print Assumptions C34_regenerated_searches_are_the_model.

(* ---------------- bridge in-line -> generated modules: [closed] is a theorem *)

(* for every list of FFIs built by successful FFI.include steps (from FFIs without includes and with arbitrary
   declarations; an FFI is no longer changed once another one includes it), the modules the recompiler emits
   (module_of: one struct_unions entry per "struct x"/"union x" declaration, included_ffis as recorded) satisfy
   the hypothesis [closed] of the sharing theorem, for every name *)
Theorem C34_recompiled_world_closed : forall ffis, built ffis -> forall nm, closed (map module_of ffis) nm.
Proof. exact recompiled_world_closed. Qed.
Print Assumptions C34_recompiled_world_closed.

(* the _CFFI_F_EXTERNAL flag (Recompiler._struct_ctx, regenerated as gen_external_iff_included): after a
   successful include, the object of every copied declaration of the included FFI whose name was unbound before
   (or whose object was already marked) is in _included_declarations, so its entry is emitted EXTERNAL *)
Theorem C34_include_marks_external : forall self other self' n o q,
  gen_external_iff_included = true ->
  parser_include self other = (self', None) ->
  In (n, (o, q)) (decls other) -> copied n = true ->
  existsb (N.eqb o) (incl_decls self) = true \/ lookup n (decls self) = None ->
  external_flag self' o = true.
Proof. exact include_marks_external. Qed.
Print Assumptions C34_include_marks_external.

(* ---------------- C34 x C25: the table lookups of the model are the binary searches of the C code *)

(* on a struct_unions table strictly sorted by name in byte order, with NUL-free names (what the recompiler
   emits: C25_python_sort_gives_table), the model's scan find_struct returns exactly what search_in_struct_unions
   (C25.Model.search_sorted, the model of MAKE_SEARCH_FUNC) returns: same index, that entry *)
Theorem C34_find_struct_is_search_sorted : forall l nm,
  Forall C25.Model.nulfree (map s_name l) -> C25.Model.nulfree nm ->
  (forall i j, i < j < length (map s_name l) ->
     C25.Model.lex (nth i (map s_name l) []) (nth j (map s_name l) []) = Lt) ->
  find_struct nm l 0 =
  match C25.Model.search_sorted (map s_name l) nm with
  | Some i => Some (i, nth i l sentry_dflt)
  | None => None
  end.
Proof. exact find_struct_is_search_sorted. Qed.
Print Assumptions C34_find_struct_is_search_sorted.

(* the same for the globals table (search_in_globals) *)
Theorem C34_lookup_is_search_sorted : forall (V : Type) (l : list (str * V)) nm,
  Forall C25.Model.nulfree (map fst l) -> C25.Model.nulfree nm ->
  (forall i j, i < j < length (map fst l) ->
     C25.Model.lex (nth i (map fst l) []) (nth j (map fst l) []) = Lt) ->
  lookup nm l =
  match C25.Model.search_sorted (map fst l) nm with
  | Some i => option_map snd (nth_error l i)
  | None => None
  end.
Proof. exact lookup_is_search_sorted. Qed.
Print Assumptions C34_lookup_is_search_sorted.

(* ---------------- non-vacuity *)
Definition ex_s (c : N) : str := [115;116;114;117;99;116;32; c]%N.       (* "struct " ++ c *)
Definition ex_t (c : N) : str := [116;121;112;101;100;101;102;32; c]%N.  (* "typedef " ++ c *)
Definition ex_f (c : N) : str := [102;117;110;99;116;105;111;110;32; c]%N.  (* "function " ++ c *)

Example C34_example_inline :
  let a := mkParser [(ex_s 97, (1, 0)); (ex_t 98, (1, 0)); (ex_f 102, (2, 0))]%N [([75]%N, 42%Z)] [] in
  let b := mkParser [(ex_s 99, (3, 0))]%N [] [] in
  let clash := mkParser [(ex_s 97, (9, 0))]%N [([75]%N, 43%Z)] [] in
  (let '(b', e) := parser_include b a in
   (e, lookup (ex_s 97) (decls b'), lookup (ex_t 98) (decls b'), lookup (ex_f 102) (decls b'),
    lookup [75]%N (consts b'), incl_decls b'))
    = (None, Some (1, 0), Some (1, 0), None, Some 42%Z, [1])%N /\
  snd (parser_include clash a) = Some FFIError /\
  snd (parser_include (mkParser [] [([75]%N, 43%Z)] []) a) = Some FFIError /\
  snd (api_include [mkFFI a []; mkFFI b []] 1 1) = Some ValueError.
Proof. vm_compute. repeat split. Qed.

(* world: 0 defines struct "s" and constant K=1 and function f; 1 includes 0; 2 defines K=2; 3 includes [1; 2] *)
Example C34_example_modules :
  let S := [115]%N in let K := [75]%N in let F := [102]%N in
  let w := [ mkModule [mkS S false false] [(K, GInt 1); (F, GOther)] [] true;
             mkModule [mkS S false true] [] [0] true;
             mkModule [] [(K, GInt 2)] [] true;
             mkModule [mkS S false true] [] [1; 2] true ] in
  resolve_struct w 3 S false = Found (0, 0) /\ resolve_struct w 1 S false = Found (0, 0) /\
  resolve_struct w 3 S true = NotFound /\
  integer_const w 3 K = Found 1%Z /\ integer_const w 2 K = Found 2%Z /\
  integer_const w 3 F = Error FFIError /\ integer_const w 3 S = Error AttributeError /\
  lib_getattr w 3 F = Found (AObj 0) /\ lib_getattr w 3 K = Found (AInt 1) /\
  wf_world w.
Proof.
repeat split; try (vm_compute; reflexivity).
intros i m H. do 4 (destruct i as [|i]; [inversion H; subst; cbn; repeat constructor|]). destruct i; discriminate.
Qed.

(* the recursion cap: a chain of 103 modules, the name declared only at the far end *)
Fixpoint chain (n : nat) : world :=
  match n with
  | O => [mkModule [] [([75]%N, GInt 7)] [] false]
  | S k => chain k ++ [mkModule [] [] [k] false]
  end.
Example C34_example_cap :
  integer_const (chain 100) 100 [75]%N = Found 7%Z /\
  integer_const (chain 101) 101 [75]%N = Found 7%Z /\
  integer_const (chain 102) 102 [75]%N = Error RuntimeError /\
  (* a module that includes itself, and a dangling include index: the cap, resp. "not found" — never OutOfFuel *)
  integer_const [mkModule [] [] [0] false] 0 [75]%N = Error RuntimeError /\
  integer_const [mkModule [] [] [5] false] 0 [75]%N = Error AttributeError.
Proof. vm_compute. repeat split; reflexivity. Qed.

(* non-vacuity of the headline sharing theorem and of C34_recompiled_world_closed: a <- b <- c built by two
   FFI.include steps; every hypothesis of C34_included_struct_is_the_same_object holds for the emitted modules
   (closed by the bridge theorem), and its conclusion is the computed answer *)
Example C34_closed_nonvacuous :
  let S := [115]%N in
  let w0 := [mkFFI (mkParser [(ex_s 115, (1, 0)); (ex_t 116, (2, 0))]%N [] []) [];
             mkFFI (mkParser [(ex_s 98, (3, 0))]%N [] []) [];
             mkFFI (mkParser [] [] []) []] in
  let w1 := fst (api_include w0 1 0) in
  let w2 := fst (api_include w1 2 1) in
  let w := map module_of w2 in
  built w2 /\ closed w S /\ wf_world w /\ gen_external_iff_included = true /\
  w = [mkModule [mkS S false false] [] [] true;
       mkModule [mkS [98]%N false false; mkS S false true] [] [0] true;
       mkModule [mkS [98]%N false true; mkS S false true] [] [1] true] /\
  reach w 2 0 /\ defines w 0 0 S false /\ (forall j idx, defines w j idx S false -> j = 0) /\
  resolve_struct w 2 S false = Found (0, 0) /\ resolve_structG w 2 S false = Found (0, 0).
Proof.
cbv zeta.
set (W0 := [mkFFI (mkParser [(ex_s 115, (1, 0)); (ex_t 116, (2, 0))]%N [] []) [];
            mkFFI (mkParser [(ex_s 98, (3, 0))]%N [] []) [];
            mkFFI (mkParser [] [] []) []]).
set (W1 := fst (api_include W0 1 0)).
set (W2 := fst (api_include W1 2 1)).
assert (Hb : built W2).
{ apply (built_include W1 2 1); [apply (built_include W0 1 0); [apply built_init| |vm_compute; reflexivity]|
                                 |vm_compute; reflexivity].
  - intros k fk H. do 3 (destruct k as [|k]; [inversion H; reflexivity|]). destruct k; discriminate.
  - intros k fk H. do 3 (destruct k as [|k]; [inversion H; subst; cbn; tauto|]). destruct k; discriminate.
  - intros k fk H. do 3 (destruct k as [|k]; [vm_compute in H; inversion H; subst; cbn; intuition discriminate|]).
    destruct k; discriminate. }
split; [exact Hb|]. split; [exact (recompiled_world_closed _ Hb _)|].
split.
{ intros i m H. do 3 (destruct i as [|i]; [inversion H; subst; vm_compute; repeat constructor|]).
  destruct i; discriminate. }
split; [reflexivity|]. split; [vm_compute; reflexivity|].
split.
{ eapply reach_trans; [vm_compute; reflexivity|left; reflexivity|].
  eapply reach_step; [vm_compute; reflexivity|left; reflexivity]. }
split.
{ eexists _, _. repeat split; vm_compute; reflexivity. }
split.
{ intros j idx (mj & s & Hn & Hf & He & Hu).
  do 3 (destruct j as [|j]; [try reflexivity; vm_compute in Hn; inversion Hn; subst; vm_compute in Hf;
                             inversion Hf; subst; discriminate|]).
  destruct j; discriminate. }
split; vm_compute; reflexivity.
Qed.

(* what a changed row means (the world of seed C34-c: a <- b <- c, b declares no global of its own): with the
   row of the current source c finds a's constant; with an extra early `return NULL` in front of
   ffi_fetch_int_constant's delegation (a row the regeneration would emit, and C34_gen_rows_as_modelled reject)
   the constant is hidden *)
Example C34_early_exit_row_hides_constants :
  let w := [mkModule [] [([75]%N, GInt 7)] [] false; mkModule [] [] [0] false; mkModule [] [] [1] false] in
  const_with_row gen_row_const w 2 [75]%N = Found 7%Z /\ integer_constG w 2 [75]%N = Found 7%Z /\
  const_with_row row_with_early_exit w 2 [75]%N = NotFound.
Proof. vm_compute. repeat split; reflexivity. Qed.
