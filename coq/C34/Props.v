(* C34 — ffi.include() shares declarations instead of copying them.
   Statements only; proofs are in C34/Proofs.v.  No axioms expected. *)
From Coq Require Import NArith ZArith List Bool Arith.
From Cffi Require Import C34.Gen C34.Model C34.Proofs.
Import ListNotations.

(* ---------------- in-line FFI (Parser.include, regenerated kind table C34/Gen.v) *)

(* after a successful include every copied declaration name (typedef/struct/union/enum/anonymous,
   except 'anonymous $enum_$...') of the included parser is bound in the including parser to the SAME
   object with the same quals, every integer constant to the same value; bindings that existed
   before are unchanged; names neither bound before nor copied stay unbound *)
Theorem C34_include_shares_objects : forall self other self',
  parser_include self other = (self', None) ->
  (forall n o q, In (n, (o, q)) (decls other) -> copied n = true -> lookup n (decls self') = Some (o, q)) /\
  (forall k v, In (k, v) (consts other) -> lookup k (consts self') = Some v) /\
  (forall n v, lookup n (decls self) = Some v -> lookup n (decls self') = Some v) /\
  (forall k v, lookup k (consts self) = Some v -> lookup k (consts self') = Some v) /\
  (forall n, lookup n (decls self) = None ->
             (forall o q, In (n, (o, q)) (decls other) -> copied n = false) -> lookup n (decls self') = None).
Proof. exact parser_include_shares. Qed.
Print Assumptions C34_include_shares_objects.

(* "typedef", "struct", "union", "enum" are copied kinds in the source as it is now *)
Theorem C34_user_kinds_are_copied :
  forallb (fun k => existsb (str_eqb k) include_kinds)
          [[116;121;112;101;100;101;102]; [115;116;114;117;99;116]; [117;110;105;111;110]; [101;110;117;109]]%N = true.
Proof. exact kinds_copied. Qed.
Print Assumptions C34_user_kinds_are_copied.

(* the _declare conflict rule: the declaration loop of include raises exactly when a copied name is
   already bound to a different object or different quals *)
Theorem C34_include_conflict_rule : forall items self,
  NoDup (map fst items) ->
  (snd (include_decls self items) = None <->
   forall n o q, In (n, (o, q)) items -> copied n = true ->
                 forall v, lookup n (decls self) = Some v -> v = (o, q)).
Proof. exact include_decls_conflict. Qed.
Print Assumptions C34_include_conflict_rule.

(* chains: C.include(B) after B.include(A) makes A's objects visible through C *)
Theorem C34_include_chain : forall a b b' c c',
  parser_include b a = (b', None) -> NoDup (map fst (decls b')) ->
  parser_include c b' = (c', None) ->
  forall n o q, In (n, (o, q)) (decls a) -> copied n = true -> lookup n (decls c') = Some (o, q).
Proof. exact parser_include_chain. Qed.
Print Assumptions C34_include_chain.

(* including the same FFI again changes nothing *)
Theorem C34_include_idempotent : forall self other s1 s2,
  parser_include self other = (s1, None) -> parser_include s1 other = (s2, None) ->
  (forall n, lookup n (decls s2) = lookup n (decls s1)) /\ (forall k, lookup k (consts s2) = lookup k (consts s1)).
Proof. exact parser_include_again. Qed.
Print Assumptions C34_include_idempotent.

(* ---------------- out-of-line modules: the three delegating lookups *)

(* the C search (loop + recursion + cap 100) is "first answer in depth-first preorder", for any own /
   descend rule, on every acyclic include graph of depth <= 100 *)
Theorem C34_dfs_is_first_hit_in_preorder :
  forall (A : Type) (own : nat -> module -> option (fres A)) (descend : nat -> module -> bool),
  (forall i m, own i m <> Some NotFound) ->
  forall k w, wf_world w ->
  forall f fp included r,
  Forall (fun i => i < k) included -> k < f -> k <= fp -> r + k <= 101 ->
  dfs own descend f w included r = first_hit own w (preorder_d descend fp w included).
Proof. exact @dfs_first_hit. Qed.
Print Assumptions C34_dfs_is_first_hit_in_preorder.

(* the preorder list is exactly the transitive includes *)
Theorem C34_preorder_is_transitive_closure : forall k w, wf_world w -> forall fp included x,
  Forall (fun i => i < k) included -> k <= fp ->
  (In x (preorder fp w included) <-> In x included \/ exists j, In j included /\ reach w j x).
Proof. exact preorder_reach. Qed.
Print Assumptions C34_preorder_is_transitive_closure.

(* ffi.integer_const through a chain: first declaring module in depth-first order (itself first) ... *)
Theorem C34_integer_const_first_in_dfs_order : forall w m nm, wf_world w -> m <= 100 ->
  integer_const w m nm =
  match first_hit (const_own nm) w (m :: preorder m w (match nth_error w m with Some md => includes md | None => [] end)) with
  | NotFound => Error AttributeError
  | r => r
  end.
Proof. exact integer_const_first_hit. Qed.
Print Assumptions C34_integer_const_first_in_dfs_order.

(* ... and it finds the name iff the module or some transitive include declares it *)
Theorem C34_integer_const_found_iff_declared : forall w m md nm, wf_world w -> m <= 100 -> nth_error w m = Some md ->
  (integer_const w m nm <> Error AttributeError <->
   exists j mj, (j = m \/ reach w m j) /\ nth_error w j = Some mj /\ lookup nm (globals mj) <> None).
Proof. exact integer_const_found_iff. Qed.
Print Assumptions C34_integer_const_found_iff_declared.

(* ---- statements for ANY world: no acyclicity, no depth bound, dangling include indices allowed *)

(* the recursion fuel of the model (cap_fuel = 103) is never exhausted: the code's recursion cap (100) always
   fires first.  OutOfFuel is the model's own outcome, distinct from the RuntimeError of the cap, so a fuel bug
   cannot hide behind the cap. *)
Theorem C34_dfs_never_out_of_fuel :
  forall (A : Type) (own : nat -> module -> option (fres A)) (descend : nat -> module -> bool),
  (forall i m, own i m <> Some (Error OutOfFuel)) ->
  forall f w included r, r <= 101 -> 102 <= f + r ->
  dfs own descend f w included r <> Error OutOfFuel.
Proof. exact @dfs_never_out_of_fuel. Qed.
Print Assumptions C34_dfs_never_out_of_fuel.

Theorem C34_lookups_never_out_of_fuel : forall w m nm un,
  resolve_struct w m nm un <> Error OutOfFuel /\
  integer_const w m nm <> Error OutOfFuel /\
  lib_getattr w m nm <> Error OutOfFuel.
Proof. exact lookups_never_out_of_fuel. Qed.
Print Assumptions C34_lookups_never_out_of_fuel.

(* every outcome of the search other than "not found" is some module's own answer, or the RuntimeError of the cap *)
Theorem C34_dfs_outcome_origin :
  forall (A : Type) (own : nat -> module -> option (fres A)) (descend : nat -> module -> bool) f w included r x,
  dfs own descend f w included r = x -> x <> NotFound ->
  x = Error RuntimeError \/ x = Error OutOfFuel \/ exists i m1, nth_error w i = Some m1 /\ own i m1 = Some x.
Proof. exact @dfs_outcome_origin. Qed.
Print Assumptions C34_dfs_outcome_origin.

(* structs/unions: whatever "struct nm" resolves to is a real non-external definition of that kind — on any
   world, from any module *)
Theorem C34_resolve_struct_sound : forall w m nm un d,
  resolve_struct w m nm un = Found d -> defines w (fst d) (snd d) nm un.
Proof. exact resolve_struct_sound_any. Qed.
Print Assumptions C34_resolve_struct_sound.

(* ffi.integer_const fails only with AttributeError (not found), RuntimeError (the cap) or FFIError because
   some module declares the name as a function / variable / non-integer constant *)
Theorem C34_integer_const_error_origin : forall w m nm e, integer_const w m nm = Error e ->
  e = AttributeError \/ e = RuntimeError \/
  (e = FFIError /\ exists j mj, nth_error w j = Some mj /\ lookup nm (globals mj) = Some GOther).
Proof. exact integer_const_error_origin. Qed.
Print Assumptions C34_integer_const_error_origin.

(* ---- back to acyclic include graphs of depth <= 100, where the search equals the unbounded specification *)

(* sharing: when module d is the only definer of "struct nm" and the including modules re-declare it
   as external (what the recompiler emits: [closed]), every module that transitively includes d
   resolves the name to d's own object — the same (module, index), hence the same ctype *)
Theorem C34_included_struct_is_the_same_object : forall w m md nm un d didx sidx s,
  wf_world w -> m <= 100 -> closed w nm ->
  nth_error w m = Some md -> find_struct nm (structs md) 0 = Some (sidx, s) ->
  s_external s = true -> s_union s = un ->
  reach w m d -> defines w d didx nm un ->
  (forall j idx, defines w j idx nm un -> j = d) ->
  resolve_struct w m nm un = Found (d, didx) /\ resolve_struct w d nm un = Found (d, didx).
Proof. exact include_shares_struct. Qed.
Print Assumptions C34_included_struct_is_the_same_object.

(* lib attributes (API mode: functions, globals, constants of included modules) *)
Theorem C34_lib_getattr_first_in_dfs_order : forall w m md nm, wf_world w -> m <= 100 -> nth_error w m = Some md ->
  lib_getattr w m nm =
  match lookup nm (globals md) with
  | Some (GInt v) => Found (AInt v)
  | Some GOther => Found (AObj m)
  | None => match first_hit (lib_own nm) w (preorder m w (includes md)) with
            | NotFound => Error AttributeError
            | r => r
            end
  end.
Proof. exact lib_getattr_first_hit. Qed.
Print Assumptions C34_lib_getattr_first_in_dfs_order.

Theorem C34_lib_object_is_the_declaring_libs_object : forall w m md nm j, wf_world w -> m <= 100 -> nth_error w m = Some md ->
  lib_getattr w m nm = Found (AObj j) ->
  (j = m \/ reach w m j) /\ j <= 100 /\ lib_getattr w j nm = Found (AObj j).
Proof. exact lib_getattr_shares. Qed.
Print Assumptions C34_lib_object_is_the_declaring_libs_object.

(* ---------------- non-vacuity *)
Definition ex_s (c : N) : str := [115;116;114;117;99;116;32; c]%N.       (* "struct " ++ c *)
Definition ex_t (c : N) : str := [116;121;112;101;100;101;102;32; c]%N.  (* "typedef " ++ c *)
Definition ex_f (c : N) : str := [102;117;110;99;116;105;111;110;32; c]%N.  (* "function " ++ c *)

Example C34_example_inline :
  let a := mkParser [(ex_s 97, (1, 0)); (ex_t 98, (1, 0)); (ex_f 102, (2, 0))]%N [([75]%N, 42%Z)] [] in
  let b := mkParser [(ex_s 99, (3, 0))]%N [] [] in
  let clash := mkParser [(ex_s 97, (9, 0))]%N [([75]%N, 43%Z)] [] in
  (let '(b', e) := parser_include b a in
   (e, lookup (ex_s 97) (decls b'), lookup (ex_t 98) (decls b'), lookup (ex_f 102) (decls b'),
    lookup [75]%N (consts b'), incl_decls b'))
    = (None, Some (1, 0), Some (1, 0), None, Some 42%Z, [1])%N /\
  snd (parser_include clash a) = Some FFIError /\
  snd (parser_include (mkParser [] [([75]%N, 43%Z)] []) a) = Some FFIError /\
  snd (api_include [mkFFI a []; mkFFI b []] 1 1) = Some ValueError.
Proof. vm_compute. repeat split. Qed.

(* world: 0 defines struct "s" and constant K=1 and function f; 1 includes 0; 2 defines K=2; 3 includes [1; 2] *)
Example C34_example_modules :
  let S := [115]%N in let K := [75]%N in let F := [102]%N in
  let w := [ mkModule [mkS S false false] [(K, GInt 1); (F, GOther)] [] true;
             mkModule [mkS S false true] [] [0] true;
             mkModule [] [(K, GInt 2)] [] true;
             mkModule [mkS S false true] [] [1; 2] true ] in
  resolve_struct w 3 S false = Found (0, 0) /\ resolve_struct w 1 S false = Found (0, 0) /\
  resolve_struct w 3 S true = NotFound /\
  integer_const w 3 K = Found 1%Z /\ integer_const w 2 K = Found 2%Z /\
  integer_const w 3 F = Error FFIError /\ integer_const w 3 S = Error AttributeError /\
  lib_getattr w 3 F = Found (AObj 0) /\ lib_getattr w 3 K = Found (AInt 1) /\
  wf_world w.
Proof.
repeat split; try (vm_compute; reflexivity).
intros i m H. do 4 (destruct i as [|i]; [inversion H; subst; cbn; repeat constructor|]). destruct i; discriminate.
Qed.

(* the recursion cap: a chain of 103 modules, the name declared only at the far end *)
Fixpoint chain (n : nat) : world :=
  match n with
  | O => [mkModule [] [([75]%N, GInt 7)] [] false]
  | S k => chain k ++ [mkModule [] [] [k] false]
  end.
Example C34_example_cap :
  integer_const (chain 100) 100 [75]%N = Found 7%Z /\
  integer_const (chain 101) 101 [75]%N = Found 7%Z /\
  integer_const (chain 102) 102 [75]%N = Error RuntimeError /\
  (* a module that includes itself, and a dangling include index: the cap, resp. "not found" — never OutOfFuel *)
  integer_const [mkModule [] [] [0] false] 0 [75]%N = Error RuntimeError /\
  integer_const [mkModule [] [] [5] false] 0 [75]%N = Error AttributeError.
Proof. vm_compute. repeat split; reflexivity. Qed.
