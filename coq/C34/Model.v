(* C34 — ffi.include() shares declarations instead of copying them.

   Part A (in-line FFI, Python): src/cffi/cparser.py
       Parser._declare        :590   conflict rule (same object and quals -> no-op; else FFIError unless override)
       Parser._add_constants  :474   identical value -> no-op; different -> FFIError
       Parser.include         :1010   copies struct/union/enum/anonymous/typedef declarations (object
                                     identity preserved) except 'anonymous $enum_$...', then the integer constants
     src/cffi/api.py  FFI.include :510   ValueError on self-include; appends to _included_ffis on success.
   Declaration names are the real strings ("typedef foo_t", "struct foo_s", ...), objects are
   identities (N): two names bound to the same number are bound to the very same model object.
   Dicts are association lists in insertion order (the order decides which conflict is hit first
   and what has already been copied when the exception leaves).

   Part B (out-of-line modules, C): lookups that delegate to the included modules
       _fetch_external_struct_or_union   src/c/ffi_obj.c:1185
       ffi_fetch_int_constant            src/c/ffi_obj.c:96
       lib_build_and_cache_attr          src/c/lib_obj.c:208  (delegation part)
   all three are the same depth-first search with the recursion cap 100; [dfs] below keeps the
   loop / recursion structure of the C code.  What differs between the three in the source (the guards in
   front of the loop, the increment, the tuple passed down, the miss action, the flag test) is regenerated
   per function into C34/Gen.v and read by [dfsG] / [struct_ownG] (Part B' below); that these equal [dfs] /
   [struct_own] on the current source is C34_regenerated_searches_are_the_model.  Not in the rows (fixed text of
   the translator's templates, an edit there is a broken obligation): lib_obj tests included_libs, looks into
   lib1->l_dict first, returns NULL after PyErr_Occurred(), and returns quietly when recursion > 0. *)
From Coq Require Import NArith ZArith List Bool Arith.
From Cffi Require Import C34.Gen.
Import ListNotations.

Definition str := list N.

Fixpoint str_eqb (a b : str) : bool :=
  match a, b with
  | [], [] => true
  | x :: a', y :: b' => N.eqb x y && str_eqb a' b'
  | _, _ => false
  end.

(* name.split(' ', 1)[0] *)
Fixpoint first_word (s : str) : str :=
  match s with
  | [] => []
  | c :: r => if N.eqb c 32 then [] else c :: first_word r
  end.

Fixpoint startswith (p s : str) : bool :=
  match p, s with
  | [], _ => true
  | x :: p', y :: s' => N.eqb x y && startswith p' s'
  | _ :: _, [] => false
  end.

(* ------------------------------------------------------------------ Part A *)

Fixpoint lookup {V : Type} (k : str) (l : list (str * V)) : option V :=
  match l with
  | [] => None
  | (k', v) :: r => if str_eqb k k' then Some v else lookup k r
  end.

(* d[k] = v : in place when the key exists (position kept), appended otherwise *)
Fixpoint dict_set {V : Type} (k : str) (v : V) (l : list (str * V)) : list (str * V) :=
  match l with
  | [] => [(k, v)]
  | (k', v') :: r => if str_eqb k k' then (k, v) :: r else (k', v') :: dict_set k v r
  end.

Definition set_add (x : N) (s : list N) : list N :=
  if existsb (N.eqb x) s then s else s ++ [x].

Record parser := mkParser {
  decls : list (str * (N * N));      (* _declarations : name -> (object identity, quals) *)
  consts : list (str * Z);           (* _int_constants *)
  incl_decls : list N                (* _included_declarations (a set of objects) *)
}.

(* OutOfFuel is not a Python exception: it is the model's own "ran out of recursion fuel" outcome, kept apart
   from the RuntimeError of the recursion cap (C34_never_out_of_fuel: it never occurs) *)
Inductive exc := FFIError | ValueError | TypeError | RuntimeError | AttributeError | OutOfFuel.

Definition exc_eqb (a b : exc) : bool :=
  match a, b with
  | FFIError, FFIError | ValueError, ValueError | TypeError, TypeError
  | RuntimeError, RuntimeError | AttributeError, AttributeError | OutOfFuel, OutOfFuel => true
  | _, _ => false
  end.

(* Parser._declare(name, obj, included, quals) with self._options.get('override') = override *)
Definition declare (override : bool) (p : parser) (name : str) (obj quals : N) (included : bool)
  : parser + exc :=
  let go := inl (mkParser (dict_set name (obj, quals) (decls p)) (consts p)
                          (if included then set_add obj (incl_decls p) else incl_decls p)) in
  match lookup name (decls p) with
  | Some (prevobj, prevquals) =>
      if N.eqb prevobj obj && N.eqb prevquals quals then inl p
      else if override then go else inr FFIError
  | None => go
  end.

Definition add_constants (p : parser) (key : str) (val : Z) : parser + exc :=
  match lookup key (consts p) with
  | Some v => if Z.eqb v val then inl p else inr FFIError
  | None => inl (mkParser (decls p) (dict_set key val (consts p)) (incl_decls p))
  end.

Definition copied_kind (name : str) : bool :=
  existsb (str_eqb (first_word name)) include_kinds.

(* the names Parser.include copies *)
Definition copied (name : str) : bool :=
  negb (startswith include_skip_prefix name) && copied_kind name.

(* first loop of Parser.include; on an exception the state reached so far stays *)
Fixpoint include_decls (self : parser) (items : list (str * (N * N))) : parser * option exc :=
  match items with
  | [] => (self, None)
  | (name, (tp, quals)) :: rest =>
      if startswith include_skip_prefix name then include_decls self rest
      else if copied_kind name then
        match declare false self name tp quals true with
        | inl self' => include_decls self' rest
        | inr e => (self, Some e)
        end
      else include_decls self rest
  end.

Fixpoint include_consts (self : parser) (items : list (str * Z)) : parser * option exc :=
  match items with
  | [] => (self, None)
  | (k, v) :: rest =>
      match add_constants self k v with
      | inl self' => include_consts self' rest
      | inr e => (self, Some e)
      end
  end.

Definition parser_include (self other : parser) : parser * option exc :=
  match include_decls self (decls other) with
  | (s1, None) => include_consts s1 (consts other)
  | r => r
  end.

(* FFI objects of one process: parser + _included_ffis *)
Record ffi := mkFFI { fparser : parser; included_ffis : list nat }.

Fixpoint set_nth {A : Type} (n : nat) (x : A) (l : list A) : list A :=
  match n, l with
  | O, _ :: r => x :: r
  | S n', y :: r => y :: set_nth n' x r
  | _, [] => []
  end.

(* FFI.include(self = ffis[i], ffi_to_include = ffis[j]) *)
Definition api_include (w : list ffi) (i j : nat) : list ffi * option exc :=
  if Nat.eqb i j then (w, Some ValueError) else
  match nth_error w i, nth_error w j with
  | Some fi, Some fj =>
      match parser_include (fparser fi) (fparser fj) with
      | (p', None) => (set_nth i (mkFFI p' (included_ffis fi ++ [j])) w, None)
      | (p', Some e) => (set_nth i (mkFFI p' (included_ffis fi)) w, Some e)
      end
  | _, _ => (w, Some TypeError)
  end.

(* ------------------------------------------------------------------ Part B *)

Record sentry := mkS { s_name : str; s_union : bool; s_external : bool }.
Inductive gentry :=
  | GInt (v : Z)        (* _CFFI_OP_CONSTANT_INT / _CFFI_OP_ENUM *)
  | GOther.             (* function, global variable, non-integer constant *)

Record module := mkModule {
  structs : list sentry;               (* ctx.struct_unions *)
  globals : list (str * gentry);       (* ctx.globals *)
  includes : list nat;                 (* included_ffis (module numbers), NULL when empty *)
  has_lib : bool                       (* API module: included_libs[i] != NULL *)
}.
Definition world := list module.

Inductive fres (A : Type) := Found (a : A) | NotFound | Error (e : exc).
Arguments Found {A}. Arguments NotFound {A}. Arguments Error {A}.

Section DFS.
  Context {A : Type}.
  (* what looking at included module i itself gives: Some r = stop with r; None = look into its includes
     when [descend] says so *)
  Variable own : nat -> module -> option (fres A).
  Variable descend : nat -> module -> bool.

  (* for (i = 0; i < len(included); i++) { ... }  with [rec_call] = the recursive call at recursion + 1 *)
  Fixpoint dfs_loop (rec_call : list nat -> fres A) (w : world) (l : list nat) : fres A :=
    match l with
    | [] => NotFound
    | i :: rest =>
      match nth_error w i with
      | None => dfs_loop rec_call w rest
      | Some m1 =>
        match own i m1 with
        | Some r => r
        | None =>
          if descend i m1 then
            match rec_call (includes m1) with
            | NotFound => dfs_loop rec_call w rest
            | r => r
            end
          else dfs_loop rec_call w rest
        end
      end
    end.

  (* if (included == NULL) return NULL; if (recursion > 100) RuntimeError; the loop *)
  Fixpoint dfs (fuel : nat) (w : world) (included : list nat) (recursion : nat) : fres A :=
    match fuel with
    | O => Error OutOfFuel
    | S f =>
      match included with
      | [] => NotFound
      | _ =>
        if 100 <? recursion then Error RuntimeError
        else dfs_loop (fun inc => dfs f w inc (S recursion)) w included
      end
    end.
End DFS.

Definition cap_fuel : nat := 103.

Fixpoint find_struct (nm : str) (l : list sentry) (idx : nat) : option (nat * sentry) :=
  match l with
  | [] => None
  | s :: r => if str_eqb nm (s_name s) then Some (idx, s) else find_struct nm r (S idx)
  end.

(* _fetch_external_struct_or_union(s, included_ffis, 0): (module, struct index) of the definition *)
Definition struct_own (nm : str) (un : bool) (i : nat) (m1 : module) : option (fres (nat * nat)) :=
  match find_struct nm (structs m1) 0 with
  | Some (sindex, s1) =>
      if negb (s_external s1) && Bool.eqb (s_union s1) un then Some (Found (i, sindex)) else None
  | None => None
  end.
Definition struct_descend (nm : str) (i : nat) (m1 : module) : bool :=
  match find_struct nm (structs m1) 0 with Some _ => true | None => false end.

Definition fetch_external (w : world) (m : nat) (nm : str) (un : bool) : fres (nat * nat) :=
  match nth_error w m with
  | Some md => dfs (struct_own nm un) (struct_descend nm) cap_fuel w (includes md) 0
  | None => NotFound
  end.

(* resolving "struct nm" / "union nm" from module m: own non-external entry, else the external fetch
   (realize_c_type.c:380..409); FFIError when an external entry finds no definition *)
Definition resolve_struct (w : world) (m : nat) (nm : str) (un : bool) : fres (nat * nat) :=
  match nth_error w m with
  | None => NotFound
  | Some md =>
    match find_struct nm (structs md) 0 with
    | None => NotFound
    | Some (sindex, s) =>
        if negb (Bool.eqb (s_union s) un) then NotFound
        else if negb (s_external s) then Found (m, sindex)
        else match fetch_external w m nm un with
             | NotFound => Error FFIError
             | r => r
             end
    end
  end.

(* ffi_fetch_int_constant(ffi, name, recursion) *)
Definition const_own (nm : str) (i : nat) (m1 : module) : option (fres Z) :=
  match lookup nm (globals m1) with
  | Some (GInt v) => Some (Found v)
  | Some GOther => Some (Error FFIError)
  | None => None
  end.

Definition fetch_int_constant_from (w : world) (m : nat) (nm : str) (recursion : nat) : fres Z :=
  match nth_error w m with
  | None => NotFound
  | Some md =>
    match const_own nm m md with
    | Some r => r
    | None => dfs (const_own nm) (fun _ _ => true) cap_fuel w (includes md) recursion
    end
  end.

(* ffi.integer_const(name): AttributeError when not found *)
Definition integer_const (w : world) (m : nat) (nm : str) : fres Z :=
  match fetch_int_constant_from w m nm 0 with
  | NotFound => Error AttributeError
  | r => r
  end.

(* lib_build_and_cache_attr(lib, name, 0): an integer constant gives its value, anything else the
   identity (module, name) of the object built by the module that declares it *)
Inductive attr := AInt (v : Z) | AObj (m : nat).

Definition lib_own (nm : str) (i : nat) (m1 : module) : option (fres attr) :=
  if has_lib m1 then
    match lookup nm (globals m1) with
    | Some (GInt v) => Some (Found (AInt v))
    | Some GOther => Some (Found (AObj i))
    | None => None
    end
  else  (* included_libs[i] == NULL: ffi_fetch_int_constant(ffi1, ...) *)
    match lookup nm (globals m1) with
    | Some (GInt v) => Some (Found (AInt v))
    | Some GOther => Some (Error FFIError)
    | None => None
    end.

Definition lib_getattr (w : world) (m : nat) (nm : str) : fres attr :=
  match nth_error w m with
  | None => NotFound
  | Some md =>
    match lookup nm (globals md) with
    | Some (GInt v) => Found (AInt v)
    | Some GOther => Found (AObj m)
    | None =>
        match dfs (lib_own nm) (fun _ _ => true) cap_fuel w (includes md) 0 with
        | NotFound => Error AttributeError
        | r => r
        end
    end
  end.

(* ------------------------------------------------------------------ Part B': the searches as READ FROM Gen.v
   The three rows gen_row_struct / gen_row_const / gen_row_lib are regenerated on every run from
   src/c/ffi_obj.c (_fetch_external_struct_or_union, ffi_fetch_int_constant) and src/c/lib_obj.c
   (lib_build_and_cache_attr) by tools/props/c34_regen.py.  [dfsG] takes from its row: the guards in front of
   the loop, in source order (NULL tuple, `recursion > cap`, any other early `return NULL`), the increment of
   the recursion argument, which tuple the recursive call works on; [struct_ownG] the statement executed when
   the item has no entry (`continue` / `break`, `return NULL`) and the two flag masks of
   (s1->flags & lhs) == (s->flags & rhs).  The correspondence check evaluates THESE functions (run_query);
   C34_regenerated_searches_are_the_model proves that on the current source they equal the searches above. *)

Definition is_nil {X : Type} (l : list X) : bool := match l with [] => true | _ => false end.

Section DFSG.
  Context {A : Type}.
  Variable r : search_row.
  Variable own : nat -> module -> option (fres A).
  Variable descend : nat -> module -> bool.

  Fixpoint run_guards (gs : list guard) (included : list nat) (recursion : nat) : option (fres A) :=
    match gs with
    | [] => None
    | GNullTuple :: t => if is_nil included then Some NotFound else run_guards t included recursion
    | GCap n :: t => if n <? recursion then Some (Error RuntimeError) else run_guards t included recursion
    | GExit _ :: _ => Some NotFound    (* an early `return NULL` the model knows nothing about: assumed to fire *)
    end.

  Fixpoint dfs_loopG (rec_call : list nat -> fres A) (w : world) (cur l : list nat) : fres A :=
    match l with
    | [] => NotFound
    | i :: rest =>
      match nth_error w i with
      | None => dfs_loopG rec_call w cur rest
      | Some m1 =>
        match own i m1 with
        | Some x => x
        | None =>
          if descend i m1 then
            match rec_call (match sr_down r with DownItemIncludes => includes m1 | DownSameTuple => cur end) with
            | NotFound => dfs_loopG rec_call w cur rest
            | x => x
            end
          else dfs_loopG rec_call w cur rest
        end
      end
    end.

  Fixpoint dfsG (fuel : nat) (w : world) (included : list nat) (recursion : nat) : fres A :=
    match fuel with
    | O => Error OutOfFuel
    | S f =>
      match run_guards (sr_guards r) included recursion with
      | Some x => x
      | None => dfs_loopG (fun inc => dfsG f w inc (recursion + sr_inc r)) w included included
      end
    end.
End DFSG.

Definition sflag_eqb (a b : sflag) : bool :=
  match a, b with FExternal, FExternal | FUnion, FUnion => true | _, _ => false end.
Definition has_flag (f : sflag) (l : list sflag) : bool := existsb (sflag_eqb f) l.

(* (s1->flags & lhs) == (s->flags & rhs)  on the two bits EXTERNAL and UNION; s is the requesting entry *)
Definition flag_test (r : search_row) (s1 : sentry) (sext sun : bool) : bool :=
  Bool.eqb (has_flag FExternal (sr_lhs_mask r) && s_external s1) (has_flag FExternal (sr_rhs_mask r) && sext)
  && Bool.eqb (has_flag FUnion (sr_lhs_mask r) && s_union s1) (has_flag FUnion (sr_rhs_mask r) && sun).

(* the requesting entry s is external: realize_c_type.c calls _fetch_external_struct_or_union in the
   `s->flags & _CFFI_F_EXTERNAL` branch only *)
Definition struct_ownG (r : search_row) (nm : str) (un : bool) (i : nat) (m1 : module) : option (fres (nat * nat)) :=
  match find_struct nm (structs m1) 0 with
  | Some (sindex, s1) => if flag_test r s1 true un then Some (Found (i, sindex)) else None
  | None => match sr_miss r with MissContinue => None | MissStop => Some NotFound end
  end.

Definition fetch_externalG (w : world) (m : nat) (nm : str) (un : bool) : fres (nat * nat) :=
  match nth_error w m with
  | Some md => dfsG gen_row_struct (struct_ownG gen_row_struct nm un) (struct_descend nm) cap_fuel w (includes md) 0
  | None => NotFound
  end.

Definition resolve_structG (w : world) (m : nat) (nm : str) (un : bool) : fres (nat * nat) :=
  match nth_error w m with
  | None => NotFound
  | Some md =>
    match find_struct nm (structs md) 0 with
    | None => NotFound
    | Some (sindex, s) =>
        if negb (Bool.eqb (s_union s) un) then NotFound
        else if negb (s_external s) then Found (m, sindex)
        else match fetch_externalG w m nm un with
             | NotFound => Error FFIError
             | x => x
             end
    end
  end.

(* an `if (cond) return NULL;` in front of the local lookup / of the delegation block that the model does not
   know: assumed to fire (the function then answers "not found" for this object and does not delegate) *)
Definition pre_fires (r : search_row) : bool := negb (is_nil (sr_pre_exits r)).

Definition const_ownG (r : search_row) (nm : str) (i : nat) (m1 : module) : option (fres Z) :=
  if pre_fires r then None else const_own nm i m1.

Definition fetch_int_constant_fromG (w : world) (m : nat) (nm : str) (recursion : nat) : fres Z :=
  let r := gen_row_const in
  match nth_error w m with
  | None => NotFound
  | Some md =>
    if pre_fires r then NotFound else
    match const_own nm m md with
    | Some x => x
    | None => dfsG r (const_ownG r nm) (fun _ _ => negb (pre_fires r)) cap_fuel w (includes md) recursion
    end
  end.

Definition integer_constG (w : world) (m : nat) (nm : str) : fres Z :=
  match fetch_int_constant_fromG w m nm 0 with
  | NotFound => Error AttributeError
  | x => x
  end.

Definition lib_ownG (r : search_row) (nm : str) (i : nat) (m1 : module) : option (fres attr) :=
  if pre_fires r then None else lib_own nm i m1.

Definition lib_getattrG (w : world) (m : nat) (nm : str) : fres attr :=
  let r := gen_row_lib in
  match nth_error w m with
  | None => NotFound
  | Some md =>
    if pre_fires r then NotFound else
    match lookup nm (globals md) with
    | Some (GInt v) => Found (AInt v)
    | Some GOther => Found (AObj m)
    | None =>
        match dfsG r (lib_ownG r nm) (fun _ _ => negb (pre_fires r)) cap_fuel w (includes md) 0 with
        | NotFound => Error AttributeError
        | x => x
        end
    end
  end.

(* ------------------------------------------------------------------ bridge A -> B: the module the recompiler
   emits for an in-line FFI (src/cffi/recompiler.py Recompiler._struct_ctx): one struct_unions entry per
   "struct x" / "union x" declaration; the entry is _CFFI_F_EXTERNAL exactly when the type object is in
   _included_declarations (gen_external_iff_included, regenerated); included_ffis as recorded by FFI.include *)
Definition kw_struct : str := [115;116;114;117;99;116;32]%N.   (* "struct " *)
Definition kw_union : str := [117;110;105;111;110;32]%N.        (* "union " *)

Definition struct_name (n : str) : option (str * bool) :=
  if startswith kw_struct n then Some (skipn 7 n, false)
  else if startswith kw_union n then Some (skipn 6 n, true)
  else None.

Definition external_flag (p : parser) (o : N) : bool :=
  if gen_external_iff_included then existsb (N.eqb o) (incl_decls p) else false.

Definition struct_entries (p : parser) : list sentry :=
  flat_map (fun d => match struct_name (fst d) with
                     | Some (nm, un) => [mkS nm un (external_flag p (fst (snd d)))]
                     | None => []
                     end) (decls p).

Definition module_of (f : ffi) : module :=
  mkModule (struct_entries (fparser f)) [] (included_ffis f) true.

(* ------------------------------------------------------------------ specification side *)

(* modules visited by an unpruned depth-first traversal, in order (with repetitions) *)
Fixpoint preorder (fuel : nat) (w : world) (included : list nat) : list nat :=
  match fuel with
  | O => []
  | S f => flat_map (fun i => i :: match nth_error w i with
                                   | Some m1 => preorder f w (includes m1)
                                   | None => [] end) included
  end.

(* includes point to earlier modules only (import order), so the include graph is acyclic *)
Definition wf_world (w : world) : Prop :=
  forall i m, nth_error w i = Some m -> Forall (fun j => j < i) (includes m).

(* first module of a list for which [own] answers *)
Fixpoint first_hit {A : Type} (own : nat -> module -> option (fres A)) (w : world) (l : list nat) : fres A :=
  match l with
  | [] => NotFound
  | i :: r => match nth_error w i with
              | Some m1 => match own i m1 with Some x => x | None => first_hit own w r end
              | None => first_hit own w r
              end
  end.

(* ------------------------------------------------------------------ for the correspondence check *)
Definition opt_exc_eqb (a b : option exc) : bool :=
  match a, b with Some x, Some y => exc_eqb x y | None, None => true | _, _ => false end.

Definition set_eqb (a b : list N) : bool :=
  forallb (fun x => existsb (N.eqb x) b) a && forallb (fun x => existsb (N.eqb x) a) b.

Fixpoint alist_eqb {V : Type} (e : V -> V -> bool) (a b : list (str * V)) : bool :=
  match a, b with
  | [], [] => true
  | (k, v) :: a', (k', v') :: b' => str_eqb k k' && e v v' && alist_eqb e a' b'
  | _, _ => false
  end.

Definition parser_eqb (a b : parser) : bool :=
  alist_eqb (fun x y => N.eqb (fst x) (fst y) && N.eqb (snd x) (snd y)) (decls a) (decls b)
  && alist_eqb Z.eqb (consts a) (consts b) && set_eqb (incl_decls a) (incl_decls b).

(* one FFI.include step observed on the implementation: self = ffis[0]; other = ffis[1] (or self) *)
Definition include_step (self other : ffi) (same : bool) : (parser * list nat) * option exc :=
  let '(w', e) := api_include [self; other] 0 (if same then 0 else 1) in
  match nth_error w' 0 with
  | Some f => ((fparser f, included_ffis f), e)
  | None => ((fparser self, included_ffis self), e)
  end.

(* comparison with the observed state.  _included_declarations is a Python set of model type objects:
   struct/union/enum objects hash by identity, but typedef targets such as 'char *' compare
   structurally, so the set is observed modulo that equality; [cls] maps every object identity of
   the case to its equality class and the observed set is given as classes. *)
Fixpoint class_of (cls : list (N * N)) (o : N) : N :=
  match cls with
  | [] => o
  | (k, c) :: r => if N.eqb k o then c else class_of r o
  end.

Definition step_matches (model : (parser * list nat) * option exc)
                        (obs : ((parser * list nat) * option exc) * list (N * N)) : bool :=
  let mp := fst (fst model) in let op := fst (fst (fst obs)) in
  alist_eqb (fun x y => N.eqb (fst x) (fst y) && N.eqb (snd x) (snd y)) (decls mp) (decls op)
  && alist_eqb Z.eqb (consts mp) (consts op)
  && set_eqb (map (class_of (snd obs)) (incl_decls mp)) (incl_decls op)
  && Nat.eqb (length (snd (fst model))) (length (snd (fst (fst obs))))
  && opt_exc_eqb (snd model) (snd (fst obs)).

(* queries on a world of out-of-line modules *)
Inductive query :=
  | QStruct (m : nat) (nm : str) (un : bool)      (* ffi.typeof("struct nm") / "union nm" *)
  | QConst (m : nat) (nm : str)                   (* ffi.integer_const(nm) *)
  | QLib (m : nat) (nm : str).                    (* getattr(lib, nm) *)
Inductive answer :=
  | AOwner (j : nat)        (* the object that module j itself builds *)
  | AVal (v : Z)
  | AErr (e : exc).

Definition run_query (w : world) (q : query) : answer :=
  match q with
  | QStruct m nm un =>
      match resolve_structG w m nm un with
      | Found (j, _) => AOwner j
      | NotFound => AErr FFIError
      | Error e => AErr e
      end
  | QConst m nm =>
      match integer_constG w m nm with
      | Found v => AVal v
      | NotFound => AErr AttributeError
      | Error e => AErr e
      end
  | QLib m nm =>
      match lib_getattrG w m nm with
      | Found (AInt v) => AVal v
      | Found (AObj j) => AOwner j
      | NotFound => AErr AttributeError
      | Error e => AErr e
      end
  end.

Definition answer_eqb (a b : answer) : bool :=
  match a, b with
  | AOwner i, AOwner j => Nat.eqb i j
  | AVal x, AVal y => Z.eqb x y
  | AErr e, AErr f => exc_eqb e f
  | _, _ => false
  end.

Fixpoint answers_eqb (a b : list answer) : bool :=
  match a, b with
  | [], [] => true
  | x :: a', y :: b' => answer_eqb x y && answers_eqb a' b'
  | _, _ => false
  end.
