(* C34 — bridge from Part A (in-line FFIs, FFI.include) to Part B (the modules the recompiler emits):
   the hypothesis [closed] of the sharing theorem is a THEOREM about every list of FFIs built by FFI.include
   steps, for the module [module_of] whose struct_unions table follows Recompiler._struct_ctx. *)
From Coq Require Import NArith ZArith List Bool Arith Lia.
From Cffi Require Import C34.Gen C34.Model C34.Proofs.
Import ListNotations.

(* ---- histories.  The FFIs start without includes (any declarations: cdef is not modelled, its effect on
   the declaration dict is arbitrary); every step is a successful FFI.include(self = i, j) on an FFI i that
   nobody has included yet (an FFI is completed before it is included elsewhere: what it gains afterwards
   would be missing from the FFIs that already copied its declarations). *)
Definition not_included_yet (w : list ffi) (i : nat) : Prop :=
  forall k fk, nth_error w k = Some fk -> ~ In i (included_ffis fk).

Inductive built : list ffi -> Prop :=
  | built_init : forall w, (forall k fk, nth_error w k = Some fk -> included_ffis fk = []) -> built w
  | built_include : forall w i j w', built w -> not_included_yet w i ->
                    api_include w i j = (w', None) -> built w'.

(* the invariant: an including FFI binds every copied name of an FFI it includes to the same object *)
Definition shares (w : list ffi) : Prop :=
  forall i fi j fj, nth_error w i = Some fi -> In j (included_ffis fi) -> nth_error w j = Some fj ->
  forall n o q, In (n, (o, q)) (decls (fparser fj)) -> copied n = true ->
                lookup n (decls (fparser fi)) = Some (o, q).

Lemma nth_error_set_nth_eq : forall (X : Type) (l : list X) n x y,
  nth_error l n = Some y -> nth_error (set_nth n x l) n = Some x.
Proof.
induction l as [|a l IH]; intros [|n] x y H; cbn in *; try discriminate; auto. eapply IH; eauto.
Qed.

Lemma nth_error_set_nth_neq : forall (X : Type) (l : list X) n k x,
  n <> k -> nth_error (set_nth n x l) k = nth_error l k.
Proof.
induction l as [|a l IH]; intros [|n] [|k] x H; cbn; auto; try congruence.
Qed.

Lemma built_shares : forall w, built w -> shares w.
Proof.
induction 1 as [w H0|w i j w' Hb IH Hfree Hstep].
- intros i fi j fj Hi Hin. rewrite (H0 i fi Hi) in Hin. destruct Hin.
- unfold api_include in Hstep.
  destruct (Nat.eqb i j) eqn:Eij; [discriminate|]. apply Nat.eqb_neq in Eij.
  destruct (nth_error w i) as [fi|] eqn:Ei; [|discriminate].
  destruct (nth_error w j) as [fj|] eqn:Ej; [|discriminate].
  destruct (parser_include (fparser fi) (fparser fj)) as [p' [e|]] eqn:Ep; [discriminate|].
  inversion Hstep; subst w'; clear Hstep.
  destruct (parser_include_shares _ _ _ Ep) as (S1 & _ & S3 & _).
  intros a fa b fb Ha Hin Hb' n o q Hd Hc.
  destruct (Nat.eq_dec a i) as [->|Hai].
  + rewrite (nth_error_set_nth_eq _ _ _ _ _ Ei) in Ha. inversion Ha; subst fa; clear Ha.
    cbn [included_ffis fparser] in *.
    assert (Hbi : b <> i).
    { intros ->. apply in_app_or in Hin. destruct Hin as [Hin|[Hin|[]]].
      - exact (Hfree i fi Ei Hin).
      - congruence. }
    rewrite nth_error_set_nth_neq in Hb' by congruence.
    apply in_app_or in Hin. destruct Hin as [Hin|[Hin|[]]].
    * apply S3. eapply IH; eauto.
    * subst b. rewrite Ej in Hb'. inversion Hb'; subst fb. eapply S1; eauto.
  + rewrite nth_error_set_nth_neq in Ha by congruence.
    assert (Hbi : b <> i) by (intros ->; exact (Hfree a fa Ha Hin)).
    rewrite nth_error_set_nth_neq in Hb' by congruence.
    eapply IH; eauto.
Qed.

(* ---- "struct x" / "union x" names are copied names (Gen.v: the kind table of the current source) *)
Lemma startswith_app : forall p s, startswith p s = true -> s = p ++ skipn (length p) s.
Proof.
induction p as [|x p IH]; intros s H; [reflexivity|].
destruct s as [|y s]; [discriminate|]. cbn in H. apply andb_prop in H. destruct H as [H1 H2].
apply N.eqb_eq in H1. subst y. cbn. f_equal. now apply IH.
Qed.

Lemma struct_name_copied : forall n nm un, struct_name n = Some (nm, un) -> copied n = true.
Proof.
intros n nm un. unfold struct_name.
destruct (startswith kw_struct n) eqn:E1.
- intros _. rewrite (startswith_app _ _ E1). generalize (skipn (length kw_struct) n). intros rest.
  vm_compute. reflexivity.
- destruct (startswith kw_union n) eqn:E2; [|discriminate].
  intros _. rewrite (startswith_app _ _ E2). generalize (skipn (length kw_union) n). intros rest.
  vm_compute. reflexivity.
Qed.

(* ---- the struct_unions table of module_of *)
Lemma find_struct_some_in : forall nm l idx, find_struct nm l idx <> None -> exists s, In s l /\ s_name s = nm.
Proof.
induction l as [|s l IH]; intros idx H; cbn in H; [now elim H|].
destruct (str_eqb nm (s_name s)) eqn:E.
- apply str_eqb_eq in E. exists s. cbn; auto.
- destruct (IH _ H) as (s' & Hin & Hn). exists s'. cbn; auto.
Qed.

Lemma find_struct_in_some : forall nm l idx s, In s l -> s_name s = nm -> find_struct nm l idx <> None.
Proof.
induction l as [|s0 l IH]; intros idx s Hin Hn; [destruct Hin|]. cbn.
destruct (str_eqb nm (s_name s0)) eqn:E; [discriminate|].
destruct Hin as [->|Hin]; [|eapply IH; eauto].
subst nm. now rewrite str_eqb_refl in E.
Qed.

Lemma in_struct_entries : forall p s, In s (struct_entries p) <->
  exists n o q, In (n, (o, q)) (decls p) /\ struct_name n = Some (s_name s, s_union s) /\
                s_external s = external_flag p o.
Proof.
intros p s. unfold struct_entries. rewrite in_flat_map. split.
- intros ([n [o q]] & Hin & Hs). cbn [fst snd] in Hs.
  destruct (struct_name n) as [[nm un]|] eqn:E; [|destruct Hs].
  destruct Hs as [<-|[]]. exists n, o, q. cbn. auto.
- intros (n & o & q & Hin & Hs & He). exists (n, (o, q)). split; auto. cbn [fst snd]. rewrite Hs.
  left. destruct s; cbn in *. now subst.
Qed.

Lemma nth_error_map_some : forall (X Y : Type) (f : X -> Y) l n y,
  nth_error (map f l) n = Some y -> exists x, nth_error l n = Some x /\ y = f x.
Proof.
induction l as [|a l IH]; intros [|n] y H; cbn in *; try discriminate.
- inversion H. eauto.
- eauto.
Qed.

(* THE BRIDGE THEOREM: the world the recompiler emits for FFIs built by include steps is closed *)
Lemma recompiled_world_closed : forall ffis, built ffis -> forall nm, closed (map module_of ffis) nm.
Proof.
intros w Hb nm. pose proof (built_shares w Hb) as Hs.
intros i mi j Hi Hin (mj & Hj & Hf).
apply nth_error_map_some in Hi. destruct Hi as (fi & Hi & ->).
apply nth_error_map_some in Hj. destruct Hj as (fj & Hj & ->).
cbn [module_of includes structs] in *.
destruct (find_struct_some_in _ _ _ Hf) as (s & Hsin & Hsn).
apply in_struct_entries in Hsin. destruct Hsin as (n & o & q & Hd & Hname & _).
pose proof (struct_name_copied _ _ _ Hname) as Hc.
pose proof (Hs i fi j fj Hi Hin Hj n o q Hd Hc) as Hl.
apply lookup_some_in in Hl.
exists (module_of fi). split; [now apply map_nth_error|].
cbn [module_of structs].
apply (find_struct_in_some nm _ 0 (mkS (s_name s) (s_union s) (external_flag (fparser fi) o))); [|exact Hsn].
apply in_struct_entries. exists n, o, q. cbn. auto.
Qed.

(* what FFI.include leaves in _included_declarations: the entry of an included struct is EXTERNAL in the
   including module whenever the include really copied it (the name was not bound before) *)
Lemma include_marks_external : forall self other self' n o q,
  gen_external_iff_included = true ->
  parser_include self other = (self', None) ->
  In (n, (o, q)) (decls other) -> copied n = true ->
  existsb (N.eqb o) (incl_decls self) = true \/ lookup n (decls self) = None ->
  external_flag self' o = true.
Proof.
intros self other self' n o q Hg Hinc Hin Hc Hpre. unfold external_flag. rewrite Hg.
unfold parser_include in Hinc.
destruct (include_decls self (decls other)) as [s1 [e|]] eqn:E1; [discriminate|].
assert (Hk : forall items a b, include_consts a items = (b, None) -> incl_decls b = incl_decls a).
{ induction items as [|[k v] r IH]; intros a b H; cbn in H; [now inversion H|].
  destruct (add_constants a k v) as [a1|] eqn:Ea; [|discriminate].
  rewrite (IH _ _ H). unfold add_constants in Ea.
  destruct (lookup k (consts a)); [destruct (Z.eqb z v)|]; inversion Ea; reflexivity. }
rewrite (Hk _ _ _ Hinc). clear Hk Hinc.
(* membership in the included set only grows, and a fresh copied name adds its object *)
assert (Hadd : forall x s, existsb (N.eqb o) s = true -> existsb (N.eqb o) (set_add x s) = true).
{ intros x s H. unfold set_add. destruct (existsb (N.eqb x) s); auto. rewrite existsb_app, H. reflexivity. }
assert (Hnew : forall s, existsb (N.eqb o) (set_add o s) = true).
{ intros s. unfold set_add. destruct (existsb (N.eqb o) s) eqn:E; auto.
  rewrite existsb_app. cbn. rewrite N.eqb_refl. now rewrite orb_true_r. }
revert self s1 E1 Hpre. unfold copied in Hc. apply andb_prop in Hc. destruct Hc as [Hc1 Hc2].
apply negb_true_iff in Hc1.
induction (decls other) as [|[name [tp quals]] rest IH]; intros self s1 E1 Hpre; [destruct Hin|].
cbn [include_decls] in E1.
destruct Hin as [Heq|Hin].
- inversion Heq; subst name tp quals; clear Heq. rewrite Hc1, Hc2 in E1.
  destruct (declare false self n o q true) as [s2|] eqn:Ed; [|discriminate].
  assert (H2 : existsb (N.eqb o) (incl_decls s2) = true).
  { unfold declare in Ed. destruct Hpre as [Hp|Hp].
    - destruct (lookup n (decls self)) as [[po pq]|].
      + destruct (N.eqb po o && N.eqb pq q); inversion Ed; subst; auto.
      + inversion Ed; subst; cbn. now apply Hadd.
    - rewrite Hp in Ed. inversion Ed; subst; cbn. apply Hnew. }
  clear Ed Hpre. revert s2 s1 E1 H2. clear IH.
  induction rest as [|[name [tp quals]] rest IHr]; intros s2 s1 E1 H2; cbn [include_decls] in E1.
  + now inversion E1; subst.
  + destruct (startswith include_skip_prefix name); [eapply IHr; eauto|].
    destruct (copied_kind name); [|eapply IHr; eauto].
    destruct (declare false s2 name tp quals true) as [s3|] eqn:Ed; [|discriminate].
    eapply IHr; eauto. unfold declare in Ed.
    destruct (lookup name (decls s2)) as [[po pq]|].
    * destruct (N.eqb po tp && N.eqb pq quals); inversion Ed; subst; auto.
    * inversion Ed; subst; cbn. now apply Hadd.
- destruct (startswith include_skip_prefix name); [eapply IH; eauto|].
  destruct (copied_kind name); [|eapply IH; eauto].
  destruct (declare false self name tp quals true) as [s2|] eqn:Ed; [|discriminate].
  (* the pre-condition survives one more declaration unless it binds n itself, in which case... *)
  destruct (list_eq_dec N.eq_dec name n) as [->|Hne].
  + (* the same name earlier in the list: dict keys are unique, but items is any list here *)
    eapply IH; eauto. unfold declare in Ed. destruct Hpre as [Hp|Hp].
    * left. destruct (lookup n (decls self)) as [[po pq]|].
      -- destruct (N.eqb po tp && N.eqb pq quals); inversion Ed; subst; auto.
      -- inversion Ed; subst; cbn. now apply Hadd.
    * rewrite Hp in Ed. inversion Ed; subst; cbn.
      (* n is now bound to tp: the later (n, (o, q)) succeeds only if tp = o *)
      left. clear IH.
      assert (tp = o).
      { clear -E1 Hin Hc1 Hc2 Hp.
        set (s2 := {| decls := dict_set n (tp, quals) (decls self); consts := consts self;
                      incl_decls := set_add tp (incl_decls self) |}) in *.
        assert (Hl : lookup n (decls s2) = Some (tp, quals)) by (cbn; apply lookup_dict_set_same).
        clearbody s2. revert s2 s1 E1 Hl.
        induction rest as [|[name [tp' quals']] rest IHr]; intros s2 s1 E1 Hl; [destruct Hin|].
        cbn [include_decls] in E1. destruct Hin as [Heq|Hin].
        - inversion Heq; subst. rewrite Hc1, Hc2 in E1.
          unfold declare in E1. rewrite Hl in E1.
          destruct (N.eqb tp o) eqn:Eo; [now apply N.eqb_eq in Eo|]. cbn in E1. discriminate.
        - destruct (startswith include_skip_prefix name); [eapply IHr; eauto|].
          destruct (copied_kind name); [|eapply IHr; eauto].
          destruct (declare false s2 name tp' quals' true) as [s3|] eqn:Ed; [|discriminate].
          eapply IHr; eauto. destruct (declare_ok _ _ _ _ _ _ Ed) as (_ & _ & M & _). now apply M. }
      subst tp. apply Hnew.
  + eapply IH; eauto. unfold declare in Ed. destruct Hpre as [Hp|Hp].
    * left. destruct (lookup name (decls self)) as [[po pq]|].
      -- destruct (N.eqb po tp && N.eqb pq quals); inversion Ed; subst; auto.
      -- inversion Ed; subst; cbn. now apply Hadd.
    * right. destruct (lookup name (decls self)) as [[po pq]|] eqn:El.
      -- destruct (N.eqb po tp && N.eqb pq quals); inversion Ed; subst; auto.
      -- inversion Ed; subst; cbn. rewrite lookup_dict_set_other; auto.
Qed.
