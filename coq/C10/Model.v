(* C10 — enums: vocabulary, the skeletons the regenerated holes of C10/Gen.v are plugged into, and the
   hand model of the C side.

   Python side (regenerated into Gen.v by tools/props/c10.py, shape-matching drivers):
     model.EnumType.build_baseinttype      src/cffi/model.py:519     -> Gen.build_baseinttype
     cparser.Parser._build_enum_type       src/cffi/cparser.py:957   -> Gen.build_enum_values
     recompiler.EnumExpr.as_python_expr    src/cffi/recompiler.py:111 -> Gen.gen_py_enum_prim
     _cffi_prim_int                        src/cffi/_cffi_include.h:372 -> Gen.c_prim_int
   C side (hand model, tied by the differential run of tools/props/c10.py):
     b_new_enum_type                       src/c/_cffi_backend.c:6478 (dict built from last to first)
     convert_cdata_to_enum_string          src/c/_cffi_backend.c:2091 *)
From Coq Require Import Ascii String ZArith NArith List Bool.
Import ListNotations.
Open Scope Z_scope.

Definition cstr := list N.

Fixpoint s2l (s : string) : cstr :=
  match s with
  | EmptyString => []
  | String a s' => N_of_ascii a :: s2l s'
  end.

Fixpoint cstr_eqb (a b : cstr) : bool :=
  match a, b with
  | [], [] => true
  | x :: a', y :: b' => N.eqb x y && cstr_eqb a' b'
  | _, _ => false
  end.

Fixpoint assoc {B} (k : cstr) (l : list (cstr * B)) : option B :=
  match l with
  | [] => None
  | (k', v) :: l' => if cstr_eqb k k' then Some v else assoc k l'
  end.

Inductive pyexc := CDefError | OverflowError.
Inductive result (A : Type) := Ok (a : A) | Err (e : pyexc).
Arguments Ok {A} a.
Arguments Err {A} e.

(* Python's min()/max() on a non-empty tuple of ints (the [] case is never reached: the caller tests
   `if self.enumvalues:` first) *)
Definition list_min (l : list Z) : Z := match l with [] => 0 | x :: r => fold_left Z.min r x end.
Definition list_max (l : list Z) : Z := match l with [] => 0 | x :: r => fold_left Z.max r x end.

(* ---- cparser._build_enum_type: the loop
       nextenumvalue = FIRST
       for enum in decls.enumerators:
           if enum.value is not None: nextenumvalue = EXPLICIT(parse(enum.value))
           enumvalues.append(RECORDED(nextenumvalue))
           nextenumvalue = NEXT(nextenumvalue)
     an enumerator is (Some v) when it has an explicit value (already evaluated to v), else None *)
Fixpoint assign_values (explicit recorded next : Z -> Z) (cur : Z) (decls : list (option Z)) : list Z :=
  match decls with
  | [] => []
  | d :: decls' =>
      let cur' := match d with Some v => explicit v | None => cur end in
      recorded cur' :: assign_values explicit recorded next (next cur') decls'
  end.

(* ---- b_new_enum_type (src/c/_cffi_backend.c:6478): a Python dict {value: name}, filled by
       for (i=n; --i >= 0; ) PyDict_SetItem(dict2, enumvalues[i], enumerators[i]);
     A dict is modelled as an association list with replace-on-set (insertion order kept, as CPython). *)
Definition dict := list (Z * cstr).

Fixpoint dict_set (d : dict) (k : Z) (v : cstr) : dict :=
  match d with
  | [] => [(k, v)]
  | (k', v') :: d' => if k =? k' then (k, v) :: d' else (k', v') :: dict_set d' k v
  end.

Fixpoint dict_get (d : dict) (k : Z) : option cstr :=
  match d with
  | [] => None
  | (k', v') :: d' => if k =? k' then Some v' else dict_get d' k
  end.

(* the loop, i = n-1 downto 0: processes the (value, name) pairs from the last to the first *)
Definition build_dict2 (names : list cstr) (vals : list Z) : dict :=
  fold_left (fun d kv => dict_set d (fst kv) (snd kv)) (rev (combine vals names)) [].

(* decimal text of a Python int (PyObject_Str) *)
From Coq Require Import DecimalString Decimal.
Definition decimal (z : Z) : cstr := s2l (NilZero.string_of_int (Z.to_int z)).

(* the value a cdata of the enum's base type holds after ffi.cast('enum e', x): reduced modulo 2^(8*size),
   read back as signed or unsigned (convert_to_object on the base type) *)
Definition wrap (size : Z) (signed : bool) (x : Z) : Z :=
  let m := 2 ^ (8 * size) in
  let r := x mod m in
  if signed && (2 ^ (8 * size - 1) <=? r) then r - m else r.

(* convert_cdata_to_enum_string(cd, both=0): ffi.string(cdata) *)
Definition enum_string (names : list cstr) (vals : list Z) (v : Z) : cstr :=
  match dict_get (build_dict2 names vals) v with
  | Some nm => nm
  | None => decimal v
  end.

(* ---- (size, signed) -> primitive index, the two encodings *)
Record prim_int_macro := mk_pim { pim_cases : list (Z * (cstr * cstr)); pim_default : cstr }.

Fixpoint prim_int_cases (cs : list (Z * (cstr * cstr))) (dflt : cstr) (size : Z) (sign : bool) : cstr :=
  match cs with
  | [] => dflt
  | (k, (a, b)) :: cs' => if size =? k then (if sign then a else b) else prim_int_cases cs' dflt size sign
  end.

Definition prim_int (prims : list (cstr * Z)) (m : prim_int_macro) (size : Z) (sign : bool) : option Z :=
  assoc (prim_int_cases (pim_cases m) (pim_default m) size sign) prims.

(* {(size, signed): PRIM_x}[self.size, self.signed]; a missing key is a KeyError = None *)
Fixpoint py_enum_prim (tbl : list ((Z * Z) * cstr)) (size signed : Z) : option cstr :=
  match tbl with
  | [] => None
  | ((s, g), id) :: tbl' => if (size =? s) && (signed =? g) then Some id else py_enum_prim tbl' size signed
  end.

Definition opt_z_eqb (a b : option Z) : bool :=
  match a, b with Some x, Some y => x =? y | None, None => true | _, _ => false end.

(* ---- ffi.cast('enum e', x) followed by reading the cdata (ffi.string, int()):
     b_cast / cast_to_integer_or_char (src/c/_cffi_backend.c:4256): value = _my_PyLong_AsUnsignedLongLong(ob, 0)
         (the Python int reduced modulo 2^64), write_raw_integer_data(cd->c_data, value, ct->ct_size):
         the low ct_size bytes, little-endian on this platform;
     convert_to_object on the base type: read_raw_signed_data / read_raw_unsigned_data (ct_size bytes). *)
Fixpoint le_bytes (n : nat) (v : Z) : list Z :=
  match n with O => [] | S k => v mod 256 :: le_bytes k (v / 256) end.
Definition le_value (bs : list Z) : Z := fold_right (fun b acc => b + 256 * acc) 0 bs.

Definition cast_store (size : nat) (x : Z) : list Z := le_bytes size (x mod 2 ^ 64).
Definition read_raw (signed : bool) (bs : list Z) : Z :=
  let bits := 8 * Z.of_nat (List.length bs) in
  let u := le_value bs in
  if signed && (2 ^ (bits - 1) <=? u) then u - 2 ^ bits else u.

(* ffi.string(ffi.cast('enum e', x)) for an enum whose base type has `size` bytes *)
Definition enum_cast_string (size : nat) (signed : bool) (names : list cstr) (vals : list Z) (x : Z) : cstr :=
  enum_string names vals (read_raw signed (cast_store size x)).
