(* C10 — Enum values and underlying integer type match the C compiler.
   Statements only; proofs in C10/Proofs.v. build_baseinttype, build_enum_values, gen_py_enum_prim,
   c_prim_int are regenerated from /repo's sources on every run (C10/Gen.v); gcc_base, c_value,
   first_name are the independent specification (C10/Spec.v, compared with gcc on every run);
   build_dict2 / enum_string are the hand model of b_new_enum_type / convert_cdata_to_enum_string. *)
From Coq Require Import Ascii String ZArith NArith List Bool.
Import ListNotations.
From Cffi Require Import C10.Model C10.Spec C10.Gen C10.Proofs.
Open Scope Z_scope.

(* For EVERY non-empty list of enumerator values (any integers, no bound on length or magnitude) and any
   platform with sizeof(int) = isz >= 1, sizeof(long) = lsz >= 1: the type chosen by
   model.EnumType.build_baseinttype is the one gcc chooses, and cffi raises CDefError exactly when no
   such type exists.  (`expected` = Ok (name of gcc_base ..) or Err CDefError.) *)
Theorem C10_base_matches_gcc : forall isz lsz vals,
  vals <> [] -> 1 <= isz -> 1 <= lsz ->
  build_baseinttype (sizes isz lsz) vals =
  match gcc_base isz lsz vals with Some b => Ok (ctype_name b) | None => Err CDefError end.
Proof. exact base_matches_gcc. Qed.
Print Assumptions C10_base_matches_gcc.

(* cparser._build_enum_type: for every enumerator list (Some v = explicit `= v`, None = implicit), the
   k-th recorded value is C11 6.7.2.2p3's: the explicit value, else previous + 1, else 0 *)
Theorem C10_enumerator_values : forall decls,
  length (build_enum_values decls) = length decls /\
  forall k, (k < length decls)%nat -> nth k (build_enum_values decls) 0 = c_value decls k.
Proof. exact enum_values_correct. Qed.
Print Assumptions C10_enumerator_values.

(* b_new_enum_type's dict, filled from the last enumerator to the first, maps every value to the FIRST
   declared enumerator having it; all name/value lists, duplicates allowed *)
Theorem C10_dict_first_declared : forall names vals v,
  dict_get (build_dict2 names vals) v = first_name names vals v.
Proof. exact dict2_is_first_name. Qed.
Print Assumptions C10_dict_first_declared.

(* ffi.string(): the first declared name with that value, or the decimal number *)
Theorem C10_enum_string : forall names vals v,
  enum_string names vals v = match first_name names vals v with Some nm => nm | None => decimal v end.
Proof. exact enum_string_correct. Qed.
Print Assumptions C10_enum_string.

(* the enum store: ffi.cast('enum e', x) writes the low `size` bytes of x mod 2^64 (little-endian) and reading
   the cdata back as the signed/unsigned base type gives `wrap size signed x`, for EVERY integer x and every
   base size 1..8: `wrap` is exactly what the byte-level store and load compute *)
Theorem C10_cast_store_is_wrap : forall size signed x, (1 <= size <= 8)%nat ->
  read_raw signed (cast_store size x) = wrap (Z.of_nat size) signed x.
Proof. exact cast_read_is_wrap. Qed.
Print Assumptions C10_cast_store_is_wrap.

(* arithmetic fact about `wrap` alone (used below): inside the base type's range it is the identity *)
Theorem C10_wrap_in_range : forall size (signed : bool) v, 1 <= size ->
  (signed = true -> - 2 ^ (8 * size - 1) <= v < 2 ^ (8 * size - 1)) ->
  (signed = false -> 0 <= v < 2 ^ (8 * size)) ->
  wrap size signed v = v.
Proof. exact wrap_in_range. Qed.
Print Assumptions C10_wrap_in_range.

(* ffi.string(ffi.cast('enum e', x)), through the byte-level store: for x in the range of the base type it is the
   first declared enumerator with value x, or the decimal text of x *)
Theorem C10_string_of_cast : forall size signed names vals x, (1 <= size <= 8)%nat ->
  (signed = true -> - 2 ^ (8 * Z.of_nat size - 1) <= x < 2 ^ (8 * Z.of_nat size - 1)) ->
  (signed = false -> 0 <= x < 2 ^ (8 * Z.of_nat size)) ->
  enum_cast_string size signed names vals x =
  match first_name names vals x with Some nm => nm | None => decimal x end.
Proof. exact string_of_cast. Qed.
Print Assumptions C10_string_of_cast.

(* the same for EVERY integer x, in or out of the base type's range: ffi.string(ffi.cast('enum e', x)) is the first
   declared enumerator whose value is the WRAPPED x (what gcc's conversion to the underlying type gives), or its
   decimal text *)
Theorem C10_string_of_cast_all : forall size signed names vals x, (1 <= size <= 8)%nat ->
  enum_cast_string size signed names vals x =
  match first_name names vals (wrap (Z.of_nat size) signed x) with
  | Some nm => nm
  | None => decimal (wrap (Z.of_nat size) signed x)
  end.
Proof. exact string_of_cast_all. Qed.
Print Assumptions C10_string_of_cast_all.

(* the two encodings of (size, signedness) into a primitive index agree on the complete domain
   {1,2,4,8} x {0,1}: EnumExpr.as_python_expr (out-of-line ABI) and _cffi_prim_int (API mode) *)
Theorem C10_encodings_agree : forall size sg, In size [1; 2; 4; 8] -> In sg [0; 1] ->
  exists id i, py_enum_prim gen_py_enum_prim size sg = Some id /\ assoc id py_prim = Some i /\ 0 <= i /\
               prim_int c_idents c_prim_int size (sg =? 1) = Some i.
Proof. exact encodings_agree. Qed.
Print Assumptions C10_encodings_agree.

(* ... and PRIM_x (Python) has the value of _CFFI_PRIM_x (C) *)
Theorem C10_py_prim_is_c_prim : forall id i, assoc id py_prim = Some i -> assoc id c_idents = Some i.
Proof. exact gen_py_prim_is_c_prim. Qed.
Print Assumptions C10_py_prim_is_c_prim.

(* non-vacuity: LP64 *)
Example C10_example_base :
  map (build_baseinttype (sizes 4 8))
      [[0]; [-1]; [2147483647]; [2147483648]; [4294967295]; [4294967296]; [-1; 2147483648];
       [-2147483648]; [-2147483649]; [18446744073709551615]; [18446744073709551616];
       [-1; 9223372036854775807]; [-1; 9223372036854775808]; [-9223372036854775808]; [-9223372036854775809]]
  = [Ok (s2l "unsigned int"); Ok (s2l "int"); Ok (s2l "unsigned int"); Ok (s2l "unsigned int");
     Ok (s2l "unsigned int"); Ok (s2l "unsigned long"); Ok (s2l "long"); Ok (s2l "int"); Ok (s2l "long");
     Ok (s2l "unsigned long"); Err CDefError; Ok (s2l "long"); Err CDefError; Ok (s2l "long"); Err CDefError].
Proof. vm_compute. reflexivity. Qed.

Example C10_example_values_and_string :
  build_enum_values [None; None; Some 10; None; Some (-3); None; Some 10] = [0; 1; 10; 11; -3; -2; 10] /\
  map (enum_string [s2l "A"; s2l "B"; s2l "C"; s2l "D"] [5; 7; 5; 7]) [5; 7; 6; -1]
    = [s2l "A"; s2l "B"; s2l "6"; s2l "-1"] /\
  wrap 4 false (-1) = 4294967295 /\ wrap 4 true 4294967295 = -1 /\
  cast_store 4 (-2) = [254; 255; 255; 255] /\ read_raw true [254; 255; 255; 255] = -2 /\
  enum_cast_string 4 false [s2l "A"; s2l "B"] [5; 4294967294] (-2) = s2l "B".
Proof. vm_compute. repeat split; reflexivity. Qed.
