(* C10 — proofs. *)
From Coq Require Import Ascii String ZArith NArith List Bool Lia.
Import ListNotations.
From Cffi Require Import C10.Model C10.Spec C10.Gen.
Open Scope Z_scope.

(* ------------------------------------------------------------------ min / max of a non-empty list *)
Lemma fold_min_le_acc : forall l a, fold_left Z.min l a <= a.
Proof. induction l as [|x l IH]; cbn; intros a; [lia|]. specialize (IH (Z.min a x)). lia. Qed.

Lemma fold_min_le_in : forall l a x, In x l -> fold_left Z.min l a <= x.
Proof.
  induction l as [|y l IH]; cbn; intros a x H; [contradiction|]. destruct H as [->|H].
  - pose proof (fold_min_le_acc l (Z.min a x)). lia.
  - apply IH. exact H.
Qed.

Lemma fold_min_in : forall l a, fold_left Z.min l a = a \/ In (fold_left Z.min l a) l.
Proof.
  induction l as [|y l IH]; cbn; intros a; [left; reflexivity|].
  destruct (IH (Z.min a y)) as [H|H].
  - rewrite H. destruct (Z.min_spec a y) as [[_ E]|[_ E]]; rewrite E; [left|right; left]; reflexivity.
  - right. right. exact H.
Qed.

Lemma fold_max_ge_acc : forall l a, a <= fold_left Z.max l a.
Proof. induction l as [|x l IH]; cbn; intros a; [lia|]. specialize (IH (Z.max a x)). lia. Qed.

Lemma fold_max_ge_in : forall l a x, In x l -> x <= fold_left Z.max l a.
Proof.
  induction l as [|y l IH]; cbn; intros a x H; [contradiction|]. destruct H as [->|H].
  - pose proof (fold_max_ge_acc l (Z.max a x)). lia.
  - apply IH. exact H.
Qed.

Lemma fold_max_in : forall l a, fold_left Z.max l a = a \/ In (fold_left Z.max l a) l.
Proof.
  induction l as [|y l IH]; cbn; intros a; [left; reflexivity|].
  destruct (IH (Z.max a y)) as [H|H].
  - rewrite H. destruct (Z.max_spec a y) as [[_ E]|[_ E]]; rewrite E; [right; left|left]; reflexivity.
  - right. right. exact H.
Qed.

Lemma list_min_spec : forall l, l <> [] -> In (list_min l) l /\ forall x, In x l -> list_min l <= x.
Proof.
  intros [|a l] H; [congruence|]. cbn [list_min]. split.
  - destruct (fold_min_in l a) as [E|E]; [rewrite E; left; reflexivity | right; exact E].
  - intros x [->|Hx]; [apply fold_min_le_acc | apply fold_min_le_in; exact Hx].
Qed.

Lemma list_max_spec : forall l, l <> [] -> In (list_max l) l /\ forall x, In x l -> x <= list_max l.
Proof.
  intros [|a l] H; [congruence|]. cbn [list_max]. split.
  - destruct (fold_max_in l a) as [E|E]; [rewrite E; left; reflexivity | right; exact E].
  - intros x [->|Hx]; [apply fold_max_ge_acc | apply fold_max_ge_in; exact Hx].
Qed.

(* a property "lo <= v < hi for all v" of a non-empty list is a property of its min and max *)
Lemma forallb_range : forall l lo hi, l <> [] ->
  forallb (fun v => (lo <=? v) && (v <? hi)) l = ((lo <=? list_min l) && (list_max l <? hi)).
Proof.
  intros l lo hi Hne. destruct (list_min_spec l Hne) as [Hmi Hml]. destruct (list_max_spec l Hne) as [Hxi Hxl].
  apply Bool.eq_true_iff_eq. rewrite forallb_forall, andb_true_iff, Z.leb_le, Z.ltb_lt. split.
  - intros H. pose proof (H _ Hmi) as A. pose proof (H _ Hxi) as B.
    rewrite andb_true_iff, Z.leb_le, Z.ltb_lt in A, B. lia.
  - intros [A B] x Hx. rewrite andb_true_iff, Z.leb_le, Z.ltb_lt. specialize (Hml _ Hx). specialize (Hxl _ Hx). lia.
Qed.

Lemma existsb_neg : forall l, l <> [] -> existsb (fun v => v <? 0) l = (list_min l <? 0).
Proof.
  intros l Hne. destruct (list_min_spec l Hne) as [Hmi Hml].
  apply Bool.eq_true_iff_eq. rewrite existsb_exists, Z.ltb_lt. split.
  - intros [x [Hx Hn]]. apply Z.ltb_lt in Hn. specialize (Hml _ Hx). lia.
  - intros H. exists (list_min l). split; [exact Hmi | apply Z.ltb_lt; exact H].
Qed.

(* ------------------------------------------------------------------ base type = gcc's *)
Definition ctype_name (b : basetype) : cstr :=
  match b with
  | UInt => s2l "unsigned int" | Int => s2l "int" | ULong => s2l "unsigned long" | Long => s2l "long"
  end.

(* ffi.sizeof of the four candidate types on a platform with sizeof(int)=isz, sizeof(long)=lsz *)
Definition sizes (isz lsz : Z) (name : cstr) : Z :=
  if cstr_eqb name (s2l "int") || cstr_eqb name (s2l "unsigned int") then isz
  else if cstr_eqb name (s2l "long") || cstr_eqb name (s2l "unsigned long") then lsz else 0.

Definition expected (isz lsz : Z) (vals : list Z) : result cstr :=
  match gcc_base isz lsz vals with Some b => Ok (ctype_name b) | None => Err CDefError end.

Lemma shl_m1 : forall k, 0 <= k -> Z.shiftl (- (1)) k = - 2 ^ k.
Proof. intros. rewrite Z.shiftl_mul_pow2 by lia. lia. Qed.
Lemma shl_1 : forall k, 0 <= k -> Z.shiftl 1 k = 2 ^ k.
Proof. intros. rewrite Z.shiftl_mul_pow2 by lia. lia. Qed.

Lemma fits_signed_cond : forall n mn mx, 1 <= n ->
  ((mn >=? Z.shiftl (- (1)) (8 * n - 1)) && (mx <? Z.shiftl 1 (8 * n - 1)))
  = ((- 2 ^ (8 * n - 1) <=? mn) && (mx <? 2 ^ (8 * n - 1))).
Proof. intros. rewrite shl_m1, shl_1 by lia. rewrite Z.geb_leb. reflexivity. Qed.

Lemma fits_unsigned_cond : forall n mn mx, 1 <= n -> 0 <= mn ->
  ((mn >=? Z.shiftl (- (1)) (8 * n - 1)) && (mx <? Z.shiftl 1 (8 * n - 0)))
  = ((0 <=? mn) && (mx <? 2 ^ (8 * n))).
Proof.
  intros n mn mx Hn Hmn. rewrite shl_m1, shl_1 by lia. rewrite Z.geb_leb, Z.sub_0_r.
  assert (0 < 2 ^ (8 * n - 1)) by (apply Z.pow_pos_nonneg; lia).
  replace (- 2 ^ (8 * n - 1) <=? mn) with true by (symmetry; apply Z.leb_le; lia).
  replace (0 <=? mn) with true by (symmetry; apply Z.leb_le; lia). reflexivity.
Qed.

Lemma base_matches_gcc : forall isz lsz vals,
  vals <> [] -> 1 <= isz -> 1 <= lsz ->
  build_baseinttype (sizes isz lsz) vals = expected isz lsz vals.
Proof.
  intros isz lsz vals Hne Hi Hl.
  unfold expected, gcc_base. rewrite existsb_neg by assumption.
  unfold fits_signed, fits_unsigned. rewrite !forallb_range by assumption.
  unfold build_baseinttype.
  destruct vals as [|v0 vs]; [congruence|].
  set (mn := list_min (v0 :: vs)). set (mx := list_max (v0 :: vs)).
  unfold gen_needs_signed, gen_signed_branch, gen_unsigned_branch, gen_fits1, gen_fits2.
  destruct (Z.ltb_spec mn 0) as [Hneg|Hpos].
  - change (sizes isz lsz (s2l "int")) with isz. change (sizes isz lsz (s2l "long")) with lsz.
    rewrite !fits_signed_cond by assumption.
    destruct ((- 2 ^ (8 * isz - 1) <=? mn) && (mx <? 2 ^ (8 * isz - 1))); [reflexivity|].
    destruct ((- 2 ^ (8 * lsz - 1) <=? mn) && (mx <? 2 ^ (8 * lsz - 1))); reflexivity.
  - change (sizes isz lsz (s2l "unsigned int")) with isz. change (sizes isz lsz (s2l "unsigned long")) with lsz.
    rewrite !fits_unsigned_cond by assumption.
    destruct ((0 <=? mn) && (mx <? 2 ^ (8 * isz))); [reflexivity|].
    destruct ((0 <=? mn) && (mx <? 2 ^ (8 * lsz))); reflexivity.
Qed.

(* ------------------------------------------------------------------ enumerator values *)
Fixpoint c_value_from (cur : Z) (decls : list (option Z)) (k : nat) : Z :=
  match k with
  | O => match nth 0%nat decls None with Some v => v | None => cur end
  | S k' => match nth k decls None with Some v => v | None => c_value_from cur decls k' + 1 end
  end.

Lemma c_value_from_0 : forall decls k, c_value_from 0 decls k = c_value decls k.
Proof. induction k as [|k IH]; cbn; [reflexivity|]. rewrite IH. reflexivity. Qed.

Lemma c_value_from_cons : forall d ds cur k,
  c_value_from cur (d :: ds) (S k) =
  c_value_from (match d with Some v => v | None => cur end + 1) ds k.
Proof.
  intros d ds cur. induction k as [|k IH].
  - cbn. destruct ds as [|[v|] ds]; cbn; destruct d; reflexivity.
  - change (c_value_from cur (d :: ds) (S (S k))) with
      (match nth (S k) ds None with Some v => v | None => c_value_from cur (d :: ds) (S k) + 1 end).
    rewrite IH. reflexivity.
Qed.

Lemma assign_values_spec : forall decls cur k, (k < length decls)%nat ->
  nth k (assign_values (fun v => v) (fun v => v) (fun v => v + 1) cur decls) 0 = c_value_from cur decls k.
Proof.
  induction decls as [|d ds IH]; intros cur k Hk; [cbn in Hk; lia|].
  destruct k as [|k].
  - cbn. destruct d; reflexivity.
  - rewrite c_value_from_cons. cbn [assign_values nth]. apply IH. cbn in Hk. lia.
Qed.

Lemma assign_values_length : forall e r n decls cur, length (assign_values e r n cur decls) = length decls.
Proof. induction decls as [|d ds IH]; cbn; intros; [reflexivity|]. rewrite IH. reflexivity. Qed.

Lemma enum_values_correct : forall decls,
  length (build_enum_values decls) = length decls /\
  forall k, (k < length decls)%nat -> nth k (build_enum_values decls) 0 = c_value decls k.
Proof.
  intros decls. unfold build_enum_values. split; [apply assign_values_length|].
  intros k Hk. rewrite <- c_value_from_0.
  change gen_enum_first with 0. apply (assign_values_spec decls 0 k Hk).
Qed.

(* ------------------------------------------------------------------ the value -> name dictionary *)
Lemma dict_get_set : forall d k x v, dict_get (dict_set d k x) v = if v =? k then Some x else dict_get d v.
Proof.
  induction d as [|[k' x'] d IH]; intros k x v; cbn.
  - reflexivity.
  - destruct (Z.eqb_spec k k') as [->|Hne]; cbn.
    + destruct (v =? k'); reflexivity.
    + rewrite IH. destruct (Z.eqb_spec v k') as [->|]; [|reflexivity].
      destruct (Z.eqb_spec k' k); [congruence|reflexivity].
Qed.

Fixpoint last_match (ps : list (Z * cstr)) (v : Z) : option cstr :=
  match ps with
  | [] => None
  | p :: ps' => match last_match ps' v with
                | Some x => Some x
                | None => if v =? fst p then Some (snd p) else None
                end
  end.

Fixpoint first_match (ps : list (Z * cstr)) (v : Z) : option cstr :=
  match ps with
  | [] => None
  | p :: ps' => if v =? fst p then Some (snd p) else first_match ps' v
  end.

Lemma fold_set_get : forall ps d v,
  dict_get (fold_left (fun d kv => dict_set d (fst kv) (snd kv)) ps d) v =
  match last_match ps v with Some x => Some x | None => dict_get d v end.
Proof.
  induction ps as [|p ps IH]; intros d v; cbn; [reflexivity|].
  rewrite IH. destruct (last_match ps v); [reflexivity|]. rewrite dict_get_set. destruct (v =? fst p); reflexivity.
Qed.

Lemma last_match_app : forall a b v,
  last_match (a ++ b) v = match last_match b v with Some x => Some x | None => last_match a v end.
Proof.
  induction a as [|p a IH]; intros b v; cbn.
  - destruct (last_match b v); reflexivity.
  - rewrite IH. destruct (last_match b v); reflexivity.
Qed.

Lemma last_match_rev : forall ps v, last_match (rev ps) v = first_match ps v.
Proof.
  induction ps as [|p ps IH]; intros v; cbn; [reflexivity|].
  rewrite last_match_app. cbn. destruct (v =? fst p); [reflexivity|]. apply IH.
Qed.

Lemma first_match_combine : forall names vals v,
  first_match (combine vals names) v = first_name names vals v.
Proof.
  induction names as [|nm names IH]; intros [|x vals] v; cbn; try reflexivity.
  rewrite Z.eqb_sym. destruct (x =? v); [reflexivity|]. apply IH.
Qed.

Lemma dict2_is_first_name : forall names vals v,
  dict_get (build_dict2 names vals) v = first_name names vals v.
Proof.
  intros. unfold build_dict2. rewrite fold_set_get, last_match_rev, first_match_combine.
  destruct (first_name names vals v); reflexivity.
Qed.

Lemma enum_string_correct : forall names vals v,
  enum_string names vals v = match first_name names vals v with Some nm => nm | None => decimal v end.
Proof. intros. unfold enum_string. rewrite dict2_is_first_name. reflexivity. Qed.

(* a value of the base type's range is what a cdata of that type holds *)
Lemma wrap_in_range : forall size signed v, 1 <= size ->
  (signed = true -> - 2 ^ (8 * size - 1) <= v < 2 ^ (8 * size - 1)) ->
  (signed = false -> 0 <= v < 2 ^ (8 * size)) ->
  wrap size signed v = v.
Proof.
  intros size signed v Hs Hr1 Hr2. unfold wrap.
  assert (E : 2 ^ (8 * size) = 2 * 2 ^ (8 * size - 1)).
  { replace (8 * size) with (1 + (8 * size - 1)) at 1 by lia. rewrite Z.pow_add_r by lia. reflexivity. }
  assert (P : 0 < 2 ^ (8 * size - 1)) by (apply Z.pow_pos_nonneg; lia).
  destruct signed; cbn [andb]; [specialize (Hr1 eq_refl) | specialize (Hr2 eq_refl)].
  - destruct (Z.leb_spec (2 ^ (8 * size - 1)) (v mod 2 ^ (8 * size))) as [H|H].
    + assert (v < 0).
      { destruct (Z.lt_ge_cases v 0); [assumption|]. rewrite Z.mod_small in H by lia. lia. }
      rewrite <- (Z.mod_unique v (2 ^ (8 * size)) (-1) (v + 2 ^ (8 * size))); lia.
    + destruct (Z.lt_ge_cases v 0) as [Hn|Hp].
      * rewrite <- (Z.mod_unique v (2 ^ (8 * size)) (-1) (v + 2 ^ (8 * size))) in H by lia. lia.
      * apply Z.mod_small. lia.
  - apply Z.mod_small. lia.
Qed.

(* ------------------------------------------------------------------ the encodings of (size, signed) agree *)
Definition enc_ok (size sg : Z) : bool :=
  match py_enum_prim gen_py_enum_prim size sg with
  | Some id => opt_z_eqb (assoc id py_prim) (prim_int c_idents c_prim_int size (sg =? 1)) &&
               match assoc id py_prim with Some i => 0 <=? i | None => false end
  | None => false
  end.

Lemma gen_enc_ok : forallb (fun s => enc_ok s 0 && enc_ok s 1) [1; 2; 4; 8] = true.
Proof. vm_compute. reflexivity. Qed.

Lemma encodings_agree : forall size sg, In size [1; 2; 4; 8] -> In sg [0; 1] ->
  exists id i, py_enum_prim gen_py_enum_prim size sg = Some id /\ assoc id py_prim = Some i /\ 0 <= i /\
               prim_int c_idents c_prim_int size (sg =? 1) = Some i.
Proof.
  intros size sg Hs Hg. pose proof gen_enc_ok as G. rewrite forallb_forall in G. specialize (G _ Hs).
  apply andb_true_iff in G. destruct G as [G0 G1].
  assert (H : enc_ok size sg = true) by (destruct Hg as [<-|[<-|[]]]; assumption). clear G0 G1.
  unfold enc_ok in H. destruct (py_enum_prim gen_py_enum_prim size sg) as [id|] eqn:E1; [|discriminate].
  apply andb_true_iff in H. destruct H as [H1 H2].
  destruct (assoc id py_prim) as [i|] eqn:E2; [|discriminate].
  destruct (prim_int c_idents c_prim_int size (sg =? 1)) as [j|] eqn:E3; cbn in H1; [|discriminate].
  apply Z.eqb_eq in H1. apply Z.leb_le in H2. subst j. exists id, i. repeat split; assumption.
Qed.

Lemma gen_py_prim_is_c_prim : forall id i, assoc id py_prim = Some i -> assoc id c_idents = Some i.
Proof.
  assert (H : forallb (fun e => opt_z_eqb (assoc (fst e) c_idents) (Some (snd e))) py_prim = true)
    by (vm_compute; reflexivity).
  intros id i Ha. rewrite forallb_forall in H.
  assert (Hin : exists k, In (k, i) py_prim /\ cstr_eqb id k = true).
  { clear H. induction py_prim as [|[k v] l IH]; cbn in Ha; [discriminate|].
    destruct (cstr_eqb id k) eqn:E.
    - inversion Ha; subst. exists k. split; [left; reflexivity | exact E].
    - destruct (IH Ha) as [k' [H1 H2]]. exists k'. split; [right; exact H1 | exact H2]. }
  destruct Hin as [k [Hin Hk]]. specialize (H _ Hin). cbn [fst snd] in H.
  assert (Ek : id = k).
  { clear -Hk. revert k Hk. induction id as [|x id IH]; destruct k as [|y k]; cbn; intros H; try discriminate; [reflexivity|].
    apply andb_true_iff in H. destruct H as [H1 H2]. apply N.eqb_eq in H1. subst. f_equal. apply IH. exact H2. }
  subst k. destruct (assoc id c_idents) as [j|]; cbn in H; [|discriminate]. apply Z.eqb_eq in H. congruence.
Qed.

(* ------------------------------------------------------------------ the enum store: cast then read = wrap *)
Lemma le_bytes_length : forall n v, List.length (le_bytes n v) = n.
Proof. induction n; intros; cbn; [reflexivity|]. rewrite IHn. reflexivity. Qed.

Lemma le_value_bytes : forall n v, le_value (le_bytes n v) = v mod 256 ^ Z.of_nat n.
Proof.
  induction n as [|n IH]; intros v.
  - cbn. rewrite Z.mod_1_r. reflexivity.
  - cbn [le_bytes le_value fold_right]. fold (le_value (le_bytes n (v / 256))). rewrite IH.
    rewrite Nat2Z.inj_succ, Z.pow_succ_r by lia.
    rewrite Z.rem_mul_r by (try lia; apply Z.pow_pos_nonneg; lia). reflexivity.
Qed.

Lemma pow256 : forall n, 256 ^ Z.of_nat n = 2 ^ (8 * Z.of_nat n).
Proof. intros. change 256 with (2 ^ 8). rewrite <- Z.pow_mul_r by lia. reflexivity. Qed.

Lemma cast_read_is_wrap : forall size signed x, (1 <= size <= 8)%nat ->
  read_raw signed (cast_store size x) = wrap (Z.of_nat size) signed x.
Proof.
  intros size signed x Hs. unfold read_raw, cast_store, wrap.
  rewrite le_bytes_length, le_value_bytes, pow256.
  assert (E : (x mod 2 ^ 64) mod 2 ^ (8 * Z.of_nat size) = x mod 2 ^ (8 * Z.of_nat size)).
  { replace (2 ^ 64) with (2 ^ (8 * Z.of_nat size) * 2 ^ (64 - 8 * Z.of_nat size))
      by (rewrite <- Z.pow_add_r by lia; f_equal; lia).
    set (a := 2 ^ (8 * Z.of_nat size)). set (b := 2 ^ (64 - 8 * Z.of_nat size)).
    assert (Ha : 0 < a) by (apply Z.pow_pos_nonneg; lia).
    assert (Hb : 0 < b) by (apply Z.pow_pos_nonneg; lia).
    rewrite Z.rem_mul_r by lia.
    rewrite (Z.mul_comm a ((x / a) mod b)), Z.mod_add by lia.
    apply Z.mod_mod. lia. }
  rewrite E. reflexivity.
Qed.

Lemma string_of_cast : forall size signed names vals x, (1 <= size <= 8)%nat ->
  (signed = true -> - 2 ^ (8 * Z.of_nat size - 1) <= x < 2 ^ (8 * Z.of_nat size - 1)) ->
  (signed = false -> 0 <= x < 2 ^ (8 * Z.of_nat size)) ->
  enum_cast_string size signed names vals x =
  match first_name names vals x with Some nm => nm | None => decimal x end.
Proof.
  intros size signed names vals x Hs H1 H2. unfold enum_cast_string.
  rewrite cast_read_is_wrap by exact Hs. rewrite wrap_in_range by (try assumption; lia).
  apply enum_string_correct.
Qed.

(* ... and for EVERY integer x (out of range included): the string is decided by the wrapped value *)
Lemma string_of_cast_all : forall size signed names vals x, (1 <= size <= 8)%nat ->
  enum_cast_string size signed names vals x =
  match first_name names vals (wrap (Z.of_nat size) signed x) with
  | Some nm => nm
  | None => decimal (wrap (Z.of_nat size) signed x)
  end.
Proof.
  intros size signed names vals x Hs. unfold enum_cast_string.
  rewrite cast_read_is_wrap by exact Hs. apply enum_string_correct.
Qed.
