(* C10 — what the C compiler does with an enum declaration (written independently of the cffi code;
   checked against gcc by the probe program of tools/props/c10.py on every run).

   GCC (C11 6.7.2.2p4 + the GNU extension for enumerators outside the range of int): the enum type is
   compatible with   unsigned int   if no enumerator is negative and all fit in unsigned int,
                     int            if some enumerator is negative and all fit in int,
   otherwise         unsigned long / long   under the same two conditions;
   if not even (unsigned) long can hold all values the declaration has no such type (gcc: "enumeration
   values exceed range of largest integer"). Enumerator values: C11 6.7.2.2p3. *)
From Coq Require Import ZArith List Bool.
Import ListNotations.
Open Scope Z_scope.

Inductive basetype := UInt | Int | ULong | Long.

Definition fits_unsigned (bytes v : Z) : bool := (0 <=? v) && (v <? 2 ^ (8 * bytes)).
Definition fits_signed (bytes v : Z) : bool := (- 2 ^ (8 * bytes - 1) <=? v) && (v <? 2 ^ (8 * bytes - 1)).

(* isz = sizeof(int), lsz = sizeof(long) *)
Definition gcc_base (isz lsz : Z) (vals : list Z) : option basetype :=
  if existsb (fun v => v <? 0) vals then
    if forallb (fits_signed isz) vals then Some Int
    else if forallb (fits_signed lsz) vals then Some Long else None
  else
    if forallb (fits_unsigned isz) vals then Some UInt
    else if forallb (fits_unsigned lsz) vals then Some ULong else None.

Definition base_signed (b : basetype) : bool := match b with Int | Long => true | _ => false end.
Definition base_size (isz lsz : Z) (b : basetype) : Z := match b with UInt | Int => isz | _ => lsz end.

(* C11 6.7.2.2p3: an enumerator with = defines its constant as that value; the first enumerator without =
   is 0; each subsequent enumerator without = is the previous constant plus 1.
   c_value decls k = value of the k-th enumerator (decls: Some v = explicit value v, None = no `=`). *)
Fixpoint c_value (decls : list (option Z)) (k : nat) : Z :=
  match k with
  | O => match nth 0%nat decls None with Some v => v | None => 0 end
  | S k' => match nth k decls None with Some v => v | None => c_value decls k' + 1 end
  end.

(* ffi.string(): "the name of the first declared enumerator with that value" *)
Fixpoint first_name {A} (names : list A) (vals : list Z) (v : Z) : option A :=
  match names, vals with
  | nm :: names', x :: vals' => if x =? v then Some nm else first_name names' vals' v
  | _, _ => None
  end.
