(* C09/C30 — Python primitives used by the regenerated evaluator (C09/Gen.v): results with explicit
   exception classes, and the integer operators of Python 3 with their implicit exceptions.
   Hand-written; validated against CPython by the correspondence run of tools/props/c09.py
   (every generated expression goes through the real operators). *)
From Coq Require Import ZArith Bool.
Open Scope Z_scope.

Inductive pyexn :=
| CDefError | FFIError                       (* cffi's own errors *)
| ZeroDivisionError | ValueError | IndexError | KeyError | MemoryError | TypeError.

Inductive res (A : Type) := Ok (a : A) | Err (e : pyexn).
Arguments Ok {A} a.
Arguments Err {A} e.

Definition bind {A B} (x : res A) (f : A -> res B) : res B :=
  match x with Ok a => f a | Err e => Err e end.
Definition bind2 {A B C} (x : res A) (y : res B) (f : A -> B -> res C) : res C :=
  bind x (fun a => bind y (fun b => f a b)).          (* left operand first *)

(* a // b, a % b : floor division; Coq's Z.div / Z.modulo have Python's sign convention *)
Definition py_floordiv (a b : Z) : res Z := if b =? 0 then Err ZeroDivisionError else Ok (a / b).
Definition py_mod (a b : Z) : res Z := if b =? 0 then Err ZeroDivisionError else Ok (a mod b).
(* a << b, a >> b : ValueError("negative shift count"); a huge left shift of a non-zero value
   exhausts memory (MemoryError / OverflowError, the limit depends on the machine: not modelled,
   the generators keep shift counts small) *)
Definition py_lshift (a b : Z) : res Z := if b <? 0 then Err ValueError else Ok (Z.shiftl a b).
(* (Z.shiftr iterates b times; the first branch gives the same result at once when 2^b > |a|, so that the model
   can be evaluated on counts like 2^64 - 1 as CPython can: lemma py_rshift_spec in C09/Proofs.v) *)
Definition py_rshift (a b : Z) : res Z :=
  if b <? 0 then Err ValueError
  else if Z.log2 (Z.abs a) <? b then Ok (if a <? 0 then -1 else 0)
  else Ok (Z.shiftr a b).

(* short-circuit `and` on results *)
Definition and_then (x : res bool) (y : res bool) : res bool :=
  bind x (fun t => if t then y else Ok false).

(* ------------------------------------------------------------------ digit strings *)
From Coq Require Import NArith List.
Import ListNotations.

Definition text := list N.

Definition n_in (lo hi c : N) : bool := (N.leb lo c) && (N.leb c hi).
(* value of a character used as a digit (0-9, a-z, A-Z as Python's int() and C's hex digits do) *)
Definition digit_val (c : N) : option Z :=
  if n_in 48 57 c then Some (Z.of_N c - 48)
  else if n_in 97 122 c then Some (Z.of_N c - 87)
  else if n_in 65 90 c then Some (Z.of_N c - 55)
  else None.

(* the number denoted by a string of digits in the given base; None if a character is not a digit
   of that base *)
Fixpoint parse_digits (base acc : Z) (s : text) : option Z :=
  match s with
  | [] => Some acc
  | c :: r =>
      match digit_val c with
      | Some d => if d <? base then parse_digits base (acc * base + d) r else None
      | None => None
      end
  end.

Fixpoint assoc (k : N) (l : list (N * Z)) : option Z :=
  match l with
  | [] => None
  | (k', v) :: l' => if N.eqb k k' then Some v else assoc k l'
  end.

Definition text_eqb (a b : text) : bool :=
  (Nat.eqb (length a) (length b)) && forallb (fun p => N.eqb (fst p) (snd p)) (combine a b).
Fixpoint lookup {A : Type} (k : text) (env : list (text * A)) : option A :=
  match env with
  | [] => None
  | (k', v) :: env' => if text_eqb k k' then Some v else lookup k env'
  end.

From Coq Require Import String.
(* ------------------------------------------------------------------ expressions (pycparser's c_ast shapes) *)
Inductive expr :=
| Const (s : text)                       (* c_ast.Constant: the token text *)
| Id (name : text)                       (* c_ast.ID *)
| Unary (op : string) (e : expr)         (* c_ast.UnaryOp *)
| Binary (op : string) (l r : expr)      (* c_ast.BinaryOp *)
| Other.                                 (* any other node: Cast, TernaryOp, FuncCall, ... *)

