(* C09 — Integer constant expressions in cdef evaluate as C evaluates them.
   Statements only; proofs in C09/Proofs.v, C09/Proofs2.v, C09/Proofs3.v.
   py_eval, c_div, binop, unop, simple_escapes: cffi's evaluator, C09/Gen.v regenerated from
   src/cffi/cparser.py on every run + the hand model of literal scanning (C09/Model.v).
   c_eval: typed C evaluation (C09/Spec.v; None = undefined behaviour / not a C constant expression;
   the boolean is the "exact" flag: no conversion changed a value, no unsigned operation wrapped). *)
From Coq Require Import ZArith NArith String Ascii List Bool Lia.
Import ListNotations.
From Cffi Require Import C09.Prim C09.Gen C09.Spec C09.Model C09.Proofs C09.Proofs2 C09.Proofs3.
Open Scope Z_scope.
Open Scope string_scope.

(* TIES (differential runs of tools/props/c09.py on every ./check C09; a disagreement is reported under these names):
     [tie-eval]  "C09.Model.py_eval vs cparser._parse_constant"   Gen.v (c_div, unop, binop, simple_escapes) is regenerated
                 from the source by c09_regen.py; lit_value (literal scanning, no regular expression: str.rstrip / int())
                 is hand-written and tied by this run
     [tie-spec]  "C09.Spec.c_eval vs gcc"                          the C semantics against gcc on every generated tree
   (the regular expression _r_int_literal of the '#define' path is modelled and tied in C30: [tie-macro] there) *)

(* _c_div is C's division (truncation toward zero), for every a and every b <> 0; b = 0 is a CDefError *)
(* [tie-eval: regenerated] *)
Theorem C09_c_div_is_quot : forall a b, b <> 0 -> c_div a b = Ok (Z.quot a b).
Proof. exact c_div_quot. Qed.
Print Assumptions C09_c_div_is_quot.

(* [tie-eval: regenerated] *)
Theorem C09_c_div_zero : forall a, c_div a 0 = Err CDefError.
Proof. exact c_div_zero. Qed.
Print Assumptions C09_c_div_zero.

(* the '%' branch  left - _c_div(left, right) * right  is C's remainder *)
(* [tie-eval: regenerated] *)
Theorem C09_rem_law : forall a b, b <> 0 -> binop "%" a b = Some (Ok (Z.rem a b)).
Proof. exact c_rem. Qed.
Print Assumptions C09_rem_law.

(* every literal the C rules give a value to is either given the same value by cffi, or refused with
   CDefError (multi-digit octal and hex escapes) -- never another value, never another exception *)
(* [tie-eval] [tie-spec] *)
Theorem C09_literals : forall s t v, c_literal s = Some (t, v) ->
  lit_value s = Ok v \/ lit_value s = Err CDefError.
Proof. exact literal_agree. Qed.
Print Assumptions C09_literals.

(* [tie-eval] [tie-spec] *)
Theorem C09_number_literals : forall s t v, number_literal s = Some (t, v) -> lit_value s = Ok v.
Proof. exact number_literal_agree. Qed.
Print Assumptions C09_number_literals.

(* the '#define NAME literal' and 'static const T NAME = [-]literal;' paths (Parser._add_integer_constant, cparser.py:482;
   hand model Model.add_integer_constant, tied by the define/static-const contexts of the correspondence run and by C30's
   [tie-macro]): EVERY C integer literal (any radix, any u/l suffix in either case; C11 6.4.4.1) that is not of gcc's binary
   form 0b... gets the value C gives it, and '-' in front gives its negation.  (binary_form s = the second character is
   b/B; such a text is never offered to this function: _r_int_literal does not match it, and the example below shows that
   the function would raise ValueError on it.)  The value v is the mathematical value of the literal: which C TYPE the
   literal has (and therefore what -literal is in C when that type is unsigned) is outside this statement. *)
(* [tie-eval] *)
Theorem C09_define_value : forall s t v, number_literal s = Some (t, v) -> binary_form s = false ->
  add_integer_constant s = Ok v /\ add_integer_constant (45%N :: s) = Ok (- v).
Proof. exact define_value. Qed.
Print Assumptions C09_define_value.

Example C09_example_define :
  let txt (s : string) := map (fun a => N_of_ascii a) (list_ascii_of_string s) in
  number_literal (txt "0X7fUL") = Some (T RLong false, 127) /\ binary_form (txt "0X7fUL") = false /\
  add_integer_constant (txt "0X7fUL") = Ok 127 /\ add_integer_constant (txt "-0X7fUL") = Ok (-127) /\
  number_literal (txt "0755") = Some (T RInt true, 493) /\ add_integer_constant (txt "0755") = Ok 493 /\
  number_literal (txt "0u") = Some (T RInt false, 0) /\ add_integer_constant (txt "-0u") = Ok 0 /\
  number_literal (txt "18446744073709551615ull") = Some (T RLLong false, 18446744073709551615) /\
  add_integer_constant (txt "18446744073709551615ull") = Ok 18446744073709551615 /\
  (* the excluded form *)
  number_literal (txt "0b11") = Some (T RInt true, 3) /\ binary_form (txt "0b11") = true /\
  add_integer_constant (txt "0b11") = Err ValueError.
Proof. vm_compute. repeat split; reflexivity. Qed.

(* Array-length context, out-of-line modes (type strings parsed at run time, API-mode cdefs): after the parser has
   evaluated the length, it travels in the opcode stream to realize_c_type_or_func_now(), case _CFFI_OP_ARRAY, and from
   there to new_array_type().  Gen.length_path is REGENERATED on every run (tools/props/c09_lenpath.py follows the value
   textually through casts, local variables and static helper functions and records the declared C type of each hop; what
   it cannot follow gets width 0).  Theorem: every length in [0, 2^63) arrives unchanged.  The proof needs every hop to
   be at least 64 bits wide (all_wide, decided by computation on the regenerated list): narrowing any variable, cast or
   parameter on the way (e.g. `int length`) breaks this obligation.  Trusted: the data-flow extraction itself (regular
   expressions over the C text, LP64 width table) and that the C compiler implements the declared types. *)
(* [regenerated] *)
Theorem C09_length_path_preserves : forall v, 0 <= v < 2 ^ 63 -> through length_path v = v.
Proof. exact length_path_preserves. Qed.
Print Assumptions C09_length_path_preserves.

(* the path is not empty and ends in new_array_type's Py_ssize_t; what a 32-bit hop would do (seed C09-c's symptoms:
   char[0x100000010] gets 16 items, a length of 2^31 becomes negative = open array) *)
Example C09_example_length_path :
  (3 <=? length length_path)%nat = true /\ all_wide length_path = true /\
  through [("int length", (true, 32))] (2 ^ 32 + 16) = 16 /\ through [("int length", (true, 32))] (2 ^ 31) = - 2 ^ 31.
Proof. vm_compute. repeat split; reflexivity. Qed.

(* Central statement, proved on the sub-class "exact".  cenv = the integer constants declared earlier with
   their C types (enumerators: int), env = cffi's table _int_constants, holding the same values.
   ACCEPTANCE: every expression tree (any depth) over earlier constants, numeric literals, character
   constants of one (possibly escaped: simple escape or one octal digit) character, unary + - and the ten
   binary operators, whose C evaluation is defined and in which no conversion changes a value and no
   unsigned operation wraps, is accepted by cffi and evaluates to the C value. *)
(* [tie-eval] [tie-spec] *)
Theorem C09_accepted_with_C_value_partial : forall cenv env e t v, env_agree cenv env -> supported e ->
  c_eval cenv e = Some (t, v, true) -> py_eval env e = Ok v.
Proof. exact agree_accepted. Qed.
Print Assumptions C09_accepted_with_C_value_partial.

(* Without the restriction on character constants: the only other outcome is a refusal with CDefError, and
   (C09_literals_strong) that happens only for character constants longer than 'c' / '\e' (multi-digit octal
   and hex escapes), which C defines and cffi does not support. *)
(* [tie-eval] [tie-spec] *)
Theorem C09_agree_partial : forall cenv env e t v, env_agree cenv env -> c_eval cenv e = Some (t, v, true) ->
  py_eval env e = Ok v \/ py_eval env e = Err CDefError.
Proof. exact agree_exact. Qed.
Print Assumptions C09_agree_partial.

(* [tie-eval] [tie-spec] *)
Theorem C09_literals_strong : forall s t v, c_literal s = Some (t, v) ->
  lit_value s = Ok v \/ (lit_value s = Err CDefError /\ (5 <= length s)%nat /\ hd 0%N s = 39%N).
Proof. exact literal_agree_strong. Qed.
Print Assumptions C09_literals_strong.

(* ... in the words of the property: an accepted expression of that class has the C value *)
(* [tie-eval] [tie-spec] *)
Theorem C09_accepted_value_partial : forall cenv env e t v v', env_agree cenv env ->
  c_eval cenv e = Some (t, v, true) -> py_eval env e = Ok v' -> v' = v.
Proof. exact accepted_value. Qed.
Print Assumptions C09_accepted_value_partial.

(* The full statement (without the exact flag) is false: known finding unsigned_arith *)
Definition C09_full_statement : Prop :=
  forall e t v f v', c_eval [] e = Some (t, v, f) -> py_eval [] e = Ok v' -> v' = v.


(* 0u - 1 : C 4294967295 (unsigned int), cffi -1 *)
Theorem C09_refuted_0u_minus_1 :
  c_eval [] (Binary "-" (lit "0u") (lit "1")) = Some (T RInt false, 4294967295, false) /\
  py_eval [] (Binary "-" (lit "0u") (lit "1")) = Ok (-1).
Proof. exact refuted_0u_minus_1. Qed.
Print Assumptions C09_refuted_0u_minus_1.

(* 0xFFFFFFFF + 1 : the literal is unsigned int; C 0, cffi 2^32 *)
Theorem C09_refuted_hex_plus_1 :
  c_eval [] (Binary "+" (lit "0xFFFFFFFF") (lit "1")) = Some (T RInt false, 0, false) /\
  py_eval [] (Binary "+" (lit "0xFFFFFFFF") (lit "1")) = Ok 4294967296.
Proof. exact refuted_hex_plus_1. Qed.
Print Assumptions C09_refuted_hex_plus_1.

(* -0x80000000 : C 2147483648 (unsigned int), cffi -2147483648 *)
Theorem C09_refuted_neg_hex :
  c_eval [] (Unary "-" (lit "0x80000000")) = Some (T RInt false, 2147483648, false) /\
  py_eval [] (Unary "-" (lit "0x80000000")) = Ok (-2147483648).
Proof. exact refuted_neg_hex. Qed.
Print Assumptions C09_refuted_neg_hex.

(* [tie-eval] [tie-spec] *)
Theorem C09_refuted : ~ C09_full_statement.
Proof. exact full_statement_refuted. Qed.
Print Assumptions C09_refuted.

(* ---- non-vacuity: expressions of the exact class with negative operands, all operators, all radixes ---- *)
Example C09_example_exact :
  let e := Binary "+" (Binary "/" (Unary "-" (lit "7")) (lit "2"))
            (Binary "*" (Binary "%" (Unary "-" (lit "7")) (lit "2"))
               (Binary "|" (Binary "<<" (lit "0x1fUL") (lit "3")) (Binary ">>" (Unary "-" (lit "017")) (lit "0b1")))) in
  c_eval [] e = Some (T RLong false, 5, false) /\       (* long mixed with unsigned long: not exact *)
  let e2 := Binary "+" (Binary "/" (Unary "-" (lit "7")) (lit "2"))
            (Binary "*" (Binary "%" (Unary "-" (lit "7")) (lit "2"))
               (Binary "|" (Binary "<<" (lit "0x1fL") (lit "3")) (Binary ">>" (Unary "-" (lit "017")) (lit "0b1")))) in
  c_eval [] e2 = Some (T RLong true, 5, true) /\ py_eval [] e2 = Ok 5 /\ supported e2 /\
  c_eval [] (lit "'\n'") = Some (T RInt true, 10, true) /\ py_eval [] (lit "'\n'") = Ok 10 /\
  c_eval [] (lit "'\0'") = Some (T RInt true, 0, true) /\ py_eval [] (lit "'\0'") = Ok 0 /\
  c_eval [] (lit "'\12'") = Some (T RInt true, 10, true) /\ py_eval [] (lit "'\12'") = Err CDefError.
Proof. vm_compute. repeat split; try reflexivity; intros; try discriminate; lia. Qed.

(* an earlier enumerator K = 7 (int) used in a later expression: (K << 2) - 'a' *)
Example C09_example_env :
  let cenv := [([75%N], (T RInt true, 7))] in
  let env := [([75%N], 7)] in
  let e := Binary "-" (Binary "<<" (Id [75%N]) (lit "2")) (lit "'a'") in
  env_agree cenv env /\ supported e /\ c_eval cenv e = Some (T RInt true, -69, true) /\ py_eval env e = Ok (-69).
Proof.
  intros cenv env e. split; [|split; [|split]].
  - intros n t v. unfold cenv, env. simpl. destruct (text_eqb n [75%N]); [intros H; now inversion H|discriminate].
  - simpl. unfold supported_literal. repeat split; intros; simpl; try lia; try discriminate.
  - vm_compute. reflexivity.
  - vm_compute. reflexivity.
Qed.
