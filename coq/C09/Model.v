(* C09 — model of cffi's evaluation of integer constant expressions
   (src/cffi/cparser.py, Parser._parse_constant and Parser._add_integer_constant).

   Regenerated from the source (C09/Gen.v): _c_div, the unary/binary operator dispatch, _simple_escapes.
   Hand-written here (tied by correspondence; the translator refuses to regenerate when the shape of
   this code changes, tools/props/c09_shapes.txt): the scanning of literals in the Constant branch,
   the identifier branches, the final `raise FFIError`, and _add_integer_constant.
   Domain of the literal functions: token texts that pycparser's lexer can produce (letters, digits,
   '.', quotes, backslash; no blanks, signs or '_', for which Python's int() has extra rules). *)
From Coq Require Import ZArith NArith String Ascii List Bool.
Import ListNotations.
From Cffi Require Import C09.Prim C09.Gen.
Open Scope Z_scope.

(* ------------------------------------------------------------------ Python's int(s, base) on a token *)
Definition lower (c : N) : N := if n_in 65 90 c then (c + 32)%N else c.
(* "0x"/"0o"/"0b" prefix letter accepted by int() for that base *)
Definition prefix_ok (base : Z) (p : N) : bool :=
  let p := lower p in
  ((base =? 16) && N.eqb p 120) || ((base =? 8) && N.eqb p 111) || ((base =? 2) && N.eqb p 98).
Definition strip_prefix (base : Z) (s : text) : text :=
  match s with
  | z :: p :: r => if N.eqb z 48 && prefix_ok base p then r else s
  | _ => s
  end.
Definition py_int (base : Z) (s : text) : option Z :=          (* None = ValueError *)
  match strip_prefix base s with
  | [] => None
  | b => parse_digits base 0 b
  end.

(* ------------------------------------------------------------------ the Constant branch, cparser.py:886-909 *)
Definition is_ul (c : N) : bool := N.eqb c 117 || N.eqb c 85 || N.eqb c 108 || N.eqb c 76.
Fixpoint skip_while (p : N -> bool) (s : text) : text :=
  match s with c :: r => if p c then skip_while p r else s | [] => [] end.
Definition rstrip_ul (s : text) : text := rev (skip_while is_ul (rev s)).      (* s.rstrip('uUlL') *)
Definition starts0 (s : text) : bool := match s with c :: _ => N.eqb c 48 | [] => false end.
Definition prefix2_is (s : text) (x : N) : bool :=                              (* s.lower()[0:2] == '0' + x *)
  match s with
  | a :: b :: _ => N.eqb (lower a) 48 && N.eqb (lower b) x
  | _ => false
  end.
Definition last_is (s : text) (x : N) : bool := match rev s with c :: _ => N.eqb c x | [] => false end.

(* the number branch, applied to s.rstrip('uUlL') *)
Definition num_value (s1 : text) : res Z :=
  match (if starts0 s1 then py_int 8 s1 else py_int 10 s1) with
  | Some v => Ok v
  | None =>
      if (1 <? Z.of_nat (length s1)) then
        if prefix2_is s1 120 then
          match py_int 16 s1 with Some v => Ok v | None => Err CDefError end    (* inner try/except ValueError: pass *)
        else if prefix2_is s1 98 then
          match py_int 2 s1 with Some v => Ok v | None => Err CDefError end
        else Err CDefError
      else Err CDefError
  end.
(* the character-constant branches (s[0] == s[-1] == "'" already tested) *)
Definition char_value (s : text) : res Z :=
  match s with
  | [_; c; _] => if negb (N.eqb c 92) then Ok (Z.of_N c) else Err CDefError
  | [_; b; e; _] => if N.eqb b 92 then
                      match assoc e simple_escapes with Some v => Ok v | None => Err CDefError end
                    else Err CDefError
  | _ => Err CDefError
  end.
Definition lit_value (s : text) : res Z :=
  match s with
  | [] => Err IndexError                                    (* s[0]; the lexer never gives an empty token *)
  | c0 :: _ =>
      if n_in 48 57 c0 then num_value (rstrip_ul s)
      else if N.eqb c0 39 && last_is s 39 then char_value s
      else Err CDefError
  end.

(* ------------------------------------------------------------------ _parse_constant *)
(* env = self._int_constants.  Order of evaluation and of the tests as in the source:
   Constant; unary + and - (operand evaluated inside the branch); known identifier; '[...]' marker
   (partial_length_ok is False for every nested call: FFIError); BinaryOp: left, right, then the
   dispatch; everything else: FFIError. *)
Fixpoint py_eval (env : list (text * Z)) (e : expr) : res Z :=
  match e with
  | Const s => lit_value s
  | Unary op e1 =>
      match unop op with
      | Some f => bind (py_eval env e1) f
      | None => Err FFIError
      end
  | Id name =>
      match lookup name env with
      | Some v => Ok v
      | None => Err FFIError
      end
  | Binary op l r =>
      bind (py_eval env l) (fun a =>
      bind (py_eval env r) (fun b =>
      match binop op a b with
      | Some x => x
      | None => Err FFIError
      end))
  | Other => Err FFIError
  end.

(* ------------------------------------------------------------------ _add_integer_constant, cparser.py:469-482
   (called only on strings accepted by _r_int_literal, or on '-' + such a string) *)
Definition rstrip_ul_lower (s : text) : text :=
  rev (skip_while (fun c => N.eqb c 117 || N.eqb c 108) (rev (map lower s))).       (* .lower().rstrip("ul") *)
Definition starts_0x (s : text) : bool :=
  match s with a :: b :: _ => N.eqb a 48 && N.eqb b 120 | _ => false end.
(* int(s, 0): the prefix decides the base; a plain number may not have leading zeros *)
Definition nonempty_digits (base : Z) (r : text) : option Z :=
  match r with [] => None | _ => parse_digits base 0 r end.
Definition py_int0 (s : text) : option Z :=
  match s with
  | [] => None
  | z :: rest =>
      if N.eqb z 48 then
        match rest with
        | [] => parse_digits 10 0 s
        | p :: r =>
            let p := lower p in
            if N.eqb p 120 then nonempty_digits 16 r
            else if N.eqb p 111 then nonempty_digits 8 r
            else if N.eqb p 98 then nonempty_digits 2 r
            else if forallb (fun c => N.eqb c 48) (p :: r) then Some 0 else None
        end
      else parse_digits 10 0 s
  end.
Definition add_integer_constant (int_str : text) : res Z :=
  let s := rstrip_ul_lower int_str in
  let neg := match s with c :: _ => N.eqb c 45 | [] => false end in
  let s := if neg then tl s else s in
  let s := if starts0 s && negb (text_eqb s [48%N]) && negb (starts_0x s) then 48%N :: 111%N :: tl s else s in
  match py_int0 s with
  | Some v => Ok (if neg then - v else v)
  | None => Err ValueError
  end.

(* ------------------------------------------------------------------ for the correspondence *)
Definition exn_code (e : pyexn) : Z :=
  match e with
  | CDefError => 1 | FFIError => 2 | ZeroDivisionError => 3 | ValueError => 4
  | IndexError => 5 | KeyError => 6 | MemoryError => 7 | TypeError => 8
  end.
(* (0, value) or (exception code, 0) *)
Definition res_out (r : res Z) : Z * Z := match r with Ok v => (0, v) | Err e => (exn_code e, 0) end.
Definition py_eval_out (e : expr) : Z * Z := res_out (py_eval [] e).

(* a literal token given as a Coq string (for examples and witnesses) *)
Definition lit (s : string) : expr := Const (map (fun a => N_of_ascii a) (list_ascii_of_string s)).
