(* C09 — the '#define NAME literal' / 'static const int NAME = [-]literal;' path: Parser._add_integer_constant
   (cparser.py:482; Model.add_integer_constant) gives every C integer literal, and its negation, the value C gives it
   (Spec.number_literal, C11 6.4.4.1 + gcc's 0b), except the binary form 0b..., which int(s, 0) is never offered
   unchanged (the octal fix-up turns "0b1" into "0ob1": ValueError; _r_int_literal does not accept it). *)
From Coq Require Import ZArith NArith String List Bool Lia ZifyBool.
Import ListNotations.
From Cffi Require Import C09.Prim C09.Gen C09.Spec C09.Model C09.Proofs C09.Proofs2.
Open Scope Z_scope.
Local Open Scope list_scope.

(* ------------------------------------------------------------------ lower-casing does not change digit values *)
Lemma digit_val_lower : forall c, digit_val (lower c) = digit_val c.
Proof.
  intros c. unfold lower. destruct (n_in 65 90 c) eqn:U; [|reflexivity].
  unfold n_in in U. apply andb_true_iff in U. destruct U as [U1 U2]. apply N.leb_le in U1, U2.
  unfold digit_val, n_in.
  assert (A : N.leb (c + 32) 57 = false) by (apply N.leb_gt; lia).
  assert (B1 : N.leb 97 (c + 32) = true) by (apply N.leb_le; lia).
  assert (B2 : N.leb (c + 32) 122 = true) by (apply N.leb_le; lia).
  assert (C : N.leb c 57 = false) by (apply N.leb_gt; lia).
  assert (D : N.leb 97 c = false) by (apply N.leb_gt; lia).
  assert (E1 : N.leb 65 c = true) by (apply N.leb_le; lia).
  assert (E2 : N.leb c 90 = true) by (apply N.leb_le; lia).
  rewrite A, B1, B2, C, D, E1, E2, !andb_false_r. cbn [andb]. f_equal. lia.
Qed.

Lemma parse_digits_lower : forall base d acc, parse_digits base acc (map lower d) = parse_digits base acc d.
Proof.
  induction d as [|c d IH]; intros acc; [reflexivity|]. cbn [map parse_digits]. rewrite digit_val_lower.
  destruct (digit_val c) as [x|]; [|reflexivity]. destruct (x <? base); [apply IH|reflexivity].
Qed.

(* ------------------------------------------------------------------ .lower().rstrip("ul") = lower-case of .rstrip("uUlL") *)
Definition lu (c : N) : bool := N.eqb c 117 || N.eqb c 108.
Lemma lu_lower : forall c, lu (lower c) = is_ul c.
Proof. intros c. unfold lu, is_ul, lower, n_in. destruct (N.leb 65 c && N.leb c 90) eqn:U; lia. Qed.
Lemma skip_map_lower : forall l, skip_while lu (map lower l) = map lower (skip_while is_ul l).
Proof.
  induction l as [|c l IH]; [reflexivity|]. simpl. rewrite lu_lower. destruct (is_ul c); [assumption|reflexivity].
Qed.
Lemma rstrip_lower : forall s, rstrip_ul_lower s = map lower (rstrip_ul s).
Proof.
  intros s. unfold rstrip_ul_lower, rstrip_ul. change (fun c : N => (N.eqb c 117 || N.eqb c 108)%bool) with lu.
  now rewrite <- map_rev, skip_map_lower, map_rev.
Qed.
Lemma skip_while_snoc : forall (p : N -> bool) l c, p c = false -> skip_while p (l ++ [c]) = skip_while p l ++ [c].
Proof.
  induction l as [|a l IH]; intros c H; simpl; [now rewrite H|].
  destruct (p a); [now apply IH|reflexivity].
Qed.
Lemma rstrip_minus : forall r, rstrip_ul (45%N :: r) = 45%N :: rstrip_ul r.
Proof.
  intros r. unfold rstrip_ul. simpl rev. rewrite skip_while_snoc by reflexivity. now rewrite rev_unit.
Qed.

(* ------------------------------------------------------------------ the shape of an accepted C literal once its suffix is stripped *)
(* a literal whose second character is b/B *)
Definition binary_form (s : text) : bool := match s with _ :: c :: _ => is_b c | _ => false end.

Inductive lit_shape (v : Z) : text -> Prop :=
| ShHex : forall c d, is_x c = true -> d <> [] -> parse_digits 16 0 d = Some v -> lit_shape v (48%N :: c :: d)
| ShOct : forall d, forallb is_oct d = true -> parse_digits 8 0 (48%N :: d) = Some v -> lit_shape v (48%N :: d)
| ShDec : forall c r, N.eqb c 48 = false -> is_dec c = true -> parse_digits 10 0 (c :: r) = Some v -> lit_shape v (c :: r).

Lemma number_literal_shape : forall s t v, number_literal s = Some (t, v) -> binary_form s = false ->
  lit_shape v (rstrip_ul s).
Proof.
  intros s t v H NB. unfold number_literal in H. destruct s as [|c0 r0]; [discriminate|].
  destruct (N.eqb c0 48) eqn:Z0.
  - apply N.eqb_eq in Z0. subst c0.
    destruct r0 as [|c r].
    + apply finish_inv in H. destruct H as (_ & Hv & _). apply (ShOct v []); [reflexivity|exact Hv].
    + destruct (is_x c) eqn:X; [|destruct (is_b c) eqn:B].
      * destruct (span is_hex r) as [d suf] eqn:S. apply span_spec in S. destruct S as [-> Fd].
        apply finish_inv in H. destruct H as (Hne & Hv & Hs).
        destruct (split_last is_hex d Hne Fd) as (d' & x & -> & Hx).
        change (48%N :: c :: (d' ++ [x]) ++ suf) with (((48%N :: c :: d') ++ [x]) ++ suf).
        rewrite rstrip_ul_app by (auto using hex_not_ul).
        apply ShHex; auto.
      * cbn [binary_form] in NB. congruence.
      * destruct (span is_oct (c :: r)) as [d suf] eqn:S. apply span_spec in S. destruct S as [E Fd].
        rewrite E. apply finish_inv in H. destruct H as (_ & Hv & Hs).
        assert (L : exists pre x, 48%N :: d = pre ++ [x] /\ is_ul x = false).
        { destruct d as [|d0 ds].
          - exists [], 48%N. auto.
          - destruct (split_last is_oct (d0 :: ds)) as (d' & x & E2 & Hx); [discriminate|assumption|].
            exists (48%N :: d'), x. rewrite E2. auto using oct_not_ul. }
        destruct L as (pre & x & E2 & Hx).
        change (48%N :: d ++ suf) with ((48%N :: d) ++ suf). rewrite E2.
        rewrite rstrip_ul_app by assumption. rewrite <- E2. now apply ShOct.
  - destruct (is_dec c0) eqn:D; [|discriminate].
    destruct (span is_dec (c0 :: r0)) as [d suf] eqn:S. pose proof S as S'. apply span_spec in S. destruct S as [E Fd].
    apply finish_inv in H. destruct H as (Hne & Hv & Hs).
    rewrite E. destruct (split_last is_dec d Hne Fd) as (d' & x & E2 & Hx).
    rewrite E2. rewrite rstrip_ul_app by (auto using dec_not_ul). rewrite <- E2.
    simpl in S'. rewrite D in S'. destruct (span is_dec r0) as [a b]. inversion S'; subst.
    apply ShDec; [assumption|assumption|rewrite H0; assumption].
Qed.

(* ------------------------------------------------------------------ the conversion after the sign is taken off *)
Definition oct_fixup (s1 : text) : text :=
  if starts0 s1 && negb (text_eqb s1 [48%N]) && negb (starts_0x s1) then 48%N :: 111%N :: tl s1 else s1.
Definition convert (neg : bool) (s1 : text) : res Z :=
  match py_int0 (oct_fixup s1) with
  | Some v => Ok (if neg then - v else v)
  | None => Err ValueError
  end.
Lemma add_integer_constant_unfold : forall s,
  add_integer_constant s =
  let s1 := rstrip_ul_lower s in
  let neg := match s1 with c :: _ => N.eqb c 45 | [] => false end in
  convert neg (if neg then tl s1 else s1).
Proof. reflexivity. Qed.

Lemma lower_dec : forall c, is_dec c = true -> lower c = c.
Proof. intros c. unfold is_dec, lower, n_in. intros H. destruct (N.leb 65 c && N.leb c 90) eqn:U; [lia|reflexivity]. Qed.

Lemma shape_converts : forall v b, lit_shape v b ->
  py_int0 (oct_fixup (map lower b)) = Some v /\
  match map lower b with c :: _ => N.eqb c 45 | [] => false end = false.
Proof.
  intros v b H. destruct H as [c d X Hne Hv | d Fo Hv | c r C0 D Hv].
  - assert (L : lower c = 120%N) by (unfold is_x in X; assert (C : c = 120%N \/ c = 88%N) by lia; destruct C; subst; reflexivity).
    destruct d as [|d0 ds]; [congruence|]. cbn [map]. change (lower 48) with 48%N. rewrite L. split; [|reflexivity].
    change (oct_fixup (48%N :: 120%N :: lower d0 :: map lower ds)) with (48%N :: 120%N :: lower d0 :: map lower ds).
    change (py_int0 (48%N :: 120%N :: lower d0 :: map lower ds)) with (parse_digits 16 0 (map lower (d0 :: ds))).
    rewrite parse_digits_lower. exact Hv.
  - destruct d as [|d0 ds].
    + split; [|reflexivity]. cbn in Hv. inversion Hv. reflexivity.
    + cbn [forallb] in Fo. apply andb_true_iff in Fo. destruct Fo as [F0 Fs].
      assert (L : lower d0 = d0) by (apply lower_dec; unfold is_oct, is_dec, n_in in *; lia).
      assert (NX : N.eqb d0 120 = false) by (unfold is_oct, n_in in F0; lia).
      cbn [map]. change (lower 48) with 48%N. rewrite L. split; [|reflexivity].
      assert (F : oct_fixup (48%N :: d0 :: map lower ds) = 48%N :: 111%N :: d0 :: map lower ds).
      { unfold oct_fixup, starts0, starts_0x, text_eqb. cbn [length Nat.eqb andb negb tl]. rewrite NX.
        change (N.eqb 48 48) with true. reflexivity. }
      rewrite F.
      change (py_int0 (48%N :: 111%N :: d0 :: map lower ds)) with (parse_digits 8 0 (d0 :: map lower ds)).
      rewrite <- L. change (lower d0 :: map lower ds) with (map lower (d0 :: ds)). rewrite parse_digits_lower.
      exact Hv.
  - assert (L : lower c = c) by (apply lower_dec; exact D).
    cbn [map]. change (lower 48) with 48%N. rewrite L. split.
    + assert (F : oct_fixup (c :: map lower r) = c :: map lower r).
      { unfold oct_fixup, starts0. rewrite C0. reflexivity. }
      rewrite F. unfold py_int0. rewrite C0. rewrite <- L. change (lower c :: map lower r) with (map lower (c :: r)).
      rewrite parse_digits_lower. exact Hv.
    + unfold is_dec, n_in in D. lia.
Qed.

(* ------------------------------------------------------------------ the value theorem *)
Theorem define_value : forall s t v, number_literal s = Some (t, v) -> binary_form s = false ->
  add_integer_constant s = Ok v /\ add_integer_constant (45%N :: s) = Ok (- v).
Proof.
  intros s t v H NB. pose proof (number_literal_shape s t v H NB) as Sh.
  destruct (shape_converts v _ Sh) as [Hc Hh].
  split.
  - rewrite add_integer_constant_unfold. cbv zeta. rewrite rstrip_lower, Hh. unfold convert. rewrite Hc. reflexivity.
  - rewrite add_integer_constant_unfold. cbv zeta. rewrite rstrip_lower, rstrip_minus. cbn [map].
    change (lower 45) with 45%N. change (N.eqb 45 45) with true. cbv iota. cbn [tl]. unfold convert. rewrite Hc. reflexivity.
Qed.

(* ------------------------------------------------------------------ the array length on its way to new_array_type
   Gen.length_path (regenerated from realize_c_type.c / _cffi_backend.c / parse_c_type.h by tools/props/c09_lenpath.py)
   lists the C type of every cast, variable and parameter an out-of-line array length passes through.  conv_to is C's
   conversion to an integer type of that signedness and width (gcc: modulo 2^w, two's complement). *)
Definition conv_to (sg : bool) (w v : Z) : Z :=
  if sg then (v + 2 ^ (w - 1)) mod 2 ^ w - 2 ^ (w - 1) else v mod 2 ^ w.
Definition through (path : list (string * (bool * Z))) (v : Z) : Z :=
  fold_left (fun x h => conv_to (fst (snd h)) (snd (snd h)) x) path v.
Definition all_wide (path : list (string * (bool * Z))) : bool := forallb (fun h => 64 <=? snd (snd h)) path.

Lemma conv_wide : forall sg w v, 64 <= w -> 0 <= v < 2 ^ 63 -> conv_to sg w v = v.
Proof.
  intros sg w v Hw Hv. unfold conv_to.
  assert (P : 2 ^ 63 <= 2 ^ (w - 1)) by (apply Z.pow_le_mono_r; lia).
  assert (Q : 2 ^ w = 2 * 2 ^ (w - 1)) by (rewrite <- Z.pow_succ_r by lia; f_equal; lia).
  destruct sg.
  - rewrite Z.mod_small by lia. lia.
  - apply Z.mod_small. lia.
Qed.

Lemma through_wide : forall path v, all_wide path = true -> 0 <= v < 2 ^ 63 -> through path v = v.
Proof.
  induction path as [|h path IH]; intros v H Hv; [reflexivity|].
  cbn [all_wide forallb] in H. apply andb_true_iff in H. destruct H as [Hh Hp].
  unfold through. cbn [fold_left]. rewrite conv_wide by (try apply Z.leb_le; assumption).
  apply IH; assumption.
Qed.

Theorem length_path_preserves : forall v, 0 <= v < 2 ^ 63 -> through length_path v = v.
Proof. intros v Hv. apply through_wide; [vm_compute; reflexivity | exact Hv]. Qed.
