(* GENERATED from src/cffi/cparser.py by tools/props/c09_regen.py -- do not edit.
   Parser._c_div, the operator dispatch of Parser._parse_constant, _simple_escapes. *)
From Coq Require Import ZArith NArith String List Bool.
Import ListNotations.
From Cffi Require Import C09.Prim.
Open Scope Z_scope.

Definition c_div (a b : Z) : res Z :=
  (bind (bind2 (Ok b) (Ok (0)) (fun x y => Ok (Z.eqb x y))) (fun t => if t then Err CDefError else
   (bind (bind2 (Ok a) (Ok b) py_floordiv) (fun result =>
   (bind (and_then (bind2 (bind2 (Ok a) (Ok (0)) (fun x y => Ok (Z.ltb x y))) (bind2 (Ok b) (Ok (0)) (fun x y => Ok (Z.ltb x y))) (fun x y => Ok (xorb x y))) (bind2 (bind2 (Ok a) (Ok b) py_mod) (Ok (0)) (fun x y => Ok (negb (Z.eqb x y))))) (fun t => bind (if t then (bind2 (Ok result) (Ok (1)) (fun x y => Ok (Z.add x y))) else Ok result) (fun result =>
   (Ok result)))))))).

(* None: no branch of _parse_constant handles this operator (falls through to the final raise) *)
Definition unop (op : string) : option (Z -> res Z) :=
  if String.eqb op "+"%string then Some (fun v : Z => (Ok v)) else
  if String.eqb op "-"%string then Some (fun v : Z => (bind (Ok v) (fun v => Ok (Z.opp v)))) else
  None.

Definition binop (op : string) (left right : Z) : option (res Z) :=
  if (andb (orb (String.eqb op "<<"%string) (String.eqb op ">>"%string)) (negb (andb (Z.leb (0) right) (Z.leb right (1024))))) then Some (Err CDefError) else
  if String.eqb op "+"%string then Some (bind2 (Ok left) (Ok right) (fun x y => Ok (Z.add x y))) else
  if String.eqb op "-"%string then Some (bind2 (Ok left) (Ok right) (fun x y => Ok (Z.sub x y))) else
  if String.eqb op "*"%string then Some (bind2 (Ok left) (Ok right) (fun x y => Ok (Z.mul x y))) else
  if String.eqb op "/"%string then Some (bind2 (Ok left) (Ok right) c_div) else
  if String.eqb op "%"%string then Some (bind2 (Ok left) (bind2 (bind2 (Ok left) (Ok right) c_div) (Ok right) (fun x y => Ok (Z.mul x y))) (fun x y => Ok (Z.sub x y))) else
  if String.eqb op "<<"%string then Some (bind2 (Ok left) (Ok right) py_lshift) else
  if String.eqb op ">>"%string then Some (bind2 (Ok left) (Ok right) py_rshift) else
  if String.eqb op "&"%string then Some (bind2 (Ok left) (Ok right) (fun x y => Ok (Z.land x y))) else
  if String.eqb op "|"%string then Some (bind2 (Ok left) (Ok right) (fun x y => Ok (Z.lor x y))) else
  if String.eqb op "^"%string then Some (bind2 (Ok left) (Ok right) (fun x y => Ok (Z.lxor x y))) else
  None.

Definition simple_escapes : list (N * Z) :=
  [(110%N, 10); (116%N, 9); (114%N, 13); (97%N, 7); (98%N, 8); (102%N, 12); (118%N, 11); (92%N, 92); (39%N, 39); (34%N, 34); (63%N, 63); (48%N, 0); (49%N, 1); (50%N, 2); (51%N, 3); (52%N, 4); (53%N, 5); (54%N, 6); (55%N, 7)].
