(* C09 — proofs about the regenerated evaluator (C09/Gen.v) against the C semantics (C09/Spec.v):
   operators. The literal part is in C09/Proofs2.v. *)
From Coq Require Import ZArith NArith String List Bool Lia ZifyBool.
Import ListNotations.
From Cffi Require Import C09.Prim C09.Gen C09.Spec C09.Model.
Open Scope Z_scope.

Ltac Zify.zify_post_hook ::= Z.to_euclidean_division_equations.

(* ------------------------------------------------------------------ _c_div *)

Lemma c_div_zero : forall a, c_div a 0 = Err CDefError.
Proof. intros. reflexivity. Qed.

Theorem c_div_quot : forall a b, b <> 0 -> c_div a b = Ok (Z.quot a b).
Proof.
  intros a b Hb. unfold c_div, bind2, bind, and_then, py_floordiv, py_mod.
  destruct (Z.eqb_spec b 0) as [E|_]; [contradiction|].
  destruct (Z.ltb_spec a 0), (Z.ltb_spec b 0), (Z.eqb_spec (a mod b) 0); simpl; f_equal; nia.
Qed.

Theorem c_rem : forall a b, b <> 0 ->
  binop "%" a b = Some (Ok (Z.rem a b)).
Proof.
  intros a b Hb. unfold binop. simpl. unfold bind2, bind. rewrite (c_div_quot a b Hb).
  do 2 f_equal. pose proof (Z.quot_rem' a b). lia.
Qed.

(* ------------------------------------------------------------------ Python's shifts *)

Lemma py_rshift_spec : forall a b, 0 <= b -> py_rshift a b = Ok (Z.shiftr a b).
Proof.
  intros a b Hb. unfold py_rshift.
  destruct (Z.ltb_spec b 0); [lia|].
  destruct (Z.ltb_spec (Z.log2 (Z.abs a)) b) as [L|L]; [|reflexivity].
  f_equal. rewrite Z.shiftr_div_pow2 by assumption.
  assert (P : Z.abs a < 2 ^ b).
  { destruct (Z.eq_dec a 0) as [->|Ha]; [simpl; apply Z.pow_pos_nonneg; lia|].
    apply Z.log2_lt_pow2; lia. }
  destruct (Z.ltb_spec a 0).
  - apply Z.div_unique with (r := a + 2 ^ b); lia.
  - symmetry. apply Z.div_small. lia.
Qed.

Lemma py_lshift_spec : forall a b, 0 <= b -> py_lshift a b = Ok (a * 2 ^ b).
Proof.
  intros a b Hb. unfold py_lshift. destruct (Z.ltb_spec b 0); [lia|].
  now rewrite Z.shiftl_mul_pow2.
Qed.

(* ------------------------------------------------------------------ the C side, under the exact flag *)

Lemma result_exact : forall t ex f t' v, result t ex f = Some (t', v, true) -> v = ex /\ f = true.
Proof.
  intros t ex f t' v. unfold result. destruct (sgn t).
  - destruct (fits t ex); [|discriminate]. intros H. inversion H; subst. auto.
  - intros H. injection H as H1 H2 H3. apply andb_true_iff in H3. destruct H3 as [Hf He].
    apply Z.eqb_eq in He. subst. auto.
Qed.

Lemma c_arith_exact : forall o ta a tb b f t v,
  c_arith o ta a tb b f = Some (t, v, true) ->
  f = true /\ v = exact_op o a b /\ ((o = Div \/ o = Rem) -> b <> 0).
Proof.
  intros o ta a tb b f t v. unfold c_arith.
  set (T := common ta tb). set (a' := conv T a). set (b' := conv T b).
  intros H.
  assert (G : exists ex, result T ex (f && (a' =? a) && (b' =? b)) = Some (t, v, true)
                         /\ ex = exact_op o a' b' /\ ((o = Div \/ o = Rem) -> b' <> 0)).
  { destruct o; try (eexists; split; [exact H|split; [reflexivity|intros [?|?]; discriminate]]).
    - destruct (Z.eqb_spec b' 0); [discriminate|].
      destruct (sgn T && (a' =? tmin T) && (b' =? -1)); [discriminate|]. eauto.
    - destruct (Z.eqb_spec b' 0); [discriminate|].
      destruct (sgn T && (a' =? tmin T) && (b' =? -1)); [discriminate|]. eauto. }
  destruct G as (ex & R & -> & Hb). apply result_exact in R. destruct R as [-> F].
  apply andb_true_iff in F. destruct F as [F Eb]. apply andb_true_iff in F. destruct F as [F Ea].
  apply Z.eqb_eq in Ea, Eb. rewrite Ea, Eb in *. auto.
Qed.

Lemma bits_le_64 : forall t, bits t <= 64.
Proof. intros t. unfold bits. destruct (rk t); lia. Qed.

Lemma c_shift_exact : forall left ta a b f t v,
  c_shift left ta a b f = Some (t, v, true) ->
  f = true /\ 0 <= b < 64 /\ v = (if left then a * 2 ^ b else Z.shiftr a b).
Proof.
  intros left ta a b f t v. unfold c_shift. pose proof (bits_le_64 ta) as B64.
  destruct (Z.ltb_spec b 0) as [Hlt|Hge]; simpl; [discriminate|].
  destruct (Z.leb_spec (bits ta) b); [discriminate|].
  destruct left.
  - destruct (sgn ta && (a <? 0)); [discriminate|]. intros R. apply result_exact in R.
    destruct R as [-> ->]. repeat split; lia.
  - intros R. inversion R; subst. repeat split; lia.
Qed.

(* ------------------------------------------------------------------ the Python side *)

Lemma binop_arith : forall op o a b, arith_of op = Some o -> ((o = Div \/ o = Rem) -> b <> 0) ->
  binop op a b = Some (Ok (exact_op o a b)).
Proof.
  intros op o a b H Hb. unfold arith_of in H.
  repeat match type of H with
  | (if String.eqb op ?s then _ else _) = _ =>
      destruct (String.eqb_spec op s) as [->|_];
      [inversion H; subst; clear H;
       try reflexivity;
       try (unfold binop; simpl; unfold bind2, bind; rewrite c_div_quot by auto; reflexivity);
       try (apply c_rem; auto)|]
  end.
  discriminate.
Qed.

Lemma binop_shift : forall a b, 0 <= b <= 1024 ->
  binop "<<" a b = Some (Ok (a * 2 ^ b)) /\ binop ">>" a b = Some (Ok (Z.shiftr a b)).
Proof.
  intros a b Hb. unfold binop. simpl.
  assert (G : negb ((0 <=? b) && (b <=? 1024)) = false) by lia.
  rewrite G. unfold bind2, bind.
  rewrite py_lshift_spec, py_rshift_spec by lia. auto.
Qed.

Lemma unop_plus : unop "+" = Some (fun v => Ok v).
Proof. reflexivity. Qed.
Lemma unop_minus : forall v, exists f, unop "-" = Some f /\ f v = Ok (- v).
Proof. intros. eexists. split; reflexivity. Qed.
