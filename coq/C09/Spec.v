(* C09 — specification: how a C compiler (C11, LP64: int 32 bits, long and long long 64 bits,
   two's complement, gcc's choices where C says implementation-defined) evaluates an integer constant
   expression.  Written independently of cffi's evaluator (C09/Model.v, C09/Gen.v); shares only the
   digit-string primitive `parse_digits` of C09/Prim.v.  Validated against gcc on every run
   (tools/props/c09.py).  `None` = undefined behaviour, a constraint violation, or not an
   expression of the class the property speaks about.

   The third component of a result is the "exact" flag: true iff, in the whole evaluation, no
   conversion changed a value and no unsigned operation wrapped, i.e. every C value met so far is the
   mathematical value of its subexpression. *)
From Coq Require Import ZArith NArith String List Bool.
Import ListNotations.
From Cffi Require Import C09.Prim.
Open Scope Z_scope.

(* ------------------------------------------------------------------ integer types of rank >= int *)
Inductive rank := RInt | RLong | RLLong.
Record cty := mk_cty { rk : rank; sgn : bool }.           (* sgn = true: signed *)

Definition rank_num (r : rank) : Z := match r with RInt => 0 | RLong => 1 | RLLong => 2 end.
Definition bits (t : cty) : Z := match rk t with RInt => 32 | _ => 64 end.
Definition tmin (t : cty) : Z := if sgn t then - 2 ^ (bits t - 1) else 0.
Definition tmax (t : cty) : Z := if sgn t then 2 ^ (bits t - 1) - 1 else 2 ^ bits t - 1.
Definition fits (t : cty) (v : Z) : bool := (tmin t <=? v) && (v <=? tmax t).

(* C11 6.3.1.8 usual arithmetic conversions (operands already have rank >= int) *)
Definition common (a b : cty) : cty :=
  if Bool.eqb (sgn a) (sgn b) then
    (if rank_num (rk a) <? rank_num (rk b) then b else a)
  else
    let u := if sgn a then b else a in
    let s := if sgn a then a else b in
    if rank_num (rk s) <=? rank_num (rk u) then u
    else if bits u <? bits s then s
    else mk_cty (rk s) false.

(* C11 6.3.1.3 conversion of a value to type t (to a signed type only ever applied to values that fit) *)
Definition conv (t : cty) (v : Z) : Z := if sgn t then v else v mod 2 ^ bits t.

(* ------------------------------------------------------------------ literals, C11 6.4.4.1 *)
Definition is_x (c : N) := (N.eqb c 120 || N.eqb c 88)%bool.
Definition is_b (c : N) := (N.eqb c 98 || N.eqb c 66)%bool.
Definition is_u (c : N) := (N.eqb c 117 || N.eqb c 85)%bool.

Fixpoint span (p : N -> bool) (s : text) : text * text :=
  match s with
  | c :: r => if p c then let (a, b) := span p r in (c :: a, b) else ([], s)
  | [] => ([], [])
  end.
Definition is_dec (c : N) : bool := n_in 48 57 c.
Definition is_oct (c : N) : bool := n_in 48 55 c.
Definition is_hex (c : N) : bool := n_in 48 57 c || n_in 97 102 c || n_in 65 70 c.
Definition is_bin (c : N) : bool := n_in 48 49 c.

(* suffix -> (unsigned?, number of l's); l/L and ll/LL may not mix cases; u on either side *)
Definition is_l (c : N) := N.eqb c 108.
Definition is_L (c : N) := N.eqb c 76.
Definition long_part (s : text) : option Z :=
  match s with
  | [] => Some 0
  | [a] => if (is_l a || is_L a)%bool then Some 1 else None
  | [a; b] => if ((is_l a && is_l b) || (is_L a && is_L b))%bool then Some 2 else None
  | _ => None
  end.
Definition parse_suffix (s : text) : option (bool * Z) :=
  match s with
  | c :: r => if is_u c then option_map (pair true) (long_part r)
              else match rev s with
                   | d :: r' => if is_u d then option_map (pair true) (long_part (rev r'))
                                else option_map (pair false) (long_part s)
                   | [] => None
                   end
  | [] => Some (false, 0)
  end.

Definition T (r : rank) (s : bool) := mk_cty r s.
(* the candidate types, in order *)
Definition candidates (decimal uns : bool) (ls : Z) : list cty :=
  let from (l : list cty) := filter (fun t => ls <=? rank_num (rk t)) l in
  if uns then from [T RInt false; T RLong false; T RLLong false]
  else if decimal then from [T RInt true; T RLong true; T RLLong true]
  else from [T RInt true; T RInt false; T RLong true; T RLong false; T RLLong true; T RLLong false].
Definition first_fit (v : Z) (l : list cty) : option cty := find (fun t => fits t v) l.

Definition finish (decimal : bool) (base : Z) (digits suffix : text) : option (cty * Z) :=
  match digits with
  | [] => None
  | _ :: _ =>
      match parse_digits base 0 digits, parse_suffix suffix with
      | Some v, Some (uns, ls) => option_map (fun t => (t, v)) (first_fit v (candidates decimal uns ls))
      | _, _ => None
      end
  end.

Definition number_literal (s : text) : option (cty * Z) :=
  match s with
  | [] => None
  | c0 :: r0 =>
      if N.eqb c0 48 then
        match r0 with
        | [] => finish false 8 [48%N] []
        | c :: r =>
            if is_x c then let (d, suf) := span is_hex r in finish false 16 d suf
            else if is_b c then let (d, suf) := span is_bin r in finish false 2 d suf     (* gcc extension *)
            else let (d, suf) := span is_oct r0 in finish false 8 (48%N :: d) suf
        end
      else if is_dec c0 then let (d, suf) := span is_dec s in finish true 10 d suf
      else None
  end.

(* character constants, C11 6.4.4.4: type int; plain char is signed (x86-64) *)
Definition c_escapes : list (N * Z) :=
  [(39%N, 39); (34%N, 34); (63%N, 63); (92%N, 92); (97%N, 7); (98%N, 8); (102%N, 12); (110%N, 10);
   (114%N, 13); (116%N, 9); (118%N, 11)].
Definition as_char (v : Z) : option Z := if v <? 128 then Some v else if v <? 256 then Some (v - 256) else None.
Definition numeric_escape (base : Z) (p : N -> bool) (maxlen : nat) (ds : text) : option Z :=
  match ds with
  | [] => None
  | _ => if (forallb p ds && Nat.leb (length ds) maxlen)%bool then
           match parse_digits base 0 ds with Some v => as_char v | None => None end
         else None
  end.
Definition char_body_value (b : text) : option Z :=
  match b with
  | [] => None
  | [c] => if (N.eqb c 39 || N.eqb c 92 || N.eqb c 10 || negb (N.ltb c 128))%bool then None else Some (Z.of_N c)
  | bs :: e :: rest =>
      if N.eqb bs 92 then
        if N.eqb e 120 then numeric_escape 16 is_hex 1000 rest
        else match rest with
             | [] => match assoc e c_escapes with
                     | Some v => Some v
                     | None => numeric_escape 8 is_oct 3 [e]
                     end
             | _ => numeric_escape 8 is_oct 3 (e :: rest)
             end
      else None
  end.
Definition char_literal (s : text) : option (cty * Z) :=
  match s with
  | q :: body =>
      match rev body with
      | q2 :: rb => if (N.eqb q 39 && N.eqb q2 39)%bool
                    then option_map (fun v => (T RInt true, v)) (char_body_value (rev rb)) else None
      | [] => None
      end
  | [] => None
  end.

Definition c_literal (s : text) : option (cty * Z) :=
  match s with
  | q :: _ => if N.eqb q 39 then char_literal s else number_literal s
  | [] => None
  end.

(* ------------------------------------------------------------------ operators *)
Inductive arith := Add | Sub | Mul | Div | Rem | And | Or | Xor.
Definition arith_of (op : string) : option arith :=
  if String.eqb op "+" then Some Add else if String.eqb op "-" then Some Sub
  else if String.eqb op "*" then Some Mul else if String.eqb op "/" then Some Div
  else if String.eqb op "%" then Some Rem else if String.eqb op "&" then Some And
  else if String.eqb op "|" then Some Or else if String.eqb op "^" then Some Xor else None.

(* the mathematical operation on integers *)
Definition exact_op (o : arith) (a b : Z) : Z :=
  match o with
  | Add => a + b | Sub => a - b | Mul => a * b
  | Div => Z.quot a b | Rem => Z.rem a b            (* C11 6.5.5p6: truncation toward zero *)
  | And => Z.land a b | Or => Z.lor a b | Xor => Z.lxor a b      (* two's complement *)
  end.

Definition result (t : cty) (exact : Z) (flag : bool) : option (cty * Z * bool) :=
  if sgn t then (if fits t exact then Some (t, exact, flag) else None)       (* signed overflow: UB *)
  else let r := exact mod 2 ^ bits t in Some (t, r, flag && (r =? exact)).   (* unsigned: modulo *)

Definition c_arith (o : arith) (ta : cty) (a : Z) (tb : cty) (b : Z) (flag : bool) : option (cty * Z * bool) :=
  let t := common ta tb in
  let a' := conv t a in
  let b' := conv t b in
  let flag' := flag && (a' =? a) && (b' =? b) in
  match o with
  | Div | Rem =>
      if b' =? 0 then None
      else if sgn t && (a' =? tmin t) && (b' =? -1) then None
      else result t (exact_op o a' b') flag'
  | _ => result t (exact_op o a' b') flag'
  end.

Definition c_shift (left : bool) (ta : cty) (a b : Z) (flag : bool) : option (cty * Z * bool) :=
  if (b <? 0) || (bits ta <=? b) then None
  else if left then
    (if sgn ta && (a <? 0) then None else result ta (a * 2 ^ b) flag)
  else Some (ta, Z.shiftr a b, flag).        (* gcc: arithmetic shift of negative values *)

(* cenv: the integer constants declared earlier (enumerators have type int, C11 6.7.2.2) with their C type *)
Fixpoint c_eval (cenv : list (text * (cty * Z))) (e : expr) : option (cty * Z * bool) :=
  match e with
  | Const s => match c_literal s with Some (t, v) => Some (t, v, true) | None => None end
  | Unary op e1 =>
      match c_eval cenv e1 with
      | Some (t, v, f) =>
          if String.eqb op "+" then Some (t, v, f)
          else if String.eqb op "-" then result t (- v) f
          else None
      | None => None
      end
  | Binary op l r =>
      match c_eval cenv l, c_eval cenv r with
      | Some (ta, a, fa), Some (tb, b, fb) =>
          match arith_of op with
          | Some o => c_arith o ta a tb b (fa && fb)
          | None =>
              if String.eqb op "<<" then c_shift true ta a b (fa && fb)
              else if String.eqb op ">>" then c_shift false ta a b (fa && fb)
              else None
          end
      | _, _ => None
      end
  | Id name => match lookup name cenv with Some (t, v) => Some (t, v, true) | None => None end
  | Other => None
  end.

(* for the correspondence with gcc: (rank number, signed, value) *)
Definition c_eval_out_env (cenv : list (text * (cty * Z))) (e : expr) : option (Z * (bool * Z)) :=
  match c_eval cenv e with
  | Some (t, v, _) => Some (rank_num (rk t), (sgn t, v))
  | None => None
  end.
Definition c_eval_out (e : expr) : option (Z * (bool * Z)) := c_eval_out_env [] e.

(* cffi's table of known constants holds the same values *)
Definition env_agree (cenv : list (text * (cty * Z))) (env : list (text * Z)) : Prop :=
  forall n t v, lookup n cenv = Some (t, v) -> lookup n env = Some v.
