(* C09 — literals: the hand model of cffi's literal scanning (Model.lit_value) against the C rules
   (Spec.c_literal); then the agreement theorem and the refutation witnesses. *)
From Coq Require Import ZArith NArith String List Bool Lia ZifyBool.
Import ListNotations.
From Cffi Require Import C09.Prim C09.Gen C09.Spec C09.Model C09.Proofs.
Open Scope Z_scope.

(* ------------------------------------------------------------------ character classes *)
Lemma hex_not_ul : forall c, is_hex c = true -> is_ul c = false.
Proof. intros c. unfold is_hex, is_ul, n_in. lia. Qed.
Lemma oct_not_ul : forall c, is_oct c = true -> is_ul c = false.
Proof. intros c. unfold is_oct, is_ul, n_in. lia. Qed.
Lemma dec_not_ul : forall c, is_dec c = true -> is_ul c = false.
Proof. intros c. unfold is_dec, is_ul, n_in. lia. Qed.
Lemma bin_not_ul : forall c, is_bin c = true -> is_ul c = false.
Proof. intros c. unfold is_bin, is_ul, n_in. lia. Qed.
Lemma zero_not_ul : is_ul 48 = false.
Proof. reflexivity. Qed.

(* ------------------------------------------------------------------ span, suffixes, rstrip *)
Lemma span_spec : forall p s d suf, span p s = (d, suf) -> s = d ++ suf /\ forallb p d = true.
Proof.
  induction s as [|c s IH]; intros d suf H; simpl in H.
  - inversion H; subst. auto.
  - destruct (p c) eqn:E.
    + destruct (span p s) as [a b] eqn:S. inversion H; subst.
      destruct (IH a suf eq_refl) as [-> F]. simpl. rewrite E, F. auto.
    + inversion H; subst. auto.
Qed.

Lemma long_part_ul : forall s z, long_part s = Some z -> forallb is_ul s = true.
Proof.
  intros s z. unfold long_part, is_l, is_L.
  destruct s as [|a [|b [|c r]]]; simpl; try discriminate; auto; unfold is_ul; intros H.
  - destruct (N.eqb a 108) eqn:A, (N.eqb a 76) eqn:B; simpl in *; try discriminate; lia.
  - destruct (N.eqb a 108) eqn:A, (N.eqb a 76) eqn:B, (N.eqb b 108) eqn:C, (N.eqb b 76) eqn:D;
      simpl in *; try discriminate; lia.
Qed.

Lemma is_u_ul : forall c, is_u c = true -> is_ul c = true.
Proof. intros c. unfold is_u, is_ul. lia. Qed.

Lemma forallb_rev : forall (p : N -> bool) l, forallb p (rev l) = forallb p l.
Proof.
  intros p l. destruct (forallb p l) eqn:E.
  - rewrite forallb_forall in *. intros x Hx. apply E. now apply in_rev.
  - destruct (forallb p (rev l)) eqn:F; [|reflexivity].
    rewrite forallb_forall in F. assert (forallb p l = true); [|congruence].
    rewrite forallb_forall. intros x Hx. apply F. now apply -> in_rev.
Qed.

Lemma parse_suffix_ul : forall s x, parse_suffix s = Some x -> forallb is_ul s = true.
Proof.
  intros s x. unfold parse_suffix. destruct s as [|c r]; [reflexivity|].
  destruct (is_u c) eqn:U.
  - destruct (long_part r) eqn:L; [|discriminate]. intros _.
    simpl. now rewrite (is_u_ul _ U), (long_part_ul _ _ L).
  - destruct (rev (c :: r)) as [|d r'] eqn:R; [discriminate|].
    destruct (is_u d) eqn:U2.
    + destruct (long_part (rev r')) eqn:L; [|discriminate]. intros _.
      rewrite <- forallb_rev, R. simpl. rewrite (is_u_ul _ U2).
      rewrite <- forallb_rev. now apply long_part_ul in L.
    + destruct (long_part (c :: r)) eqn:L; [|discriminate]. intros _. now apply long_part_ul in L.
Qed.

Lemma skip_while_app : forall (p : N -> bool) a x rest, forallb p a = true -> p x = false ->
  Model.skip_while p (a ++ x :: rest) = x :: rest.
Proof.
  induction a as [|c a IH]; intros x rest H Hx; simpl.
  - now rewrite Hx.
  - simpl in H. apply andb_true_iff in H. destruct H as [Hc Ha]. rewrite Hc. now apply IH.
Qed.

Lemma rstrip_ul_app : forall pre x suf, is_ul x = false -> forallb is_ul suf = true ->
  rstrip_ul ((pre ++ [x]) ++ suf) = pre ++ [x].
Proof.
  intros pre x suf Hx Hs. unfold rstrip_ul.
  rewrite rev_app_distr, rev_app_distr. simpl.
  rewrite skip_while_app by (rewrite ?forallb_rev; assumption).
  simpl. now rewrite rev_involutive.
Qed.

(* a non-empty list all of whose elements satisfy p ends with an element satisfying p *)
Lemma split_last : forall (p : N -> bool) d, d <> [] -> forallb p d = true ->
  exists d' x, d = d' ++ [x] /\ p x = true.
Proof.
  intros p d Hne H. destruct (exists_last Hne) as (d' & x & ->).
  rewrite forallb_app in H. apply andb_true_iff in H. destruct H as [_ H]. simpl in H.
  rewrite andb_true_r in H. eauto.
Qed.

Lemma finish_inv : forall dec base digits suf t v, finish dec base digits suf = Some (t, v) ->
  digits <> [] /\ parse_digits base 0 digits = Some v /\ forallb is_ul suf = true.
Proof.
  intros dec base digits suf t v. unfold finish. destruct digits as [|c ds]; [discriminate|].
  destruct (parse_digits base 0 (c :: ds)) as [v0|]; [|discriminate].
  destruct (parse_suffix suf) as [[uns ls]|] eqn:P; [|discriminate].
  destruct (first_fit v0 (candidates dec uns ls)); [|discriminate].
  intros H. inversion H; subst. split; [discriminate|]. split; [reflexivity|].
  eapply parse_suffix_ul; eauto.
Qed.

(* ------------------------------------------------------------------ numbers *)

Lemma len_gt1 : forall (a b : N) (r : text), (1 <? Z.of_nat (length (a :: b :: r))) = true.
Proof. intros. simpl length. lia. Qed.

Lemma num_hex : forall c d v, is_x c = true -> d <> [] -> parse_digits 16 0 d = Some v ->
  num_value (48%N :: c :: d) = Ok v.
Proof.
  intros c d v Hx Hd Hv. unfold num_value. rewrite len_gt1.
  assert (C : c = 120%N \/ c = 88%N) by (unfold is_x in Hx; lia).
  destruct d as [|d0 ds]; [congruence|].
  destruct C; subst; cbn; cbn in Hv; now rewrite Hv.
Qed.

Lemma num_bin : forall c d v, is_b c = true -> d <> [] -> parse_digits 2 0 d = Some v ->
  num_value (48%N :: c :: d) = Ok v.
Proof.
  intros c d v Hx Hd Hv. unfold num_value. rewrite len_gt1.
  assert (C : c = 98%N \/ c = 66%N) by (unfold is_b in Hx; lia).
  destruct d as [|d0 ds]; [congruence|].
  destruct C; subst; cbn; cbn in Hv; now rewrite Hv.
Qed.

Lemma oct_prefix_ok : forall p, is_oct p = true -> prefix_ok 8 p = false.
Proof. intros p. unfold is_oct, prefix_ok, lower, n_in. intros H. destruct (N.leb 65 p && N.leb p 90) eqn:E; lia. Qed.

Lemma num_oct : forall d v, forallb is_oct d = true -> parse_digits 8 0 (48%N :: d) = Some v ->
  num_value (48%N :: d) = Ok v.
Proof.
  intros d v Hd Hv. unfold num_value.
  change (starts0 (48%N :: d)) with true. cbv iota.
  assert (P : py_int 8 (48%N :: d) = Some v).
  { unfold py_int, strip_prefix. destruct d as [|p r]; [exact Hv|].
    simpl in Hd. apply andb_true_iff in Hd. destruct Hd as [Hp _].
    rewrite (oct_prefix_ok p Hp), andb_false_r. exact Hv. }
  now rewrite P.
Qed.

Lemma num_dec : forall c r v, N.eqb c 48 = false -> parse_digits 10 0 (c :: r) = Some v ->
  num_value (c :: r) = Ok v.
Proof.
  intros c r v Hc Hv. unfold num_value. unfold starts0. rewrite Hc.
  assert (P : py_int 10 (c :: r) = Some v).
  { unfold py_int, strip_prefix. destruct r as [|p r']; [exact Hv|]. rewrite Hc. exact Hv. }
  now rewrite P.
Qed.

Lemma lit_value_num : forall c0 r, n_in 48 57 c0 = true -> lit_value (c0 :: r) = num_value (rstrip_ul (c0 :: r)).
Proof. intros c0 r H. unfold lit_value. now rewrite H. Qed.

Theorem number_literal_agree : forall s t v, number_literal s = Some (t, v) -> lit_value s = Ok v.
Proof.
  intros s t v H. unfold number_literal in H. destruct s as [|c0 r0]; [discriminate|].
  destruct (N.eqb c0 48) eqn:Z0.
  - apply N.eqb_eq in Z0. subst c0. rewrite lit_value_num by reflexivity.
    destruct r0 as [|c r].
    + (* "0" *) apply finish_inv in H. destruct H as (_ & Hv & _). cbn in Hv. inversion Hv; subst. reflexivity.
    + destruct (is_x c) eqn:X; [|destruct (is_b c) eqn:B].
      * destruct (span is_hex r) as [d suf] eqn:S. apply span_spec in S. destruct S as [-> Fd].
        apply finish_inv in H. destruct H as (Hne & Hv & Hs).
        destruct (split_last is_hex d Hne Fd) as (d' & x & -> & Hx).
        change (48%N :: c :: (d' ++ [x]) ++ suf) with (((48%N :: c :: d') ++ [x]) ++ suf).
        rewrite rstrip_ul_app by (auto using hex_not_ul).
        apply num_hex; auto; destruct d'; discriminate.
      * destruct (span is_bin r) as [d suf] eqn:S. apply span_spec in S. destruct S as [-> Fd].
        apply finish_inv in H. destruct H as (Hne & Hv & Hs).
        destruct (split_last is_bin d Hne Fd) as (d' & x & -> & Hx).
        change (48%N :: c :: (d' ++ [x]) ++ suf) with (((48%N :: c :: d') ++ [x]) ++ suf).
        rewrite rstrip_ul_app by (auto using bin_not_ul).
        apply num_bin; auto; destruct d'; discriminate.
      * destruct (span is_oct (c :: r)) as [d suf] eqn:S. apply span_spec in S. destruct S as [E Fd].
        rewrite E. apply finish_inv in H. destruct H as (_ & Hv & Hs).
        assert (L : exists pre x, 48%N :: d = pre ++ [x] /\ is_ul x = false).
        { destruct d as [|d0 ds].
          - exists [], 48%N. auto.
          - destruct (split_last is_oct (d0 :: ds)) as (d' & x & E2 & Hx); [discriminate|assumption|].
            exists (48%N :: d'), x. rewrite E2. auto using oct_not_ul. }
        destruct L as (pre & x & E2 & Hx).
        change (48%N :: d ++ suf) with ((48%N :: d) ++ suf). rewrite E2.
        rewrite rstrip_ul_app by assumption. rewrite <- E2. now apply num_oct.
  - destruct (is_dec c0) eqn:D; [|discriminate].
    destruct (span is_dec (c0 :: r0)) as [d suf] eqn:S. pose proof S as S'. apply span_spec in S. destruct S as [E Fd].
    apply finish_inv in H. destruct H as (Hne & Hv & Hs).
    rewrite lit_value_num by (unfold is_dec in D; exact D).
    rewrite E. destruct (split_last is_dec d Hne Fd) as (d' & x & E2 & Hx).
    rewrite E2. rewrite rstrip_ul_app by (auto using dec_not_ul). rewrite <- E2.
    (* d starts with c0 *)
    simpl in S'. rewrite D in S'. destruct (span is_dec r0) as [a b]. inversion S'; subst.
    apply num_dec; [assumption|rewrite H0; assumption].
Qed.

(* ------------------------------------------------------------------ character constants *)

Fixpoint table_le (spec impl : list (N * Z)) : bool :=
  match spec with
  | [] => true
  | (k, v) :: rest => (match assoc k impl with Some v' => Z.eqb v v' | None => false end) && table_le rest impl
  end.
Lemma table_le_assoc : forall spec impl, table_le spec impl = true ->
  forall k v, assoc k spec = Some v -> assoc k impl = Some v.
Proof.
  induction spec as [|[k0 v0] rest IH]; intros impl H k v A; [discriminate|].
  simpl in H. apply andb_true_iff in H. destruct H as [H1 H2]. simpl in A.
  destruct (N.eqb k k0) eqn:E.
  - apply N.eqb_eq in E. subst. inversion A; subst.
    destruct (assoc k0 impl) as [v'|]; [|discriminate]. apply Z.eqb_eq in H1. now subst.
  - eauto.
Qed.

(* every simple escape of C11 6.4.4.4 is in cffi's table with the same value (the regenerated table) *)
Lemma escapes_covered : table_le c_escapes simple_escapes = true.
Proof. vm_compute. reflexivity. Qed.

(* the single octal digits *)
Definition octal_singles : list (N * Z) :=
  [(48%N, 0); (49%N, 1); (50%N, 2); (51%N, 3); (52%N, 4); (53%N, 5); (54%N, 6); (55%N, 7)].
Lemma octal_singles_covered : table_le octal_singles simple_escapes = true.
Proof. vm_compute. reflexivity. Qed.
Lemma octal_single : forall e v, numeric_escape 8 is_oct 3 [e] = Some v -> assoc e octal_singles = Some v.
Proof.
  intros e v. unfold numeric_escape. simpl. rewrite andb_true_r.
  destruct (is_oct e) eqn:O; [|discriminate].
  assert (C : (e = 48 \/ e = 49 \/ e = 50 \/ e = 51 \/ e = 52 \/ e = 53 \/ e = 54 \/ e = 55)%N)
    by (unfold is_oct, n_in in O; lia).
  repeat (destruct C as [->|C]); try subst e; vm_compute; intros H; inversion H; reflexivity.
Qed.

Theorem char_literal_agree : forall s t v, char_literal s = Some (t, v) ->
  lit_value s = Ok v \/ (lit_value s = Err CDefError /\ (5 <= length s)%nat).
Proof.
  intros s t v H. unfold char_literal in H. destruct s as [|q body]; [discriminate|].
  destruct (rev body) as [|q2 rb] eqn:R; [discriminate|].
  destruct (N.eqb q 39 && N.eqb q2 39) eqn:Q; [|discriminate].
  apply andb_true_iff in Q. destruct Q as [Q1 Q2]. apply N.eqb_eq in Q1, Q2. subst q q2.
  assert (B : body = rev rb ++ [39%N]).
  { rewrite <- (rev_involutive body), R. reflexivity. }
  destruct (char_body_value (rev rb)) as [v0|] eqn:V; [|discriminate]. inversion H; subst t v0. clear H.
  set (b := rev rb) in *. subst body.
  assert (L : lit_value (39%N :: b ++ [39%N]) = char_value (39%N :: b ++ [39%N])).
  { unfold lit_value. change (n_in 48 57 39) with false. cbv iota.
    unfold last_is. change (39%N :: b ++ [39%N]) with ((39%N :: b) ++ [39%N]). rewrite rev_unit. reflexivity. }
  rewrite L. unfold char_body_value in V.
  destruct b as [|c1 [|c2 [|c3 rest]]].
  - discriminate.
  - (* 'c' *) left. simpl.
    destruct (N.eqb c1 39 || N.eqb c1 92 || N.eqb c1 10 || negb (N.ltb c1 128)) eqn:E; [discriminate|].
    inversion V; subst. assert (N.eqb c1 92 = false) as -> by lia. reflexivity.
  - (* escape *) destruct (N.eqb c1 92) eqn:E1; [|discriminate].
    destruct (N.eqb c2 120) eqn:E2; [discriminate|].
    change (char_value (39%N :: [c1; c2] ++ [39%N])) with
      (if N.eqb c1 92 then match assoc c2 simple_escapes with Some v0 => Ok v0 | None => Err CDefError end
       else Err CDefError).
    rewrite E1.
    destruct (assoc c2 c_escapes) as [v1|] eqn:A.
    + inversion V; subst. rewrite (table_le_assoc _ _ escapes_covered _ _ A). auto.
    + apply octal_single in V. rewrite (table_le_assoc _ _ octal_singles_covered _ _ V). auto.
  - right. split; [destruct rest; reflexivity|]. simpl. rewrite app_length. simpl. lia.
Qed.

Theorem literal_agree_strong : forall s t v, c_literal s = Some (t, v) ->
  lit_value s = Ok v \/ (lit_value s = Err CDefError /\ (5 <= length s)%nat /\ hd 0%N s = 39%N).
Proof.
  intros s t v H. unfold c_literal in H. destruct s as [|q r]; [discriminate|].
  destruct (N.eqb q 39) eqn:Q.
  - apply N.eqb_eq in Q. subst q. destruct (char_literal_agree _ _ _ H) as [A|[A B]]; auto.
  - left. eapply number_literal_agree; eauto.
Qed.

Theorem literal_agree : forall s t v, c_literal s = Some (t, v) ->
  lit_value s = Ok v \/ lit_value s = Err CDefError.
Proof. intros s t v H. destruct (literal_agree_strong _ _ _ H) as [A|[A _]]; auto. Qed.

(* the literals cffi supports: every number, and character constants of at most one (escaped) character *)
Definition supported_literal (s : text) : Prop := hd 0%N s = 39%N -> (length s <= 4)%nat.

Theorem literal_accepted : forall s t v, c_literal s = Some (t, v) -> supported_literal s -> lit_value s = Ok v.
Proof.
  intros s t v H S. destruct (literal_agree_strong _ _ _ H) as [A|(A & L & Q)]; [assumption|].
  specialize (S Q). lia.
Qed.

(* ------------------------------------------------------------------ the agreement theorems *)

Fixpoint supported (e : expr) : Prop :=
  match e with
  | Const s => supported_literal s
  | Unary _ e1 => supported e1
  | Binary _ l r => supported l /\ supported r
  | Id _ | Other => True
  end.

(* the common part: what the operators do once the operands agree *)
Lemma binary_exact : forall op ta a fa tb b fb t v,
  match arith_of op with
  | Some o => c_arith o ta a tb b (fa && fb)
  | None => if String.eqb op "<<" then c_shift true ta a b (fa && fb)
            else if String.eqb op ">>" then c_shift false ta a b (fa && fb) else None
  end = Some (t, v, true) ->
  fa = true /\ fb = true /\ binop op a b = Some (Ok v).
Proof.
  intros op ta a fa tb b fb t v H.
  assert (G : (fa && fb = true) /\ binop op a b = Some (Ok v)).
  { destruct (arith_of op) as [o|] eqn:A.
    - apply c_arith_exact in H. destruct H as (F & -> & Hb). split; [assumption|]. now apply binop_arith.
    - destruct (String.eqb_spec op "<<") as [->|_].
      + apply c_shift_exact in H. destruct H as (F & Hb & ->). split; [assumption|]. apply binop_shift; lia.
      + destruct (String.eqb_spec op ">>") as [->|_]; [|discriminate].
        apply c_shift_exact in H. destruct H as (F & Hb & ->). split; [assumption|]. apply binop_shift; lia. }
  destruct G as [F B]. apply andb_true_iff in F. tauto.
Qed.

Theorem agree_exact : forall cenv env e t v, env_agree cenv env -> c_eval cenv e = Some (t, v, true) ->
  py_eval env e = Ok v \/ py_eval env e = Err CDefError.
Proof.
  intros cenv env e. induction e as [s|n|op e1 IH|op l IHl r IHr|]; intros t v EA H; simpl in H; try discriminate.
  - destruct (c_literal s) as [[t0 v0]|] eqn:L; [|discriminate]. inversion H; subst.
    simpl. eapply literal_agree; eauto.
  - destruct (lookup n cenv) as [[t0 v0]|] eqn:L; [|discriminate]. inversion H; subst.
    simpl. rewrite (EA _ _ _ L). auto.
  - destruct (c_eval cenv e1) as [[[t1 v1] f1]|] eqn:E1; [|discriminate].
    destruct (String.eqb_spec op "+") as [->|_].
    + inversion H; subst. simpl. destruct (IH _ _ EA eq_refl) as [-> | ->]; auto.
    + destruct (String.eqb_spec op "-") as [->|_]; [|discriminate].
      apply result_exact in H. destruct H as [-> ->].
      simpl. destruct (IH _ _ EA eq_refl) as [-> | ->]; auto.
  - destruct (c_eval cenv l) as [[[ta a] fa]|] eqn:El; [|discriminate].
    destruct (c_eval cenv r) as [[[tb b] fb]|] eqn:Er; [|discriminate].
    apply binary_exact in H. destruct H as (-> & -> & B).
    simpl. destruct (IHl _ _ EA eq_refl) as [-> | ->]; simpl; auto.
    destruct (IHr _ _ EA eq_refl) as [-> | ->]; simpl; auto.
    rewrite B. auto.
Qed.

(* acceptance: with supported literals the expression is not refused *)
Theorem agree_accepted : forall cenv env e t v, env_agree cenv env -> supported e ->
  c_eval cenv e = Some (t, v, true) -> py_eval env e = Ok v.
Proof.
  intros cenv env e. induction e as [s|n|op e1 IH|op l IHl r IHr|]; intros t v EA S H; simpl in H; try discriminate.
  - destruct (c_literal s) as [[t0 v0]|] eqn:L; [|discriminate]. inversion H; subst.
    simpl. eapply literal_accepted; eauto.
  - destruct (lookup n cenv) as [[t0 v0]|] eqn:L; [|discriminate]. inversion H; subst.
    simpl. now rewrite (EA _ _ _ L).
  - destruct (c_eval cenv e1) as [[[t1 v1] f1]|] eqn:E1; [|discriminate].
    destruct (String.eqb_spec op "+") as [->|_].
    + inversion H; subst. simpl. now rewrite (IH _ _ EA S eq_refl).
    + destruct (String.eqb_spec op "-") as [->|_]; [|discriminate].
      apply result_exact in H. destruct H as [-> ->].
      simpl. now rewrite (IH _ _ EA S eq_refl).
  - destruct S as [Sl Sr].
    destruct (c_eval cenv l) as [[[ta a] fa]|] eqn:El; [|discriminate].
    destruct (c_eval cenv r) as [[[tb b] fb]|] eqn:Er; [|discriminate].
    apply binary_exact in H. destruct H as (-> & -> & B).
    simpl. rewrite (IHl _ _ EA Sl eq_refl), (IHr _ _ EA Sr eq_refl). simpl. now rewrite B.
Qed.

(* ------------------------------------------------------------------ corollaries and refutation witnesses *)
Open Scope string_scope.

Lemma accepted_value : forall cenv env e t v v', env_agree cenv env ->
  c_eval cenv e = Some (t, v, true) -> py_eval env e = Ok v' -> v' = v.
Proof.
  intros cenv env e t v v' EA H P. destruct (agree_exact cenv env e t v EA H) as [Q|Q]; rewrite Q in P;
    [now inversion P|discriminate].
Qed.

Lemma refuted_0u_minus_1 :
  c_eval [] (Binary "-" (lit "0u") (lit "1")) = Some (T RInt false, 4294967295, false) /\
  py_eval [] (Binary "-" (lit "0u") (lit "1")) = Ok (-1).
Proof. split; vm_compute; reflexivity. Qed.

Lemma refuted_hex_plus_1 :
  c_eval [] (Binary "+" (lit "0xFFFFFFFF") (lit "1")) = Some (T RInt false, 0, false) /\
  py_eval [] (Binary "+" (lit "0xFFFFFFFF") (lit "1")) = Ok 4294967296.
Proof. split; vm_compute; reflexivity. Qed.

Lemma refuted_neg_hex :
  c_eval [] (Unary "-" (lit "0x80000000")) = Some (T RInt false, 2147483648, false) /\
  py_eval [] (Unary "-" (lit "0x80000000")) = Ok (-2147483648).
Proof. split; vm_compute; reflexivity. Qed.

Lemma full_statement_refuted :
  ~ (forall e t v f v', c_eval [] e = Some (t, v, f) -> py_eval [] e = Ok v' -> v' = v).
Proof.
  intros H. destruct refuted_0u_minus_1 as [A B]. specialize (H _ _ _ _ _ A B). discriminate H.
Qed.
