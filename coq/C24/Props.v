(* C24 — cffi-gen-src output is byte-identical to FFI.emit_c_code.  Statements only.  Label: PARTIAL.

   The property is an I/O equivalence between two real programs (the command-line tool, in its two invocations
   and two output modes, and FFI.emit_c_code).  NO theorem here states that equivalence about the code.

   What is proved:
     C24_utf8_roundtrip, C24_utf8_total_on_scalar_values, C24_output_decodes_to_emitted
         the one substantive result: the UTF-8 codec through which text enters and leaves on both sides is lossless
         on every string of Unicode scalar values (and only those are encodable).
     C24_tool_codecs_are_utf8 (regenerated fact: the `encoding=` of the tool's four open() sites),
     C24_utf8sig_input_refuted (what another codec would lose)
     C24_tool_writers_write_all (regenerated fact: each output branch of write_c_source is one write of the whole text;
         the *_is_direct statements are for OUTPUT a path and for OUTPUT '-' alike: parameter to_stdout)
     C24_read_sources_is_direct(_no_cr), C24_exec_python_is_direct
         equalities between two HAND-WRITTEN compositions (C24/Model.v, same author) around abstract make_ffi /
         find_ffi / emit.  They record the argument — bytes -> text (UTF-8 + universal newlines) -> cffi ->
         text -> bytes is the same function on both sides when the encodings are UTF-8 — and nothing more: that the
         real programs are these compositions is NOT proved.  Their value lies entirely in the correspondence.
   Decided by the correspondence of tools/props/c24.py only (bytes and exit statuses compared on generated inputs):
     "'cffi-gen-src read-sources' writes exactly the bytes that FFI.emit_c_code() produces",
     "'cffi-gen-src exec-python' ... the FFI the script binds, directly or through a callable, under --ffi-var",
     "'python -m cffi.gen_src' behaves identically",
     "an output of '-' sends the same bytes to stdout"   (this last clause FAILS on the real tool: stdout starts
                                                          with a stray 'generating <_io.StringIO ...>' line —
                                                          known finding stdout_generating_line, with a fix diff).

   Reading recorded: "cdef text" / "prelude" is the text Python obtains from the input file (UTF-8
   decoding with universal newlines): a '\r' in an input file reaches cffi as '\n'
   (C24_read_sources_is_direct states the general case with universal_nl). *)
From Coq Require Import List NArith ZArith Bool.
Import ListNotations.
From Cffi Require Import C35.PyStr C24.Utf8 C23.Model C24.Model C24.Gen C24.Proofs.
Open Scope N_scope.

Theorem C24_utf8_roundtrip : forall s b, utf8_encode s = Some b -> utf8_decode b = Some s.
Proof. exact utf8_roundtrip. Qed.
Print Assumptions C24_utf8_roundtrip.

Theorem C24_utf8_total_on_scalar_values : forall s,
  Forall (fun c => is_scalar c = true) s <-> exists b, utf8_encode s = Some b.
Proof. exact utf8_encode_total. Qed.
Print Assumptions C24_utf8_total_on_scalar_values.

Theorem C24_read_sources_is_direct : forall ffi make_ffi emit to_stdout name cdef csrc bc bs,
  utf8_encode cdef = Some bc -> utf8_encode csrc = Some bs ->
  gen_src_read_sources ffi make_ffi emit the_codecs the_writers to_stdout name bc bs =
  direct ffi make_ffi emit name (universal_nl cdef) (universal_nl csrc).
Proof. exact read_sources_is_direct. Qed.
Print Assumptions C24_read_sources_is_direct.

Theorem C24_read_sources_is_direct_no_cr : forall ffi make_ffi emit to_stdout name cdef csrc bc bs,
  no_cr cdef -> no_cr csrc -> utf8_encode cdef = Some bc -> utf8_encode csrc = Some bs ->
  gen_src_read_sources ffi make_ffi emit the_codecs the_writers to_stdout name bc bs = direct ffi make_ffi emit name cdef csrc.
Proof. exact read_sources_is_direct_no_cr. Qed.
Print Assumptions C24_read_sources_is_direct_no_cr.

Theorem C24_exec_python_is_direct : forall ffi find_ffi emit to_stdout script var b, utf8_encode script = Some b ->
  gen_src_exec_python ffi find_ffi emit the_codecs the_writers to_stdout b var =
  direct_of_script ffi find_ffi emit (universal_nl script) var.
Proof. exact exec_python_is_direct. Qed.
Print Assumptions C24_exec_python_is_direct.

Theorem C24_output_decodes_to_emitted : forall ffi make_ffi emit name cdef csrc out,
  direct ffi make_ffi emit name cdef csrc = Some out ->
  utf8_decode out = Some (emit (make_ffi name cdef csrc)).
Proof. exact output_decodes_to_emitted. Qed.
Print Assumptions C24_output_decodes_to_emitted.

(* the codecs the tool opens its files with (`the_codecs`, regenerated from the `encoding=` arguments of
   _cffi_gen_src.py) are plain UTF-8; the *_is_direct statements above are about exactly these codecs, and the
   next theorem shows what goes wrong otherwise: 'utf-8-sig' on an input drops a leading U+FEFF *)
Theorem C24_tool_codecs_are_utf8 :
  c_pyfile the_codecs = Utf8 /\ c_cdef the_codecs = Utf8 /\ c_csrc the_codecs = Utf8 /\ c_output the_codecs = Utf8.
Proof. exact tool_codecs_are_utf8. Qed.
Print Assumptions C24_tool_codecs_are_utf8.

(* both output branches of write_c_source (regenerated: `the_writers`) hand the text over in one write; with any
   other shape (WriterOther: e.g. printing line by line, which turns \v, \f, U+2028 ... into newlines) the model
   has no output and none of the *_is_direct statements holds *)
Theorem C24_tool_writers_write_all : w_stdout the_writers = WriteAll /\ w_file the_writers = WriteAll.
Proof. exact tool_writers_write_all. Qed.
Print Assumptions C24_tool_writers_write_all.

Theorem C24_utf8sig_input_refuted :
  let cs := {| c_pyfile := Utf8; c_cdef := Utf8; c_csrc := Utf8Sig; c_output := Utf8 |} in
  exists cdef csrc bc bs, utf8_encode cdef = Some bc /\ utf8_encode csrc = Some bs /\
    gen_src_read_sources str (fun n c s => c ++ s) (fun x => x) cs the_writers false [109] bc bs <>
    direct str (fun n c s => c ++ s) (fun x => x) [109] cdef csrc.
Proof. exact utf8sig_input_loses_bom. Qed.
Print Assumptions C24_utf8sig_input_refuted.

(* non-vacuity: "é€😀" <-> C3 A9 E2 82 AC F0 9F 98 80; an overlong form and a surrogate are rejected *)
Example C24_example_codec :
  utf8_encode [233; 8364; 128512] = Some [195;169; 226;130;172; 240;159;152;128] /\
  utf8_decode [195;169; 226;130;172; 240;159;152;128] = Some [233; 8364; 128512] /\
  utf8_decode [192;175] = None /\ utf8_decode [237;160;128] = None /\ utf8_encode [55296] = None.
Proof. vm_compute. repeat split; reflexivity. Qed.

Example C24_example_pipeline :
  gen_src_read_sources str (fun n c s => n ++ [58] ++ c ++ [58] ++ s) (fun x => x ++ [10]) the_codecs the_writers true [109] [105;13;10] [195;169]
  = Some [109;58;105;10;58;195;169;10].
Proof. vm_compute. reflexivity. Qed.
