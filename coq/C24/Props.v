(* C24 — cffi-gen-src output is byte-identical to FFI.emit_c_code.  Statements only.  Label: PARTIAL.

   The property is an I/O equivalence between two real programs (the command-line tool, in its two invocations
   and two output modes, and FFI.emit_c_code).

   Theorems about the tool's code as REGENERATED on every run (C24/Gen.v, statement-by-statement translations of
   make_ffi_from_sources, generate_c_source, exec_python, read_sources and run of _cffi_gen_src.py, into the
   vocabulary of C24/Model.v; FFI.emit_c_code = C23's model of the whole _make_c_or_py_source with the holes
   `emit_holes` regenerated from recompiler.py; cffi's text-to-text work = an abstract record `prims`):
     C24_direct_fresh_target      generate_c_source + write_c_source leave in OUTPUT (a path or '-') exactly the bytes
                                  that emit_c_code(path) leaves in a fresh target
     C24_read_sources_is_direct   read-sources = FFI().cdef(text); set_source(name, prelude); emit_c_code(fresh path),
                                  text = what Python reads from the input files (UTF-8, universal newlines), errors
                                  included; swapping cdef/csrc, another keyword mapping, another read order of the
                                  codec facts break the proof
     C24_exec_python_is_direct    the same for the FFI that find_ffi_in_python_script returns (abstract p_find)
     C24_read_sources_undecodable UnicodeDecodeError, nothing written
     C24_run_dispatch, C24_run_status   which function each subcommand reaches with which parsed arguments; the
                                  usage errors (same file, no subcommand) exit with status 2
     C24_direct_crlf_target_refuted     the equality needs the FRESH target: into a target that already holds the
                                  generated text with CRLF line ends emit_c_code(path) leaves the CRLF bytes (C23's
                                  up-to-date test reads in text mode) while the tool rewrites it with LF.  Replayed
                                  on the real programs by the harness (stream crlf-target); not a finding: the
                                  property compares what is produced for the same declarations, and the tool's bytes
                                  are the generated text in every case (C24_direct_fresh_target holds for any state
                                  of OUTPUT: open(output, 'w') truncates).
     C24_utf8_roundtrip, C24_utf8_total_on_scalar_values, C24_tool_codecs_are_utf8, C24_tool_writers_write_all,
     C24_utf8sig_input_refuted    the codec and the regenerated codec / writer facts
     C24_composition_*            the earlier equalities between two HAND-WRITTEN compositions (kept; superseded)
   NOT in Coq (correspondence of tools/props/c24.py only): the argparse declarations (argument order, dest names),
   find_ffi_in_python_script's ladder (abstract `p_find`), that `python -m cffi.gen_src` and the console script
   both call run, api.FFI.emit_c_code -> recompile -> make_c_source plumbing, the locale being UTF-8.  The '-'
   clause failed on the real tool until /repo e794af8 (finding stdout_generating_line, fixed).

   Reading recorded: "cdef text" / "prelude" is the text Python obtains from the input file (UTF-8
   decoding with universal newlines): a '\r' in an input file reaches cffi as '\n'. *)
From Coq Require Import List NArith ZArith Bool.
Import ListNotations.
From Cffi Require Import C35.PyStr C35.Model C24.Utf8 C23.Model C24.Model C24.Gen C24.Proofs C24.Proofs2.
Open Scope N_scope.

Theorem C24_utf8_roundtrip : forall s b, utf8_encode s = Some b -> utf8_decode b = Some s.
Proof. exact utf8_roundtrip. Qed.
Print Assumptions C24_utf8_roundtrip.

Theorem C24_utf8_total_on_scalar_values : forall s,
  Forall (fun c => is_scalar c = true) s <-> exists b, utf8_encode s = Some b.
Proof. exact utf8_encode_total. Qed.
Print Assumptions C24_utf8_total_on_scalar_values.

Theorem C24_composition_read_sources_is_direct : forall ffi make_ffi emit to_stdout name cdef csrc bc bs,
  utf8_encode cdef = Some bc -> utf8_encode csrc = Some bs ->
  gen_src_read_sources ffi make_ffi emit the_codecs the_writers to_stdout name bc bs =
  direct ffi make_ffi emit name (universal_nl cdef) (universal_nl csrc).
Proof. exact read_sources_is_direct. Qed.
Print Assumptions C24_composition_read_sources_is_direct.

Theorem C24_composition_read_sources_is_direct_no_cr : forall ffi make_ffi emit to_stdout name cdef csrc bc bs,
  no_cr cdef -> no_cr csrc -> utf8_encode cdef = Some bc -> utf8_encode csrc = Some bs ->
  gen_src_read_sources ffi make_ffi emit the_codecs the_writers to_stdout name bc bs = direct ffi make_ffi emit name cdef csrc.
Proof. exact read_sources_is_direct_no_cr. Qed.
Print Assumptions C24_composition_read_sources_is_direct_no_cr.

Theorem C24_composition_exec_python_is_direct : forall ffi find_ffi emit to_stdout script var b, utf8_encode script = Some b ->
  gen_src_exec_python ffi find_ffi emit the_codecs the_writers to_stdout b var =
  direct_of_script ffi find_ffi emit (universal_nl script) var.
Proof. exact exec_python_is_direct. Qed.
Print Assumptions C24_composition_exec_python_is_direct.

Theorem C24_output_decodes_to_emitted : forall ffi make_ffi emit name cdef csrc out,
  direct ffi make_ffi emit name cdef csrc = Some out ->
  utf8_decode out = Some (emit (make_ffi name cdef csrc)).
Proof. exact output_decodes_to_emitted. Qed.
Print Assumptions C24_output_decodes_to_emitted.

(* ---- the tool's regenerated code ---- *)
Theorem C24_direct_fresh_target : forall ffi (P : prims ffi) f output,
  bind (generate_c_source P emit_holes f) (m_write_c_source the_writers the_codecs output) =
  bind (direct_bytes P emit_holes f None) (as_effect (str_eqb output dash)).
Proof. exact direct_fresh_target. Qed.
Print Assumptions C24_direct_fresh_target.

Theorem C24_read_sources_is_direct : forall ffi (P : prims ffi) output name cdef csrc bc bs n1 n2,
  utf8_encode cdef = Some bc -> utf8_encode csrc = Some bs ->
  read_sources P emit_holes output name
    {| if_name := n1; if_bytes := bc; if_codec := c_cdef the_codecs |}
    {| if_name := n2; if_bytes := bs; if_codec := c_csrc the_codecs |} =
  bind (direct_ffi P name (universal_nl cdef) (universal_nl csrc)) (fun f =>
  bind (direct_bytes P emit_holes f None) (as_effect (str_eqb output dash))).
Proof. exact read_sources_is_direct2. Qed.
Print Assumptions C24_read_sources_is_direct.

Theorem C24_read_sources_undecodable : forall ffi (P : prims ffi) output name ci si,
  m_read si = Err EDecode \/ m_read ci = Err EDecode ->
  read_sources P emit_holes output name ci si = Err EDecode.
Proof. exact read_sources_undecodable. Qed.
Print Assumptions C24_read_sources_undecodable.

Theorem C24_exec_python_is_direct : forall ffi (P : prims ffi) output script b n var,
  utf8_encode script = Some b ->
  exec_python P emit_holes output {| if_name := n; if_bytes := b; if_codec := c_pyfile the_codecs |} var =
  bind (p_find P (universal_nl script) n var) (fun f =>
  bind (direct_bytes P emit_holes f None) (as_effect (str_eqb output dash))).
Proof. exact exec_python_is_direct2. Qed.
Print Assumptions C24_exec_python_is_direct.

Theorem C24_run_dispatch : forall ffi (P : prims ffi) args,
  run P emit_holes args =
  if str_eqb (a_mode args) mode_exec_python
  then exec_python P emit_holes (a_output args) (a_pyfile args) (a_ffi_var args)
  else if str_eqb (a_mode args) mode_read_sources
       then if a_same_file args then Err EUsage
            else read_sources P emit_holes (a_output args) (a_module_name args) (a_cdef args) (a_csrc args)
       else Err EUsage.
Proof. exact run_dispatch. Qed.
Print Assumptions C24_run_dispatch.

Theorem C24_run_status : forall ffi (P : prims ffi) args,
  (exit_status (run P emit_holes args) = 0%Z <-> exists e, run P emit_holes args = Ok e) /\
  (str_eqb (a_mode args) mode_exec_python = false -> str_eqb (a_mode args) mode_read_sources = false ->
   exit_status (run P emit_holes args) = 2%Z) /\
  (str_eqb (a_mode args) mode_exec_python = false -> str_eqb (a_mode args) mode_read_sources = true ->
   a_same_file args = true -> exit_status (run P emit_holes args) = 2%Z).
Proof. exact run_status. Qed.
Print Assumptions C24_run_status.

(* the equality needs the fresh target: "a\r\n" already in the target, generated text "a\n" *)
Theorem C24_direct_crlf_target_refuted : exists (f old output : str),
  universal_nl old = p_gen crlf_prims f GPreamble /\
  bind (generate_c_source crlf_prims emit_holes f) (m_write_c_source the_writers the_codecs output) = Ok (Wrote false [97;10]) /\
  bind (direct_bytes crlf_prims emit_holes f (Some old)) (as_effect (str_eqb output dash)) = Ok (Wrote false [97;13;10]).
Proof. exact direct_crlf_target_refuted. Qed.
Print Assumptions C24_direct_crlf_target_refuted.

(* non-vacuity of the regenerated pipeline: module "m", cdef file "i\r\n", prelude "é", OUTPUT '-' *)
Example C24_example_tool :
  run crlf_prims emit_holes
    {| a_mode := mode_read_sources; a_output := dash; a_pyfile := {| if_name := []; if_bytes := []; if_codec := Utf8 |};
       a_ffi_var := []; a_module_name := [109];
       a_cdef := {| if_name := [99]; if_bytes := [105;13;10]; if_codec := c_cdef the_codecs |};
       a_csrc := {| if_name := [115]; if_bytes := [195;169]; if_codec := c_csrc the_codecs |}; a_same_file := false |}
  = Ok (Wrote true [105;10;195;169]).
Proof. vm_compute. reflexivity. Qed.

(* the codecs the tool opens its files with (`the_codecs`, regenerated from the `encoding=` arguments of
   _cffi_gen_src.py) are plain UTF-8; the *_is_direct statements above are about exactly these codecs, and the
   next theorem shows what goes wrong otherwise: 'utf-8-sig' on an input drops a leading U+FEFF *)
Theorem C24_tool_codecs_are_utf8 :
  c_pyfile the_codecs = Utf8 /\ c_cdef the_codecs = Utf8 /\ c_csrc the_codecs = Utf8 /\ c_output the_codecs = Utf8.
Proof. exact tool_codecs_are_utf8. Qed.
Print Assumptions C24_tool_codecs_are_utf8.

(* both output branches of write_c_source (regenerated: `the_writers`) hand the text over in one write; with any
   other shape (WriterOther: e.g. printing line by line, which turns \v, \f, U+2028 ... into newlines) the model
   has no output and none of the *_is_direct statements holds *)
Theorem C24_tool_writers_write_all : w_stdout the_writers = WriteAll /\ w_file the_writers = WriteAll.
Proof. exact tool_writers_write_all. Qed.
Print Assumptions C24_tool_writers_write_all.

Theorem C24_utf8sig_input_refuted :
  let cs := {| c_pyfile := Utf8; c_cdef := Utf8; c_csrc := Utf8Sig; c_output := Utf8 |} in
  exists cdef csrc bc bs, utf8_encode cdef = Some bc /\ utf8_encode csrc = Some bs /\
    gen_src_read_sources str (fun n c s => c ++ s) (fun x => x) cs the_writers false [109] bc bs <>
    direct str (fun n c s => c ++ s) (fun x => x) [109] cdef csrc.
Proof. exact utf8sig_input_loses_bom. Qed.
Print Assumptions C24_utf8sig_input_refuted.

(* non-vacuity: "é€😀" <-> C3 A9 E2 82 AC F0 9F 98 80; an overlong form and a surrogate are rejected *)
Example C24_example_codec :
  utf8_encode [233; 8364; 128512] = Some [195;169; 226;130;172; 240;159;152;128] /\
  utf8_decode [195;169; 226;130;172; 240;159;152;128] = Some [233; 8364; 128512] /\
  utf8_decode [192;175] = None /\ utf8_decode [237;160;128] = None /\ utf8_encode [55296] = None.
Proof. vm_compute. repeat split; reflexivity. Qed.

Example C24_example_pipeline :
  gen_src_read_sources str (fun n c s => n ++ [58] ++ c ++ [58] ++ s) (fun x => x ++ [10]) the_codecs the_writers true [109] [105;13;10] [195;169]
  = Some [109;58;105;10;58;195;169;10].
Proof. vm_compute. reflexivity. Qed.
