(* UTF-8 codec on lists of code points / bytes, as CPython's str.encode('utf-8') and
   bytes.decode('utf-8') (strict error handler): shortest form only, no surrogates, <= U+10FFFF.
   Definitions and the round-trip proof.  Run against CPython on generated inputs by the
   micro-suites of C24 and C32 (tools/props/c24.py, c32.py). *)
From Coq Require Import List NArith ZArith Bool Lia ZifyBool.
Import ListNotations.
Open Scope N_scope.

Definition is_surrogate (c : N) : bool := (55296 <=? c) && (c <=? 57343).   (* D800..DFFF *)
Definition is_scalar (c : N) : bool := negb (is_surrogate c) && (c <=? 1114111).

(* encoding of one code point; None: not encodable (UnicodeEncodeError) *)
Definition enc1 (c : N) : option (list N) :=
  if c <? 128 then Some [c]
  else if c <? 2048 then Some [192 + c / 64; 128 + c mod 64]
  else if c <? 65536 then
    if is_surrogate c then None
    else Some [224 + c / 4096; 128 + (c / 64) mod 64; 128 + c mod 64]
  else if c <=? 1114111 then
    Some [240 + c / 262144; 128 + (c / 4096) mod 64; 128 + (c / 64) mod 64; 128 + c mod 64]
  else None.

Fixpoint utf8_encode (s : list N) : option (list N) :=
  match s with
  | [] => Some []
  | c :: s' => match enc1 c, utf8_encode s' with
               | Some a, Some b => Some (a ++ b)
               | _, _ => None
               end
  end.

Definition is_cont (b : N) : bool := (128 <=? b) && (b <=? 191).

Definition ocons (c : N) (r : option (list N)) : option (list N) :=
  match r with Some l => Some (c :: l) | None => None end.

(* strict decoder; None: UnicodeDecodeError *)
Fixpoint utf8_decode (b : list N) : option (list N) :=
  match b with
  | [] => Some []
  | b0 :: r =>
    if b0 <? 128 then ocons b0 (utf8_decode r)
    else if b0 <? 194 then None                       (* continuation byte or overlong C0/C1 *)
    else if b0 <? 224 then
      match r with
      | b1 :: r1 => if is_cont b1 then ocons ((b0 - 192) * 64 + (b1 - 128)) (utf8_decode r1) else None
      | _ => None
      end
    else if b0 <? 240 then
      match r with
      | b1 :: b2 :: r2 =>
          if is_cont b1 && is_cont b2 then
            let c := (b0 - 224) * 4096 + (b1 - 128) * 64 + (b2 - 128) in
            if (c <? 2048) || is_surrogate c then None else ocons c (utf8_decode r2)
          else None
      | _ => None
      end
    else if b0 <? 245 then
      match r with
      | b1 :: b2 :: b3 :: r3 =>
          if is_cont b1 && is_cont b2 && is_cont b3 then
            let c := (b0 - 240) * 262144 + (b1 - 128) * 4096 + (b2 - 128) * 64 + (b3 - 128) in
            if (c <? 65536) || (1114111 <? c) then None else ocons c (utf8_decode r3)
          else None
      | _ => None
      end
    else None
  end.

(* ------------------------------------------------------------------ round trip *)
Ltac Zify.zify_post_hook ::= Z.to_euclidean_division_equations.

Lemma utf8_decode_cons b0 r : utf8_decode (b0 :: r) =
    if b0 <? 128 then ocons b0 (utf8_decode r)
    else if b0 <? 194 then None
    else if b0 <? 224 then
      match r with
      | b1 :: r1 => if is_cont b1 then ocons ((b0 - 192) * 64 + (b1 - 128)) (utf8_decode r1) else None
      | _ => None
      end
    else if b0 <? 240 then
      match r with
      | b1 :: b2 :: r2 =>
          if is_cont b1 && is_cont b2 then
            let c := (b0 - 224) * 4096 + (b1 - 128) * 64 + (b2 - 128) in
            if (c <? 2048) || is_surrogate c then None else ocons c (utf8_decode r2)
          else None
      | _ => None
      end
    else if b0 <? 245 then
      match r with
      | b1 :: b2 :: b3 :: r3 =>
          if is_cont b1 && is_cont b2 && is_cont b3 then
            let c := (b0 - 240) * 262144 + (b1 - 128) * 4096 + (b2 - 128) * 64 + (b3 - 128) in
            if (c <? 65536) || (1114111 <? c) then None else ocons c (utf8_decode r3)
          else None
      | _ => None
      end
    else None.
Proof. reflexivity. Qed.

Lemma dec_enc1' c rest :
  match enc1 c with Some a => utf8_decode (a ++ rest) = ocons c (utf8_decode rest) | None => True end.
Proof.
  unfold enc1.
  destruct (c <? 128) eqn:E1.
  { cbn [app]. rewrite utf8_decode_cons, E1. reflexivity. }
  destruct (c <? 2048) eqn:E2.
  { cbn [app]. rewrite utf8_decode_cons.
    assert (192 + c / 64 <? 128 = false) as -> by lia.
    assert (192 + c / 64 <? 194 = false) as -> by lia.
    assert (192 + c / 64 <? 224 = true) as -> by lia.
    assert (is_cont (128 + c mod 64) = true) as -> by (unfold is_cont; lia).
    f_equal. lia. }
  destruct (c <? 65536) eqn:E3.
  { destruct (is_surrogate c) eqn:Es; [exact I|]. cbn [app].
    rewrite utf8_decode_cons.
    assert (224 + c / 4096 <? 128 = false) as -> by lia.
    assert (224 + c / 4096 <? 194 = false) as -> by lia.
    assert (224 + c / 4096 <? 224 = false) as -> by lia.
    assert (224 + c / 4096 <? 240 = true) as -> by lia.
    assert (is_cont (128 + (c / 64) mod 64) = true) as -> by (unfold is_cont; lia).
    assert (is_cont (128 + c mod 64) = true) as -> by (unfold is_cont; lia).
    cbv beta iota zeta. cbn [andb].
    assert ((224 + c / 4096 - 224) * 4096 + (128 + (c / 64) mod 64 - 128) * 64 + (128 + c mod 64 - 128) = c) as -> by lia.
    assert (c <? 2048 = false) as -> by lia. rewrite Es. reflexivity. }
  destruct (c <=? 1114111) eqn:E4; [|exact I].
  cbn [app]. rewrite utf8_decode_cons.
  assert (240 + c / 262144 <? 128 = false) as -> by lia.
  assert (240 + c / 262144 <? 194 = false) as -> by lia.
  assert (240 + c / 262144 <? 224 = false) as -> by lia.
  assert (240 + c / 262144 <? 240 = false) as -> by lia.
  assert (240 + c / 262144 <? 245 = true) as -> by lia.
  assert (is_cont (128 + (c / 4096) mod 64) = true) as -> by (unfold is_cont; lia).
  assert (is_cont (128 + (c / 64) mod 64) = true) as -> by (unfold is_cont; lia).
  assert (is_cont (128 + c mod 64) = true) as -> by (unfold is_cont; lia).
  cbv beta iota zeta. cbn [andb].
  assert ((240 + c / 262144 - 240) * 262144 + (128 + (c / 4096) mod 64 - 128) * 4096 +
          (128 + (c / 64) mod 64 - 128) * 64 + (128 + c mod 64 - 128) = c) as -> by lia.
  assert (c <? 65536 = false) as -> by lia.
  assert (1114111 <? c = false) as -> by lia. reflexivity.
Qed.

Lemma dec_enc1 c a rest : enc1 c = Some a -> utf8_decode (a ++ rest) = ocons c (utf8_decode rest).
Proof. intros H. pose proof (dec_enc1' c rest) as X. rewrite H in X. exact X. Qed.

Theorem utf8_roundtrip : forall s b, utf8_encode s = Some b -> utf8_decode b = Some s.
Proof.
  induction s as [|c s IH]; intros b H; cbn in H.
  - inversion H. reflexivity.
  - destruct (enc1 c) as [a|] eqn:E; [|discriminate].
    destruct (utf8_encode s) as [b'|] eqn:E'; [|discriminate].
    inversion H; subst. rewrite (dec_enc1 _ _ _ E), (IH _ eq_refl). reflexivity.
Qed.

Lemma enc1_scalar c : (exists a, enc1 c = Some a) <-> is_scalar c = true.
Proof.
  unfold enc1, is_scalar, is_surrogate. split.
  - intros [a H]. destruct (c <? 128) eqn:E1; [lia|]. destruct (c <? 2048) eqn:E2; [lia|].
    destruct (c <? 65536) eqn:E3.
    + destruct ((55296 <=? c) && (c <=? 57343)) eqn:E; [discriminate|]. lia.
    + destruct (c <=? 1114111) eqn:E4; [lia|discriminate].
  - intros H. destruct (c <? 128); [eauto|]. destruct (c <? 2048); [eauto|].
    destruct (c <? 65536) eqn:E3.
    + destruct ((55296 <=? c) && (c <=? 57343)) eqn:E; [lia|eauto].
    + assert (c <=? 1114111 = true) as -> by lia. eauto.
Qed.

(* every string of Unicode scalar values is encodable *)
Theorem utf8_encode_total : forall s, Forall (fun c => is_scalar c = true) s <->
  exists b, utf8_encode s = Some b.
Proof.
  induction s as [|c s IH]; cbn.
  - split; eauto.
  - split.
    + intros H. inversion H; subst. apply enc1_scalar in H2. destruct H2 as [a ->].
      apply IH in H3. destruct H3 as [b ->]. eauto.
    + intros [b H]. destruct (enc1 c) as [a|] eqn:E; [|discriminate].
      destruct (utf8_encode s) as [b'|] eqn:E'; [|discriminate].
      constructor; [apply enc1_scalar; eauto | apply IH; eauto].
Qed.

Corollary utf8_encode_injective : forall s1 s2 b,
  utf8_encode s1 = Some b -> utf8_encode s2 = Some b -> s1 = s2.
Proof.
  intros s1 s2 b H1 H2. apply utf8_roundtrip in H1, H2. congruence.
Qed.
