(* C24 — the two ways of producing the generated C source, as compositions.  Definitions only.

   src/cffi/_cffi_gen_src.py
     read_sources:   csrc = csrc_input.read(); cdef = cdef_input.read()      (files opened by argparse
                     FileType('r', encoding='utf-8'): UTF-8 decoding + universal newlines)
                     ffi = make_ffi_from_sources(module_name, cdef, csrc)    (FFI(); cdef(); set_source())
                     generated = generate_c_source(ffi)                      (ffi.emit_c_code(StringIO))
                     write_c_source(output, generated)                       (open(output, 'w', encoding='utf-8')
                                                                              or sys.stdout.write for '-')
     exec_python:    ffi = find_ffi_in_python_script(text, filename, ffi_var); then the same two steps
   src/cffi/api.py:679 FFI.emit_c_code(filename): recompile -> _make_c_or_py_source -> open(target, 'w').write

   `make_ffi`, `find_ffi` and `emit` (everything cffi does between text and text) are Section
   variables: the model says how bytes become text and text becomes bytes around them.
   Hypothesis of the equalities: the locale / stdout encoding is UTF-8, POSIX newline handling. *)
From Coq Require Import List NArith ZArith Bool.
Import ListNotations.
From Cffi Require Import C35.PyStr C24.Utf8 C23.Model.
Open Scope N_scope.

(* open(path, 'r', encoding='utf-8').read() *)
Definition read_text (b : list N) : option str :=
  match utf8_decode b with Some s => Some (universal_nl s) | None => None end.

(* open(path, 'w', encoding='utf-8').write(s)  /  sys.stdout.write(s) with a UTF-8 stdout *)
Definition write_text (s : str) : option (list N) := utf8_encode s.

Section Pipelines.
Variable ffi : Type.
Variable make_ffi : str -> str -> str -> ffi.      (* module name, cdef text, C source prelude *)
Variable find_ffi : str -> str -> option ffi.      (* script text, --ffi-var name *)
Variable emit : ffi -> str.                        (* the text FFI.emit_c_code generates *)

(* FFI().cdef(text); set_source(name, prelude); emit_c_code(filename) *)
Definition direct (name cdef csrc : str) : option (list N) := write_text (emit (make_ffi name cdef csrc)).

(* cffi-gen-src read-sources NAME CDEF CSRC OUTPUT   (OUTPUT a path or '-': the same bytes) *)
Definition gen_src_read_sources (name : str) (cdef_file csrc_file : list N) : option (list N) :=
  match read_text csrc_file with
  | None => None
  | Some csrc =>
    match read_text cdef_file with
    | None => None
    | Some cdef => write_text (emit (make_ffi name cdef csrc))
    end
  end.

(* cffi-gen-src exec-python [--ffi-var VAR] SCRIPT OUTPUT *)
Definition gen_src_exec_python (script_file : list N) (var : str) : option (list N) :=
  match read_text script_file with
  | None => None
  | Some script => match find_ffi script var with
                   | None => None
                   | Some f => write_text (emit f)
                   end
  end.

Definition direct_of_script (script var : str) : option (list N) :=
  match find_ffi script var with None => None | Some f => write_text (emit f) end.
End Pipelines.
