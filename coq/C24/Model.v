(* C24 — the two ways of producing the generated C source, as compositions.  Definitions only.

   src/cffi/_cffi_gen_src.py
     read_sources:   csrc = csrc_input.read(); cdef = cdef_input.read()      (files opened by argparse
                     FileType('r', encoding='utf-8'): UTF-8 decoding + universal newlines)
                     ffi = make_ffi_from_sources(module_name, cdef, csrc)    (FFI(); cdef(); set_source())
                     generated = generate_c_source(ffi)                      (ffi.emit_c_code(StringIO))
                     write_c_source(output, generated)                       (open(output, 'w', encoding='utf-8')
                                                                              or sys.stdout.write for '-')
     exec_python:    ffi = find_ffi_in_python_script(text, filename, ffi_var); then the same two steps
   src/cffi/api.py:679 FFI.emit_c_code(filename): recompile -> _make_c_or_py_source -> open(target, 'w').write

   `make_ffi`, `find_ffi` and `emit` (everything cffi does between text and text) are Section
   variables: the model says how bytes become text and text becomes bytes around them.
   Hypothesis of the equalities: the locale / stdout encoding is UTF-8, POSIX newline handling; the tool's own
   codecs are those of Gen.v. *)
From Coq Require Import List NArith ZArith Bool.
Import ListNotations.
From Cffi Require Import C35.PyStr C35.Model C24.Utf8 C23.Model.
Open Scope N_scope.

(* the codec named by an `encoding=` argument.  Which codec each of the tool's files uses is a REGENERATED fact:
   coq/C24/Gen.v (`the_codecs`) is extracted from _cffi_gen_src.py on every run by tools/props/c24.py *)
Inductive codec := Utf8 | Utf8Sig | CodecOther.

Definition strip_bom (b : list N) : list N :=
  match b with 239 :: 187 :: 191 :: r => r | _ => b end.          (* EF BB BF *)

(* bytes.decode(codec): 'utf-8-sig' drops one leading BOM; other codecs are not modelled *)
Definition decode_with (c : codec) (b : list N) : option str :=
  match c with
  | Utf8 => utf8_decode b
  | Utf8Sig => utf8_decode (strip_bom b)
  | CodecOther => None
  end.

(* str.encode(codec) as a file is written: 'utf-8-sig' writes a BOM first *)
Definition encode_with (c : codec) (s : str) : option (list N) :=
  match c with
  | Utf8 => utf8_encode s
  | Utf8Sig => match utf8_encode s with Some b => Some (239 :: 187 :: 191 :: b) | None => None end
  | CodecOther => None
  end.

Record codecs := { c_pyfile : codec; c_cdef : codec; c_csrc : codec; c_output : codec }.

(* how an output branch of write_c_source hands the generated text over: in one write of the whole text, or in
   some other way (line by line, print, ...) that the model does not describe.  Also a REGENERATED fact (Gen.v
   `the_writers`): the stdout branch must be exactly `sys.stdout.write(generated)`, the file branch exactly
   `f.write(generated)` under `with open(output, 'w', encoding=...) as f` *)
Inductive writer := WriteAll | WriterOther.
Record writers := { w_stdout : writer; w_file : writer }.

(* open(path, 'r', encoding=c).read(): decoding, then universal newlines *)
Definition read_text (c : codec) (b : list N) : option str :=
  match decode_with c b with Some s => Some (universal_nl s) | None => None end.

(* open(path, 'w', encoding=c).write(s)  /  sys.stdout.write(s) with a UTF-8 stdout *)
Definition write_text (c : codec) (s : str) : option (list N) := encode_with c s.

(* write_c_source(output, generated): OUTPUT '-' (to_stdout, a UTF-8 stdout) or a path *)
Definition write_out (ws : writers) (cs : codecs) (to_stdout : bool) (s : str) : option (list N) :=
  if to_stdout
  then match w_stdout ws with WriteAll => write_text Utf8 s | WriterOther => None end
  else match w_file ws with WriteAll => write_text (c_output cs) s | WriterOther => None end.

Section Pipelines.
Variable ffi : Type.
Variable make_ffi : str -> str -> str -> ffi.      (* module name, cdef text, C source prelude *)
Variable find_ffi : str -> str -> option ffi.      (* script text, --ffi-var name *)
Variable emit : ffi -> str.                        (* the text FFI.emit_c_code generates *)
Variable cs : codecs.                              (* the tool's codecs (Gen.v) *)
Variable ws : writers.                             (* the tool's output branches (Gen.v) *)

(* FFI().cdef(text); set_source(name, prelude); emit_c_code(filename)   — UTF-8 locale *)
Definition direct (name cdef csrc : str) : option (list N) := write_text Utf8 (emit (make_ffi name cdef csrc)).

(* cffi-gen-src read-sources NAME CDEF CSRC OUTPUT   (OUTPUT a path or '-': the same bytes) *)
Definition gen_src_read_sources (to_stdout : bool) (name : str) (cdef_file csrc_file : list N) : option (list N) :=
  match read_text (c_csrc cs) csrc_file with
  | None => None
  | Some csrc =>
    match read_text (c_cdef cs) cdef_file with
    | None => None
    | Some cdef => write_out ws cs to_stdout (emit (make_ffi name cdef csrc))
    end
  end.

(* cffi-gen-src exec-python [--ffi-var VAR] SCRIPT OUTPUT *)
Definition gen_src_exec_python (to_stdout : bool) (script_file : list N) (var : str) : option (list N) :=
  match read_text (c_pyfile cs) script_file with
  | None => None
  | Some script => match find_ffi script var with
                   | None => None
                   | Some f => write_out ws cs to_stdout (emit f)
                   end
  end.

Definition direct_of_script (script var : str) : option (list N) :=
  match find_ffi script var with None => None | Some f => write_text Utf8 (emit f) end.
End Pipelines.

(* ------------------------------------------------------------------------------------------------------------
   The tool as a program (REVIEW3 item 12).  coq/C24/Gen.v holds, regenerated from _cffi_gen_src.py on every run
   as statement-by-statement translations (tools/props/c24.py `Stmts`), the functions make_ffi_from_sources,
   generate_c_source, exec_python, read_sources and run; the vocabulary they are translated into is below.
   Everything that can raise returns `res`; an exception ends the function (bind).  What cffi itself does is a
   record of primitives `prims` (abstract: the theorems hold for every instance). *)
Inductive err :=
| EDecode          (* UnicodeDecodeError while reading an input file *)
| ECffi            (* cdef() / set_source() refused the text *)
| EName | EType    (* find_ffi_in_python_script: name not bound / not an FFI *)
| EScript          (* the script raised *)
| EEncode          (* the generated text is not encodable *)
| EInternal        (* a shape of _make_c_or_py_source outside the model (never, for the regenerated holes) *)
| EUsage.          (* parser.error(): exit status 2 *)

Inductive res (A : Type) := Ok (a : A) | Err (e : err).
Arguments Ok {A} a.
Arguments Err {A} e.
Definition bind {A B} (r : res A) (k : A -> res B) : res B := match r with Ok a => k a | Err e => Err e end.

Record prims (ffi : Type) := {
  p_new : ffi;                                   (* FFI() *)
  p_cdef : ffi -> str -> res ffi;                (* ffi.cdef(text) *)
  p_set_source : ffi -> str -> str -> res ffi;   (* ffi.set_source(module_name, source) *)
  p_gen : ffi -> genarg -> str;                  (* the text Recompiler.write_source_to_f(_, arg) writes for this ffi:
                                                    C23.Model.make_source's `gen` (cffi's text-to-text work) *)
  p_find : str -> str -> str -> res ffi          (* find_ffi_in_python_script(pysrc, filename, ffivar) *)
}.
Arguments p_new {ffi}. Arguments p_cdef {ffi}. Arguments p_set_source {ffi}. Arguments p_gen {ffi}. Arguments p_find {ffi}.

(* an input file object as argparse.FileType hands it over: name, bytes on disk, the codec it was opened with *)
Record infile := { if_name : str; if_bytes : list N; if_codec : codec }.
Definition m_read (f : infile) : res str :=
  match read_text (if_codec f) (if_bytes f) with Some s => Ok s | None => Err EDecode end.

(* io.StringIO: its content *)
Definition sio := str.
Definition m_sio_new : res sio := Ok [].
Definition m_getvalue (o : sio) : res str := Ok o.

(* FFI.emit_c_code(target) (api.py:679: recompile(c_file=target, call_c_compiler=False) -> make_c_source ->
   _make_c_or_py_source) — C23's model of the whole function, with the holes regenerated from recompiler.py.
   File-like target: the text it receives is appended to it. *)
Definition m_emit_c_code {ffi} (P : prims ffi) (h : holes) (f : ffi) (o : sio) : res sio :=
  match make_source h (p_gen P f) true true None with
  | Some (_, Some w, _) => Ok (o ++ w)
  | _ => Err EInternal
  end.
(* path target holding `old` (None = absent): the content of the target afterwards (text; POSIX rename) *)
Definition emit_c_code_to_path {ffi} (P : prims ffi) (h : holes) (f : ffi) (old : option str) : res (option str) :=
  match make_source h (p_gen P f) false true old with
  | Some (t, _, _) => Ok (f_target (run t (fs0 old)))
  | None => Err EInternal
  end.

(* what a run of the tool leaves behind: bytes written to OUTPUT (a path: created or truncated first) or stdout *)
Inductive effect := NoOutput | Wrote (to_stdout : bool) (b : list N).
Definition dash : str := [45].
(* write_c_source(output, generated): its two branches are the regenerated `writers` / `codecs` facts *)
Definition m_write_c_source (ws : writers) (cs : codecs) (output generated : str) : res effect :=
  match write_out ws cs (str_eqb output dash) generated with
  | Some b => Ok (Wrote (str_eqb output dash) b)
  | None => Err EEncode
  end.

(* the namespace parser.parse_args() returns (the argparse declarations themselves are not modelled; the codecs
   of the three FileType arguments are the regenerated `the_codecs`) *)
Record parsed := { a_mode : str; a_output : str; a_pyfile : infile; a_ffi_var : str; a_module_name : str;
                   a_cdef : infile; a_csrc : infile; a_same_file : bool (* same_input_file(args.cdef, args.csrc) *) }.
Definition exit_status {A} (r : res A) : Z := match r with Ok _ => 0 | Err EUsage => 2 | Err _ => 1 end%Z.

(* the reference: FFI().cdef(text); set_source(name, prelude); emit_c_code(path) into a target holding `old`,
   the file's text encoded in the (UTF-8) locale *)
Definition direct_ffi {ffi} (P : prims ffi) (name cdef csrc : str) : res ffi :=
  bind (p_cdef P (p_new P) cdef) (fun f => p_set_source P f name csrc).
Definition direct_bytes {ffi} (P : prims ffi) (h : holes) (f : ffi) (old : option str) : res (option (list N)) :=
  bind (emit_c_code_to_path P h f old) (fun c =>
    match c with
    | None => Ok None
    | Some t => match write_text Utf8 t with Some b => Ok (Some b) | None => Err EEncode end
    end).
