(* C24 — the two ways of producing the generated C source, as compositions.  Definitions only.

   src/cffi/_cffi_gen_src.py
     read_sources:   csrc = csrc_input.read(); cdef = cdef_input.read()      (files opened by argparse
                     FileType('r', encoding='utf-8'): UTF-8 decoding + universal newlines)
                     ffi = make_ffi_from_sources(module_name, cdef, csrc)    (FFI(); cdef(); set_source())
                     generated = generate_c_source(ffi)                      (ffi.emit_c_code(StringIO))
                     write_c_source(output, generated)                       (open(output, 'w', encoding='utf-8')
                                                                              or sys.stdout.write for '-')
     exec_python:    ffi = find_ffi_in_python_script(text, filename, ffi_var); then the same two steps
   src/cffi/api.py:679 FFI.emit_c_code(filename): recompile -> _make_c_or_py_source -> open(target, 'w').write

   `make_ffi`, `find_ffi` and `emit` (everything cffi does between text and text) are Section
   variables: the model says how bytes become text and text becomes bytes around them.
   Hypothesis of the equalities: the locale / stdout encoding is UTF-8, POSIX newline handling; the tool's own
   codecs are those of Gen.v. *)
From Coq Require Import List NArith ZArith Bool.
Import ListNotations.
From Cffi Require Import C35.PyStr C24.Utf8 C23.Model.
Open Scope N_scope.

(* the codec named by an `encoding=` argument.  Which codec each of the tool's files uses is a REGENERATED fact:
   coq/C24/Gen.v (`the_codecs`) is extracted from _cffi_gen_src.py on every run by tools/props/c24.py *)
Inductive codec := Utf8 | Utf8Sig | CodecOther.

Definition strip_bom (b : list N) : list N :=
  match b with 239 :: 187 :: 191 :: r => r | _ => b end.          (* EF BB BF *)

(* bytes.decode(codec): 'utf-8-sig' drops one leading BOM; other codecs are not modelled *)
Definition decode_with (c : codec) (b : list N) : option str :=
  match c with
  | Utf8 => utf8_decode b
  | Utf8Sig => utf8_decode (strip_bom b)
  | CodecOther => None
  end.

(* str.encode(codec) as a file is written: 'utf-8-sig' writes a BOM first *)
Definition encode_with (c : codec) (s : str) : option (list N) :=
  match c with
  | Utf8 => utf8_encode s
  | Utf8Sig => match utf8_encode s with Some b => Some (239 :: 187 :: 191 :: b) | None => None end
  | CodecOther => None
  end.

Record codecs := { c_pyfile : codec; c_cdef : codec; c_csrc : codec; c_output : codec }.

(* how an output branch of write_c_source hands the generated text over: in one write of the whole text, or in
   some other way (line by line, print, ...) that the model does not describe.  Also a REGENERATED fact (Gen.v
   `the_writers`): the stdout branch must be exactly `sys.stdout.write(generated)`, the file branch exactly
   `f.write(generated)` under `with open(output, 'w', encoding=...) as f` *)
Inductive writer := WriteAll | WriterOther.
Record writers := { w_stdout : writer; w_file : writer }.

(* open(path, 'r', encoding=c).read(): decoding, then universal newlines *)
Definition read_text (c : codec) (b : list N) : option str :=
  match decode_with c b with Some s => Some (universal_nl s) | None => None end.

(* open(path, 'w', encoding=c).write(s)  /  sys.stdout.write(s) with a UTF-8 stdout *)
Definition write_text (c : codec) (s : str) : option (list N) := encode_with c s.

(* write_c_source(output, generated): OUTPUT '-' (to_stdout, a UTF-8 stdout) or a path *)
Definition write_out (ws : writers) (cs : codecs) (to_stdout : bool) (s : str) : option (list N) :=
  if to_stdout
  then match w_stdout ws with WriteAll => write_text Utf8 s | WriterOther => None end
  else match w_file ws with WriteAll => write_text (c_output cs) s | WriterOther => None end.

Section Pipelines.
Variable ffi : Type.
Variable make_ffi : str -> str -> str -> ffi.      (* module name, cdef text, C source prelude *)
Variable find_ffi : str -> str -> option ffi.      (* script text, --ffi-var name *)
Variable emit : ffi -> str.                        (* the text FFI.emit_c_code generates *)
Variable cs : codecs.                              (* the tool's codecs (Gen.v) *)
Variable ws : writers.                             (* the tool's output branches (Gen.v) *)

(* FFI().cdef(text); set_source(name, prelude); emit_c_code(filename)   — UTF-8 locale *)
Definition direct (name cdef csrc : str) : option (list N) := write_text Utf8 (emit (make_ffi name cdef csrc)).

(* cffi-gen-src read-sources NAME CDEF CSRC OUTPUT   (OUTPUT a path or '-': the same bytes) *)
Definition gen_src_read_sources (to_stdout : bool) (name : str) (cdef_file csrc_file : list N) : option (list N) :=
  match read_text (c_csrc cs) csrc_file with
  | None => None
  | Some csrc =>
    match read_text (c_cdef cs) cdef_file with
    | None => None
    | Some cdef => write_out ws cs to_stdout (emit (make_ffi name cdef csrc))
    end
  end.

(* cffi-gen-src exec-python [--ffi-var VAR] SCRIPT OUTPUT *)
Definition gen_src_exec_python (to_stdout : bool) (script_file : list N) (var : str) : option (list N) :=
  match read_text (c_pyfile cs) script_file with
  | None => None
  | Some script => match find_ffi script var with
                   | None => None
                   | Some f => write_out ws cs to_stdout (emit f)
                   end
  end.

Definition direct_of_script (script var : str) : option (list N) :=
  match find_ffi script var with None => None | Some f => write_text Utf8 (emit f) end.
End Pipelines.
