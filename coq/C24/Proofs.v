(* C24 — proofs: UTF-8 round trip (C24/Utf8.v) and equality of the two pipelines *)
From Coq Require Import List NArith ZArith Bool Lia.
Import ListNotations.
From Cffi Require Import C35.PyStr C24.Utf8 C23.Model C24.Model C24.Gen.
Open Scope N_scope.

Lemma universal_nl_id c : no_cr c -> universal_nl c = c.
Proof.
  induction 1 as [|x l Hx Hl IH]; cbn; auto.
  destruct (x =? 13) eqn:E; [apply N.eqb_eq in E; congruence|]. rewrite IH. auto.
Qed.

Lemma read_text_of_encoded s b : utf8_encode s = Some b -> read_text Utf8 b = Some (universal_nl s).
Proof. intros H. unfold read_text, decode_with. rewrite (utf8_roundtrip _ _ H). reflexivity. Qed.

(* the tool's codecs, as extracted from the source, are all plain UTF-8 — this is where a change of an
   `encoding=` argument breaks the proofs below *)
Lemma tool_codecs_are_utf8 :
  c_pyfile the_codecs = Utf8 /\ c_cdef the_codecs = Utf8 /\ c_csrc the_codecs = Utf8 /\ c_output the_codecs = Utf8.
Proof. repeat split; reflexivity. Qed.

(* both output branches hand the generated text over in one write — where a rewrite of write_c_source
   (line-by-line printing, ...) breaks the proofs below *)
Lemma tool_writers_write_all : w_stdout the_writers = WriteAll /\ w_file the_writers = WriteAll.
Proof. split; reflexivity. Qed.

Lemma write_out_tool to_stdout s : write_out the_writers the_codecs to_stdout s = write_text Utf8 s.
Proof.
  unfold write_out. destruct tool_writers_write_all as [-> ->].
  destruct tool_codecs_are_utf8 as [_ [_ [_ ->]]]. destruct to_stdout; reflexivity.
Qed.

Section Pipelines.
Variable ffi : Type.
Variable make_ffi : str -> str -> str -> ffi.
Variable find_ffi : str -> str -> option ffi.
Variable emit : ffi -> str.

Theorem read_sources_is_direct : forall to_stdout name cdef csrc bc bs,
  utf8_encode cdef = Some bc -> utf8_encode csrc = Some bs ->
  gen_src_read_sources ffi make_ffi emit the_codecs the_writers to_stdout name bc bs =
  direct ffi make_ffi emit name (universal_nl cdef) (universal_nl csrc).
Proof.
  intros to_stdout name cdef csrc bc bs Hc Hs. unfold gen_src_read_sources, direct.
  destruct tool_codecs_are_utf8 as [_ [Ec [Es _]]]. rewrite Ec, Es.
  rewrite (read_text_of_encoded _ _ Hs), (read_text_of_encoded _ _ Hc). apply write_out_tool.
Qed.

Corollary read_sources_is_direct_no_cr : forall to_stdout name cdef csrc bc bs, no_cr cdef -> no_cr csrc ->
  utf8_encode cdef = Some bc -> utf8_encode csrc = Some bs ->
  gen_src_read_sources ffi make_ffi emit the_codecs the_writers to_stdout name bc bs = direct ffi make_ffi emit name cdef csrc.
Proof.
  intros to_stdout name cdef csrc bc bs Nc Ns Hc Hs. rewrite (read_sources_is_direct to_stdout _ _ _ _ _ Hc Hs).
  rewrite !universal_nl_id; auto.
Qed.

Theorem exec_python_is_direct : forall to_stdout script var b, utf8_encode script = Some b ->
  gen_src_exec_python ffi find_ffi emit the_codecs the_writers to_stdout b var =
  direct_of_script ffi find_ffi emit (universal_nl script) var.
Proof.
  intros to_stdout script var b H. unfold gen_src_exec_python, direct_of_script.
  destruct tool_codecs_are_utf8 as [-> [_ [_ _]]].
  rewrite (read_text_of_encoded _ _ H). destruct (find_ffi (universal_nl script) var); auto. apply write_out_tool.
Qed.

(* the bytes written decode back to exactly the text cffi generated *)
Theorem output_decodes_to_emitted : forall name cdef csrc out,
  direct ffi make_ffi emit name cdef csrc = Some out ->
  utf8_decode out = Some (emit (make_ffi name cdef csrc)).
Proof. intros name cdef csrc out H. unfold direct, write_text in H. apply utf8_roundtrip. auto. Qed.

(* undecodable input files are rejected, nothing is written *)
Theorem undecodable_input_rejected : forall to_stdout name bc bs,
  utf8_decode bc = None \/ utf8_decode bs = None ->
  gen_src_read_sources ffi make_ffi emit the_codecs the_writers to_stdout name bc bs = None.
Proof.
  intros to_stdout name bc bs [H|H]; unfold gen_src_read_sources, read_text;
    destruct tool_codecs_are_utf8 as [_ [-> [-> _]]]; unfold decode_with; rewrite H; auto.
  destruct (utf8_decode bs); auto.
Qed.

(* what the proofs above exclude: with 'utf-8-sig' on an input, a prelude that starts with U+FEFF loses it *)
Theorem utf8sig_input_loses_bom :
  let cs := {| c_pyfile := Utf8; c_cdef := Utf8; c_csrc := Utf8Sig; c_output := Utf8 |} in
  exists cdef csrc bc bs, utf8_encode cdef = Some bc /\ utf8_encode csrc = Some bs /\
    gen_src_read_sources str (fun n c s => c ++ s) (fun x => x) cs the_writers false [109] bc bs <>
    direct str (fun n c s => c ++ s) (fun x => x) [109] cdef csrc.
Proof.
  exists [105], [65279; 120], [105], [239;187;191;120]. vm_compute. repeat split; discriminate.
Qed.
End Pipelines.
