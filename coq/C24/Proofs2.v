(* C24 — proofs about the tool's functions as regenerated from _cffi_gen_src.py (C24/Gen.v: make_ffi_from_sources,
   generate_c_source, exec_python, read_sources, run) and FFI.emit_c_code as C23's model of _make_c_or_py_source
   with the holes regenerated from recompiler.py (`emit_holes`). *)
From Coq Require Import List NArith ZArith Bool Lia.
Import ListNotations.
From Cffi Require Import C35.PyStr C35.Model C35.Lemmas C24.Utf8 C23.Model C24.Model C24.Gen C24.Proofs.
Open Scope N_scope.

(* what the reference leaves in the target, as the tool's effect type: OUTPUT holds exactly these bytes *)
Definition as_effect (to_stdout : bool) (ob : option (list N)) : res effect :=
  match ob with Some b => Ok (Wrote to_stdout b) | None => Err EInternal end.

Definition mode_exec_python : str := [101;120;101;99;45;112;121;116;104;111;110].
Definition mode_read_sources : str := [114;101;97;100;45;115;111;117;114;99;101;115].

Lemma bind_ok {A} (r : res A) : bind r (fun x => Ok x) = r.
Proof. destruct r; reflexivity. Qed.

Section Tool.
Variable ffi : Type.
Variable P : prims ffi.

(* generate_c_source: io.StringIO() receives, through the file-like branch of _make_c_or_py_source, the text *)
Lemma generate_c_source_text f : generate_c_source P emit_holes f = Ok (p_gen P f GPreamble).
Proof. reflexivity. Qed.

Lemma make_ffi_is_direct name cdef csrc :
  make_ffi_from_sources P emit_holes name cdef csrc = direct_ffi P name cdef csrc.
Proof.
  unfold make_ffi_from_sources, direct_ffi. cbn [bind].
  destruct (p_cdef P (p_new P) cdef) as [f|e]; cbn [bind]; [|reflexivity].
  apply bind_ok.
Qed.

Lemma write_tool output g :
  m_write_c_source the_writers the_codecs output g =
  match write_text Utf8 g with Some b => Ok (Wrote (str_eqb output dash) b) | None => Err EEncode end.
Proof. unfold m_write_c_source. rewrite write_out_tool. reflexivity. Qed.

(* FFI.emit_c_code(path) on a fresh target: the file holds the generated text *)
Lemma direct_fresh f :
  direct_bytes P emit_holes f None =
  match write_text Utf8 (p_gen P f GPreamble) with Some b => Ok (Some b) | None => Err EEncode end.
Proof. reflexivity. Qed.

(* generate + write = what emit_c_code leaves in a fresh target, whatever OUTPUT is (a path or '-') *)
Theorem direct_fresh_target : forall f output,
  bind (generate_c_source P emit_holes f) (m_write_c_source the_writers the_codecs output) =
  bind (direct_bytes P emit_holes f None) (as_effect (str_eqb output dash)).
Proof.
  intros f output. rewrite generate_c_source_text, direct_fresh. cbn [bind]. rewrite write_tool.
  destruct (write_text Utf8 (p_gen P f GPreamble)); reflexivity.
Qed.

Lemma m_read_encoded n s b c : c = Utf8 -> utf8_encode s = Some b ->
  m_read {| if_name := n; if_bytes := b; if_codec := c |} = Ok (universal_nl s).
Proof. intros -> H. unfold m_read. cbn. rewrite (read_text_of_encoded _ _ H). reflexivity. Qed.

Theorem read_sources_is_direct2 : forall output name cdef csrc bc bs n1 n2,
  utf8_encode cdef = Some bc -> utf8_encode csrc = Some bs ->
  read_sources P emit_holes output name
    {| if_name := n1; if_bytes := bc; if_codec := c_cdef the_codecs |}
    {| if_name := n2; if_bytes := bs; if_codec := c_csrc the_codecs |} =
  bind (direct_ffi P name (universal_nl cdef) (universal_nl csrc)) (fun f =>
  bind (direct_bytes P emit_holes f None) (as_effect (str_eqb output dash))).
Proof.
  intros output name cdef csrc bc bs n1 n2 Hc Hs. unfold read_sources.
  destruct tool_codecs_are_utf8 as [_ [Ec [Es _]]].
  rewrite (m_read_encoded n2 _ _ _ Es Hs), (m_read_encoded n1 _ _ _ Ec Hc). cbn [bind].
  rewrite make_ffi_is_direct.
  destruct (direct_ffi P name (universal_nl cdef) (universal_nl csrc)) as [f|e]; cbn [bind]; [|reflexivity].
  rewrite <- direct_fresh_target. rewrite generate_c_source_text. cbn [bind]. apply bind_ok.
Qed.

(* an undecodable input file: UnicodeDecodeError, nothing is written (csrc is read first) *)
Theorem read_sources_undecodable : forall output name ci si,
  m_read si = Err EDecode \/ m_read ci = Err EDecode ->
  read_sources P emit_holes output name ci si = Err EDecode.
Proof.
  intros output name ci si [H|H]; unfold read_sources; rewrite H; cbn [bind]; auto.
  destruct (m_read si) as [x|e] eqn:E; cbn [bind]; [reflexivity|].
  unfold m_read in E. destruct (read_text (if_codec si) (if_bytes si)); congruence.
Qed.

Theorem exec_python_is_direct2 : forall output script b n var,
  utf8_encode script = Some b ->
  exec_python P emit_holes output {| if_name := n; if_bytes := b; if_codec := c_pyfile the_codecs |} var =
  bind (p_find P (universal_nl script) n var) (fun f =>
  bind (direct_bytes P emit_holes f None) (as_effect (str_eqb output dash))).
Proof.
  intros output script b n var H. unfold exec_python.
  destruct tool_codecs_are_utf8 as [Ep _].
  rewrite (m_read_encoded n _ _ _ Ep H). cbn [bind if_name].
  destruct (p_find P (universal_nl script) n var) as [f|e]; cbn [bind]; [|reflexivity].
  rewrite <- direct_fresh_target. rewrite generate_c_source_text. cbn [bind]. apply bind_ok.
Qed.

(* run(): which function each subcommand reaches, with which fields of the parsed arguments, and the usage errors *)
Theorem run_dispatch : forall args,
  run P emit_holes args =
  if str_eqb (a_mode args) mode_exec_python
  then exec_python P emit_holes (a_output args) (a_pyfile args) (a_ffi_var args)
  else if str_eqb (a_mode args) mode_read_sources
       then if a_same_file args then Err EUsage
            else read_sources P emit_holes (a_output args) (a_module_name args) (a_cdef args) (a_csrc args)
       else Err EUsage.
Proof.
  intros args. unfold run, mode_exec_python, mode_read_sources.
  destruct (str_eqb (a_mode args) _); [apply bind_ok|].
  destruct (str_eqb (a_mode args) _); [|reflexivity].
  destruct (a_same_file args); [reflexivity|apply bind_ok].
Qed.

(* exit statuses of run: 0 exactly when something was written; 2 for the usage errors; 1 for exceptions *)
Theorem run_status : forall args,
  (exit_status (run P emit_holes args) = 0%Z <-> exists e, run P emit_holes args = Ok e) /\
  (str_eqb (a_mode args) mode_exec_python = false -> str_eqb (a_mode args) mode_read_sources = false ->
   exit_status (run P emit_holes args) = 2%Z) /\
  (str_eqb (a_mode args) mode_exec_python = false -> str_eqb (a_mode args) mode_read_sources = true ->
   a_same_file args = true -> exit_status (run P emit_holes args) = 2%Z).
Proof.
  intros args. split; [|split].
  - destruct (run P emit_holes args) as [e|e]; cbn.
    + split; eauto.
    + split; [destruct e; discriminate|intros [x X]; discriminate].
  - intros A B. rewrite run_dispatch, A, B. reflexivity.
  - intros A B C. rewrite run_dispatch, A, B, C. reflexivity.
Qed.
End Tool.

(* a target that already holds the generated text with CRLF line ends: emit_c_code(path) finds it "up to date"
   (text-mode read) and leaves the CRLF bytes; the tool (open(output, 'w')) writes the LF text *)
Definition crlf_prims : prims str :=
  {| p_new := []; p_cdef := fun f t => Ok (f ++ t); p_set_source := fun f n s => Ok (f ++ s);
     p_gen := fun f _ => f; p_find := fun _ _ _ => Err EName |}.

Theorem direct_crlf_target_refuted : exists (f old output : str),
  universal_nl old = p_gen crlf_prims f GPreamble /\
  bind (generate_c_source crlf_prims emit_holes f) (m_write_c_source the_writers the_codecs output) = Ok (Wrote false [97;10]) /\
  bind (direct_bytes crlf_prims emit_holes f (Some old)) (as_effect (str_eqb output dash)) = Ok (Wrote false [97;13;10]).
Proof. exists [97;10], [97;13;10], [111]. vm_compute. repeat split; reflexivity. Qed.

(* and with any pre-existing target the tool's output is the generated text: open(output,'w') truncates *)
