(* C16 — pointer difference: theorems on the regenerated arithmetic of cdata_sub (C16/Gen.v gen_sub_prog). *)
From Coq Require Import ZArith List Bool Lia.
Import ListNotations.
From Cffi Require Import C16.Gen C16.Model C16.Proofs.
Open Scope Z_scope.

Lemma ptr_sub_unfold v w o : c_kind v = KPtr o -> 0 < c_isz w ->
  ptr_sub v w =
  let d := to_ssize (c_data v - c_data w) in let s := c_isz w in
  if 1 <? s then if negb (cmod d s =? 0) then Err ValueError else Ok (cdiv d s) else Ok d.
Proof.
  intros Hk Hs. unfold ptr_sub. rewrite Hk.
  destruct (Z.leb_spec (c_isz w) 0); [lia|]. cbn [andb]. apply sub_arith_now.
Qed.

(* p - q = k exactly when the (signed) byte distance is k * itemsize — negative k included *)
Lemma ptr_sub_exact v w o k : c_kind v = KPtr o -> 0 < c_isz w ->
  (ptr_sub v w = Ok k <-> to_ssize (c_data v - c_data w) = k * c_isz w).
Proof.
  intros Hk Hs. rewrite (ptr_sub_unfold v w o Hk Hs). cbv zeta.
  set (d := to_ssize (c_data v - c_data w)). set (s := c_isz w) in *. unfold cmod, cdiv.
  destruct (Z.ltb_spec 1 s) as [H1|H1].
  - pose proof (Z.quot_rem' d s) as QR.
    destruct (Z.eqb_spec (Z.rem d s) 0) as [E|E]; cbn [negb].
    + split; intros H.
      * inversion H; subst k. rewrite E in QR. lia.
      * rewrite H. rewrite Z.quot_mul by lia. reflexivity.
    + split; intros H; [discriminate|].
      exfalso. apply E. rewrite H. apply Z.rem_mul. lia.
  - assert (s = 1) as -> by lia. split; intros H.
    + inversion H. lia.
    + f_equal. lia.
Qed.

(* ValueError exactly when the byte distance is not a multiple of the item size *)
Lemma ptr_sub_valueerror v w o : c_kind v = KPtr o -> 0 < c_isz w ->
  (ptr_sub v w = Err ValueError <-> ~ exists k, to_ssize (c_data v - c_data w) = k * c_isz w).
Proof.
  intros Hk Hs. rewrite (ptr_sub_unfold v w o Hk Hs). cbv zeta.
  set (d := to_ssize (c_data v - c_data w)). set (s := c_isz w) in *. unfold cmod, cdiv.
  destruct (Z.ltb_spec 1 s) as [H1|H1].
  - pose proof (Z.quot_rem' d s) as QR.
    destruct (Z.eqb_spec (Z.rem d s) 0) as [E|E]; cbn [negb].
    + split; intros H; [discriminate|]. exfalso. apply H. exists (Z.quot d s). rewrite E in QR. lia.
    + split; intros H; [|reflexivity]. intros [k Hk']. apply E. rewrite Hk'. apply Z.rem_mul. lia.
  - assert (s = 1) as -> by lia. split; intros H; [discriminate|].
    exfalso. apply H. exists d. lia.
Qed.

(* no other outcome: a difference of two pointers of the same type either is the exact quotient or ValueError *)
Lemma ptr_sub_total v w o : c_kind v = KPtr o -> 0 < c_isz w ->
  (exists k, ptr_sub v w = Ok k) \/ ptr_sub v w = Err ValueError.
Proof.
  intros Hk Hs. rewrite (ptr_sub_unfold v w o Hk Hs). cbv zeta.
  destruct (1 <? c_isz w); [destruct (negb _)|]; eauto.
Qed.

(* void* (item size not positive, CT_IS_VOID_PTR): the byte distance itself *)
Lemma ptr_sub_voidp v w o : c_kind v = KPtr o -> c_isz w <= 0 -> c_voidp w = true ->
  ptr_sub v w = Ok (to_ssize (c_data v - c_data w)).
Proof.
  intros Hk Hs Hv. unfold ptr_sub. rewrite Hk, Hv.
  destruct (Z.leb_spec (c_isz w) 0); cbn [andb negb]; rewrite sub_arith_now;
    destruct (Z.ltb_spec 1 (c_isz w)); try lia; reflexivity.
Qed.
