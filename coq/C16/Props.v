(* C16 — Array and pointer indexing, slicing and arithmetic follow the C model.
   Statements only; proofs in C16/Proofs.v.  Addresses are integers modulo 2^64. *)
From Coq Require Import ZArith List Bool.
Import ListNotations.
From Cffi Require Import C16.Gen C16.Model C16.Proofs C16.Proofs2.
Open Scope Z_scope.

(* x[i] on an array of length n: accepted iff 0 <= i < n, at address x + i*size; anything else
   (any Python int, also beyond Py_ssize_t) raises IndexError *)
Theorem C16_index_accept_iff : forall len addr isz i, len <= 2 ^ 63 ->
  (exists a, get_indexed_ptr (arr len addr isz) i = Ok a) <-> 0 <= i < len.
Proof. exact index_array_accept_iff. Qed.
Print Assumptions C16_index_accept_iff.

Theorem C16_index_accepted_address : forall len addr isz i, 0 <= i < len -> len <= 2 ^ 63 ->
  get_indexed_ptr (arr len addr isz) i = Ok (wrap64 (addr + i * isz)).
Proof. exact index_array_accepted. Qed.
Print Assumptions C16_index_accepted_address.

Theorem C16_index_rejected_IndexError : forall len addr isz i, ~ (0 <= i < len) ->
  get_indexed_ptr (arr len addr isz) i = Err IndexError.
Proof. exact index_array_rejected. Qed.
Print Assumptions C16_index_rejected_IndexError.

(* x[i:j]: accepted iff no step and 0 <= i <= j <= n (bounds within Py_ssize_t) *)
Theorem C16_slice_accept_iff : forall len addr isz a b hs, len < 2 ^ 63 ->
  - 2 ^ 63 <= a < 2 ^ 63 -> - 2 ^ 63 <= b < 2 ^ 63 ->
  (exists r, getslicearg (arr len addr isz) (BInt a) (BInt b) hs = Ok r) <->
  (hs = false /\ 0 <= a <= b /\ b <= len).
Proof. exact slice_array_accept_iff. Qed.
Print Assumptions C16_slice_accept_iff.

Theorem C16_slice_rejected_IndexError : forall len addr isz a b hs,
  hs = true \/ ~ (0 <= a <= b /\ b <= len) ->
  - 2 ^ 63 <= a < 2 ^ 63 -> - 2 ^ 63 <= b < 2 ^ 63 ->
  getslicearg (arr len addr isz) (BInt a) (BInt b) hs = Err IndexError.
Proof. exact slice_array_rejected. Qed.
Print Assumptions C16_slice_rejected_IndexError.

(* the property text says "anything else raises IndexError": for a bound outside Py_ssize_t the
   released code raises OverflowError (finding "slice_bound_not_ssize"); the flag regenerated from
   _cdata_getslicearg says whether the tree contains the proposed conversion to IndexError *)
Theorem C16_slice_huge_bound : forall cd a b hs,
  ssize_ok a = false \/ (ssize_ok a = true /\ ssize_ok b = false) ->
  getslicearg cd (BInt a) (BInt b) hs =
  Err (if gen_slice_bound_overflow_is_indexerror then IndexError else OverflowError).
Proof. exact slice_huge_bound. Qed.
Print Assumptions C16_slice_huge_bound.

(* an accepted slice is an array view of length j-i at x + i*size, whose element k is x[i+k] *)
Theorem C16_slice_view : forall len addr isz a b, 0 <= a <= b -> b <= len -> len < 2 ^ 63 ->
  slice (arr len addr isz) (BInt a) (BInt b) false = Ok (arr (b - a) (wrap64 (addr + isz * a)) isz).
Proof. exact slice_view. Qed.
Print Assumptions C16_slice_view.

Theorem C16_slice_view_aliases : forall len addr isz a b k,
  0 <= a <= b -> b <= len -> len < 2 ^ 63 -> 0 <= k < b - a ->
  get_indexed_ptr (arr (b - a) (wrap64 (addr + isz * a)) isz) k =
  get_indexed_ptr (arr len addr isz) (a + k).
Proof. exact slice_view_aliases. Qed.
Print Assumptions C16_slice_view_aliases.

(* a rejected index / slice / slice assignment changes nothing *)
Theorem C16_rejected_slice_touches_nothing : forall base st v a b hs ic src cd e,
  nth_error (s_views st) v = Some cd -> getslicearg cd a b hs = Err e ->
  step base st (OSlice v a b hs) = (st, RErr e) /\
  step base st (OAssSlice v a b hs ic src) = (st, RErr e).
Proof. exact rejected_slice_touches_nothing. Qed.
Print Assumptions C16_rejected_slice_touches_nothing.

Theorem C16_rejected_index_touches_nothing : forall base st o e st' v i,
  o = OIndexRead v i \/ (exists c, o = OIndexWrite v i c) ->
  forall cd, nth_error (s_views st) v = Some cd -> get_indexed_ptr cd i = Err e ->
  step base st o = (st', RErr e) -> st' = st.
Proof. intros base st o e st' v i. exact (rejected_touches_nothing base st o e st' v i). Qed.
Print Assumptions C16_rejected_index_touches_nothing.

(* slice assignment from an iterable of convertible values succeeds iff it has exactly j-i values,
   ValueError otherwise *)
Theorem C16_slice_assignment_count : forall base S n mem esc a items m esc' e,
  (forall c, In c items -> exists bs, c = Ok bs) ->
  store_items base mem esc a S n items = (m, esc', e) ->
  e = if Nat.eqb (length items) n then None else Some ValueError.
Proof. exact store_items_count. Qed.
Print Assumptions C16_slice_assignment_count.

(* pointers: p[i] lives i*sizeof(T) bytes past p; (p+i)[j] aliases p[i+j]; (p+i)-p = i *)
Theorem C16_index_pointer : forall addr isz i, ssize_ok i = true -> addr <> 0 ->
  get_indexed_ptr (ptr addr isz) i = Ok (wrap64 (addr + i * isz)).
Proof. exact index_pointer. Qed.
Print Assumptions C16_index_pointer.

Theorem C16_add_then_index_aliases : forall addr isz i j q,
  ssize_ok i = true -> ssize_ok j = true -> ssize_ok (i + j) = true -> 0 <= isz -> addr <> 0 ->
  add_or_sub (ptr addr isz) i 1 = Ok q -> c_data q <> 0 ->
  get_indexed_ptr q j = get_indexed_ptr (ptr addr isz) (i + j).
Proof. exact add_then_index_aliases. Qed.
Print Assumptions C16_add_then_index_aliases.

Theorem C16_add_then_sub : forall addr isz i q,
  ssize_ok i = true -> 1 <= isz -> - 2 ^ 63 <= i * isz < 2 ^ 63 ->
  add_or_sub (ptr addr isz) i 1 = Ok q -> ptr_sub q (ptr addr isz) = Ok i.
Proof. exact add_then_sub. Qed.
Print Assumptions C16_add_then_sub.

(* an owning pointer from ffi.new("T*") accepts only index 0 *)
Theorem C16_owned_pointer_only_zero : forall addr isz vp i,
  get_indexed_ptr (mkcd (KPtr true) addr isz vp) i =
  if i =? 0 then Ok (wrap64 addr) else Err IndexError.
Proof. exact index_owned_pointer. Qed.
Print Assumptions C16_owned_pointer_only_zero.

(* ffi.offsetof('T[]', i) = i*sizeof(T) exactly when that fits Py_ssize_t, OverflowError otherwise
   (items of non-zero size) ... *)
Theorem C16_offsetof : forall isz i, 0 < isz < 2 ^ 63 -> ssize_ok i = true ->
  offsetof_index isz i =
  if (- 2 ^ 63 <=? i * isz) && (i * isz <? 2 ^ 63) then Ok (i * isz) else Err OverflowError.
Proof. exact offsetof_spec. Qed.
Print Assumptions C16_offsetof.

(* ... and for items of size 0 (T = int[0], an empty struct): 0 when the overflow test is guarded;
   in the released code the test divides by zero and the process receives SIGFPE (finding
   "offsetof_zero_size_item"); the flag is regenerated from direct_typeoffsetof *)
Theorem C16_offsetof_zero_size : forall i, ssize_ok i = true ->
  offsetof_index 0 i = if gen_offsetof_guards_zero_size then Ok 0 else Err Crash.
Proof. exact offsetof_zero_size. Qed.
Print Assumptions C16_offsetof_zero_size.

(* ffi.addressof(x, i) == x + i: whenever i*sizeof(T) fits a Py_ssize_t both operations succeed and
   return the same pointer (both directions); when it does not, addressof raises OverflowError while
   x + i wraps modulo 2^64 *)
Theorem C16_addressof_eq_add : forall cd i, 0 < c_isz cd < 2 ^ 63 -> c_voidp cd = false ->
  ssize_ok i = true -> - 2 ^ 63 <= i * c_isz cd < 2 ^ 63 ->
  addressof_index cd i = add_or_sub cd i 1 /\ exists q, add_or_sub cd i 1 = Ok q.
Proof. exact addressof_eq_add. Qed.
Print Assumptions C16_addressof_eq_add.

Theorem C16_addressof_is_add : forall cd i q, 0 < c_isz cd < 2 ^ 63 -> c_voidp cd = false ->
  addressof_index cd i = Ok q -> add_or_sub cd i 1 = Ok q.
Proof. exact addressof_is_add. Qed.
Print Assumptions C16_addressof_is_add.

Theorem C16_addressof_overflow : forall cd i, 0 < c_isz cd < 2 ^ 63 -> ssize_ok i = true ->
  ~ (- 2 ^ 63 <= i * c_isz cd < 2 ^ 63) -> addressof_index cd i = Err OverflowError.
Proof. exact addressof_overflow. Qed.
Print Assumptions C16_addressof_overflow.

(* History: starting from an owned array of n items of S bytes at [base, base + n*S), after ANY
   sequence of operations — index reads/writes, slices, slice assignments (from iterables, bytes or
   other views, also overlapping), p+i, i+p, p-i, p-q and addressof on ANY of the cdata created so far —
   in which memory is reached only through array views (the decidable guard safe_runb, evaluated along
   the run; a raw pointer produced by arithmetic can be dereferenced anywhere, as in C, and is outside
   the bounds claim): no accepted access touched a byte outside the array (escape flag still false),
   the memory has the same size, and every array view lies inside the base array. *)
Theorem C16_views_stay_inside : forall base S, 0 <= S -> forall mem n ops st' outs,
  0 <= n -> Z.of_nat (length mem) = n * S -> 0 <= base -> base + n * S < 2 ^ 64 ->
  n * S < 2 ^ 63 * Z.max S 1 ->
  safe_runb base S (initial base S mem n) ops = true ->
  run base (initial base S mem n) ops = (st', outs) ->
  s_escaped st' = false /\ length (s_mem st') = length mem /\
  Forall (view_inv base S (n * S)) (s_views st').
Proof. exact views_stay_inside. Qed.
Print Assumptions C16_views_stay_inside.

(* a store changes no byte outside the stored item and reads back *)
Theorem C16_write_frame : forall base mem a bs m j,
  mwrite base mem a bs = Some m ->
  (j < Z.to_nat (a - base) \/ Z.to_nat (a - base) + length bs <= j)%nat ->
  nth_error m j = nth_error mem j.
Proof. exact mwrite_frame. Qed.
Print Assumptions C16_write_frame.

Theorem C16_write_read_back : forall base mem a bs m,
  mwrite base mem a bs = Some m -> mread base m a (Z.of_nat (length bs)) = Some bs.
Proof. exact mwrite_read_back. Qed.
Print Assumptions C16_write_read_back.

(* non-vacuity: int32 array of 4 at 4096: x[1:3] is a 2-item view at 4100; writing view[1] changes
   bytes 8..11 only; x[4] and x[3:2] are IndexError; pointer arithmetic and addressof in between;
   the guard of the history theorem holds for this run *)
Example C16_example :
  let mem := [1;0;0;0; 2;0;0;0; 3;0;0;0; 4;0;0;0] in
  let ops := [OSlice 0 (BInt 1) (BInt 3) false; OIndexWrite 1 1 (Ok [9;9;9;9]); OIndexRead 0 2;
              OIndexRead 0 4; OSlice 0 (BInt 3) (BInt 2) false; OAdd 1 1; OAddressof 0 3; OPtrSub 3 2;
              OAssSlice 0 (BInt 0) (BInt 2) false false (SArray 1); OIndexRead 1 2] in
  run 4096 (initial 4096 4 mem 4) ops =
  (mkst [2;0;0;0; 9;9;9;9; 9;9;9;9; 4;0;0;0]
        [arr 4 4096 4; arr 2 4100 4; ptr 4104 4; ptr 4108 4] false,
   [RView 1 (arr 2 4100 4); RDone; RBytes 4104 (Some [9;9;9;9]); RErr IndexError; RErr IndexError;
    RView 2 (ptr 4104 4); RView 3 (ptr 4108 4); RInt 1; RDone; RErr IndexError])
  /\ safe_runb 4096 4 (initial 4096 4 mem 4) ops = true.
Proof. split; vm_compute; reflexivity. Qed.

(* ---- pointer difference p - q on the arithmetic of cdata_sub AS IT IS IN THE SOURCE NOW: C16/Gen.v
   gen_sub_prog is regenerated on every run (the `if (itemsize > 1)` guard, and for the `diff % itemsize`
   test and the `diff / itemsize` division whether the operands are the declared Py_ssize_t — C's signed
   semantics, truncation toward zero: Z.rem / Z.quot — or cast to size_t); Model.sub_arith interprets it.
   to_ssize (c_data v - c_data w) is the signed byte distance.  An edit of the test or of the division
   (seed C16-c: the test on size_t casts) makes these proofs fail. *)
Theorem C16_ptr_sub_exact : forall v w o k, c_kind v = KPtr o -> 0 < c_isz w ->
  (ptr_sub v w = Ok k <-> to_ssize (c_data v - c_data w) = k * c_isz w).
Proof. exact ptr_sub_exact. Qed.
Print Assumptions C16_ptr_sub_exact.

Theorem C16_ptr_sub_valueerror_iff_not_multiple : forall v w o, c_kind v = KPtr o -> 0 < c_isz w ->
  (ptr_sub v w = Err ValueError <-> ~ exists k, to_ssize (c_data v - c_data w) = k * c_isz w).
Proof. exact ptr_sub_valueerror. Qed.
Print Assumptions C16_ptr_sub_valueerror_iff_not_multiple.

Theorem C16_ptr_sub_total : forall v w o, c_kind v = KPtr o -> 0 < c_isz w ->
  (exists k, ptr_sub v w = Ok k) \/ ptr_sub v w = Err ValueError.
Proof. exact ptr_sub_total. Qed.
Print Assumptions C16_ptr_sub_total.

Theorem C16_ptr_sub_voidp : forall v w o, c_kind v = KPtr o -> c_isz w <= 0 -> c_voidp w = true ->
  ptr_sub v w = Ok (to_ssize (c_data v - c_data w)).
Proof. exact ptr_sub_voidp. Qed.
Print Assumptions C16_ptr_sub_voidp.

(* non-vacuity, negative k: struct of 3 bytes, q 15 bytes after p: p - q = -5, q - p = 5; 14 bytes apart:
   ValueError both ways.  And the teeth: with the remainder test done on size_t casts (what the translator
   produces for seed C16-c) the exact multiple -15 is rejected, because 2^64 - 15 is not a multiple of 3 *)
Example C16_ptr_sub_example :
  ptr_sub (ptr 4096 3) (ptr 4111 3) = Ok (-5) /\ ptr_sub (ptr 4111 3) (ptr 4096 3) = Ok 5 /\
  ptr_sub (ptr 4096 3) (ptr 4110 3) = Err ValueError /\ ptr_sub (ptr 4110 3) (ptr 4096 3) = Err ValueError /\
  ptr_sub (ptr 16 8) (ptr (2 ^ 64 - 16) 8) = Ok 4 /\
  sub_arith {| sp_guard_gt := 1; sp_mod_cast := CUnsigned; sp_div_cast := CSigned |} (-15) 3 = Err ValueError.
Proof. vm_compute. repeat split; reflexivity. Qed.
