(* C16 — proofs about the indexing / slicing / pointer-arithmetic model. *)
From Coq Require Import ZArith List Bool Lia.
Import ListNotations.
From Cffi Require Import C16.Gen C16.Model.
Open Scope Z_scope.

(* ---------------------------------------------------------------- arithmetic *)
Lemma ssize_ok_iff : forall z, ssize_ok z = true <-> - 2 ^ 63 <= z < 2 ^ 63.
Proof.
  intros z. unfold ssize_ok. rewrite andb_true_iff, Z.leb_le, Z.ltb_lt. tauto.
Qed.

Lemma wrap64_small : forall z, 0 <= z < 2 ^ 64 -> wrap64 z = z.
Proof. intros. unfold wrap64. apply Z.mod_small. assumption. Qed.

Lemma wrap64_add_l : forall a b, wrap64 (wrap64 a + b) = wrap64 (a + b).
Proof. intros. unfold wrap64. apply Zplus_mod_idemp_l. Qed.

Lemma to_ssize_small : forall z, - 2 ^ 63 <= z < 2 ^ 63 -> to_ssize z = z.
Proof.
  intros z H. unfold to_ssize, wrap64.
  destruct (Z.ltb_spec z 0).
  - replace (z mod 2 ^ 64) with (z + 2 ^ 64).
    + destruct (Z.ltb_spec (z + 2 ^ 64) (2 ^ 63)); lia.
    + apply Z.mod_unique with (q := -1); lia.
  - rewrite Z.mod_small by lia. destruct (Z.ltb_spec z (2 ^ 63)); lia.
Qed.

Lemma to_ssize_congr : forall z k, to_ssize (z + k * 2 ^ 64) = to_ssize z.
Proof. intros. unfold to_ssize, wrap64. rewrite Z.mod_add by lia. reflexivity. Qed.

Lemma to_ssize_wrap : forall z, to_ssize (wrap64 z) = to_ssize z.
Proof. intros. unfold to_ssize, wrap64. rewrite Z.mod_mod by lia. reflexivity. Qed.

Lemma to_ssize_spec : forall z, exists k, to_ssize z = z + k * 2 ^ 64 /\ - 2 ^ 63 <= to_ssize z < 2 ^ 63.
Proof.
  intros z. unfold to_ssize, wrap64.
  pose proof (Z.mod_pos_bound z (2 ^ 64) ltac:(lia)) as B.
  pose proof (Z.div_mod z (2 ^ 64) ltac:(lia)) as D.
  destruct (Z.ltb_spec (z mod 2 ^ 64) (2 ^ 63)).
  - exists (- (z / 2 ^ 64)). lia.
  - exists (- (z / 2 ^ 64) - 1). lia.
Qed.

(* ---------------------------------------------------------------- A. x[i] on arrays *)
Definition arr (len addr isz : Z) : cdata := mkcd (KArr len) addr isz false.

Theorem index_array_accepted : forall len addr isz i, 0 <= i < len -> len <= 2 ^ 63 ->
  get_indexed_ptr (arr len addr isz) i = Ok (wrap64 (addr + i * isz)).
Proof.
  intros len addr isz i Hi Hl. unfold get_indexed_ptr.
  assert (ssize_ok i = true) as -> by (apply ssize_ok_iff; lia).
  cbn. destruct (Z.ltb_spec i 0); [lia|]. destruct (Z.leb_spec len i); [lia|]. reflexivity.
Qed.

Theorem index_array_rejected : forall len addr isz i, ~ (0 <= i < len) ->
  get_indexed_ptr (arr len addr isz) i = Err IndexError.
Proof.
  intros len addr isz i Hi. unfold get_indexed_ptr.
  destruct (ssize_ok i); [|reflexivity]. cbn.
  destruct (Z.ltb_spec i 0); [reflexivity|]. destruct (Z.leb_spec len i); [reflexivity|]. lia.
Qed.

Theorem index_array_accept_iff : forall len addr isz i, len <= 2 ^ 63 ->
  (exists a, get_indexed_ptr (arr len addr isz) i = Ok a) <-> 0 <= i < len.
Proof.
  intros len addr isz i Hl. split.
  - intros [a H]. destruct (Z_le_dec 0 i); [destruct (Z_lt_dec i len); [lia|]|];
      rewrite index_array_rejected in H by lia; discriminate.
  - intros H. eexists. apply index_array_accepted; assumption.
Qed.

(* B. an owning pointer from ffi.new("T*") accepts only index 0 *)
Theorem index_owned_pointer : forall addr isz vp i,
  get_indexed_ptr (mkcd (KPtr true) addr isz vp) i =
  if i =? 0 then Ok (wrap64 addr) else Err IndexError.
Proof.
  intros. unfold get_indexed_ptr. destruct (Z.eqb_spec i 0) as [->|Hne].
  - cbn. rewrite Z.add_0_r. reflexivity.
  - destruct (ssize_ok i); [|reflexivity]. cbn.
    destruct (Z.eqb_spec i 0); [contradiction|reflexivity].
Qed.

(* ---------------------------------------------------------------- C. x[i:j] on arrays *)
Theorem slice_array_accepted : forall len addr isz a b, 0 <= a <= b -> b <= len -> len < 2 ^ 63 ->
  getslicearg (arr len addr isz) (BInt a) (BInt b) false = Ok (a, b - a).
Proof.
  intros len addr isz a b H1 H2 Hl. unfold getslicearg, bound_value.
  assert (ssize_ok a = true) as -> by (apply ssize_ok_iff; lia).
  assert (ssize_ok b = true) as -> by (apply ssize_ok_iff; lia).
  destruct (Z.ltb_spec b a); [lia|]. cbn.
  destruct (Z.ltb_spec a 0); [lia|]. destruct (Z.ltb_spec len b); [lia|]. reflexivity.
Qed.

Theorem slice_array_rejected : forall len addr isz a b hs,
  hs = true \/ ~ (0 <= a <= b /\ b <= len) ->
  - 2 ^ 63 <= a < 2 ^ 63 -> - 2 ^ 63 <= b < 2 ^ 63 ->
  getslicearg (arr len addr isz) (BInt a) (BInt b) hs = Err IndexError.
Proof.
  intros len addr isz a b hs H Ha Hb. unfold getslicearg, bound_value.
  apply ssize_ok_iff in Ha, Hb. rewrite Ha, Hb.
  destruct hs; [reflexivity|]. destruct H as [H|H]; [discriminate|].
  destruct (Z.ltb_spec b a); [reflexivity|]. cbn.
  destruct (Z.ltb_spec a 0); [reflexivity|]. destruct (Z.ltb_spec len b); [reflexivity|]. lia.
Qed.

(* a missing bound is refused; a bound outside Py_ssize_t raises OverflowError, not IndexError
   (finding "slice_bound_not_ssize") *)
Theorem slice_missing_bound : forall cd b hs,
  getslicearg cd BNone b hs = Err IndexError /\
  (forall a, ssize_ok a = true -> getslicearg cd (BInt a) BNone hs = Err IndexError).
Proof.
  intros. split; [reflexivity|]. intros a Ha. unfold getslicearg, bound_value. rewrite Ha. reflexivity.
Qed.

(* a bound outside Py_ssize_t: OverflowError in the code as released (finding), IndexError once
   _cdata_getslicearg converts it; the regenerated flag says which code is in the tree *)
Theorem slice_huge_bound : forall cd a b hs, ssize_ok a = false \/ (ssize_ok a = true /\ ssize_ok b = false) ->
  getslicearg cd (BInt a) (BInt b) hs =
  Err (if gen_slice_bound_overflow_is_indexerror then IndexError else OverflowError).
Proof.
  intros cd a b hs [H|[H1 H2]]; unfold getslicearg, bound_value.
  - rewrite H. reflexivity.
  - rewrite H1, H2. reflexivity.
Qed.

Theorem slice_array_accept_iff : forall len addr isz a b hs, len < 2 ^ 63 ->
  - 2 ^ 63 <= a < 2 ^ 63 -> - 2 ^ 63 <= b < 2 ^ 63 ->
  (exists r, getslicearg (arr len addr isz) (BInt a) (BInt b) hs = Ok r) <->
  (hs = false /\ 0 <= a <= b /\ b <= len).
Proof.
  intros len addr isz a b hs Hl Ha Hb. split.
  - intros [r H].
    destruct hs; [rewrite slice_array_rejected in H by auto; discriminate|].
    split; [reflexivity|].
    destruct (Z_le_dec 0 a), (Z_le_dec a b), (Z_le_dec b len); try lia;
      rewrite slice_array_rejected in H by (auto; right; lia); discriminate.
  - intros [-> [H1 H2]]. eexists. apply slice_array_accepted; assumption.
Qed.

(* the view: length j-i, address base + i*size *)
Theorem slice_view : forall len addr isz a b, 0 <= a <= b -> b <= len -> len < 2 ^ 63 ->
  slice (arr len addr isz) (BInt a) (BInt b) false = Ok (arr (b - a) (wrap64 (addr + isz * a)) isz).
Proof.
  intros. unfold slice. rewrite slice_array_accepted by assumption. reflexivity.
Qed.

(* element k of the view x[i:j] is element i+k of x *)
Theorem slice_view_aliases : forall len addr isz a b k,
  0 <= a <= b -> b <= len -> len < 2 ^ 63 -> 0 <= k < b - a ->
  get_indexed_ptr (arr (b - a) (wrap64 (addr + isz * a)) isz) k =
  get_indexed_ptr (arr len addr isz) (a + k).
Proof.
  intros. rewrite !index_array_accepted by lia. rewrite wrap64_add_l. f_equal. f_equal. lia.
Qed.

(* ---------------------------------------------------------------- D. pointer arithmetic *)
Definition ptr (addr isz : Z) : cdata := mkcd (KPtr false) addr isz false.

Theorem add_pointer : forall cd i, ssize_ok i = true -> 0 <= c_isz cd ->
  add_or_sub cd i 1 = Ok (mkcd (KPtr false) (wrap64 (c_data cd + i * c_isz cd)) (c_isz cd) (c_voidp cd)).
Proof.
  intros cd i Hi Hs. unfold add_or_sub. rewrite Hi. cbn [negb].
  destruct (Z.ltb_spec (c_isz cd) 0); [lia|].
  rewrite Z.mul_1_r, to_ssize_small by (apply ssize_ok_iff; assumption). reflexivity.
Qed.

(* p[i] lives i*sizeof(T) bytes past p *)
Theorem index_pointer : forall addr isz i, ssize_ok i = true -> addr <> 0 ->
  get_indexed_ptr (ptr addr isz) i = Ok (wrap64 (addr + i * isz)).
Proof.
  intros addr isz i Hi Ha. unfold get_indexed_ptr. rewrite Hi. cbn.
  destruct (Z.eqb_spec addr 0); [contradiction|reflexivity].
Qed.

(* (p+i)[j] aliases p[i+j]: same address modulo 2^64, no condition on the products *)
Theorem add_then_index_aliases : forall addr isz i j q,
  ssize_ok i = true -> ssize_ok j = true -> ssize_ok (i + j) = true -> 0 <= isz -> addr <> 0 ->
  add_or_sub (ptr addr isz) i 1 = Ok q -> c_data q <> 0 ->
  get_indexed_ptr q j = get_indexed_ptr (ptr addr isz) (i + j).
Proof.
  intros addr isz i j q Hi Hj Hij Hs Ha Hq Hn.
  rewrite add_pointer in Hq by assumption. inversion Hq; subst q; clear Hq. cbn in Hn.
  rewrite index_pointer by assumption.
  unfold get_indexed_ptr. rewrite Hj. cbn.
  destruct (Z.eqb_spec (wrap64 (addr + i * isz)) 0); [contradiction|].
  rewrite wrap64_add_l. f_equal. f_equal. lia.
Qed.

(* the regenerated arithmetic of cdata_sub, as it reads now: signed remainder test, signed division *)
Lemma sub_arith_now d s :
  sub_arith gen_sub_prog d s =
  if 1 <? s then if negb (cmod d s =? 0) then Err ValueError else Ok (cdiv d s) else Ok d.
Proof. reflexivity. Qed.

(* (p+i)-p = i whenever i*size fits a Py_ssize_t *)
Theorem add_then_sub : forall addr isz i q,
  ssize_ok i = true -> 1 <= isz -> - 2 ^ 63 <= i * isz < 2 ^ 63 ->
  add_or_sub (ptr addr isz) i 1 = Ok q ->
  ptr_sub q (ptr addr isz) = Ok i.
Proof.
  intros addr isz i q Hi Hs Hp Hq.
  rewrite add_pointer in Hq by (cbn; lia || assumption). inversion Hq; subst q; clear Hq.
  unfold ptr_sub. cbn [c_isz c_voidp c_data ptr c_kind]. rewrite sub_arith_now.
  destruct (Z.leb_spec isz 0); [lia|]. cbn [andb].
  assert (to_ssize (wrap64 (addr + i * isz) - addr) = i * isz) as ->.
  { unfold wrap64. pose proof (Z.div_mod (addr + i * isz) (2 ^ 64) ltac:(lia)) as D.
    replace ((addr + i * isz) mod 2 ^ 64 - addr)
      with (i * isz + (- ((addr + i * isz) / 2 ^ 64)) * 2 ^ 64) by lia.
    rewrite to_ssize_congr. apply to_ssize_small. assumption. }
  unfold cmod, cdiv. rewrite Z.rem_mul, Z.quot_mul by lia. cbn [Z.eqb negb].
  destruct (Z.ltb_spec 1 isz); [reflexivity|].
  replace isz with 1 by lia. rewrite Z.mul_1_r. reflexivity.
Qed.

(* p - i = p + (-i) *)
Theorem sub_int_is_add_neg : forall cd i, ssize_ok i = true -> ssize_ok (- i) = true ->
  add_or_sub cd i (-1) = add_or_sub cd (- i) 1.
Proof.
  intros cd i H1 H2. unfold add_or_sub. rewrite H1, H2.
  replace (i * -1) with (- i) by lia. rewrite Z.mul_1_r. reflexivity.
Qed.

(* ---------------------------------------------------------------- E. offsetof / addressof *)
Lemma quot_check_exact : forall o s i k, 0 < s < 2 ^ 63 -> o = i * s + k * 2 ^ 64 ->
  Z.quot o s = i -> o = i * s.
Proof.
  intros o s i k Hs Ho Hq.
  pose proof (Z.quot_rem' o s) as D. rewrite Hq in D.
  assert (Z.abs (Z.rem o s) < s) as R.
  { pose proof (Z.rem_bound_abs o s ltac:(lia)). lia. }
  assert (k = 0); [|subst; lia].
  assert (k * 2 ^ 64 = Z.rem o s) by lia.
  destruct (Z_lt_dec k 0); [exfalso|destruct (Z_lt_dec 0 k); [exfalso|lia]]; nia.
Qed.

Theorem offsetof_sound : forall isz i o, 0 < isz < 2 ^ 63 ->
  offsetof_index isz i = Ok o -> o = i * isz.
Proof.
  intros isz i o Hs H. unfold offsetof_index, typeoffsetof_index in H.
  destruct (ssize_ok i); cbn [negb] in H; [|discriminate].
  destruct (Z.ltb_spec isz 0); [lia|]. destruct (Z.eqb_spec isz 0); [lia|].
  destruct (Z.eqb_spec (cdiv (to_ssize (i * isz)) isz) i) as [E|E]; cbn [negb] in H; [|discriminate].
  inversion H; subst o; clear H.
  destruct (to_ssize_spec (i * isz)) as [k [Hk _]].
  eapply quot_check_exact; eauto.
Qed.

Theorem offsetof_complete : forall isz i, 0 < isz -> ssize_ok i = true ->
  - 2 ^ 63 <= i * isz < 2 ^ 63 -> offsetof_index isz i = Ok (i * isz).
Proof.
  intros isz i Hs Hi Hp. unfold offsetof_index, typeoffsetof_index. rewrite Hi. cbn [negb].
  destruct (Z.ltb_spec isz 0); [lia|]. destruct (Z.eqb_spec isz 0); [lia|].
  rewrite to_ssize_small by assumption. unfold cdiv. rewrite Z.quot_mul by lia.
  rewrite Z.eqb_refl. reflexivity.
Qed.

Theorem offsetof_overflow : forall isz i, 0 < isz < 2 ^ 63 -> ssize_ok i = true ->
  ~ (- 2 ^ 63 <= i * isz < 2 ^ 63) -> offsetof_index isz i = Err OverflowError.
Proof.
  intros isz i Hs Hi Hp.
  destruct (offsetof_index isz i) as [o|e] eqn:E.
  - pose proof (offsetof_sound isz i o Hs E) as Ho. exfalso.
    unfold offsetof_index, typeoffsetof_index in E. rewrite Hi in E. cbn [negb] in E.
    destruct (Z.ltb_spec isz 0); [lia|]. destruct (Z.eqb_spec isz 0); [lia|].
    destruct (negb (cdiv (to_ssize (i * isz)) isz =? i)); [discriminate|].
    inversion E; subst o. destruct (to_ssize_spec (i * isz)) as [k [_ B]]. lia.
  - unfold offsetof_index, typeoffsetof_index in E. rewrite Hi in E. cbn [negb] in E.
    destruct (Z.ltb_spec isz 0); [lia|]. destruct (Z.eqb_spec isz 0); [lia|].
    destruct (negb (cdiv (to_ssize (i * isz)) isz =? i)); inversion E; reflexivity.
Qed.

Theorem offsetof_spec : forall isz i, 0 < isz < 2 ^ 63 -> ssize_ok i = true ->
  offsetof_index isz i =
  if (- 2 ^ 63 <=? i * isz) && (i * isz <? 2 ^ 63) then Ok (i * isz) else Err OverflowError.
Proof.
  intros isz i Hs Hi.
  destruct (Z.leb_spec (- 2 ^ 63) (i * isz)); destruct (Z.ltb_spec (i * isz) (2 ^ 63)); cbn [andb];
    try (apply offsetof_overflow; auto; lia).
  apply offsetof_complete; auto; lia.
Qed.

(* items of size 0 (e.g. T = int[0]): the overflow test divides by zero — the process dies *)
Theorem offsetof_zero_size : forall i, ssize_ok i = true ->
  offsetof_index 0 i = if gen_offsetof_guards_zero_size then Ok 0 else Err Crash.
Proof.
  intros i Hi. unfold offsetof_index, typeoffsetof_index. rewrite Hi. cbn [negb Z.ltb Z.compare Z.eqb].
  rewrite Z.mul_0_r. reflexivity.
Qed.

(* ffi.addressof(x, i) == x + i *)
Theorem addressof_is_add : forall cd i q, 0 < c_isz cd < 2 ^ 63 -> c_voidp cd = false ->
  addressof_index cd i = Ok q -> add_or_sub cd i 1 = Ok q.
Proof.
  intros cd i q Hs Hv H. unfold addressof_index in H.
  destruct (typeoffsetof_index (c_isz cd) i) as [o|e] eqn:E; [|discriminate].
  pose proof (offsetof_sound _ _ _ Hs E) as Ho. inversion H; subst q o; clear H.
  assert (ssize_ok i = true) as Hi.
  { unfold typeoffsetof_index in E. destruct (ssize_ok i); [reflexivity|discriminate]. }
  rewrite add_pointer by (lia || assumption). rewrite Hv. reflexivity.
Qed.

(* ---------------------------------------------------------------- memory lemmas *)
Lemma inside_iff : forall base mem a len,
  inside base mem a len = true <-> base <= a /\ a + len <= base + Z.of_nat (length mem).
Proof. intros. unfold inside. rewrite andb_true_iff, !Z.leb_le. tauto. Qed.

Lemma mread_inside : forall base mem a len, 0 <= len -> inside base mem a len = true ->
  exists bs, mread base mem a len = Some bs /\ Z.of_nat (length bs) = len.
Proof.
  intros base mem a len Hl Hi. unfold mread. rewrite Hi. eexists. split; [reflexivity|].
  apply inside_iff in Hi. rewrite firstn_length, skipn_length. lia.
Qed.

Lemma mwrite_inside : forall base mem a bs, inside base mem a (Z.of_nat (length bs)) = true ->
  exists m, mwrite base mem a bs = Some m /\ length m = length mem.
Proof.
  intros base mem a bs Hi. unfold mwrite. rewrite Hi. eexists. split; [reflexivity|].
  apply inside_iff in Hi. rewrite !app_length, firstn_length, skipn_length. lia.
Qed.

Lemma nth_error_firstn_lt : forall (l : list Z) k j, (j < k)%nat ->
  nth_error (firstn k l) j = nth_error l j.
Proof.
  induction l as [|x l IH]; intros k j H.
  - rewrite firstn_nil. reflexivity.
  - destruct k; [lia|]. destruct j; [reflexivity|]. cbn. apply IH. lia.
Qed.

Lemma nth_error_skipn_add : forall (l : list Z) k j,
  nth_error (skipn k l) j = nth_error l (k + j).
Proof.
  induction l as [|x l IH]; intros k j.
  - rewrite skipn_nil. destruct j, k; reflexivity.
  - destruct k; [reflexivity|]. cbn. apply IH.
Qed.

(* frame: a write changes no byte outside [a, a + length bs) *)
Lemma mwrite_frame : forall base mem a bs m j,
  mwrite base mem a bs = Some m ->
  (j < Z.to_nat (a - base) \/ Z.to_nat (a - base) + length bs <= j)%nat ->
  nth_error m j = nth_error mem j.
Proof.
  intros base mem a bs m j H Hj. unfold mwrite in H.
  destruct (inside base mem a (Z.of_nat (length bs))) eqn:Hi; [|discriminate].
  inversion H; subst m; clear H. apply inside_iff in Hi.
  set (k := Z.to_nat (a - base)) in *.
  assert (k + length bs <= length mem)%nat by lia.
  destruct Hj as [Hj|Hj].
  - rewrite nth_error_app1 by (rewrite firstn_length; lia).
    rewrite nth_error_firstn_lt by lia. reflexivity.
  - rewrite nth_error_app2 by (rewrite firstn_length; lia).
    rewrite firstn_length, Nat.min_l by lia.
    rewrite nth_error_app2 by lia.
    rewrite nth_error_skipn_add. f_equal. lia.
Qed.

Lemma mwrite_read_back : forall base mem a bs m,
  mwrite base mem a bs = Some m -> mread base m a (Z.of_nat (length bs)) = Some bs.
Proof.
  intros base mem a bs m H. unfold mwrite in H.
  destruct (inside base mem a (Z.of_nat (length bs))) eqn:Hi; [|discriminate].
  inversion H; subst m; clear H. pose proof Hi as Hi'. apply inside_iff in Hi'.
  unfold mread.
  assert (inside base (firstn (Z.to_nat (a - base)) mem ++ bs
            ++ skipn (Z.to_nat (a - base) + length bs) mem) a (Z.of_nat (length bs)) = true) as ->.
  { apply inside_iff. rewrite !app_length, firstn_length, skipn_length. lia. }
  f_equal. rewrite Nat2Z.id.
  rewrite skipn_app. rewrite firstn_length, Nat.min_l by lia.
  rewrite Nat.sub_diag. cbn [skipn].
  rewrite skipn_all2 by (rewrite firstn_length; lia). cbn [app].
  rewrite firstn_app, Nat.sub_diag, firstn_all. cbn [firstn]. apply app_nil_r.
Qed.

(* ---------------------------------------------------------------- G. history invariant *)
Section History.
Variable base : Z.          (* address of the owned array *)
Variable S : Z.             (* item size *)
Hypothesis S_nonneg : 0 <= S.

(* an array view inside the base allocation of nbytes bytes *)
Definition view_ok (nbytes : Z) (cd : cdata) : Prop :=
  exists len, c_kind cd = KArr len /\ c_isz cd = S /\ 0 <= len /\
              base <= c_data cd /\ c_data cd + len * S <= base + nbytes.

(* array views lie inside the base allocation; pointer views (results of p+i, p-i, addressof) are
   unconstrained: they are plain addresses *)
Definition view_inv (nbytes : Z) (cd : cdata) : Prop :=
  match c_kind cd with KArr _ => view_ok nbytes cd | KPtr _ => True end.

Definition inv (st : state) : Prop :=
  0 <= base /\ base + Z.of_nat (length (s_mem st)) < 2 ^ 64 /\
  Z.of_nat (length (s_mem st)) < 2 ^ 63 * Z.max S 1 /\
  Forall (view_inv (Z.of_nat (length (s_mem st)))) (s_views st).

Definition conv_ok (c : conv) : Prop :=
  match c with Ok bs => Z.of_nat (length bs) = S | Err _ => True end.

Definition source_ok (v : source) : Prop :=
  match v with
  | SList items => Forall conv_ok items
  | _ => True
  end.

(* Histories: ANY operation, pointer arithmetic and addressof included; the only restriction is that
   memory is reached (index, slice, slice assignment) through ARRAY views — a raw pointer obtained by
   arithmetic can be dereferenced anywhere, as in C, and is outside the property's bounds claim.
   The guard is decidable and evaluated along the run. *)
Definition conv_okb (c : conv) : bool :=
  match c with Ok bs => Z.of_nat (length bs) =? S | Err _ => true end.
Definition source_okb (v : source) : bool :=
  match v with SList items => forallb conv_okb items | _ => true end.
Definition is_arrb (st : state) (v : nat) : bool :=
  match nth_error (s_views st) v with
  | Some cd => match c_kind cd with KArr _ => true | KPtr _ => false end
  | None => true
  end.
Definition safe_opb (st : state) (o : op) : bool :=
  match o with
  | OIndexRead v _ => is_arrb st v
  | OIndexWrite v _ c => is_arrb st v && conv_okb c
  | OSlice v _ _ _ => is_arrb st v
  | OAssSlice v _ _ _ _ src => is_arrb st v && source_okb src
  | OAdd _ _ | OSubInt _ _ | OPtrSub _ _ | OAddressof _ _ => true
  end.
Fixpoint safe_runb (st : state) (ops : list op) : bool :=
  match ops with
  | [] => true
  | o :: r => safe_opb st o && safe_runb (fst (step base st o)) r
  end.

Lemma conv_okb_ok : forall c, conv_okb c = true -> conv_ok c.
Proof. intros [bs|e] H; cbn in *; [apply Z.eqb_eq; exact H|exact I]. Qed.

Lemma source_okb_ok : forall v, source_okb v = true -> source_ok v.
Proof.
  intros [items|bs|k|] H; cbn in *; auto.
  apply Forall_forall. intros c Hc. apply conv_okb_ok. rewrite forallb_forall in H. auto.
Qed.

Lemma view_len_small : forall nbytes cd len, view_ok nbytes cd -> c_kind cd = KArr len ->
  0 < S -> nbytes < 2 ^ 63 * Z.max S 1 -> len < 2 ^ 63.
Proof.
  intros nbytes cd len [l [Hk [_ [Hl [Hb He]]]]] Hk' HS Hn. rewrite Hk in Hk'. inversion Hk'; subst l.
  rewrite Z.max_l in Hn by lia. nia.
Qed.

(* an accepted index lands inside the base allocation, at c_data + i*S without wrap-around *)
Lemma index_inside : forall nbytes cd i a,
  0 <= base -> base + nbytes < 2 ^ 64 -> view_ok nbytes cd ->
  get_indexed_ptr cd i = Ok a ->
  a = c_data cd + i * S /\ base <= a /\ a + S <= base + nbytes.
Proof.
  intros nbytes cd i a Hb Hn [len [Hk [Hs [Hl [Hlo Hhi]]]]] H.
  unfold get_indexed_ptr in H. destruct (ssize_ok i); cbn [negb] in H; [|discriminate].
  rewrite Hk, Hs in H.
  destruct (Z.ltb_spec i 0); [discriminate|]. destruct (Z.leb_spec len i); [discriminate|].
  inversion H; subst a; clear H.
  assert (0 <= i * S) by nia. assert (i * S + S <= len * S) by nia.
  rewrite wrap64_small by lia. lia.
Qed.

Lemma slice_inside : forall nbytes cd a b hs r,
  0 <= base -> base + nbytes < 2 ^ 64 -> view_ok nbytes cd ->
  getslicearg cd a b hs = Ok r ->
  0 <= fst r /\ 0 <= snd r /\
  wrap64 (c_data cd + S * fst r) = c_data cd + S * fst r /\
  base <= c_data cd + S * fst r /\ c_data cd + S * fst r + snd r * S <= base + nbytes.
Proof.
  intros nbytes cd a b hs r Hb Hn [len [Hk [Hs [Hl [Hlo Hhi]]]]] H.
  unfold getslicearg in H.
  destruct (bound_value a) as [x|]; [|discriminate].
  destruct (bound_value b) as [y|]; [|discriminate].
  destruct hs; [discriminate|]. destruct (Z.ltb_spec y x); [discriminate|].
  rewrite Hk in H. destruct (Z.ltb_spec x 0); [discriminate|].
  destruct (Z.ltb_spec len y); [discriminate|]. inversion H; subst r; clear H. cbn [fst snd].
  assert (0 <= S * x) by nia. assert (0 <= (y - x) * S) by nia.
  assert (S * x + (y - x) * S <= len * S) by nia.
  rewrite wrap64_small by lia. lia.
Qed.

Lemma store_items_ok : forall n mem esc a items m esc' e,
  Forall conv_ok items ->
  base <= a -> a + Z.of_nat n * S <= base + Z.of_nat (length mem) ->
  store_items base mem esc a S n items = (m, esc', e) ->
  length m = length mem /\ esc' = esc.
Proof.
  induction n as [|n IH]; intros mem esc a items m esc' e Hc Hlo Hhi H; cbn [store_items] in H.
  - inversion H; subst; auto.
  - destruct items as [|c rest]; [inversion H; subst; auto|].
    inversion Hc as [|? ? Hc1 Hc2]; subst.
    destruct c as [bs|ex]; [|inversion H; subst; auto].
    cbn in Hc1.
    assert (inside base mem a (Z.of_nat (length bs)) = true) as Hin by (apply inside_iff; nia).
    destruct (mwrite_inside _ _ _ _ Hin) as [m1 [Hw Hlen]]. rewrite Hw in H.
    apply IH in H; [rewrite Hlen in H; exact H|assumption|lia|rewrite Hlen; nia].
Qed.

Lemma copy_items_ok : forall n mem esc dst src k m esc' e,
  base <= dst -> dst + Z.of_nat n * S <= base + Z.of_nat (length mem) ->
  base <= src -> src + Z.of_nat k * S <= base + Z.of_nat (length mem) ->
  copy_items base mem esc dst src S n k = (m, esc', e) ->
  length m = length mem /\ esc' = esc.
Proof.
  induction n as [|n IH]; intros mem esc dst src k m esc' e Hd1 Hd2 Hs1 Hs2 H; cbn [copy_items] in H.
  - inversion H; subst; auto.
  - destruct k as [|k]; [inversion H; subst; auto|].
    assert (inside base mem src S = true) as Hin by (apply inside_iff; nia).
    destruct (mread_inside _ _ _ _ S_nonneg Hin) as [bs [Hr Hlen]]. rewrite Hr in H.
    assert (inside base mem dst (Z.of_nat (length bs)) = true) as Hin2 by (apply inside_iff; nia).
    destruct (mwrite_inside _ _ _ _ Hin2) as [m1 [Hw Hl1]]. rewrite Hw in H.
    apply IH in H; [rewrite Hl1 in H; exact H|lia|rewrite Hl1; nia|lia|rewrite Hl1; nia].
Qed.

Lemma view_ok_lookup : forall st k cd len, inv st -> nth_error (s_views st) k = Some cd ->
  c_kind cd = KArr len -> view_ok (Z.of_nat (length (s_mem st))) cd.
Proof.
  intros st k cd len [_ [_ [_ Hv]]] H Hk. rewrite Forall_forall in Hv.
  specialize (Hv cd (nth_error_In _ _ H)). unfold view_inv in Hv. rewrite Hk in Hv. exact Hv.
Qed.

Lemma is_arrb_kind : forall st v cd, is_arrb st v = true -> nth_error (s_views st) v = Some cd ->
  exists len, c_kind cd = KArr len.
Proof.
  intros st v cd H Hv. unfold is_arrb in H. rewrite Hv in H.
  destruct (c_kind cd) as [len|o]; [eexists; reflexivity|discriminate].
Qed.

Lemma ass_slice_ok : forall st cd a b hs ic v st' e,
  inv st -> view_ok (Z.of_nat (length (s_mem st))) cd -> source_ok v ->
  ass_slice base st cd a b hs ic v = (st', e) ->
  length (s_mem st') = length (s_mem st) /\ s_views st' = s_views st /\ s_escaped st' = s_escaped st.
Proof.
  intros st cd a b hs ic v st' e Hinv Hcd Hv H.
  pose proof Hinv as [Hb [Hn [Hsz Hviews]]].
  unfold ass_slice in H.
  destruct (getslicearg cd a b hs) as [[x n]|ex] eqn:Eg; [|inversion H; subst; auto].
  pose proof (slice_inside _ _ _ _ _ _ Hb Hn Hcd Eg) as [Hx [Hnn [Hw [Hlo Hhi]]]]. cbn [fst snd] in *.
  pose proof Hcd as [len [Hk [Hs _]]]. rewrite Hs in H. rewrite Hw in H.
  destruct v as [items|bs|k|].
  - (* any iterable *)
    destruct (store_items base (s_mem st) (s_escaped st) (c_data cd + S * x) S (Z.to_nat n) items)
      as [[m esc] e1] eqn:E. inversion H; subst st' e; clear H. cbn [s_mem s_views s_escaped].
    apply store_items_ok in E; [|exact Hv|lia|rewrite Z2Nat.id by lia; lia].
    destruct E as [E1 E2]. auto.
  - (* bytes *)
    destruct (ic && (S =? 1)) eqn:Ec; [|inversion H; subst; auto].
    apply andb_prop in Ec. destruct Ec as [_ Ec]. apply Z.eqb_eq in Ec.
    destruct (Z.eqb_spec (Z.of_nat (length bs)) n) as [En|En]; cbn [negb] in H;
      [|inversion H; subst; auto].
    assert (inside base (s_mem st) (c_data cd + S * x) (Z.of_nat (length bs)) = true) as Hin
      by (apply inside_iff; nia).
    destruct (mwrite_inside _ _ _ _ Hin) as [m1 [Hw1 Hl1]]. rewrite Hw1 in H.
    inversion H; subst st' e; clear H. cbn [s_mem s_views s_escaped]. auto.
  - (* a cdata source: an array view (a pointer is not iterable: TypeError) *)
    destruct (nth_error (s_views st) k) as [src|] eqn:Ek; [|inversion H; subst; auto].
    destruct (c_kind src) as [slen|ow] eqn:Hsk; [|inversion H; subst; auto].
    pose proof (view_ok_lookup _ _ _ _ Hinv Ek Hsk) as [slen' [Hsk' [Hss [Hsl [Hslo Hshi]]]]].
    rewrite Hsk in Hsk'. inversion Hsk'; subst slen'.
    destruct (Z.eqb_spec slen n) as [En|En].
    + subst slen.
      assert (inside base (s_mem st) (c_data src) (S * n) = true) as Hin by (apply inside_iff; nia).
      assert (0 <= S * n) as Hsn by (apply Z.mul_nonneg_nonneg; lia).
      destruct (mread_inside _ _ _ _ Hsn Hin) as [bs [Hr Hlen]]. rewrite Hr in H.
      assert (inside base (s_mem st) (c_data cd + S * x) (Z.of_nat (length bs)) = true) as Hin2
        by (apply inside_iff; nia).
      destruct (mwrite_inside _ _ _ _ Hin2) as [m1 [Hw1 Hl1]]. rewrite Hw1 in H.
      inversion H; subst st' e; clear H. cbn [s_mem s_views s_escaped]. auto.
    + destruct (copy_items base (s_mem st) (s_escaped st) (c_data cd + S * x) (c_data src) S
                           (Z.to_nat n) (Z.to_nat slen)) as [[m esc] e1] eqn:E.
      inversion H; subst st' e; clear H. cbn [s_mem s_views s_escaped].
      apply copy_items_ok in E; [destruct E; auto|lia|rewrite Z2Nat.id by lia; lia|lia|
                                 rewrite Z2Nat.id by lia; lia].
  - inversion H; subst; auto.
Qed.

(* a new pointer view never disturbs the invariant *)
Lemma push_pointer_ok : forall st r st' out, inv st ->
  (forall cd, r = Ok cd -> exists o, c_kind cd = KPtr o) ->
  of_cd st r = (st', out) ->
  inv st' /\ s_escaped st' = s_escaped st /\ length (s_mem st') = length (s_mem st).
Proof.
  intros st r st' out Hinv Hk H. destruct Hinv as [Hb [Hn [Hsz Hv]]].
  destruct r as [cd|e]; cbn [of_cd push] in H; inversion H; subst st' out; clear H;
    cbn [s_mem s_views s_escaped]; repeat split; auto.
  apply Forall_app. split; [assumption|]. constructor; [|constructor].
  destruct (Hk cd eq_refl) as [o Ho]. unfold view_inv. rewrite Ho. exact I.
Qed.

Lemma add_or_sub_kind : forall cd w sg q, add_or_sub cd w sg = Ok q -> exists o, c_kind q = KPtr o.
Proof.
  intros cd w sg q H. unfold add_or_sub in H. destruct (negb (ssize_ok w)); [discriminate|].
  destruct (if c_isz cd <? 0 then if c_voidp cd then Some 1 else None else Some (c_isz cd));
    [|discriminate]. inversion H; subst. eexists; reflexivity.
Qed.

Lemma addressof_kind : forall cd i q, addressof_index cd i = Ok q -> exists o, c_kind q = KPtr o.
Proof.
  intros cd i q H. unfold addressof_index in H.
  destruct (typeoffsetof_index (c_isz cd) i); [|discriminate]. inversion H; subst. eexists; reflexivity.
Qed.

(* one step: the invariant, the size of the memory and the escape flag are preserved *)
Lemma step_ok : forall st o st' out, inv st -> safe_opb st o = true -> step base st o = (st', out) ->
  inv st' /\ s_escaped st' = s_escaped st /\ length (s_mem st') = length (s_mem st).
Proof.
  intros st o st' out Hinv Hop H.
  pose proof Hinv as [Hb [Hn [Hsz Hviews]]].
  destruct o as [v i|v i c|v a b hs|v a b hs ic src|v w|v w|v w|v i]; cbn [safe_opb] in Hop;
    cbn [step] in H.
  - (* read *)
    destruct (nth_error (s_views st) v) as [cd|] eqn:Ev; [|inversion H; subst; auto].
    destruct (is_arrb_kind _ _ _ Hop Ev) as [len0 Hk0].
    pose proof (view_ok_lookup _ _ _ _ Hinv Ev Hk0) as Hcd.
    destruct (get_indexed_ptr cd i) as [p|e] eqn:Eg; [|inversion H; subst; auto].
    destruct (index_inside _ _ _ _ Hb Hn Hcd Eg) as [Hp [Hlo Hhi]].
    pose proof Hcd as [len [_ [Hs _]]]. rewrite Hs in H.
    assert (inside base (s_mem st) p S = true) as Hin by (apply inside_iff; lia).
    destruct (mread_inside _ _ _ _ S_nonneg Hin) as [bs [Hr _]]. rewrite Hr in H.
    inversion H; subst; auto.
  - (* write *)
    apply andb_prop in Hop. destruct Hop as [Harr Hc]. apply conv_okb_ok in Hc.
    destruct (nth_error (s_views st) v) as [cd|] eqn:Ev; [|inversion H; subst; auto].
    destruct (is_arrb_kind _ _ _ Harr Ev) as [len0 Hk0].
    pose proof (view_ok_lookup _ _ _ _ Hinv Ev Hk0) as Hcd.
    destruct (get_indexed_ptr cd i) as [p|e] eqn:Eg; [|inversion H; subst; auto].
    destruct (index_inside _ _ _ _ Hb Hn Hcd Eg) as [Hp [Hlo Hhi]].
    destruct c as [bs|e]; [|inversion H; subst; auto]. cbn in Hc.
    assert (inside base (s_mem st) p (Z.of_nat (length bs)) = true) as Hin by (apply inside_iff; lia).
    destruct (mwrite_inside _ _ _ _ Hin) as [m1 [Hw Hl1]]. rewrite Hw in H.
    inversion H; subst st' out; clear H. cbn [s_mem s_views s_escaped].
    repeat split; auto; unfold inv; cbn [s_mem s_views]; rewrite Hl1; auto.
  - (* slice *)
    destruct (nth_error (s_views st) v) as [cd|] eqn:Ev; [|inversion H; subst; auto].
    destruct (is_arrb_kind _ _ _ Hop Ev) as [len0 Hk0].
    pose proof (view_ok_lookup _ _ _ _ Hinv Ev Hk0) as Hcd.
    unfold slice in H. destruct (getslicearg cd a b hs) as [[x n]|e] eqn:Eg;
      [|inversion H; subst; auto].
    pose proof (slice_inside _ _ _ _ _ _ Hb Hn Hcd Eg) as [Hx [Hnn [Hw [Hlo Hhi]]]]. cbn [fst snd] in *.
    pose proof Hcd as [len [_ [Hs _]]].
    cbn [of_cd push] in H. inversion H; subst st' out; clear H. cbn [s_mem s_views s_escaped].
    repeat split; auto. unfold inv; cbn [s_mem s_views]. repeat split; auto.
    apply Forall_app. split; [assumption|]. constructor; [|constructor].
    unfold view_inv. cbn [c_kind].
    exists n. cbn [c_kind c_isz c_data]. rewrite Hs, Hw. repeat split; auto; lia.
  - (* slice assignment *)
    apply andb_prop in Hop. destruct Hop as [Harr Hsrc]. apply source_okb_ok in Hsrc.
    destruct (nth_error (s_views st) v) as [cd|] eqn:Ev; [|inversion H; subst; auto].
    destruct (is_arrb_kind _ _ _ Harr Ev) as [len0 Hk0].
    pose proof (view_ok_lookup _ _ _ _ Hinv Ev Hk0) as Hcd.
    destruct (ass_slice base st cd a b hs ic src) as [st1 e] eqn:Ea.
    destruct (ass_slice_ok _ _ _ _ _ _ _ _ _ Hinv Hcd Hsrc Ea) as [Hl [Hvw He]].
    assert (inv st1) as Hinv1.
    { unfold inv. rewrite Hl, Hvw. auto. }
    destruct e; inversion H; subst; auto.
  - (* p + i *)
    destruct (nth_error (s_views st) v) as [cd|] eqn:Ev; [|inversion H; subst; auto].
    eapply push_pointer_ok; eauto. intros q Hq. eapply add_or_sub_kind; eauto.
  - (* p - i *)
    destruct (nth_error (s_views st) v) as [cd|] eqn:Ev; [|inversion H; subst; auto].
    eapply push_pointer_ok; eauto. intros q Hq. eapply add_or_sub_kind; eauto.
  - (* p - q *)
    destruct (nth_error (s_views st) v) as [x|]; destruct (nth_error (s_views st) w) as [y|];
      try (inversion H; subst; auto; fail).
    destruct (ptr_sub x y); inversion H; subst; auto.
  - (* addressof *)
    destruct (nth_error (s_views st) v) as [cd|] eqn:Ev; [|inversion H; subst; auto].
    eapply push_pointer_ok; eauto. intros q Hq. eapply addressof_kind; eauto.
Qed.

Theorem history_invariant : forall ops st st' outs,
  inv st -> safe_runb st ops = true -> run base st ops = (st', outs) ->
  inv st' /\ s_escaped st' = s_escaped st /\ length (s_mem st') = length (s_mem st).
Proof.
  induction ops as [|o r IH]; intros st st' outs Hinv Hops H; cbn [run] in H.
  - inversion H; subst; auto.
  - cbn [safe_runb] in Hops. apply andb_prop in Hops. destruct Hops as [Ho Hr].
    destruct (step base st o) as [st1 out] eqn:E1. cbn [fst] in Hr.
    destruct (run base st1 r) as [st2 outs2] eqn:E2.
    inversion H; subst st' outs; clear H.
    destruct (step_ok _ _ _ _ Hinv Ho E1) as [Hi1 [He1 Hl1]].
    destruct (IH _ _ _ Hi1 Hr E2) as [Hi2 [He2 Hl2]].
    split; [assumption|split; congruence].
Qed.

(* the state right after ffi.new("T[n]"): one owned array of n items *)
Definition initial (mem : list Z) (n : Z) : state := mkst mem [arr n base S] false.

Lemma initial_inv : forall mem n, 0 <= n -> Z.of_nat (length mem) = n * S ->
  0 <= base -> base + n * S < 2 ^ 64 -> n * S < 2 ^ 63 * Z.max S 1 -> inv (initial mem n).
Proof.
  intros mem n Hn Hl Hb Hh Hs. unfold inv, initial. cbn [s_mem s_views]. rewrite Hl.
  repeat split; auto. constructor; [|constructor].
  unfold view_inv. cbn [c_kind arr]. exists n. cbn. repeat split; auto; lia.
Qed.

(* After ANY sequence of operations — index, slice, slice assignment (from iterables, bytes or other
   views, overlapping or not), p+i, i+p, p-i, p-q, addressof — in which memory is reached only through
   array views (safe_runb): no accepted access touched a byte outside the owned array, the memory
   kept its size, and every array view derived so far lies inside the base array. *)
Theorem views_stay_inside : forall mem n ops st' outs,
  0 <= n -> Z.of_nat (length mem) = n * S -> 0 <= base -> base + n * S < 2 ^ 64 ->
  n * S < 2 ^ 63 * Z.max S 1 ->
  safe_runb (initial mem n) ops = true -> run base (initial mem n) ops = (st', outs) ->
  s_escaped st' = false /\ length (s_mem st') = length mem /\
  Forall (view_inv (n * S)) (s_views st').
Proof.
  intros mem n ops st' outs Hn Hl Hb Hh Hs Hops H.
  destruct (history_invariant ops _ _ _ (initial_inv mem n Hn Hl Hb Hh Hs) Hops H) as [Hi [He Hlen]].
  cbn in He, Hlen. repeat split; auto.
  destruct Hi as [_ [_ [_ Hv]]]. rewrite Hlen, Hl in Hv. exact Hv.
Qed.

(* a rejected index or slice leaves the whole state unchanged *)
Theorem rejected_touches_nothing : forall st o e st' ,
  (forall v i, o = OIndexRead v i \/ (exists c, o = OIndexWrite v i c) ->
     forall cd, nth_error (s_views st) v = Some cd -> get_indexed_ptr cd i = Err e ->
     step base st o = (st', RErr e) -> st' = st).
Proof.
  intros st o e st' v i Ho cd Hv Hg H.
  destruct Ho as [->|[c ->]]; cbn [step] in H; rewrite Hv, Hg in H; inversion H; reflexivity.
Qed.

Theorem rejected_slice_touches_nothing : forall st v a b hs ic src cd e,
  nth_error (s_views st) v = Some cd -> getslicearg cd a b hs = Err e ->
  step base st (OSlice v a b hs) = (st, RErr e) /\
  step base st (OAssSlice v a b hs ic src) = (st, RErr e).
Proof.
  intros st v a b hs ic src cd e Hv Hg. cbn [step]. rewrite Hv. unfold slice, ass_slice. rewrite Hg.
  split; reflexivity.
Qed.

(* slice assignment from an iterable needs exactly j-i convertible values *)
Lemma store_items_count : forall n mem esc a items m esc' e,
  (forall c, In c items -> exists bs, c = Ok bs) ->
  store_items base mem esc a S n items = (m, esc', e) ->
  e = if Nat.eqb (length items) n then None else Some ValueError.
Proof.
  induction n as [|n IH]; intros mem esc a items m esc' e Hc H; cbn [store_items] in H.
  - destruct items; inversion H; subst; reflexivity.
  - destruct items as [|c rest].
    + inversion H; subst. reflexivity.
    + destruct (Hc c (or_introl eq_refl)) as [bs ->].
      assert (forall c0, In c0 rest -> exists bs0, c0 = Ok bs0) as Hc' by (intros; apply Hc; right; auto).
      cbn [length Nat.eqb].
      destruct (mwrite base mem a bs); eapply IH; eauto.
Qed.

End History.

(* ffi.addressof(x, i) == x + i, both directions: whenever i*size fits a Py_ssize_t the two
   operations return the same pointer; otherwise addressof raises OverflowError (x + i wraps) *)
Theorem addressof_eq_add : forall cd i, 0 < c_isz cd < 2 ^ 63 -> c_voidp cd = false ->
  ssize_ok i = true -> - 2 ^ 63 <= i * c_isz cd < 2 ^ 63 ->
  addressof_index cd i = add_or_sub cd i 1 /\ exists q, add_or_sub cd i 1 = Ok q.
Proof.
  intros cd i Hs Hv Hi Hp. unfold addressof_index.
  change (typeoffsetof_index (c_isz cd) i) with (offsetof_index (c_isz cd) i).
  rewrite offsetof_complete by (lia || assumption).
  rewrite add_pointer by (lia || assumption). rewrite Hv. split; [reflexivity|eexists; reflexivity].
Qed.

Theorem addressof_overflow : forall cd i, 0 < c_isz cd < 2 ^ 63 -> ssize_ok i = true ->
  ~ (- 2 ^ 63 <= i * c_isz cd < 2 ^ 63) -> addressof_index cd i = Err OverflowError.
Proof.
  intros cd i Hs Hi Hp. unfold addressof_index.
  change (typeoffsetof_index (c_isz cd) i) with (offsetof_index (c_isz cd) i).
  rewrite offsetof_overflow by assumption. reflexivity.
Qed.
