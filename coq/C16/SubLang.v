(* C16 — vocabulary for the arithmetic of cdata_sub (src/c/_cffi_backend.c, `cdata_sub(PyObject *v, PyObject *w)`),
   the part after the type test:
       itemsize = ct->ct_itemdescr->ct_size;  diff = cdv->c_data - cdw->c_data;       (both Py_ssize_t)
       if (itemsize > N) { if (<diff % itemsize>) { ValueError }  diff = <diff / itemsize>; }
       return PyLong_FromSsize_t(diff);
   whose current text is regenerated into C16/Gen.v (gen_sub_prog): the guard constant N and, for the
   remainder test and for the division, whether the operands are used as they are (Py_ssize_t: C's signed
   `%` and `/`, truncation toward zero) or cast to size_t first.  Definitions only. *)
From Coq Require Import ZArith.
Inductive icast := CSigned | CUnsigned.
Record sub_prog := { sp_guard_gt : Z; sp_mod_cast : icast; sp_div_cast : icast }.
