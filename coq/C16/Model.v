(* C16 — model of cdata indexing, slicing and pointer arithmetic (src/c/_cffi_backend.c):
     _cdata_get_indexed_ptr :2505, _cdata_getslicearg :2555, cdata_slice :2612, cdata_ass_slice :2637,
     cdata_subscript / cdata_ass_sub :2752-2786, _cdata_add_or_sub :2789, cdata_sub :2847 (its arithmetic is
     regenerated: C16/Gen.v gen_sub_prog), direct_typeoffsetof :6702 (integer branch),
     ffi_addressof (src/c/ffi_obj.c:538).
   Addresses are integers modulo 2^64; Py_ssize_t is 64-bit two's complement.  Conversions of Python
   values to item bytes (convert_from_object) are NOT modelled here (property C03/C05): an operation
   carries, per value, either the item's bytes or the exception class the conversion raises.
   Definitions only. *)
From Coq Require Import ZArith List Bool.
Import ListNotations.
From Cffi Require Export C16.SubLang.
From Cffi Require Import C16.Gen.     (* source facts regenerated on every run *)
Open Scope Z_scope.

Definition wrap64 (z : Z) : Z := z mod 2 ^ 64.
Definition ssize_ok (z : Z) : bool := (- 2 ^ 63 <=? z) && (z <? 2 ^ 63).
(* conversion of a 64-bit pattern to Py_ssize_t *)
Definition to_ssize (z : Z) : Z := let u := wrap64 z in if u <? 2 ^ 63 then u else u - 2 ^ 64.

Inductive exn := IndexError | OverflowError | TypeError | ValueError | RuntimeError
               | Crash.       (* SIGFPE: integer division by zero *)
Inductive res (A : Type) := Ok (a : A) | Err (e : exn).
Arguments Ok {A} a.
Arguments Err {A} e.

(* ---------------------------------------------------------------- cdata of pointer / array type *)
Inductive ckind :=
| KArr (len : Z)              (* CT_ARRAY, get_array_length = len *)
| KPtr (owned : bool).        (* CT_POINTER; owned = CDataOwn_Check (result of ffi.new("T*")) *)

Record cdata := mkcd {
  c_kind : ckind;
  c_data : Z;                 (* address, 0 <= c_data < 2^64 *)
  c_isz : Z;                  (* ct_itemdescr->ct_size; -1 for void / opaque items *)
  c_voidp : bool              (* CT_IS_VOID_PTR *)
}.

(* ---------------------------------------------------------------- _cdata_get_indexed_ptr :2469 *)
(* key is any Python int: PyNumber_AsSsize_t(key, PyExc_IndexError) *)
Definition get_indexed_ptr (cd : cdata) (i : Z) : res Z :=
  if negb (ssize_ok i) then Err IndexError
  else match c_kind cd with
       | KPtr true => if i =? 0 then Ok (wrap64 (c_data cd + i * c_isz cd)) else Err IndexError
       | KPtr false => if c_data cd =? 0 then Err RuntimeError
                       else Ok (wrap64 (c_data cd + i * c_isz cd))
       | KArr len => if i <? 0 then Err IndexError
                     else if len <=? i then Err IndexError
                     else Ok (wrap64 (c_data cd + i * c_isz cd))
       end.

(* ---------------------------------------------------------------- _cdata_getslicearg :2519 *)
Inductive bound := BNone | BInt (z : Z).

(* PyLong_AsSsize_t on a slice bound *)
Definition bound_value (b : bound) : res Z :=
  match b with
  | BNone => Err IndexError                     (* "slice start/stop must be specified" *)
  | BInt z => if ssize_ok z then Ok z
              else Err (if gen_slice_bound_overflow_is_indexerror then IndexError else OverflowError)
  end.

Definition getslicearg (cd : cdata) (start stop : bound) (has_step : bool) : res (Z * Z) :=
  match bound_value start with
  | Err e => Err e
  | Ok a =>
    match bound_value stop with
    | Err e => Err e
    | Ok b =>
      if has_step then Err IndexError
      else if b <? a then Err IndexError
      else match c_kind cd with
           | KArr len => if a <? 0 then Err IndexError
                         else if len <? b then Err IndexError
                         else Ok (a, b - a)
           | KPtr _ => Ok (a, to_ssize (b - a))
           end
    end
  end.

(* cdata_slice :2572: an array view (new_sized_cdata) *)
Definition slice (cd : cdata) (start stop : bound) (has_step : bool) : res cdata :=
  match getslicearg cd start stop has_step with
  | Err e => Err e
  | Ok (a, n) => Ok (mkcd (KArr n) (wrap64 (c_data cd + c_isz cd * a)) (c_isz cd) false)
  end.

(* ---------------------------------------------------------------- _cdata_add_or_sub :2749 *)
(* w is any Python int: PyNumber_AsSsize_t(w, PyExc_OverflowError); sign = +1 / -1 *)
Definition add_or_sub (cd : cdata) (w : Z) (sign : Z) : res cdata :=
  if negb (ssize_ok w) then Err OverflowError
  else
    let i := to_ssize (w * sign) in
    let itemsize := if c_isz cd <? 0 then (if c_voidp cd then Some 1 else None) else Some (c_isz cd) in
    match itemsize with
    | None => Err TypeError
    | Some s => Ok (mkcd (KPtr false) (wrap64 (c_data cd + i * s)) (c_isz cd) (c_voidp cd))
    end.

(* C integer division and remainder on Py_ssize_t (truncation towards zero) *)
Definition cdiv (a b : Z) : Z := Z.quot a b.
Definition cmod (a b : Z) : Z := Z.rem a b.

(* the arithmetic of cdata_sub as it is in the source now: interpreter of C16/Gen.v gen_sub_prog.
   diff and itemsize are Py_ssize_t values; an operand cast to size_t is its 64-bit pattern (wrap64), the
   unsigned quotient is stored back into the Py_ssize_t diff (to_ssize) *)
Definition as_cast (c : icast) (z : Z) : Z := match c with CSigned => z | CUnsigned => wrap64 z end.
Definition from_cast (c : icast) (z : Z) : Z := match c with CSigned => z | CUnsigned => to_ssize z end.
Definition sub_arith (p : sub_prog) (diff itemsize : Z) : res Z :=
  if sp_guard_gt p <? itemsize then
    if negb (cmod (as_cast (sp_mod_cast p) diff) (as_cast (sp_mod_cast p) itemsize) =? 0) then Err ValueError
    else Ok (from_cast (sp_div_cast p) (cdiv (as_cast (sp_div_cast p) diff) (as_cast (sp_div_cast p) itemsize)))
  else Ok diff.

(* cdata_sub, both operands cdata of the same pointer type (after array decay of w) *)
Definition ptr_sub (v w : cdata) : res Z :=
  match c_kind v with
  | KArr _ => Err TypeError          (* ct != cdv->c_type: the left operand does not decay *)
  | KPtr _ =>
  if (c_isz w <=? 0) && negb (c_voidp w) then Err TypeError
  else sub_arith gen_sub_prog (to_ssize (c_data v - c_data w)) (c_isz w)
  end.

(* ---------------------------------------------------------------- direct_typeoffsetof :6677-6699 *)
(* integer field "name": index is any Python int *)
Definition typeoffsetof_index (isz : Z) (index : Z) : res Z :=
  if negb (ssize_ok index) then Err TypeError      (* PyLong_AsSsize_t failed *)
  else if isz <? 0 then Err TypeError
  else
    let offset := to_ssize (index * isz) in        (* MUL_WRAPAROUND *)
    if isz =? 0 then
      (if gen_offsetof_guards_zero_size then Ok offset
       else Err Crash)                             (* offset / 0 *)
    else if negb (cdiv offset isz =? index) then Err OverflowError
    else Ok offset.

(* ffi.offsetof("T[]", i) (ffi_obj.c:493 with one index) *)
Definition offsetof_index (isz : Z) (index : Z) : res Z := typeoffsetof_index isz index.

(* ffi.addressof(x, i) for x a pointer / array cdata (ffi_obj.c:568-591) *)
Definition addressof_index (cd : cdata) (index : Z) : res cdata :=
  match typeoffsetof_index (c_isz cd) index with
  | Err e => Err e
  | Ok offset => Ok (mkcd (KPtr false) (wrap64 (c_data cd + offset)) (c_isz cd) false)
  end.

(* ---------------------------------------------------------------- memory of the base allocation *)
(* The base allocation is [base, base + length mem); accesses elsewhere are recorded as escapes. *)
Record state := mkst {
  s_mem : list Z;
  s_views : list cdata;
  s_escaped : bool            (* some accepted access touched a byte outside the base allocation *)
}.

Definition inside (base : Z) (mem : list Z) (a len : Z) : bool :=
  (base <=? a) && (a + len <=? base + Z.of_nat (length mem)).

Definition mread (base : Z) (mem : list Z) (a len : Z) : option (list Z) :=
  if inside base mem a len then Some (firstn (Z.to_nat len) (skipn (Z.to_nat (a - base)) mem))
  else None.

Definition mwrite (base : Z) (mem : list Z) (a : Z) (bs : list Z) : option (list Z) :=
  if inside base mem a (Z.of_nat (length bs)) then
    Some (firstn (Z.to_nat (a - base)) mem ++ bs
          ++ skipn (Z.to_nat (a - base) + length bs) mem)
  else None.

(* ---------------------------------------------------------------- cdata_ass_slice :2597 *)
(* a value offered for one item: the bytes convert_from_object would store, or its exception *)
Definition conv := res (list Z).

Inductive source :=
| SList (items : list conv)             (* any iterable of Python values *)
| SBytes (bs : list Z)                  (* bytes / bytearray *)
| SArray (src : nat)                    (* index of a view: an array cdata of the same item type *)
| SDel.                                 (* del x[i:j] *)

(* the generic loop :2661-2682: items are stored one by one; too few / too many -> ValueError after
   the stores already made *)
Fixpoint store_items (base : Z) (mem : list Z) (esc : bool) (a isz : Z) (length : nat)
         (items : list conv) : list Z * bool * option exn :=
  match length with
  | O => (mem, esc, match items with [] => None | _ :: _ => Some ValueError end)
  | S length' =>
      match items with
      | [] => (mem, esc, Some ValueError)
      | Err e :: _ => (mem, esc, Some e)
      | Ok bs :: rest =>
          match mwrite base mem a bs with
          | Some mem' => store_items base mem' esc (a + isz) isz length' rest
          | None => store_items base mem true (a + isz) isz length' rest
          end
      end
  end.

(* iteration over an array cdata source reads its items lazily (cdataiter_next), so a source that
   overlaps the destination sees the bytes already stored *)
Fixpoint copy_items (base : Z) (mem : list Z) (esc : bool) (dst src isz : Z) (length srcleft : nat)
  : list Z * bool * option exn :=
  match length with
  | O => (mem, esc, match srcleft with O => None | S _ => Some ValueError end)
  | S length' =>
      match srcleft with
      | O => (mem, esc, Some ValueError)
      | S srcleft' =>
          match mread base mem src isz with
          | None => copy_items base mem true (dst + isz) (src + isz) isz length' srcleft'
          | Some bs =>
              match mwrite base mem dst bs with
              | Some mem' => copy_items base mem' esc (dst + isz) (src + isz) isz length' srcleft'
              | None => copy_items base mem true (dst + isz) (src + isz) isz length' srcleft'
              end
          end
      end
  end.

Definition ass_slice (base : Z) (st : state) (cd : cdata) (start stop : bound) (has_step : bool)
           (is_char : bool) (v : source) : state * option exn :=
  match getslicearg cd start stop has_step with
  | Err e => (st, Some e)
  | Ok (a, n) =>
    let isz := c_isz cd in
    let dst := wrap64 (c_data cd + isz * a) in
    let finish (r : list Z * bool * option exn) :=
      match r with (m, esc, e) => (mkst m (s_views st) esc, e) end in
    match v with
    | SDel => (st, Some TypeError)
    | SArray k =>
        match nth_error (s_views st) k with
        | None => (st, Some TypeError)
        | Some src =>
          match c_kind src with
          | KArr slen =>
              if slen =? n then
                (* fast path :2619: memmove(cdata, v->c_data, itemsize * length) *)
                match mread base (s_mem st) (c_data src) (isz * n) with
                | None => (mkst (s_mem st) (s_views st) true, None)
                | Some bs =>
                    match mwrite base (s_mem st) dst bs with
                    | Some m => (mkst m (s_views st) (s_escaped st), None)
                    | None => (mkst (s_mem st) (s_views st) true, None)
                    end
                end
              else finish (copy_items base (s_mem st) (s_escaped st) dst (c_data src) isz
                                      (Z.to_nat n) (Z.to_nat slen))
          | KPtr _ => (st, Some TypeError)        (* a pointer cdata is not iterable *)
          end
        end
    | SBytes bs =>
        if is_char && (isz =? 1) then
          (* fast path :2631 *)
          if negb (Z.of_nat (length bs) =? n) then (st, Some ValueError)
          else match mwrite base (s_mem st) dst bs with
               | Some m => (mkst m (s_views st) (s_escaped st), None)
               | None => (mkst (s_mem st) (s_views st) true, None)
               end
        else (st, Some TypeError)     (* harness never sends bytes to non-char items *)
    | SList items =>
        finish (store_items base (s_mem st) (s_escaped st) dst isz (Z.to_nat n) items)
    end
  end.

(* ---------------------------------------------------------------- operations and outcomes *)
Inductive op :=
| OIndexRead (v : nat) (i : Z)
| OIndexWrite (v : nat) (i : Z) (c : conv)
| OSlice (v : nat) (start stop : bound) (has_step : bool)
| OAssSlice (v : nat) (start stop : bound) (has_step : bool) (is_char : bool) (src : source)
| OAdd (v : nat) (w : Z)
| OSubInt (v : nat) (w : Z)
| OPtrSub (v w : nat)
| OAddressof (v : nat) (i : Z).

Inductive outcome :=
| RBytes (addr : Z) (bs : option (list Z))   (* read: address, bytes if inside the base allocation *)
| RDone
| RView (k : nat) (cd : cdata)               (* a new cdata, stored as view number k *)
| RInt (z : Z)
| RErr (e : exn)
| RBadView.

Definition push (st : state) (cd : cdata) : state * outcome :=
  (mkst (s_mem st) (s_views st ++ [cd]) (s_escaped st), RView (length (s_views st)) cd).

Definition of_cd (st : state) (r : res cdata) : state * outcome :=
  match r with Ok cd => push st cd | Err e => (st, RErr e) end.

Definition step (base : Z) (st : state) (o : op) : state * outcome :=
  let view k := nth_error (s_views st) k in
  match o with
  | OIndexRead v i =>
      match view v with None => (st, RBadView) | Some cd =>
        match get_indexed_ptr cd i with
        | Err e => (st, RErr e)
        | Ok a => match mread base (s_mem st) a (c_isz cd) with
                  | Some bs => (st, RBytes a (Some bs))
                  | None => (mkst (s_mem st) (s_views st) true, RBytes a None)
                  end
        end end
  | OIndexWrite v i c =>
      match view v with None => (st, RBadView) | Some cd =>
        match get_indexed_ptr cd i with
        | Err e => (st, RErr e)
        | Ok a => match c with
                  | Err e => (st, RErr e)
                  | Ok bs => match mwrite base (s_mem st) a bs with
                             | Some m => (mkst m (s_views st) (s_escaped st), RDone)
                             | None => (mkst (s_mem st) (s_views st) true, RDone)
                             end
                  end
        end end
  | OSlice v a b hs =>
      match view v with None => (st, RBadView) | Some cd => of_cd st (slice cd a b hs) end
  | OAssSlice v a b hs ic src =>
      match view v with None => (st, RBadView) | Some cd =>
        match ass_slice base st cd a b hs ic src with
        | (st', None) => (st', RDone)
        | (st', Some e) => (st', RErr e)
        end end
  | OAdd v w =>
      match view v with None => (st, RBadView) | Some cd => of_cd st (add_or_sub cd w 1) end
  | OSubInt v w =>
      match view v with None => (st, RBadView) | Some cd => of_cd st (add_or_sub cd w (-1)) end
  | OPtrSub v w =>
      match view v, view w with
      | Some a, Some b => match ptr_sub a b with Ok z => (st, RInt z) | Err e => (st, RErr e) end
      | _, _ => (st, RBadView)
      end
  | OAddressof v i =>
      match view v with None => (st, RBadView) | Some cd => of_cd st (addressof_index cd i) end
  end.

Fixpoint run (base : Z) (st : state) (ops : list op) : state * list outcome :=
  match ops with
  | [] => (st, [])
  | o :: r => let '(st1, out) := step base st o in
              let '(st2, outs) := run base st1 r in (st2, out :: outs)
  end.

(* ---------------------------------------------------------------- boolean equalities (harness) *)
Fixpoint zlist_eqb (x y : list Z) : bool :=
  match x, y with
  | [], [] => true
  | a :: x', b :: y' => (a =? b) && zlist_eqb x' y'
  | _, _ => false
  end.
Definition exn_eqb (a b : exn) : bool :=
  match a, b with
  | IndexError, IndexError | OverflowError, OverflowError | TypeError, TypeError
  | ValueError, ValueError | RuntimeError, RuntimeError | Crash, Crash => true
  | _, _ => false
  end.
Definition ckind_eqb (a b : ckind) : bool :=
  match a, b with
  | KArr x, KArr y => x =? y
  | KPtr x, KPtr y => Bool.eqb x y
  | _, _ => false
  end.
(* what the harness can observe of a new cdata: kind/length and address *)
Definition cdata_eqb (a b : cdata) : bool :=
  ckind_eqb (c_kind a) (c_kind b) && (c_data a =? c_data b).
Definition outcome_eqb (a b : outcome) : bool :=
  match a, b with
  | RBytes x (Some p), RBytes y (Some q) => (x =? y) && zlist_eqb p q
  | RBytes x None, RBytes y None => x =? y
  | RDone, RDone => true
  | RView k c, RView j d => Nat.eqb k j && cdata_eqb c d
  | RInt x, RInt y => x =? y
  | RErr x, RErr y => exn_eqb x y
  | _, _ => false
  end.
Fixpoint outcomes_eqb (x y : list outcome) : bool :=
  match x, y with
  | [], [] => true
  | a :: x', b :: y' => outcome_eqb a b && outcomes_eqb x' y'
  | _, _ => false
  end.
(* what the harness observes of a run: final memory, escape flag, outcomes *)
Definition obs := (list Z * bool * list outcome)%type.
Definition run_obs (base : Z) (st : state) (ops : list op) : obs :=
  let r := run base st ops in (s_mem (fst r), s_escaped (fst r), snd r).
Definition obs_eqb (a b : obs) : bool :=
  zlist_eqb (fst (fst a)) (fst (fst b)) && Bool.eqb (snd (fst a)) (snd (fst b))
  && outcomes_eqb (snd a) (snd b).
