(* C26 — (a) whose result is returned: an invariant of EVERY step program (no `modelled` needed);
          (b) the theorems for the two implementations from the state their constructor creates
              (C26/Impl.v): the base case uses the regenerated facts of C26/Gen.v. *)
From Coq Require Import Arith List Bool ZArith Lia.
Import ListNotations.
From Cffi Require Import C26.Model C26.Gen C26.Proofs C26.Proofs2 C26.Impl.

(* ------------------------------------------------------------------ (a) results *)
Definition TR (R : Z -> Prop) (me : tl) : Prop :=
  (forall r, res me = Some r -> R r) /\
  (forall r, xv me = XDone r -> R r) /\
  (forall r, pc me = Ret r -> R r).

Definition RInv (R : Z -> Prop) (s : state) : Prop :=
  (forall r, cache s = Done r -> R r) /\ forall t, TR R (th s t).

Lemma RInv_init (R : Z -> Prop) : RInv R init.
Proof. split; [|intros t; repeat split]; cbn; intros; discriminate. Qed.

Lemma RInv_upd (R : Z -> Prop) s t me' c' ow nl nd :
  (forall r, c' = Done r -> R r) -> TR R me' -> (forall t0, TR R (th s t0)) ->
  RInv R (mkSt (setth s t me') c' ow nl nd).
Proof.
  intros Hc Hme Hall. split; cbn [cache th]; auto.
  intros t0. unfold setth. destruct (Nat.eqb t0 t); auto.
Qed.

Ltac rclean :=
  repeat match goal with
         | H : Some _ = Some _ |- _ => inversion H; subst; clear H
         | H : XDone _ = XDone _ |- _ => inversion H; subst; clear H
         | H : Done _ = Done _ |- _ => inversion H; subst; clear H
         | H : Ret _ = Ret _ |- _ => inversion H; subst; clear H
         end.

Ltac requate :=
  repeat match goal with
         | H1 : ?a = _, H2 : ?a = _ |- _ => rewrite H1 in H2
         end.

Lemma stepR_RInv (R : Z -> Prop) p s t s' : RInv R s -> stepR R p s t s' -> RInv R s'.
Proof.
  intros [Hc Hall] (o & H & HR). destruct (Hall t) as (Hres & Hx & Hpc).
  assert (Hxof : forall c r, cache s = c -> xof c = XDone r -> R r).
  { intros c r E1 E2. destruct c; cbn in E2; try discriminate. inversion E2; subst. auto. }
  unfold step_fn in H.
  repeat match type of H with
         | match ?x with _ => _ end = Some _ => destruct x eqn:?
         end; try discriminate; inversion H; subst; clear H; unfold loc, goto;
  (apply RInv_upd; [ | unfold TR; cbn [pc xv res held fraised nstart]; repeat split | assumption ]);
  intros; requate; rclean; try discriminate; eauto;
  try (eapply Hxof; [eassumption | cbn [xof]; eauto; fail]).
  all: try (apply HR; split; [eexists; eassumption | reflexivity]).
Qed.

Lemma reachR_RInv (R : Z -> Prop) p s : reachR R p s -> RInv R s.
Proof. induction 1; [apply RInv_init | eapply stepR_RInv; eauto]. Qed.

Lemma reachR_reach (R : Z -> Prop) p s : reachR R p s -> reach p s.
Proof.
  induction 1 as [|s t s' _ IH (o & H & _)]; [constructor|]. eapply r_step; eauto. exists o; exact H.
Qed.

Lemma reach_reachR_True p s : reach p s -> reachR (fun _ => True) p s.
Proof.
  induction 1 as [|s t s' _ IH [o H]]; [constructor|]. apply (rr_step _ p s t s' IH). exists o; split; auto.
Qed.

Lemma result_is_f_result (R : Z -> Prop) p s t r :
  reachR R p s -> (cache s = Done r \/ returned s t r) -> R r.
Proof.
  intros H. destruct (reachR_RInv R p s H) as [Hc Hall]. intros [E|E]; [auto|].
  destruct (Hall t) as (_ & _ & Hpc). apply Hpc. exact E.
Qed.

(* history version *)
Lemma hist_upd_incl s t o h r : In r h -> In r (hist_upd s t o h).
Proof. unfold hist_upd. destruct (pc (th s t)); auto. destruct o; auto. intros; right; auto. Qed.

Lemma reachH_reachR p s h : reachH p s h -> forall R : Z -> Prop, (forall r, In r h -> R r) -> reachR R p s.
Proof.
  induction 1 as [|s h t o s' _ IH Hs]; intros R HR; [constructor|].
  eapply rr_step.
  - apply IH. intros r Hr. apply HR. apply hist_upd_incl; auto.
  - exists o. split; [exact Hs|]. intros r Hf. destruct Hf as [[n E] ->]. apply HR. unfold hist_upd. rewrite E. left; auto.
Qed.

Lemma reachH_reach p s h : reachH p s h -> reach p s.
Proof. induction 1; [constructor|]. eapply r_step; eauto. eexists; eauto. Qed.

Lemma reach_reachH p s : reach p s -> exists h, reachH p s h.
Proof.
  induction 1 as [|s t s' _ [h IH] [o Hs]]; [exists []; constructor|].
  exists (hist_upd s t o h). eapply rh_step; eauto.
Qed.

Lemma reachH_len p s h : modelled p -> reachH p s h -> length h = ndone s.
Proof.
  intros Hp. induction 1 as [|s h t o s' Hr IH Hs]; [reflexivity|].
  pose proof (reach_inv p s Hp (reachH_reach _ _ _ Hr)) as HI.
  unfold hist_upd. unfold step_fn in Hs.
  destruct (pc (th s t)) as [n|n| | |] eqn:Epc; try discriminate.
  - repeat match type of Hs with
           | match ?x with _ => _ end = Some _ => destruct x eqn:?
           end; try discriminate; inversion Hs; subst; cbn [ndone loc]; exact IH.
  - destruct (inf_facts s t n HI Epc) as (-> & _).
    destruct Hp as [->| ->]; cbn [nth_error py_prog c_prog] in Hs;
      destruct o; inversion Hs; subst; cbn [ndone loc length]; congruence.
Qed.

Lemma result_is_the_completion p s h t r :
  modelled p -> reachH p s h -> (cache s = Done r \/ returned s t r) -> h = [r].
Proof.
  intros Hp H E.
  assert (Hin : In r h).
  { apply (result_is_f_result (fun x => In x h) p s t r); auto. eapply reachH_reachR; eauto. }
  pose proof (reachH_len p s h Hp H) as L.
  pose proof (ndone_le_1 s (reach_inv p s Hp (reachH_reach _ _ _ H))) as L1.
  destruct h as [|x [|y h]]; cbn in *; try lia; try contradiction.
  destruct Hin as [->|[]]. reflexivity.
Qed.

(* ------------------------------------------------------------------ (b) the implementations *)
(* the base case: the constructor leaves no entry for any tag and new locks are unlocked.
   `reflexivity` computes the regenerated booleans of C26/Gen.v: a false one breaks this proof. *)
Lemma impl_init_is_init i : impl_init i = init.
Proof. destruct i; reflexivity. Qed.

(* the regenerated C step program is the one the invariant was proved for, and the C function has
   no `return` between PyThread_acquire_lock and PyThread_release_lock *)
Lemma c_prog_gen_ok : c_prog_gen = c_prog /\ gen_c_no_return_while_locked = true.
Proof. split; reflexivity. Qed.

Lemma prog_of_modelled i : modelled (prog_of i).
Proof. destruct i; [left; reflexivity | right; exact (proj1 c_prog_gen_ok)]. Qed.

Lemma ireach_reach i s : ireach i s -> reach (prog_of i) s.
Proof. induction 1; [rewrite impl_init_is_init; constructor | eapply r_step; eauto]. Qed.

Lemma imreach_mreach i S : imreach i S -> mreach (prog_of i) S.
Proof.
  induction 1.
  - replace (iminit i) with minit; [constructor|].
    unfold iminit, minit. rewrite impl_init_is_init. reflexivity.
  - eapply mr_step; eauto.
Qed.

Lemma impl_safety : forall i s, ireach i s ->
  (forall t1 t2, in_f s t1 -> in_f s t2 -> t1 = t2) /\
  ndone s <= 1 /\
  (forall t r, returned s t r -> cache s = Done r) /\
  (forall r, cache s = Done r -> forall t, ~ in_f s t) /\
  (forall t e, pc (th s t) = Raised e -> e = FExn /\ own_f_raised s t) /\
  (forall t r, returned s t r -> fraised (th s t) = false) /\
  (forall t, pc (th s t) <> Stuck).
Proof. intros i s H. apply (safety (prog_of i) s (prog_of_modelled i) (ireach_reach i s H)). Qed.

Lemma impl_safety_every_tag : forall i S tag, imreach i S ->
  (forall t1 t2, in_f (S tag) t1 -> in_f (S tag) t2 -> t1 = t2) /\
  ndone (S tag) <= 1 /\
  (forall t r, returned (S tag) t r -> cache (S tag) = Done r) /\
  (forall r, cache (S tag) = Done r -> forall t, ~ in_f (S tag) t) /\
  (forall t e, pc (th (S tag) t) = Raised e -> e = FExn /\ own_f_raised (S tag) t) /\
  (forall t r, returned (S tag) t r -> fraised (th (S tag) t) = false) /\
  (forall t, pc (th (S tag) t) <> Stuck).
Proof.
  intros i S tag H. apply (safety_every_tag (prog_of i) S tag (prog_of_modelled i) (imreach_mreach i S H)).
Qed.

Lemma impl_maximal_run_all_finished : forall i n k s,
  stepsN (prog_of i) n (impl_init i) k s -> (forall t, t < n -> ~ enabled (prog_of i) s t) ->
  k <= n * (2 * length (prog_of i) + 2) /\
  forall t, t < n ->
    (exists r, returned s t r /\ cache s = Done r) \/ (pc (th s t) = Raised FExn /\ own_f_raised s t).
Proof.
  intros i n k s. rewrite impl_init_is_init. apply maximal_run_all_finished. apply prog_of_modelled.
Qed.
