(* C26 — the two implementations as transition systems, from the state in which their constructor
   leaves a new FFI object.  Definitions only.  Everything named gen_* / *_prog(_gen) comes from
   C26/Gen.v, which tools/props/c26.py regen() rewrites from /repo's source on every run. *)
From Coq Require Import Arith List Bool ZArith.
Import ListNotations.
From Cffi Require Import C26.Model C26.Gen.

Inductive impl := ImplPy | ImplC.

Definition prog_of (i : impl) : prog :=
  match i with ImplPy => py_prog | ImplC => c_prog_gen end.

(* the cache of a new FFI object has no entry, for any tag *)
Definition created_empty (i : impl) : bool :=
  match i with
  | ImplPy => gen_py_cache_init_empty && gen_py_cache_assigned_once
  | ImplC => gen_c_cache_init_empty
  end.

Definition lock_unlocked (i : impl) : bool :=
  match i with ImplPy => gen_py_lock_is_thread_lock | ImplC => gen_c_lock_is_thread_lock end.

Definition impl_init (i : impl) : state := init_of (created_empty i) (lock_unlocked i).

(* every state of one tag of an FFI object of implementation i, under every schedule *)
Inductive ireach (i : impl) : state -> Prop :=
| ir_init : ireach i (impl_init i)
| ir_step : forall s t s', ireach i s -> step (prog_of i) s t s' -> ireach i s'.

(* the whole object: one component per tag, all created by the same constructor *)
Definition iminit (i : impl) : mstate := fun _ => impl_init i.
Inductive imreach (i : impl) : mstate -> Prop :=
| imr_init : imreach i (iminit i)
| imr_step : forall S tag t s', imreach i S -> step (prog_of i) (S tag) t s' -> imreach i (mupd S tag s').

(* ---- whose result.  R is any predicate on the values the user's f returns; `stepR` is a step in
   which f, if this is the step where it returns, returns a value satisfying R. *)
Definition f_returns (s : state) (t : nat) (o : fout) (r : Z) : Prop := in_f s t /\ o = FRet r.

Definition stepR (R : Z -> Prop) (p : prog) (s : state) (t : nat) (s' : state) : Prop :=
  exists o, step_fn p s t o = Some s' /\ forall r, f_returns s t o r -> R r.

Inductive reachR (R : Z -> Prop) (p : prog) : state -> Prop :=
| rr_init : reachR R p init
| rr_step : forall s t s', reachR R p s -> stepR R p s t s' -> reachR R p s'.

(* history ghost, kept outside the state: the values returned by the completed runs of f, latest first *)
Definition hist_upd (s : state) (t : nat) (o : fout) (h : list Z) : list Z :=
  match pc (th s t), o with
  | InF _, FRet r => r :: h
  | _, _ => h
  end.

Inductive reachH (p : prog) : state -> list Z -> Prop :=
| rh_init : reachH p init []
| rh_step : forall s h t o s', reachH p s h -> step_fn p s t o = Some s' -> reachH p s' (hist_upd s t o h).
