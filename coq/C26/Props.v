(* C26 — ffi.init_once runs the initializer once under any interleaving.
   Statements only; proofs are in C26/Proofs.v.  `modelled p` : p is the step program regenerated
   from api.py FFI.init_once (C26/Gen.v py_prog) or the hand model of ffi_obj.c ffi_init_once
   (C26/Model.v c_prog).  Threads are `nat` (any number), `reach` is closed under steps of any
   thread in any order (all schedules), f may return any value or raise at every call. *)
From Coq Require Import Arith List Bool ZArith.
Import ListNotations.
From Cffi Require Import C26.Model C26.Gen C26.Proofs.

Theorem C26_safety : forall p s, modelled p -> reach p s ->
  (forall t1 t2, in_f s t1 -> in_f s t2 -> t1 = t2) /\          (* at most one f runs at a time *)
  ndone s <= 1 /\                                                (* at most one f completes normally *)
  (forall t r, returned s t r -> cache s = Done r) /\            (* every normal return is the cached result *)
  (forall r, cache s = Done r -> forall t, ~ in_f s t) /\        (* no f runs (hence none starts) once cached *)
  (forall t e, pc (th s t) = Raised e -> e = FExn /\ own_f_raised s t) /\  (* only a call's own f makes it raise *)
  (forall t r, returned s t r -> fraised (th s t) = false) /\    (* a call whose own f raised does not return normally *)
  (forall t, pc (th s t) <> Stuck).                              (* no unbound local / wrong-kind value is ever used *)
Proof. exact safety. Qed.
Print Assumptions C26_safety.

(* every tag: an FFI object is the product of per-tag states (C26/Model.v mstate); each
   component of a reachable product state is a reachable single-tag state, so all theorems of this
   file hold for every tag of every reachable state of the whole object *)
Theorem C26_every_tag : forall p S, mreach p S -> forall tag, reach p (S tag).
Proof. exact every_tag. Qed.
Print Assumptions C26_every_tag.

Theorem C26_safety_every_tag : forall p S tag, modelled p -> mreach p S ->
  (forall t1 t2, in_f (S tag) t1 -> in_f (S tag) t2 -> t1 = t2) /\
  ndone (S tag) <= 1 /\
  (forall t r, returned (S tag) t r -> cache (S tag) = Done r) /\
  (forall r, cache (S tag) = Done r -> forall t, ~ in_f (S tag) t) /\
  (forall t e, pc (th (S tag) t) = Raised e -> e = FExn /\ own_f_raised (S tag) t) /\
  (forall t r, returned (S tag) t r -> fraised (th (S tag) t) = false) /\
  (forall t, pc (th (S tag) t) <> Stuck).
Proof. exact safety_every_tag. Qed.
Print Assumptions C26_safety_every_tag.

Theorem C26_no_deadlock_every_tag : forall p S tag t, modelled p -> mreach p S -> unfinished (S tag) t ->
  enabled p (S tag) t \/ exists t', t' <> t /\ blocked_on p (S tag) t t' /\ enabled p (S tag) t'.
Proof. exact no_deadlock_every_tag. Qed.
Print Assumptions C26_no_deadlock_every_tag.

Theorem C26_tags_independent : forall (S : mstate) tag s' tag', tag' <> tag -> mupd S tag s' tag' = S tag'.
Proof. exact tags_independent. Qed.
Print Assumptions C26_tags_independent.

(* the cached result is that of the unique normal completion and never changes afterwards *)
Theorem C26_done_iff_completed : forall p s, modelled p -> reach p s ->
  (ndone s = 1 <-> (exists r, cache s = Done r) \/ exists t, pc (th s t) = At 10).
Proof. exact done_iff_completed. Qed.
Print Assumptions C26_done_iff_completed.

Theorem C26_done_is_final : forall p s t s' r, modelled p -> reach p s ->
  cache s = Done r -> step p s t s' -> cache s' = Done r.
Proof. exact done_is_final. Qed.
Print Assumptions C26_done_is_final.

(* f raising caches nothing: neither the raising step nor any later step of that call writes the cache *)
Theorem C26_raise_caches_nothing : forall p s t s', reach p s -> step p s t s' ->
  is_f_raises_step p s t s' -> cache s' = cache s.
Proof. exact raise_caches_nothing. Qed.
Print Assumptions C26_raise_caches_nothing.

Theorem C26_raiser_never_stores : forall p s t s', modelled p -> reach p s ->
  own_f_raised s t -> step p s t s' -> cache s' = cache s.
Proof. exact raiser_never_stores_reach. Qed.
Print Assumptions C26_raiser_never_stores.

(* no deadlock, per thread: an unfinished call can step (a call inside f "steps" when f
   finishes), or it waits for the lock held by another call that can step.  Wait chains have
   length one, so there is no cycle. *)
Theorem C26_no_deadlock : forall p s t, modelled p -> reach p s -> unfinished s t ->
  enabled p s t \/ exists t', t' <> t /\ blocked_on p s t t' /\ enabled p s t'.
Proof. exact no_deadlock. Qed.
Print Assumptions C26_no_deadlock.

(* ... and no livelock: each own step strictly decreases the call's rank, so a call makes at
   most rank (At 0) = 2 * length p + 2 steps; other threads' steps do not touch it.
   Termination of every call then follows under weak fairness of the scheduler and termination
   of f — those two are the runtime hypotheses (not formalised). *)
Theorem C26_bounded_steps : forall p s t s', modelled p -> step p s t s' ->
  rank p (pc (th s' t)) < rank p (pc (th s t)) /\
  forall t0, t0 <> t -> th s' t0 = th s t0.
Proof. exact bounded_steps. Qed.
Print Assumptions C26_bounded_steps.

(* the executable runner used by the correspondence harness only visits reachable states *)
Theorem C26_runner_sound : forall p sch s tr, run_steps p init sch [] = Some (s, tr) -> reach p s.
Proof. exact runner_sound. Qed.
Print Assumptions C26_runner_sound.

(* ---- non-vacuity: concrete schedules of the regenerated program.
   thread 0 wins the lock, its f raises; thread 1 (which was blocked) then runs f, returns 7;
   thread 2 arrives late and returns 7 without calling f. *)
Example C26_example_raise_then_success :
  run_maximal py_prog 3
    [(0, FRaise); (1, FRaise); (0, FRaise); (1, FRaise); (0, FRaise); (0, FRaise); (0, FRaise); (0, FRaise); (0, FRaise);
     (1, FRaise); (1, FRaise); (1, FRaise); (1, FRet 7%Z); (1, FRaise); (1, FRaise); (2, FRaise)]
  = Some [0;1;0; 1;1;0; 0;2;1; 1;2;1; 0;3;1; 0;1;1; 0;4;1; 0;6;1; 0;8;1;
          1;3;1; 1;1;1; 1;4;1; 1;5;1; 1;7;2;7; 1;8;2;7; 2;1;2;7;
          3;1; 1;7;1; 1;7;0; 2;7; 1]%Z.
Proof. vm_compute. reflexivity. Qed.

(* thread 1 cannot take the lock while thread 0 is inside f *)
Example C26_example_blocked :
  run py_prog 2 [(0, FRaise); (0, FRaise); (0, FRaise); (0, FRaise); (0, FRaise); (1, FRaise); (1, FRaise)] = None
  /\ exists s tr, run_steps py_prog init
        [(0, FRaise); (0, FRaise); (0, FRaise); (0, FRaise); (0, FRaise); (1, FRaise)] [] = Some (s, tr)
        /\ in_f s 0 /\ blocked_on py_prog s 1 0.
Proof.
  split; [vm_compute; reflexivity|].
  eexists; eexists; split; [vm_compute; reflexivity|].
  split; [exists 9; reflexivity| exists 4, 5, 0; repeat split; reflexivity].
Qed.
