(* C26 — ffi.init_once runs the initializer once under any interleaving.
   Statements only; proofs are in C26/Proofs.v, Proofs2.v (termination), Proofs3.v (results, the two
   implementations).  `modelled p` : p is the step program regenerated from api.py FFI.init_once
   (C26/Gen.v py_prog) or the step program of ffi_obj.c ffi_init_once (C26/Model.v c_prog, which
   the regenerated C26/Gen.v c_prog_gen must equal).  Threads are `nat` (any number), `reach` is
   closed under steps of any thread in any order (all schedules), f may return any value or raise
   at every call.  Hypothesis of the whole file, not expressible inside the model: one dict
   operation / one lock operation of the implementation is one atomic step (the GIL for the dict
   operations of built-in or harness-hashed tags; PyThread locks are atomic by themselves).
   The theorems named C26_impl_* quantify over the two implementations themselves (C26/Impl.v):
   their step program AND the state their constructor creates both come from C26/Gen.v. *)
From Coq Require Import Arith List Bool ZArith.
Import ListNotations.
From Cffi Require Import C26.Model C26.Gen C26.Proofs C26.Proofs2 C26.Impl C26.Proofs3.

Theorem C26_safety : forall p s, modelled p -> reach p s ->
  (forall t1 t2, in_f s t1 -> in_f s t2 -> t1 = t2) /\          (* at most one f runs at a time *)
  ndone s <= 1 /\                                                (* at most one f completes normally *)
  (forall t r, returned s t r -> cache s = Done r) /\            (* every normal return is the cached result *)
  (forall r, cache s = Done r -> forall t, ~ in_f s t) /\        (* no f runs (hence none starts) once cached *)
  (forall t e, pc (th s t) = Raised e -> e = FExn /\ own_f_raised s t) /\  (* only a call's own f makes it raise *)
  (forall t r, returned s t r -> fraised (th s t) = false) /\    (* a call whose own f raised does not return normally *)
  (forall t, pc (th s t) <> Stuck).                              (* no unbound local / wrong-kind value is ever used *)
Proof. exact safety. Qed.
Print Assumptions C26_safety.

(* every tag: an FFI object is the product of per-tag states (C26/Model.v mstate); each
   component of a reachable product state is a reachable single-tag state, so all theorems of this
   file hold for every tag of every reachable state of the whole object *)
Theorem C26_every_tag : forall p S, mreach p S -> forall tag, reach p (S tag).
Proof. exact every_tag. Qed.
Print Assumptions C26_every_tag.

Theorem C26_safety_every_tag : forall p S tag, modelled p -> mreach p S ->
  (forall t1 t2, in_f (S tag) t1 -> in_f (S tag) t2 -> t1 = t2) /\
  ndone (S tag) <= 1 /\
  (forall t r, returned (S tag) t r -> cache (S tag) = Done r) /\
  (forall r, cache (S tag) = Done r -> forall t, ~ in_f (S tag) t) /\
  (forall t e, pc (th (S tag) t) = Raised e -> e = FExn /\ own_f_raised (S tag) t) /\
  (forall t r, returned (S tag) t r -> fraised (th (S tag) t) = false) /\
  (forall t, pc (th (S tag) t) <> Stuck).
Proof. exact safety_every_tag. Qed.
Print Assumptions C26_safety_every_tag.

Theorem C26_no_deadlock_every_tag : forall p S tag t, modelled p -> mreach p S -> unfinished (S tag) t ->
  enabled p (S tag) t \/ exists t', t' <> t /\ blocked_on p (S tag) t t' /\ enabled p (S tag) t'.
Proof. exact no_deadlock_every_tag. Qed.
Print Assumptions C26_no_deadlock_every_tag.

Theorem C26_tags_independent : forall (S : mstate) tag s' tag', tag' <> tag -> mupd S tag s' tag' = S tag'.
Proof. exact tags_independent. Qed.
Print Assumptions C26_tags_independent.

(* the cached result is that of the unique normal completion and never changes afterwards *)
Theorem C26_done_iff_completed : forall p s, modelled p -> reach p s ->
  (ndone s = 1 <-> (exists r, cache s = Done r) \/ exists t, pc (th s t) = At 10).
Proof. exact done_iff_completed. Qed.
Print Assumptions C26_done_iff_completed.

Theorem C26_done_is_final : forall p s t s' r, modelled p -> reach p s ->
  cache s = Done r -> step p s t s' -> cache s' = Done r.
Proof. exact done_is_final. Qed.
Print Assumptions C26_done_is_final.

(* f raising caches nothing: neither the raising step nor any later step of that call writes the cache *)
Theorem C26_raise_caches_nothing : forall p s t s', reach p s -> step p s t s' ->
  is_f_raises_step p s t s' -> cache s' = cache s.
Proof. exact raise_caches_nothing. Qed.
Print Assumptions C26_raise_caches_nothing.

Theorem C26_raiser_never_stores : forall p s t s', modelled p -> reach p s ->
  own_f_raised s t -> step p s t s' -> cache s' = cache s.
Proof. exact raiser_never_stores_reach. Qed.
Print Assumptions C26_raiser_never_stores.

(* no deadlock, per thread: an unfinished call can step (a call inside f "steps" when f
   finishes), or it waits for the lock held by another call that can step.  Wait chains have
   length one, so there is no cycle. *)
Theorem C26_no_deadlock : forall p s t, modelled p -> reach p s -> unfinished s t ->
  enabled p s t \/ exists t', t' <> t /\ blocked_on p s t t' /\ enabled p s t'.
Proof. exact no_deadlock. Qed.
Print Assumptions C26_no_deadlock.

(* one step: the rank of the stepping call strictly decreases and no other call is touched
   (a ONE-STEP statement; the bound on whole runs is C26_runs_bounded below) *)
Theorem C26_own_step_decreases_rank : forall p s t s', modelled p -> step p s t s' ->
  rank p (pc (th s' t)) < rank p (pc (th s t)) /\
  forall t0, t0 <> t -> th s' t0 = th s t0.
Proof. exact bounded_steps. Qed.
Print Assumptions C26_own_step_decreases_rank.

(* ---- termination WITHOUT a fairness hypothesis.  n callers (threads 0..n-1; reachN/stepsN:
   only they step).  Every step of any of them strictly decreases the sum of their ranks ... *)
Theorem C26_total_rank_decreases : forall p n s t s', modelled p -> t < n -> step p s t s' ->
  total_rank p n s' < total_rank p n s.
Proof. exact total_rank_decreases. Qed.
Print Assumptions C26_total_rank_decreases.

(* ... so every run from the initial state, under every schedule, has at most n * (2*|p| + 2) steps
   (f's return/raise is one of these steps: the only thing that can keep a run from ending is an f
   that does not come back) ... *)
Theorem C26_runs_bounded : forall p n k s, modelled p -> stepsN p n init k s -> k <= n * (2 * length p + 2).
Proof. exact runs_bounded. Qed.
Print Assumptions C26_runs_bounded.

(* ... and when none of the n callers can step any more, all n calls have finished. *)
Theorem C26_quiescent_all_finished : forall p n s, modelled p -> reachN p n s ->
  (forall t, t < n -> ~ enabled p s t) -> forall t, t < n -> ~ unfinished s t.
Proof. exact quiescent_all_finished. Qed.
Print Assumptions C26_quiescent_all_finished.

(* together: every maximal run is finite and ends with every call having returned the cached result
   or re-raised its own f's exception *)
Theorem C26_maximal_run_all_finished : forall p n k s, modelled p -> stepsN p n init k s ->
  (forall t, t < n -> ~ enabled p s t) ->
  k <= n * (2 * length p + 2) /\
  forall t, t < n ->
    (exists r, returned s t r /\ cache s = Done r) \/ (pc (th s t) = Raised FExn /\ own_f_raised s t).
Proof. exact maximal_run_all_finished. Qed.
Print Assumptions C26_maximal_run_all_finished.

(* bounding the callers loses nothing *)
Theorem C26_reach_is_reachN : forall p s, reach p s -> exists n, reachN p n s.
Proof. exact reach_reachN. Qed.
Print Assumptions C26_reach_is_reachN.

(* ---- whose result.  For EVERY step program p (not only the modelled ones) and every predicate R:
   if every value f returns satisfies R, so does the cached value and every value a call returns. *)
Theorem C26_result_is_f_result : forall (R : Z -> Prop) p s t r,
  reachR R p s -> (cache s = Done r \/ returned s t r) -> R r.
Proof. exact result_is_f_result. Qed.
Print Assumptions C26_result_is_f_result.

(* with the history h of the values returned by completed runs of f (a ghost outside the state):
   a cached value / a returned value is THE value of THE one completion *)
Theorem C26_result_is_the_completion : forall p s h t r, modelled p -> reachH p s h ->
  (cache s = Done r \/ returned s t r) -> h = [r].
Proof. exact result_is_the_completion. Qed.
Print Assumptions C26_result_is_the_completion.

Theorem C26_history_counts_completions : forall p s h, modelled p -> reachH p s h -> length h = ndone s.
Proof. exact reachH_len. Qed.
Print Assumptions C26_history_counts_completions.

(* reachR / reachH are not restrictions of reach *)
Theorem C26_reach_has_history : forall p s, reach p s -> exists h, reachH p s h.
Proof. exact reach_reachH. Qed.
Print Assumptions C26_reach_has_history.
Theorem C26_reach_is_reachR_True : forall p s, reach p s -> reachR (fun _ => True) p s.
Proof. exact reach_reachR_True. Qed.
Print Assumptions C26_reach_is_reachR_True.

(* ---- the two implementations, from the state their constructor creates (C26/Impl.v).
   impl_init i = init_of (regenerated facts): "no entry for any tag, new locks unlocked". *)
Theorem C26_impl_init_is_empty : forall i, impl_init i = init.
Proof. exact impl_init_is_init. Qed.
Print Assumptions C26_impl_init_is_empty.

Theorem C26_impl_c_prog_regenerated : c_prog_gen = c_prog /\ gen_c_no_return_while_locked = true.
Proof. exact c_prog_gen_ok. Qed.
Print Assumptions C26_impl_c_prog_regenerated.

Theorem C26_impl_safety : forall i s, ireach i s ->
  (forall t1 t2, in_f s t1 -> in_f s t2 -> t1 = t2) /\
  ndone s <= 1 /\
  (forall t r, returned s t r -> cache s = Done r) /\
  (forall r, cache s = Done r -> forall t, ~ in_f s t) /\
  (forall t e, pc (th s t) = Raised e -> e = FExn /\ own_f_raised s t) /\
  (forall t r, returned s t r -> fraised (th s t) = false) /\
  (forall t, pc (th s t) <> Stuck).
Proof. exact impl_safety. Qed.
Print Assumptions C26_impl_safety.

(* every FFI object, every tag *)
Theorem C26_impl_safety_every_tag : forall i S tag, imreach i S ->
  (forall t1 t2, in_f (S tag) t1 -> in_f (S tag) t2 -> t1 = t2) /\
  ndone (S tag) <= 1 /\
  (forall t r, returned (S tag) t r -> cache (S tag) = Done r) /\
  (forall r, cache (S tag) = Done r -> forall t, ~ in_f (S tag) t) /\
  (forall t e, pc (th (S tag) t) = Raised e -> e = FExn /\ own_f_raised (S tag) t) /\
  (forall t r, returned (S tag) t r -> fraised (th (S tag) t) = false) /\
  (forall t, pc (th (S tag) t) <> Stuck).
Proof. exact impl_safety_every_tag. Qed.
Print Assumptions C26_impl_safety_every_tag.

Theorem C26_impl_maximal_run_all_finished : forall i n k s,
  stepsN (prog_of i) n (impl_init i) k s -> (forall t, t < n -> ~ enabled (prog_of i) s t) ->
  k <= n * (2 * length (prog_of i) + 2) /\
  forall t, t < n ->
    (exists r, returned s t r /\ cache s = Done r) \/ (pc (th s t) = Raised FExn /\ own_f_raised s t).
Proof. exact impl_maximal_run_all_finished. Qed.
Print Assumptions C26_impl_maximal_run_all_finished.

(* why the base case matters: from a cache that was NOT created empty (init_of false _, e.g. a
   module __dict__ instead of {}), one step program step returns a value no f produced *)
Example C26_example_nonempty_cache_breaks :
  exists s1 s2, step_fn py_prog (init_of false true) 0 FRaise = Some s1 /\
                vstep py_prog (init_of false true) 0 FRaise = Some s2 /\
                returned s2 0 0%Z /\ ndone s2 = 0 /\ nstart (th s2 0) = 0.
Proof. eexists; eexists; split; [reflexivity|]. split; [vm_compute; reflexivity|]. repeat split. Qed.

(* the executable runner used by the correspondence harness only visits reachable states *)
Theorem C26_runner_sound : forall p sch s tr, run_steps p init sch [] = Some (s, tr) -> reach p s.
Proof. exact runner_sound. Qed.
Print Assumptions C26_runner_sound.

(* ---- non-vacuity: concrete schedules of the regenerated program.
   thread 0 wins the lock, its f raises; thread 1 (which was blocked) then runs f, returns 7;
   thread 2 arrives late and returns 7 without calling f. *)
Example C26_example_raise_then_success :
  run_maximal py_prog 3
    [(0, FRaise); (1, FRaise); (0, FRaise); (1, FRaise); (0, FRaise); (0, FRaise); (0, FRaise); (0, FRaise); (0, FRaise);
     (1, FRaise); (1, FRaise); (1, FRaise); (1, FRet 7%Z); (1, FRaise); (1, FRaise); (2, FRaise)]
  = Some [0;1;0; 1;1;0; 0;2;1; 1;2;1; 0;3;1; 0;1;1; 0;4;1; 0;6;1; 0;8;1;
          1;3;1; 1;1;1; 1;4;1; 1;5;1; 1;7;2;7; 1;8;2;7; 2;1;2;7;
          3;1; 1;7;1; 1;7;0; 2;7; 1]%Z.
Proof. vm_compute. reflexivity. Qed.

(* thread 1 cannot take the lock while thread 0 is inside f *)
Example C26_example_blocked :
  run py_prog 2 [(0, FRaise); (0, FRaise); (0, FRaise); (0, FRaise); (0, FRaise); (1, FRaise); (1, FRaise)] = None
  /\ exists s tr, run_steps py_prog init
        [(0, FRaise); (0, FRaise); (0, FRaise); (0, FRaise); (0, FRaise); (1, FRaise)] [] = Some (s, tr)
        /\ in_f s 0 /\ blocked_on py_prog s 1 0.
Proof.
  split; [vm_compute; reflexivity|].
  eexists; eexists; split; [vm_compute; reflexivity|].
  split; [exists 9; reflexivity| exists 4, 5, 0; repeat split; reflexivity].
Qed.
