(* C26/Gen.v — regenerated from src/cffi/api.py FFI.init_once.  Do not edit: rewritten by tools/props/c26.py regen() on every run. *)
From Coq Require Import List.
Import ListNotations.
From Cffi Require Import C26.Model.

Definition py_prog : prog := [
  (*  0 *) IRead 2 1;   (* x = self._init_once_cache[tag] *)
  (*  1 *) ISetDefault 2;   (* x = self._init_once_cache.setdefault(tag, (False, allocate_lock())) *)
  (*  2 *) IIfDone 3 4;   (* if x[0]: *)
  (*  3 *) IRetX;   (* return x[1] *)
  (*  4 *) IAcquire 5;   (* with x[1]: *)
  (*  5 *) IRead 6 15;   (* x = self._init_once_cache[tag] *)
  (*  6 *) IIfDone 7 9;   (* if x[0]: *)
  (*  7 *) IRelease 8;   (* (leave with) *)
  (*  8 *) IRetX;   (* return x[1] *)
  (*  9 *) ICallF 10 13;   (* result = func() *)
  (* 10 *) IStore 11;   (* self._init_once_cache[tag] = (True, result) *)
  (* 11 *) IRelease 12;   (* (leave with) *)
  (* 12 *) IRetResult;   (* return result *)
  (* 13 *) IRelease 14;   (* (leave with, exception from func()) *)
  (* 14 *) IRaise FExn;   (* (propagate) *)
  (* 15 *) IRelease 16;   (* (leave with, KeyError) *)
  (* 16 *) IRaise KeyErr   (* (propagate) *)
].

Definition c_prog_gen : prog := [
  (*  0 *) IRead 2 1;
  (*  1 *) ISetDefault 2;
  (*  2 *) IIfDone 3 4;
  (*  3 *) IRetX;
  (*  4 *) IAcquire 5;
  (*  5 *) IRead 6 9;
  (*  6 *) IIfDone 7 9;
  (*  7 *) IRelease 8;
  (*  8 *) IRetX;
  (*  9 *) ICallF 10 13;
  (* 10 *) IStore 11;
  (* 11 *) IRelease 12;
  (* 12 *) IRetResult;
  (* 13 *) IRelease 14;
  (* 14 *) IRaise FExn
].

Definition gen_py_cache_init_empty : bool := true.
Definition gen_py_cache_assigned_once : bool := true.
Definition gen_py_lock_is_thread_lock : bool := true.
Definition gen_c_cache_init_empty : bool := true.
Definition gen_c_lock_is_thread_lock : bool := true.
Definition gen_c_no_return_while_locked : bool := true.
