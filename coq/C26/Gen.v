(* C26/Gen.v — regenerated from src/cffi/api.py FFI.init_once.  Do not edit: rewritten by tools/props/c26.py regen() on every run. *)
From Coq Require Import List.
Import ListNotations.
From Cffi Require Import C26.Model.

Definition py_prog : prog := [
  (*  0 *) IRead 3 1;   (* x = self._init_once_cache[tag] *)
  (*  1 *) INewX 2;   (* x = (False, allocate_lock()) *)
  (*  2 *) ISetDefaultX false 3;   (* self._init_once_cache.setdefault(tag, x) *)
  (*  3 *) IIfDone 4 5;   (* if x[0]: *)
  (*  4 *) IRetX;   (* return x[1] *)
  (*  5 *) IAcquire 6;   (* with x[1]: *)
  (*  6 *) IRead 7 16;   (* x = self._init_once_cache[tag] *)
  (*  7 *) IIfDone 8 10;   (* if x[0]: *)
  (*  8 *) IRelease 9;   (* (leave with) *)
  (*  9 *) IRetX;   (* return x[1] *)
  (* 10 *) ICallF 11 14;   (* result = func() *)
  (* 11 *) IStore 12;   (* self._init_once_cache[tag] = (True, result) *)
  (* 12 *) IRelease 13;   (* (leave with) *)
  (* 13 *) IRetResult;   (* return result *)
  (* 14 *) IRelease 15;   (* (leave with, exception from func()) *)
  (* 15 *) IRaise FExn;   (* (propagate) *)
  (* 16 *) IRelease 17;   (* (leave with, KeyError) *)
  (* 17 *) IRaise KeyErr   (* (propagate) *)
].
