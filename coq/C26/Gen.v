(* C26/Gen.v — regenerated from src/cffi/api.py FFI.init_once, FFI.__init__, lock.py and src/c/ffi_obj.c ffi_init_once.  Do not edit: rewritten by tools/props/c26.py regen() on every run. *)
From Coq Require Import List.
Import ListNotations.
From Cffi Require Import C26.Model.

Definition py_prog : prog := [
  (*  0 *) IRead 2 1;   (* x = self._init_once_cache[tag] *)
  (*  1 *) ISetDefault 2;   (* x = self._init_once_cache.setdefault(tag, (False, allocate_lock())) *)
  (*  2 *) IIfDone 3 4;   (* if x[0]: *)
  (*  3 *) IRetX;   (* return x[1] *)
  (*  4 *) IAcquire 5;   (* with x[1]: *)
  (*  5 *) IRead 6 15;   (* x = self._init_once_cache[tag] *)
  (*  6 *) IIfDone 7 9;   (* if x[0]: *)
  (*  7 *) IRelease 8;   (* (leave with) *)
  (*  8 *) IRetX;   (* return x[1] *)
  (*  9 *) ICallF 10 13;   (* result = func() *)
  (* 10 *) IStore 11;   (* self._init_once_cache[tag] = (True, result) *)
  (* 11 *) IRelease 12;   (* (leave with) *)
  (* 12 *) IRetResult;   (* return result *)
  (* 13 *) IRelease 14;   (* (leave with, exception from func()) *)
  (* 14 *) IRaise FExn;   (* (propagate) *)
  (* 15 *) IRelease 16;   (* (leave with, KeyError) *)
  (* 16 *) IRaise KeyErr   (* (propagate) *)
].

(* the step program of src/c/ffi_obj.c ffi_init_once, from its ordered call sites (c26.py c_extract);
   regenerated from src/c/ffi_obj.c:989-1085 *)
Definition c_prog_gen : prog := [
  (*  0 *) IRead 2 1;   (* 1013 PyDict_GetItemRef(cache, tag, &tup); tup == NULL -> 1 *)
  (*  1 *) ISetDefault 2;   (* 1017-1034 new lock, tup = cache.setdefault(tag, (False, lock)) *)
  (*  2 *) IIfDone 3 4;   (* 1043 if (PyTuple_GET_ITEM(tup, 0) == Py_True) *)
  (*  3 *) IRetX;   (* 1046 return res  (= tup[1], line 1040) *)
  (*  4 *) IAcquire 5;   (* 1059-1061 Py_BEGIN_ALLOW_THREADS PyThread_acquire_lock(lock, WAIT_LOCK) *)
  (*  5 *) IRead 6 9;   (* 1063 x = PyDict_GetItem(cache, tag); x == NULL -> else branch *)
  (*  6 *) IIfDone 7 9;   (* 1064 x != NULL && PyTuple_GET_ITEM(x, 0) == Py_True *)
  (*  7 *) IRelease 8;   (* 1082 PyThread_release_lock(lock) on the path res = x[1] (line 1067) *)
  (*  8 *) IRetX;   (* 1084 return res *)
  (*  9 *) ICallF 10 13;   (* 1071 res = PyObject_CallFunction(func, "") *)
  (* 10 *) IStore 11;   (* 1073-1074 PyDict_SetItem(cache, tag, (True, res)) under if (res != NULL) *)
  (* 11 *) IRelease 12;   (* 1082 PyThread_release_lock(lock) *)
  (* 12 *) IRetResult;   (* 1084 return res *)
  (* 13 *) IRelease 14;   (* 1082 PyThread_release_lock(lock) with res == NULL *)
  (* 14 *) IRaise FExn   (* 1084 return NULL (res) *)
].

(* facts about the constructors and the locks; false = the source no longer has the expected shape
   (the reason is in the comment): C26/Proofs3.v impl_init_is_init / c_prog_gen_ok need them all true *)
Definition gen_py_cache_init_empty : bool := true.   (* api.py:70 `self._init_once_cache = {}` *)
Definition gen_py_cache_assigned_once : bool := true.   (* no other binding/use of _init_once_cache in src/cffi/*.py *)
Definition gen_py_lock_is_thread_lock : bool := true.   (* api.py `from .lock import allocate_lock`, never rebound; lock.py takes it from _thread *)
Definition gen_c_cache_init_empty : bool := true.   (* ffi_obj.c: init_once_cache is NULL in ffi_internal_new, then PyDict_New() on first use, nothing else touches it *)
Definition gen_c_lock_is_thread_lock : bool := true.   (* ffi_obj.c:1017 lock = PyThread_allocate_lock() (new locks are unlocked), stored in the (False, capsule) tuple *)
Definition gen_c_no_return_while_locked : bool := true.   (* ffi_obj.c:1060-1082 no `return` between PyThread_acquire_lock and PyThread_release_lock *)
