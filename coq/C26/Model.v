(* C26 — ffi.init_once: transition-system model for ANY number of threads.

   The two implementations
     * Python  FFI.init_once          /repo/src/cffi/api.py:724      (regenerated: C26/Gen.v `py_prog`)
     * C       ffi_init_once          /repo/src/c/ffi_obj.c:988      (`c_prog` below; regenerated copy: C26/Gen.v `c_prog_gen`)
   are both expressed as a control-flow graph over ONE instruction set whose instructions are
   the operations on the shared state (the per-FFI cache dict, the per-tag lock, the user
   function f) plus the thread-local tests/returns.  One instruction = one atomic step; a
   thread may be pre-empted between any two instructions (this is at least as fine as the
   GIL release points of the C code — lock wait and the call of f — and as the bytecode
   boundaries of the Python code: every source line performs at most one shared operation).

   Shared state : cache entry  Absent | Pending lock | Done result     (cache[tag])
                  lock owner per lock id, lock allocation counter
   Thread state : pc, local x (the tuple read from the cache), local result, the lock object
                  saved by `with` (the lock that will be released), ghost: did my own f raise,
                  how many times did I start f.
   Environment  : f may return any value or raise (chosen per step: `fout`).

   Errors are explicit: a program that would use an unbound local / a value of the wrong kind
   goes to `Stuck`; a lookup of a missing key is the KeyError edge of IRead. *)
From Coq Require Import Arith List Bool ZArith Lia.
Import ListNotations.

Inductive exn := KeyErr | FExn.
Inductive xval := XNone | XPend (l : nat) | XDone (r : Z).
Inductive cachev := Absent | Pending (l : nat) | Done (r : Z).
Inductive pcv :=
| At (n : nat)            (* about to execute instruction n *)
| InF (n : nat)           (* inside f, called by instruction n *)
| Ret (r : Z)             (* init_once returned r *)
| Raised (e : exn)        (* init_once raised *)
| Stuck.                  (* ill-formed program behaviour (explicit error state) *)
Inductive fout := FRet (r : Z) | FRaise.

Inductive instr :=
| IRead (ok miss : nat)      (* x = cache[tag]           ; missing key -> edge `miss` (x unchanged) *)
| ISetDefault (k : nat)      (* x = cache.setdefault(tag, (False, allocate_lock())) *)
| INewX (k : nat)            (* x = (False, allocate_lock())      a private tuple, not in the cache *)
| ISetDefaultX (assign : bool) (k : nat)
                             (* [x =] cache.setdefault(tag, x)    with or without using the result *)
| IIfDone (yes no : nat)     (* if x[0]: ...  *)
| IAcquire (k : nat)         (* x[1].acquire()  (entry of `with x[1]:`); blocks while held *)
| ICallF (ok ex : nat)       (* result = func()          ; exception -> edge `ex` *)
| IStore (k : nat)           (* cache[tag] = (True, result) *)
| IRelease (k : nat)         (* release of the lock acquired by IAcquire (exit of `with`) *)
| IRetX                      (* return x[1] *)
| IRetResult                 (* return result *)
| IRaise (e : exn).          (* the exception propagates out of init_once *)

Definition prog := list instr.

Record tl := mkTl { pc : pcv; xv : xval; res : option Z; held : option nat;
                    fraised : bool; nstart : nat }.
Record state := mkSt { th : nat -> tl; cache : cachev; owner : nat -> option nat;
                       nextlock : nat; ndone : nat }.

Definition tl0 : tl := mkTl (At 0) XNone None None false 0.
Definition init : state := mkSt (fun _ => tl0) Absent (fun _ => None) 0 0.

(* The state of a tag of a freshly created FFI object, as a function of two facts about the
   implementation's constructor that are REGENERATED from the source into C26/Gen.v:
     created_empty  : the per-FFI cache is created as an empty dict (api.py FFI.__init__
                      `self._init_once_cache = {}` ; ffi_obj.c `init_once_cache = NULL` then PyDict_New()),
                      and nothing else ever assigns it;
     lock_unlocked  : the lock put into a new entry is a fresh, unlocked thread lock
                      (api.py `allocate_lock()` from _thread ; ffi_obj.c PyThread_allocate_lock()).
   If the cache is not created empty, some tag already has an entry that no f produced: modelled
   as `Done 0` with ndone = 0 (for instance a module __dict__ has '__name__': the first call
   returns without running f).  If the lock were created locked, lock 0 has an owner that is no
   caller (`Some 0` with held = None).  Either way the invariant fails in the initial state: the
   theorems about an implementation (C26/Impl.v `ireach`) start from `init_of`, so a false fact
   breaks their base case. *)
Definition init_of (created_empty lock_unlocked : bool) : state :=
  mkSt (fun _ => tl0) (if created_empty then Absent else Done 0%Z)
       (fun l => if lock_unlocked then None else Some 0) 0 0.

Definition setth (s : state) (t : nat) (l : tl) : nat -> tl :=
  fun t' => if Nat.eqb t' t then l else th s t'.
Definition setown (s : state) (l : nat) (v : option nat) : nat -> option nat :=
  fun l' => if Nat.eqb l' l then v else owner s l'.

Definition xof (c : cachev) : xval :=
  match c with Absent => XNone | Pending l => XPend l | Done r => XDone r end.

(* thread-local update, shared state unchanged *)
Definition loc (s : state) (t : nat) (l : tl) : state :=
  mkSt (setth s t l) (cache s) (owner s) (nextlock s) (ndone s).

Definition goto (me : tl) (p : pcv) : tl :=
  mkTl p (xv me) (res me) (held me) (fraised me) (nstart me).

(* One atomic step of thread t.  None = not enabled (finished, or blocked on a held lock). *)
Definition step_fn (p : prog) (s : state) (t : nat) (o : fout) : option state :=
  let me := th s t in
  match pc me with
  | Ret _ | Raised _ | Stuck => None
  | InF n =>
      match nth_error p n with
      | Some (ICallF ok ex) =>
          match o with
          | FRet r =>         (* f completes normally *)
              Some (mkSt (setth s t (mkTl (At ok) (xv me) (Some r) (held me) (fraised me) (nstart me)))
                         (cache s) (owner s) (nextlock s) (S (ndone s)))
          | FRaise =>         (* f raises *)
              Some (loc s t (mkTl (At ex) (xv me) (res me) (held me) true (nstart me)))
          end
      | _ => Some (loc s t (goto me Stuck))
      end
  | At n =>
      match nth_error p n with
      | None => Some (loc s t (goto me Stuck))
      | Some (IRead ok miss) =>
          match cache s with
          | Absent => Some (loc s t (goto me (At miss)))
          | c => Some (loc s t (mkTl (At ok) (xof c) (res me) (held me) (fraised me) (nstart me)))
          end
      | Some (ISetDefault k) =>
          match cache s with
          | Absent =>
              Some (mkSt (setth s t (mkTl (At k) (XPend (nextlock s)) (res me) (held me) (fraised me) (nstart me)))
                         (Pending (nextlock s)) (owner s) (S (nextlock s)) (ndone s))
          | c =>
              Some (mkSt (setth s t (mkTl (At k) (xof c) (res me) (held me) (fraised me) (nstart me)))
                         (cache s) (owner s) (S (nextlock s)) (ndone s))
          end
      | Some (INewX k) =>
          Some (mkSt (setth s t (mkTl (At k) (XPend (nextlock s)) (res me) (held me) (fraised me) (nstart me)))
                     (cache s) (owner s) (S (nextlock s)) (ndone s))
      | Some (ISetDefaultX assign k) =>
          match cache s with
          | Absent =>
              match xv me with
              | XPend l => Some (mkSt (setth s t (goto me (At k))) (Pending l) (owner s) (nextlock s) (ndone s))
              | XDone r => Some (mkSt (setth s t (goto me (At k))) (Done r) (owner s) (nextlock s) (ndone s))
              | XNone => Some (loc s t (goto me Stuck))
              end
          | c =>
              match xv me with
              | XNone => Some (loc s t (goto me Stuck))
              | _ => if assign
                     then Some (loc s t (mkTl (At k) (xof c) (res me) (held me) (fraised me) (nstart me)))
                     else Some (loc s t (goto me (At k)))
              end
          end
      | Some (IIfDone yes no) =>
          match xv me with
          | XDone _ => Some (loc s t (goto me (At yes)))
          | XPend _ => Some (loc s t (goto me (At no)))
          | XNone => Some (loc s t (goto me Stuck))
          end
      | Some (IAcquire k) =>
          match xv me with
          | XPend l =>
              match owner s l with
              | Some _ => None                                   (* blocked *)
              | None =>
                  Some (mkSt (setth s t (mkTl (At k) (xv me) (res me) (Some l) (fraised me) (nstart me)))
                             (cache s) (setown s l (Some t)) (nextlock s) (ndone s))
              end
          | _ => Some (loc s t (goto me Stuck))
          end
      | Some (ICallF ok ex) =>
          Some (loc s t (mkTl (InF n) (xv me) (res me) (held me) (fraised me) (S (nstart me))))
      | Some (IStore k) =>
          match res me with
          | Some r => Some (mkSt (setth s t (goto me (At k))) (Done r) (owner s) (nextlock s) (ndone s))
          | None => Some (loc s t (goto me Stuck))
          end
      | Some (IRelease k) =>
          match held me with
          | Some l =>
              Some (mkSt (setth s t (mkTl (At k) (xv me) (res me) None (fraised me) (nstart me)))
                         (cache s) (setown s l None) (nextlock s) (ndone s))
          | None => Some (loc s t (goto me Stuck))
          end
      | Some IRetX =>
          match xv me with
          | XDone r => Some (loc s t (goto me (Ret r)))
          | _ => Some (loc s t (goto me Stuck))
          end
      | Some IRetResult =>
          match res me with
          | Some r => Some (loc s t (goto me (Ret r)))
          | None => Some (loc s t (goto me Stuck))
          end
      | Some (IRaise e) => Some (loc s t (goto me (Raised e)))
      end
  end.

Definition step (p : prog) (s : state) (t : nat) (s' : state) : Prop :=
  exists o, step_fn p s t o = Some s'.

Inductive reach (p : prog) : state -> Prop :=
| r_init : reach p init
| r_step : forall s t s', reach p s -> step p s t s' -> reach p s'.

(* ---- every tag.  The state above is the state of ONE tag: its cache entry, the locks created for
   it, and for each caller its progress in a call init_once(f, tag).  An FFI object with many tags
   is the product of such states: the only data init_once touches are cache[tag] (a separate dict
   key per tag; the translator driver refuses any other access to the dict, and ffi_obj.c uses
   `tag` as the only key) and the lock found in that entry.  A step of the whole object is a step
   of one tag's component; `t` then names a call on that tag (a thread that calls init_once for
   several tags, also nested from inside an f, is a different caller in each component). *)
Definition mstate := nat -> state.
Definition minit : mstate := fun _ => init.        (* no entry for EVERY tag *)
Definition mupd (S : mstate) (tag : nat) (s : state) : mstate :=
  fun tag' => if Nat.eqb tag' tag then s else S tag'.
Inductive mreach (p : prog) : mstate -> Prop :=
| mr_init : mreach p minit
| mr_step : forall S tag t s', mreach p S -> step p (S tag) t s' -> mreach p (mupd S tag s').

(* ---- observables used by the theorems *)
Definition in_f (s : state) (t : nat) : Prop := exists n, pc (th s t) = InF n.
Definition returned (s : state) (t : nat) (r : Z) : Prop := pc (th s t) = Ret r.
Definition unfinished (s : state) (t : nat) : Prop :=
  match pc (th s t) with At _ | InF _ => True | _ => False end.
Definition own_f_raised (s : state) (t : nat) : Prop := fraised (th s t) = true.
Definition enabled (p : prog) (s : state) (t : nat) : Prop := exists s', step p s t s'.
(* t waits for a lock that t' holds *)
Definition blocked_on (p : prog) (s : state) (t t' : nat) : Prop :=
  exists n k l, pc (th s t) = At n /\ nth_error p n = Some (IAcquire k) /\
                xv (th s t) = XPend l /\ owner s l = Some t'.
Definition is_f_raises_step (p : prog) (s : state) (t : nat) (s' : state) : Prop :=
  (exists n, pc (th s t) = InF n) /\ step_fn p s t FRaise = Some s'.

(* all edges go forward: used for the termination measure *)
Definition succs (i : instr) : list nat :=
  match i with
  | IRead a b | IIfDone a b | ICallF a b => [a; b]
  | ISetDefault k | INewX k | ISetDefaultX _ k | IAcquire k | IStore k | IRelease k => [k]
  | IRetX | IRetResult | IRaise _ => []
  end.
Fixpoint forward_from (n : nat) (p : prog) : bool :=
  match p with
  | [] => true
  | i :: p' => forallb (fun k => Nat.ltb n k) (succs i) && forward_from (S n) p'
  end.
Definition forward (p : prog) : bool := forward_from 0 p.
(* rank of a thread: strictly decreases with each of its own steps *)
Definition rank (p : prog) (c : pcv) : nat :=
  match c with
  | At n => 2 * (length p - n) + 2
  | InF n => 2 * (length p - n) + 1
  | _ => 0
  end.

(* ---- the C implementation, src/c/ffi_obj.c ffi_init_once (line numbers of /repo HEAD 2d93229; the
   same list is regenerated from the source as C26/Gen.v `c_prog_gen`, with the current lines) *)
Definition c_prog : prog := [
  (*  0 *) IRead 2 1;        (* 1013 PyDict_GetItemRef(cache, tag, &tup); tup == NULL -> 1 *)
  (*  1 *) ISetDefault 2;    (* 1017-1034 new lock, tup = cache.setdefault(tag, (False, lock)) *)
  (*  2 *) IIfDone 3 4;      (* 1043 if (PyTuple_GET_ITEM(tup, 0) == Py_True) *)
  (*  3 *) IRetX;            (* 1046 return res *)
  (*  4 *) IAcquire 5;       (* 1059-1061 Py_BEGIN_ALLOW_THREADS PyThread_acquire_lock(lock, WAIT_LOCK) *)
  (*  5 *) IRead 6 9;        (* 1063 x = PyDict_GetItem(cache, tag); x == NULL -> else branch *)
  (*  6 *) IIfDone 7 9;      (* 1064 x != NULL && PyTuple_GET_ITEM(x, 0) == Py_True *)
  (*  7 *) IRelease 8;       (* 1082 PyThread_release_lock(lock) on the path res = x[1] *)
  (*  8 *) IRetX;            (* 1084 return res *)
  (*  9 *) ICallF 10 13;     (* 1071 res = PyObject_CallFunction(func, "") *)
  (* 10 *) IStore 11;        (* 1073-1074 PyDict_SetItem(cache, tag, (True, res)) *)
  (* 11 *) IRelease 12;      (* 1082 PyThread_release_lock(lock) *)
  (* 12 *) IRetResult;       (* 1084 return res *)
  (* 13 *) IRelease 14;      (* 1082 PyThread_release_lock(lock) with res == NULL *)
  (* 14 *) IRaise FExn       (* 1084 return NULL *)
].

(* ---- executable runner for the correspondence harness.
   The harness observes only the shared operations (read, setdefault, acquire, call f, f's
   outcome, store, release); the thread-local instructions that follow one (tests, returns)
   commute with every other thread's steps and are executed eagerly. *)
Definition is_local (i : instr) : bool :=
  match i with IIfDone _ _ | IRetX | IRetResult | IRaise _ | INewX _ => true | _ => false end.

Fixpoint local_closure (p : prog) (fuel : nat) (s : state) (t : nat) : state :=
  match fuel with
  | O => s
  | S f =>
      match pc (th s t) with
      | At n =>
          match nth_error p n with
          | Some i => if is_local i
                      then match step_fn p s t FRaise with
                           | Some s' => local_closure p f s' t
                           | None => s
                           end
                      else s
          | None => s
          end
      | _ => s
      end
  end.

Definition vstep (p : prog) (s : state) (t : nat) (o : fout) : option state :=
  match step_fn p s t o with
  | Some s' => Some (local_closure p (length p) s' t)
  | None => None
  end.

Definition kind_code (p : prog) (s : state) (t : nat) (o : fout) : Z :=
  match pc (th s t) with
  | InF _ => match o with FRet _ => 5 | FRaise => 6 end
  | At n => match nth_error p n with
            | Some (IRead _ _) => 1 | Some (ISetDefault _) | Some (ISetDefaultX _ _) => 2 | Some (IAcquire _) => 3
            | Some (ICallF _ _) => 4 | Some (IStore _) => 7 | Some (IRelease _) => 8
            | _ => 99
            end
  | _ => 98
  end%Z.

Definition cache_code (c : cachev) : list Z :=
  match c with Absent => [0] | Pending _ => [1] | Done r => [2; r] end%Z.

Definition outcome_code (c : pcv) : list Z :=
  match c with
  | At _ | InF _ => [0]
  | Ret r => [1; r]
  | Raised KeyErr => [2]
  | Raised FExn => [3]
  | Stuck => [4]
  end%Z.

(* trace: per visible step  [tid; kind; cache-after...]; then per thread < n its outcome and
   the number of times it started f; then the final cache and the number of normal completions *)
Fixpoint run_steps (p : prog) (s : state) (sch : list (nat * fout)) (acc : list Z) : option (state * list Z) :=
  match sch with
  | [] => Some (s, acc)
  | (t, o) :: rest =>
      match vstep p s t o with
      | None => None
      | Some s' => run_steps p s' rest (acc ++ [Z.of_nat t; kind_code p s t o] ++ cache_code (cache s'))
      end
  end.

Definition finals (s : state) (n : nat) : list Z :=
  flat_map (fun t => outcome_code (pc (th s t)) ++ [Z.of_nat (nstart (th s t))]) (seq 0 n)
  ++ cache_code (cache s) ++ [Z.of_nat (ndone s)].

Definition run (p : prog) (n : nat) (sch : list (nat * fout)) : option (list Z) :=
  match run_steps p init sch [] with
  | Some (s, tr) => Some (tr ++ finals s n)
  | None => None
  end.

(* maximal = no thread < n can make a visible step any more *)
Definition any_enabled (p : prog) (s : state) (n : nat) : bool :=
  existsb (fun t => match vstep p s t FRaise with Some _ => true | None => false end) (seq 0 n).

Definition run_maximal (p : prog) (n : nat) (sch : list (nat * fout)) : option (list Z) :=
  match run_steps p init sch [] with
  | Some (s, tr) => if any_enabled p s n then None else Some (tr ++ finals s n)
  | None => None
  end.

(* coarse observation, for the C implementation: its dict operations are indistinguishable from
   outside (kind 1), its lock operations are not observable (no label), the cache is only
   observable at the end, by behaviour (a later call returns the cached value or runs f) *)
Definition coarse_label (t : nat) (k : Z) : list Z :=
  (if (k =? 3) || (k =? 8) then [] else [Z.of_nat t; if (k =? 2) || (k =? 7) then 1 else k])%Z.

Fixpoint run_steps_coarse (p : prog) (s : state) (sch : list (nat * fout)) (acc : list Z) : option (state * list Z) :=
  match sch with
  | [] => Some (s, acc)
  | (t, o) :: rest =>
      match vstep p s t o with
      | None => None
      | Some s' => run_steps_coarse p s' rest (acc ++ coarse_label t (kind_code p s t o))
      end
  end.

Definition finals_coarse (s : state) (n : nat) : list Z :=
  flat_map (fun t => outcome_code (pc (th s t)) ++ [Z.of_nat (nstart (th s t))]) (seq 0 n)
  ++ (match cache s with Done r => [2; r] | _ => [1] end)%Z ++ [Z.of_nat (ndone s)].

Definition run_coarse_maximal (p : prog) (n : nat) (sch : list (nat * fout)) : option (list Z) :=
  match run_steps_coarse p init sch [] with
  | Some (s, tr) => if any_enabled p s n then None else Some (tr ++ finals_coarse s n)
  | None => None
  end.

(* compact case encoding for the harness (parsing long list literals and big numerals is what
   costs time in Coq): a schedule is a list of chunks of at most 12 steps, a chunk being one number
   with a leading 1 and one base-32 digit per step, digit = 3 * tid + o with o = 0 no outcome /
   1 f returns 100 + tid / 2 f raises; an observation list (entries in [0, 1024)) is cut into
   chunks of 5 entries, each one number in base 1024 with a leading 1. *)
Fixpoint decode_chunk (fuel : nat) (code : N) : list (nat * fout) :=
  match fuel with
  | O => []
  | S f =>
      if (code <=? 1)%N then [] else
      let d := N.to_nat (N.modulo code 32) in
      let t := Nat.div d 3 in
      (t, match Nat.modulo d 3 with 1 => FRet (100 + Z.of_nat t) | _ => FRaise end)
        :: decode_chunk f (N.div code 32)
  end.
Definition decode_sched (chunks : list N) : list (nat * fout) := flat_map (decode_chunk 12) chunks.

(* Observations are compared through two polynomial fingerprints computed here, inside Coq, on the
   model's observation list (the harness computes the same two numbers from what the implementation
   did): literals are what costs time in coqc, and a full list per case is ~80 numerals.  A
   disagreement is re-evaluated in full by the harness (run_maximal printed). *)
Definition fp (m b : N) (l : list Z) : N :=
  fold_left (fun acc z => ((acc * b + Z.to_N z + 1) mod m)%N) l 7%N.

Definition run_code (coarse : bool) (p : prog) (x : nat * list N) : option (N * N) :=
  let '(n, chunks) := x in
  match (if coarse then run_coarse_maximal p n (decode_sched chunks)
         else run_maximal p n (decode_sched chunks)) with
  | Some l => Some (fp 2305843009213693951 1000003 l, fp 2147483647 48271 l)
  | None => None
  end.

(* number of maximal visible schedules of n threads where each f returns `rv t` or raises;
   the harness must have replayed exactly this many distinct ones *)
Fixpoint count_max (p : prog) (n : nat) (rv : nat -> Z) (fuel : nat) (s : state) : N :=
  match fuel with
  | O => 0%N
  | S f =>
      if any_enabled p s n then
        fold_left (fun acc t =>
          match pc (th s t) with
          | InF _ =>
              (acc + (match vstep p s t (FRet (rv t)) with Some s' => count_max p n rv f s' | None => 0 end)
                   + (match vstep p s t FRaise with Some s' => count_max p n rv f s' | None => 0 end))%N
          | _ => (acc + match vstep p s t FRaise with Some s' => count_max p n rv f s' | None => 0 end)%N
          end) (seq 0 n) 0%N
      else 1%N
  end.
