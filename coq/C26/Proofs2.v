(* C26 — termination without a fairness hypothesis.
   For n callers (threads 0..n-1), the sum of the ranks of their program counters strictly decreases
   with EVERY step of any of them, so every run has at most n * (2 * length p + 2) steps, whatever
   the schedule; and a state in which none of the n callers can step (a maximal run's last state)
   has all n calls finished.  The only step that is not the implementation's own is "f returns or
   raises" (the InF step): a call that waits, waits for a caller that is enabled. *)
From Coq Require Import Arith List Bool ZArith Lia.
Import ListNotations.
From Cffi Require Import C26.Model C26.Gen C26.Proofs.

(* steps by threads < n only *)
Inductive reachN (p : prog) (n : nat) : state -> Prop :=
| rn_init : reachN p n init
| rn_step : forall s t s', reachN p n s -> t < n -> step p s t s' -> reachN p n s'.

(* a run of exactly k steps of threads < n *)
Inductive stepsN (p : prog) (n : nat) : state -> nat -> state -> Prop :=
| sn_nil : forall s, stepsN p n s 0 s
| sn_cons : forall s t s' k s'', t < n -> step p s t s' -> stepsN p n s' k s'' -> stepsN p n s (S k) s''.

Fixpoint total_rank (p : prog) (n : nat) (s : state) : nat :=
  match n with
  | O => 0
  | S k => total_rank p k s + rank p (pc (th s k))
  end.

Lemma reachN_reach p n s : reachN p n s -> reach p s.
Proof. induction 1; [constructor | eapply r_step; eauto]. Qed.

Lemma stepsN_reachN p n : forall s k s', stepsN p n s k s' -> reachN p n s -> reachN p n s'.
Proof. induction 1; intros; auto. apply IHstepsN. eapply rn_step; eauto. Qed.

Lemma total_rank_ext p n s s' :
  (forall t, t < n -> th s' t = th s t) -> total_rank p n s' = total_rank p n s.
Proof.
  induction n as [|k IH]; intros H; cbn; auto.
  rewrite IH by (intros; apply H; lia). rewrite H by lia. reflexivity.
Qed.

Lemma total_rank_decreases_fwd p n s t s' :
  forward p = true -> t < n -> step p s t s' -> total_rank p n s' < total_rank p n s.
Proof.
  intros Hf. induction n as [|k IH]; intros Hlt Hs; [lia|]. cbn.
  destruct (Nat.eq_dec t k) as [->|Hne].
  - rewrite (total_rank_ext p k s s').
    + pose proof (rank_decreases p s k s' Hf Hs). lia.
    + intros t0 H0. eapply step_frame; eauto. lia.
  - assert (Hk : t < k) by lia. specialize (IH Hk Hs).
    rewrite (step_frame p s t s' k Hs) by lia. lia.
Qed.

Lemma modelled_forward p : modelled p -> forward p = true.
Proof. intros [->| ->]; [apply forward_py | apply forward_c]. Qed.

Lemma total_rank_decreases p n s t s' :
  modelled p -> t < n -> step p s t s' -> total_rank p n s' < total_rank p n s.
Proof. intros Hp. apply total_rank_decreases_fwd. apply modelled_forward; auto. Qed.

Lemma total_rank_init p n : total_rank p n init = n * (2 * length p + 2).
Proof. induction n as [|k IH]; cbn [total_rank]; [reflexivity|]. rewrite IH. cbn [init th tl0 pc rank]. lia. Qed.

Lemma stepsN_rank p n : modelled p -> forall s k s', stepsN p n s k s' ->
  k + total_rank p n s' <= total_rank p n s.
Proof.
  intros Hp. induction 1; [lia|].
  pose proof (total_rank_decreases p n s t s' Hp H H0). lia.
Qed.

Lemma runs_bounded p n k s : modelled p -> stepsN p n init k s -> k <= n * (2 * length p + 2).
Proof.
  intros Hp H. pose proof (stepsN_rank p n Hp _ _ _ H) as L. rewrite total_rank_init in L. lia.
Qed.

(* threads >= n have not moved *)
Lemma reachN_idle p n s : reachN p n s -> forall t, n <= t -> th s t = tl0.
Proof.
  induction 1; intros t0 Hle; [reflexivity|].
  rewrite (step_frame p s t s' t0 H1) by lia. auto.
Qed.

Lemma quiescent_all_finished p n s :
  modelled p -> reachN p n s -> (forall t, t < n -> ~ enabled p s t) ->
  forall t, t < n -> ~ unfinished s t.
Proof.
  intros Hp Hr Hq t Hlt Hu.
  pose proof (reach_inv p s Hp (reachN_reach _ _ _ Hr)) as HI.
  destruct (progress p s t Hp HI Hu) as [He|(t' & _ & Hb & He)].
  - exact (Hq t Hlt He).
  - destruct Hb as (k & k' & l & _ & _ & _ & Ho).
    destruct (iG2 _ HI _ _ Ho) as [_ Hh].
    destruct (le_lt_dec n t') as [Hge|Hlt'].
    + rewrite (reachN_idle p n s Hr t' Hge) in Hh. discriminate.
    + exact (Hq t' Hlt' He).
Qed.

(* a finished call returned the cached result or re-raised its own f's exception *)
Lemma finished_outcome p s t : modelled p -> reach p s -> ~ unfinished s t ->
  (exists r, returned s t r /\ cache s = Done r) \/ (pc (th s t) = Raised FExn /\ own_f_raised s t).
Proof.
  intros Hp Hr Hu. pose proof (reach_inv p s Hp Hr) as HI.
  unfold unfinished in Hu. destruct (pc (th s t)) as [k|k|r|e|] eqn:E; try (exfalso; apply Hu; exact I).
  - left. exists r. split; [exact E|]. eapply returned_cache; eauto.
  - right. destruct (raised_own s t e HI E) as [-> H]. auto.
  - exfalso. eapply never_stuck; eauto.
Qed.

Lemma maximal_run_all_finished p n k s :
  modelled p -> stepsN p n init k s -> (forall t, t < n -> ~ enabled p s t) ->
  k <= n * (2 * length p + 2) /\
  forall t, t < n ->
    (exists r, returned s t r /\ cache s = Done r) \/ (pc (th s t) = Raised FExn /\ own_f_raised s t).
Proof.
  intros Hp Hs Hq. split; [eapply runs_bounded; eauto|].
  intros t Hlt. assert (Hr : reachN p n s) by (eapply stepsN_reachN; eauto; constructor).
  apply (finished_outcome p s t Hp (reachN_reach _ _ _ Hr)).
  eapply quiescent_all_finished; eauto.
Qed.

(* every reachable state is reachN for some n (so nothing is lost by bounding the callers) *)
Lemma reachN_mono p n m s : n <= m -> reachN p n s -> reachN p m s.
Proof. intros L H; induction H; [constructor|]. eapply rn_step; eauto. lia. Qed.

Lemma reach_reachN p s : reach p s -> exists n, reachN p n s.
Proof.
  induction 1 as [|s t s' _ [n IH] Hs].
  - exists 0. constructor.
  - exists (S (max n t)). apply (rn_step p _ s t s'); [|lia|exact Hs]. eapply reachN_mono; [|exact IH]. lia.
Qed.
