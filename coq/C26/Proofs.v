(* C26 — proofs: inductive invariant of the init_once transition system, for any number of
   threads and any schedule, for the regenerated Python program and the hand-modelled C one. *)
From Coq Require Import Arith List Bool ZArith Lia.
Import ListNotations.
From Cffi Require Import C26.Model C26.Gen.

(* what thread-local state looks like at each program point, given the cache entry *)
Definition xgood (c : cachev) (x : xval) : Prop :=
  match x with
  | XNone => False
  | XPend l => l = 0 /\ c <> Absent
  | XDone r => c = Done r
  end.

Definition pcinv (c : cachev) (me : tl) : Prop :=
  match pc me with
  | At 0 => xv me = XNone /\ held me = None /\ fraised me = false /\ res me = None
  | At 1 => held me = None /\ fraised me = false /\ res me = None
  | At 2 => held me = None /\ fraised me = false /\ xgood c (xv me)
  | At 3 => held me = None /\ fraised me = false /\ exists r, xv me = XDone r /\ c = Done r
  | At 4 => held me = None /\ fraised me = false /\ xv me = XPend 0 /\ c <> Absent
  | At 5 => held me = Some 0 /\ fraised me = false /\ c <> Absent
  | At 6 => held me = Some 0 /\ fraised me = false /\ xv me = xof c /\ c <> Absent
  | At 7 => held me = Some 0 /\ fraised me = false /\ exists r, xv me = XDone r /\ c = Done r
  | At 8 => held me = None /\ fraised me = false /\ exists r, xv me = XDone r /\ c = Done r
  | At 9 => held me = Some 0 /\ fraised me = false /\ c = Pending 0
  | InF 9 => held me = Some 0 /\ fraised me = false /\ c = Pending 0
  | At 10 => held me = Some 0 /\ fraised me = false /\ c = Pending 0 /\ exists r, res me = Some r
  | At 11 => held me = Some 0 /\ fraised me = false /\ exists r, res me = Some r /\ c = Done r
  | At 12 => held me = None /\ fraised me = false /\ exists r, res me = Some r /\ c = Done r
  | At 13 => held me = Some 0 /\ fraised me = true
  | At 14 => held me = None /\ fraised me = true
  | Ret r => held me = None /\ fraised me = false /\ c = Done r
  | Raised e => held me = None /\ fraised me = true /\ e = FExn
  | _ => False
  end.

Definition dn (c : cachev) : nat := match c with Done _ => 1 | _ => 0 end.
(* the lock holder has a result of f that is not stored yet *)
Definition pend10 (s : state) : nat :=
  match owner s 0 with
  | Some t' => match pc (th s t') with At 10 => 1 | _ => 0 end
  | None => 0
  end.

Record Inv (s : state) : Prop := mkInv {
  iG1 : forall t, held (th s t) = Some 0 -> owner s 0 = Some t;
  iG2 : forall l t, owner s l = Some t -> l = 0 /\ held (th s t) = Some 0;
  iG3 : match cache s with Absent => nextlock s = 0 | Pending l => l = 0 | Done _ => True end;
  iG5 : ndone s = dn (cache s) + pend10 s;
  iHP : forall t, pcinv (cache s) (th s t) }.

Lemma inv_init : Inv init.
Proof.
  constructor; cbn; intros; try discriminate; auto.
Qed.

(* ---- every thread's facts survive the two ways another thread can change the cache *)
Ltac pc_cases me :=
  let c := fresh "c" in let n := fresh "n" in
  destruct (pc me) as [n|n| | |] eqn:?; [do 17 (try destruct n as [|n]) | do 10 (try destruct n as [|n]) | | | ].

Lemma pcinv_setdefault : forall me, pcinv Absent me -> pcinv (Pending 0) me.
Proof.
  intros me H. unfold pcinv in *. pc_cases me; cbn in *;
  repeat match goal with
         | H : _ /\ _ |- _ => destruct H
         | H : exists _, _ |- _ => destruct H
         end; try congruence; try contradiction; repeat split; try congruence; auto.
  destruct (xv me); cbn in *; intuition congruence.
Qed.

Lemma pcinv_store : forall me r, pcinv (Pending 0) me -> held me = None -> pcinv (Done r) me.
Proof.
  intros me r H Hh. unfold pcinv in *. pc_cases me; cbn in *;
  repeat match goal with
         | H : _ /\ _ |- _ => destruct H
         | H : exists _, _ |- _ => destruct H
         end; try congruence; try contradiction; repeat split; try congruence; auto.
  destruct (xv me); cbn in *; intuition congruence.
Qed.

(* ---- the seven ways a step changes the state, each preserving the invariant *)
Ltac split_setth t0 t :=
  unfold setth in *; cbn [th cache owner nextlock ndone] in *;
  destruct (Nat.eq_dec t0 t) as [?|?]; [subst t0; rewrite ?Nat.eqb_refl in *|rewrite ?(proj2 (Nat.eqb_neq t0 t)) in * by assumption].

Lemma pend10_other s t me' c nl nd :
  (forall t', owner s 0 = Some t' -> t' <> t) ->
  pend10 (mkSt (setth s t me') c (owner s) nl nd) = pend10 s.
Proof.
  intros H. unfold pend10; cbn. destruct (owner s 0) as [t'|] eqn:E; auto.
  unfold setth. destruct (Nat.eqb_spec t' t); auto. subst. exfalso; eapply H; eauto.
Qed.

Lemma pend10_self s t me' c nl nd :
  owner s 0 = Some t -> pc (th s t) <> At 10 -> pc me' <> At 10 ->
  pend10 (mkSt (setth s t me') c (owner s) nl nd) = pend10 s.
Proof.
  intros H H1 H2. unfold pend10; cbn. rewrite H. unfold setth. rewrite Nat.eqb_refl.
  destruct (pc me') as [[|[|[|[|[|[|[|[|[|[|[|?]]]]]]]]]]]| | | |]; try congruence;
  destruct (pc (th s t)) as [[|[|[|[|[|[|[|[|[|[|[|?]]]]]]]]]]]| | | |]; congruence.
Qed.

Lemma pend10_keep s t me' c nl nd :
  pc (th s t) <> At 10 -> pc me' <> At 10 ->
  pend10 (mkSt (setth s t me') c (owner s) nl nd) = pend10 s.
Proof.
  intros H1 H2. destruct (owner s 0) as [t'|] eqn:E.
  - destruct (Nat.eq_dec t' t) as [->|].
    + apply pend10_self; auto.
    + apply pend10_other. intros t'' E'. congruence.
  - unfold pend10; cbn. rewrite E. reflexivity.
Qed.

(* (a) thread-local step *)
Lemma inv_loc s t me' :
  Inv s -> held me' = held (th s t) -> pcinv (cache s) me' ->
  pc (th s t) <> At 10 -> pc me' <> At 10 -> Inv (loc s t me').
Proof.
  intros [G1 G2 G3 G5 HP] Hh Hp N1 N2. unfold loc. constructor; cbn [th cache owner nextlock ndone].
  - intros t0 H. split_setth t0 t; auto. apply G1; congruence.
  - intros l t0 H. destruct (G2 _ _ H). split; auto. split_setth t0 t; auto. congruence.
  - exact G3.
  - rewrite pend10_keep; auto.
  - intros t0. split_setth t0 t; auto.
Qed.

(* (b) setdefault on an absent key *)
Lemma inv_setdefault_absent s t me' :
  Inv s -> cache s = Absent -> held me' = held (th s t) -> pcinv (Pending 0) me' ->
  pc (th s t) <> At 10 -> pc me' <> At 10 ->
  Inv (mkSt (setth s t me') (Pending (nextlock s)) (owner s) (S (nextlock s)) (ndone s)).
Proof.
  intros [G1 G2 G3 G5 HP] Hc Hh Hp N1 N2. rewrite Hc in *. rewrite G3.
  constructor; cbn [th cache owner nextlock ndone].
  - intros t0 H. split_setth t0 t; auto. apply G1; congruence.
  - intros l t0 H. destruct (G2 _ _ H). split; auto. split_setth t0 t; auto. congruence.
  - reflexivity.
  - rewrite pend10_keep; auto.
  - intros t0. split_setth t0 t; auto. apply pcinv_setdefault, HP.
Qed.

(* (c) setdefault on a present key: only the allocation counter moves *)
Lemma inv_setdefault_present s t me' c :
  Inv s -> cache s = c -> c <> Absent -> held me' = held (th s t) -> pcinv c me' ->
  pc (th s t) <> At 10 -> pc me' <> At 10 ->
  Inv (mkSt (setth s t me') c (owner s) (S (nextlock s)) (ndone s)).
Proof.
  intros [G1 G2 G3 G5 HP] <- Hc Hh Hp N1 N2.
  constructor; cbn [th cache owner nextlock ndone].
  - intros t0 H. split_setth t0 t; auto. apply G1; congruence.
  - intros l t0 H. destruct (G2 _ _ H). split; auto. split_setth t0 t; auto. congruence.
  - destruct (cache s); auto. congruence.
  - rewrite pend10_keep; auto.
  - intros t0. split_setth t0 t; auto.
Qed.

(* (d) acquire of the free lock 0 *)
Lemma inv_acquire s t me' c :
  Inv s -> cache s = c -> owner s 0 = None -> held me' = Some 0 -> pcinv c me' -> pc me' <> At 10 ->
  Inv (mkSt (setth s t me') c (setown s 0 (Some t)) (nextlock s) (ndone s)).
Proof.
  intros [G1 G2 G3 G5 HP] <- Ho Hh Hp N2.
  constructor; cbn [th cache owner nextlock ndone].
  - intros t0 H. unfold setown; cbn. split_setth t0 t; auto. apply G1 in H. congruence.
  - intros l t0. unfold setown. destruct (Nat.eqb_spec l 0) as [->|].
    + intros H; inversion H; subst. split; auto. unfold setth. rewrite Nat.eqb_refl. auto.
    + intros H. destruct (G2 _ _ H). contradiction.
  - exact G3.
  - rewrite G5. f_equal. unfold pend10; cbn. unfold setown, setth; cbn. rewrite Ho. rewrite Nat.eqb_refl.
    destruct (pc me') as [[|[|[|[|[|[|[|[|[|[|[|?]]]]]]]]]]]| | | |]; congruence.
  - intros t0. split_setth t0 t; auto.
Qed.

(* (e) release of lock 0 by its holder *)
Lemma inv_release s t me' c :
  Inv s -> cache s = c -> held (th s t) = Some 0 -> held me' = None -> pcinv c me' ->
  pc (th s t) <> At 10 ->
  Inv (mkSt (setth s t me') c (setown s 0 None) (nextlock s) (ndone s)).
Proof.
  intros [G1 G2 G3 G5 HP] <- Hh Hn Hp N1. pose proof (G1 _ Hh) as Ho.
  constructor; cbn [th cache owner nextlock ndone].
  - intros t0 H. unfold setown; cbn. split_setth t0 t; try congruence. apply G1 in H. congruence.
  - intros l t0. unfold setown. destruct (Nat.eqb_spec l 0) as [->|]; try discriminate.
    intros H. destruct (G2 _ _ H). contradiction.
  - exact G3.
  - rewrite G5. f_equal. unfold pend10; cbn. unfold setown; cbn. rewrite Ho.
    destruct (pc (th s t)) as [[|[|[|[|[|[|[|[|[|[|[|?]]]]]]]]]]]| | | |]; congruence.
  - intros t0. split_setth t0 t; auto.
Qed.

(* (f) f returns normally to the lock holder *)
Lemma inv_fret s t me' c :
  Inv s -> cache s = c -> pc (th s t) = InF 9 -> pc me' = At 10 -> held me' = held (th s t) -> pcinv c me' ->
  Inv (mkSt (setth s t me') c (owner s) (nextlock s) (S (ndone s))).
Proof.
  intros [G1 G2 G3 G5 HP] <- Hpc Hpc' Hh Hp.
  pose proof (HP t) as Ht. unfold pcinv in Ht. rewrite Hpc in Ht. destruct Ht as (Hheld & _ & Hc).
  pose proof (G1 _ Hheld) as Ho.
  constructor; cbn [th cache owner nextlock ndone].
  - intros t0 H. split_setth t0 t; auto.
  - intros l t0 H. destruct (G2 _ _ H). split; auto. split_setth t0 t; auto. congruence.
  - exact G3.
  - rewrite G5. unfold pend10; cbn. rewrite Ho. unfold setth. rewrite Nat.eqb_refl. rewrite Hpc, Hpc'. lia.
  - intros t0. split_setth t0 t; auto.
Qed.

(* (g) the lock holder stores the result *)
Lemma inv_store s t me' r :
  Inv s -> pc (th s t) = At 10 -> pc me' = At 11 -> held me' = held (th s t) -> pcinv (Done r) me' ->
  Inv (mkSt (setth s t me') (Done r) (owner s) (nextlock s) (ndone s)).
Proof.
  intros [G1 G2 G3 G5 HP] Hpc Hpc' Hh Hp.
  pose proof (HP t) as Ht. unfold pcinv in Ht. rewrite Hpc in Ht. destruct Ht as (Hheld & _ & Hc & _).
  pose proof (G1 _ Hheld) as Ho.
  constructor; cbn [th cache owner nextlock ndone].
  - intros t0 H. split_setth t0 t; auto.
  - intros l t0 H. destruct (G2 _ _ H). split; auto. split_setth t0 t; auto. congruence.
  - exact I.
  - rewrite G5. unfold pend10; cbn. rewrite Ho. unfold setth. rewrite Nat.eqb_refl. rewrite Hpc, Hpc', Hc. reflexivity.
  - intros t0. split_setth t0 t; auto. rewrite Hc in *. apply pcinv_store; auto.
    destruct (held (th s t0)) as [l|] eqn:E; auto.
    pose proof (HP t0) as H0. assert (l = 0).
    { unfold pcinv in H0. destruct (pc (th s t0)) as [k|k| | |];
        [do 17 (try destruct k as [|k]) | do 10 (try destruct k as [|k]) | | | ]; cbn in H0; intuition congruence. }
    subst. apply G1 in E. congruence.
Qed.

(* ---- the invariant is inductive, for both programs *)
Ltac destr_ex :=
  repeat match goal with
         | H : _ /\ _ |- _ => destruct H
         | H : exists _, _ |- _ => destruct H
         end.

(* two equations for the same term: unify their right-hand sides *)
Ltac norm :=
  repeat match goal with
         | H : Some _ = Some _ |- _ => inversion H; subst; clear H
         | H : XPend _ = XPend _ |- _ => inversion H; subst; clear H
         | H : XDone _ = XDone _ |- _ => inversion H; subst; clear H
         | H : Some _ = None |- _ => discriminate H
         | H : None = Some _ |- _ => discriminate H
         | H : XNone = _ |- _ => discriminate H
         | H : XPend _ = XDone _ |- _ => discriminate H
         | H : XDone _ = XPend _ |- _ => discriminate H
         | H1 : ?a = ?b, H2 : ?a = ?c |- _ =>
             assert_fails (constr_eq b c); rewrite H1 in H2;
             first [discriminate H2 | inversion H2; subst; clear H2]
         end.

Ltac side :=
  cbn [pc xv res held fraised nstart goto xof] in *; unfold pcinv, xgood in *;
  cbn [pc xv res held fraised nstart goto xof] in *; destr_ex; subst;
  repeat match goal with H : cache _ = _ |- _ => rewrite H in * end;
  cbn [xof] in *;
  try congruence; try discriminate;
  repeat split; eauto; try congruence; try discriminate.

Ltac effect :=
  first [ apply inv_loc; [assumption|side..]
        | apply inv_setdefault_absent; [assumption|side..]
        | eapply inv_setdefault_present; [eassumption|side..]
        | eapply inv_acquire; [eassumption|side..]
        | eapply inv_release; [eassumption|side..]
        | eapply inv_fret; [eassumption|side..]
        | apply inv_store; [assumption|side..] ].

Ltac inv_step_tac prog :=
  let HI := fresh "HI" in let Hs := fresh "Hs" in let Ht := fresh "Ht" in let G3 := fresh "G3" in
  let o := fresh "o" in let n := fresh "n" in
  intros HI [o Hs]; 
  match type of HI with Inv ?s =>
  match type of Hs with step_fn _ _ ?t _ = _ =>
    pose proof (iHP _ HI t) as Ht; pose proof (iG3 _ HI) as G3;
    unfold step_fn in Hs; unfold pcinv in Ht;
    destruct (pc (th s t)) as [n|n| | |] eqn:?; try discriminate;
    [do 17 (try destruct n as [|n]) | do 10 (try destruct n as [|n])];
    cbn [nth_error prog] in Hs; try contradiction; destr_ex;
    repeat match type of Hs with
           | match ?x with _ => _ end = Some _ => destruct x eqn:?
           end;
    try discriminate; inversion Hs; subst; clear Hs; norm;
    try match goal with H : _ = xof (cache ?s) |- _ => destruct (cache s) eqn:?; cbn [xof] in H; norm end
  end end.

Lemma inv_step_py s t s' : Inv s -> step py_prog s t s' -> Inv s'.
Proof.
  inv_step_tac py_prog.
  all: effect.
Qed.

Lemma inv_step_c s t s' : Inv s -> step c_prog s t s' -> Inv s'.
Proof.
  inv_step_tac c_prog.
  all: effect.
Qed.

Definition modelled (p : prog) : Prop := p = py_prog \/ p = c_prog.

Lemma inv_step p s t s' : modelled p -> Inv s -> step p s t s' -> Inv s'.
Proof. intros [->| ->]; [apply inv_step_py | apply inv_step_c]. Qed.

Lemma reach_inv p s : modelled p -> reach p s -> Inv s.
Proof.
  intros Hp H; induction H.
  - apply inv_init.
  - eapply inv_step; eauto.
Qed.

(* ---- consequences of the invariant *)
Lemma inf_facts s t n : Inv s -> pc (th s t) = InF n ->
  n = 9 /\ held (th s t) = Some 0 /\ cache s = Pending 0 /\ owner s 0 = Some t.
Proof.
  intros HI E. pose proof (iHP _ HI t) as H. unfold pcinv in H. rewrite E in H.
  do 10 (try destruct n as [|n]); try contradiction. destr_ex. repeat split; auto.
  apply (iG1 _ HI); auto.
Qed.

Lemma mutual_exclusion s t1 t2 : Inv s -> in_f s t1 -> in_f s t2 -> t1 = t2.
Proof.
  intros HI [n1 E1] [n2 E2].
  destruct (inf_facts _ _ _ HI E1) as (_ & _ & _ & O1).
  destruct (inf_facts _ _ _ HI E2) as (_ & _ & _ & O2). congruence.
Qed.

Lemma ndone_le_1 s : Inv s -> ndone s <= 1.
Proof.
  intros HI. rewrite (iG5 _ HI). unfold pend10.
  destruct (owner s 0) as [t'|] eqn:E; [|destruct (cache s); cbn; lia].
  pose proof (iHP _ HI t') as H. unfold pcinv in H.
  destruct (pc (th s t')) as [n|n| | |]; try (destruct (cache s); cbn; lia).
  do 11 (try destruct n as [|n]); try (destruct (cache s); cbn; lia).
  destr_ex. rewrite H1. cbn. lia.
Qed.

Lemma ndone_cache s : Inv s -> (ndone s = 1 <-> (exists r, cache s = Done r) \/
                                 exists t, pc (th s t) = At 10) .
Proof.
  intros HI. rewrite (iG5 _ HI). unfold pend10. split.
  - intros H. destruct (cache s) eqn:Ec; eauto; cbn in H;
    (destruct (owner s 0) as [t'|]; [|discriminate]; right; exists t';
     destruct (pc (th s t')) as [n|n| | |]; try discriminate;
     do 11 (try destruct n as [|n]); try discriminate; reflexivity).
  - intros [[r Ec]|[t Et]].
    + pose proof (ndone_le_1 _ HI) as L. rewrite (iG5 _ HI) in L. unfold pend10 in L. rewrite Ec in *. cbn in *. lia.
    + pose proof (iHP _ HI t) as H. unfold pcinv in H. rewrite Et in H. destr_ex.
      rewrite (iG1 _ HI _ H), Et, H1. reflexivity.
Qed.

Lemma returned_cache s t r : Inv s -> returned s t r -> cache s = Done r.
Proof. intros HI E. pose proof (iHP _ HI t) as H. unfold pcinv, returned in *. rewrite E in H. tauto. Qed.

Lemma done_no_f s r : Inv s -> cache s = Done r -> forall t, ~ in_f s t.
Proof. intros HI Ec t [n E]. destruct (inf_facts _ _ _ HI E) as (_ & _ & C & _). congruence. Qed.

Lemma raised_own s t e : Inv s -> pc (th s t) = Raised e -> e = FExn /\ own_f_raised s t.
Proof. intros HI E. pose proof (iHP _ HI t) as H. unfold pcinv, own_f_raised in *. rewrite E in H. tauto. Qed.

Lemma never_stuck s t : Inv s -> pc (th s t) <> Stuck.
Proof. intros HI E. pose proof (iHP _ HI t) as H. unfold pcinv in H. rewrite E in H. exact H. Qed.

Lemma returned_not_raised s t r : Inv s -> returned s t r -> fraised (th s t) = false.
Proof. intros HI E. pose proof (iHP _ HI t) as H. unfold pcinv, returned in *. rewrite E in H. tauto. Qed.

(* ---- a step of t touches only t's local state *)
Lemma step_frame p s t s' t0 : step p s t s' -> t0 <> t -> th s' t0 = th s t0.
Proof.
  intros [o H] Hne. unfold step_fn in H.
  repeat match type of H with
         | match ?x with _ => _ end = Some _ => destruct x
         end; try discriminate; inversion H; subst; cbn; unfold setth;
  rewrite (proj2 (Nat.eqb_neq t0 t)); auto.
Qed.

(* ---- exceptions cache nothing *)
Lemma f_raise_keeps_cache p s t s' : is_f_raises_step p s t s' -> cache s' = cache s.
Proof.
  intros [[n E] H]. unfold step_fn in H. rewrite E in H.
  repeat match type of H with
         | match ?x with _ => _ end = Some _ => destruct x
         end; try discriminate; inversion H; subst; reflexivity.
Qed.

Ltac step_cases prog Hs s t :=
  unfold step_fn in Hs;
  let n := fresh "n" in
  destruct (pc (th s t)) as [n|n| | |] eqn:?; try discriminate;
  [do 17 (try destruct n as [|n]) | do 10 (try destruct n as [|n])];
  cbn [nth_error prog] in Hs; try contradiction; destr_ex; try congruence;
  repeat match type of Hs with
         | match ?x with _ => _ end = Some _ => destruct x eqn:?
         end; try discriminate; inversion Hs; subst; clear Hs.

Lemma raiser_never_stores p s t s' :
  modelled p -> Inv s -> own_f_raised s t -> step p s t s' -> cache s' = cache s.
Proof.
  intros Hp HI Hr [o Hs]. pose proof (iHP _ HI t) as Ht. unfold pcinv, own_f_raised in *.
  destruct Hp as [->| ->].
  - step_cases py_prog Hs s t; reflexivity.
  - step_cases c_prog Hs s t; reflexivity.
Qed.

(* ---- progress *)
Lemma not_enabled_cases p s t o : step_fn p s t o = None ->
  ~ unfinished s t \/
  exists n k l t', pc (th s t) = At n /\ nth_error p n = Some (IAcquire k) /\
                   xv (th s t) = XPend l /\ owner s l = Some t'.
Proof.
  intros H. unfold step_fn, unfinished in *.
  destruct (pc (th s t)) as [n|n| | |] eqn:Epc; auto.
  - destruct (nth_error p n) as [i|] eqn:En; try discriminate.
    destruct i; try discriminate;
    repeat match type of H with
           | match ?x with _ => _ end = None => destruct x eqn:?
           end; try discriminate.
    right. eauto 10.
  - destruct (nth_error p n) as [i|] eqn:En; try discriminate.
    destruct i; try discriminate. destruct o; discriminate.
Qed.

Lemma holder_enabled p s t' : modelled p -> Inv s -> held (th s t') = Some 0 -> enabled p s t'.
Proof.
  intros Hp HI Hh. unfold enabled, step.
  destruct (step_fn p s t' FRaise) as [s'|] eqn:E; [eauto|].
  exfalso. apply not_enabled_cases in E. pose proof (iHP _ HI t') as Ht. unfold pcinv, unfinished in *.
  destruct E as [E|(n & k & l & t'' & Epc & En & _)].
  - destruct (pc (th s t')) as [n|n| | |]; try (apply E; exact I); destr_ex; try congruence; contradiction.
  - rewrite Epc in Ht.
    destruct Hp as [->| ->]; do 17 (try destruct n as [|n]); cbn in En, Ht; destr_ex;
      try discriminate; try congruence; try contradiction.
Qed.

Lemma progress p s t : modelled p -> Inv s -> unfinished s t ->
  enabled p s t \/
  exists t', t' <> t /\ blocked_on p s t t' /\ enabled p s t'.
Proof.
  intros Hp HI Hu. destruct (step_fn p s t FRaise) as [s'|] eqn:E.
  - left. exists s', FRaise. exact E.
  - right. apply not_enabled_cases in E. destruct E as [E|(n & k & l & t' & Epc & En & Ex & Eo)]; [contradiction|].
    destruct (iG2 _ HI _ _ Eo) as [-> Hh].
    exists t'. split; [|split].
    + intros ->. pose proof (iHP _ HI t) as Ht. unfold pcinv in Ht. rewrite Epc in Ht.
      destruct Hp as [->| ->]; do 17 (try destruct n as [|n]); cbn in En, Ht; destr_ex;
        try discriminate; try congruence; try contradiction.
    + exists n, k, 0. auto.
    + apply holder_enabled; auto.
Qed.

(* ---- termination measure: every own step strictly decreases the rank *)
Lemma forward_from_nth : forall p b n i, forward_from b p = true -> nth_error p n = Some i ->
  forall k, In k (succs i) -> b + n < k.
Proof.
  induction p as [|j p IH]; intros b n i Hf Hn k Hk.
  - destruct n; discriminate.
  - cbn in Hf. apply andb_prop in Hf. destruct Hf as [H1 H2]. destruct n as [|n].
    + cbn in Hn. inversion Hn; subst. rewrite forallb_forall in H1. apply H1 in Hk.
      apply Nat.ltb_lt in Hk. lia.
    + cbn in Hn. pose proof (IH (S b) n i H2 Hn k Hk). lia.
Qed.

Lemma rank_decreases p s t s' : forward p = true -> step p s t s' ->
  rank p (pc (th s' t)) < rank p (pc (th s t)).
Proof.
  intros Hf [o H]. unfold step_fn in H.
  destruct (pc (th s t)) as [n|n| | |] eqn:Epc; try discriminate.
  - destruct (nth_error p n) as [i|] eqn:En.
    + assert (Hlen : n < length p) by (apply nth_error_Some; congruence).
      pose proof (forward_from_nth p 0 n i Hf En) as Hs.
      destruct i; cbn [succs In] in Hs;
      repeat match type of H with
             | match ?x with _ => _ end = Some _ => destruct x eqn:?
             end; try discriminate; inversion H; subst; cbn; unfold setth; rewrite Nat.eqb_refl; cbn;
      try lia;
      repeat match goal with
             | |- context [length p - ?k] => 
                 lazymatch goal with
                 | _ : n < k |- _ => fail
                 | _ => assert (n < k) by (apply Hs; auto)
                 end
             end; lia.
    + inversion H; subst; cbn; unfold setth; rewrite Nat.eqb_refl; cbn. lia.
  - destruct (nth_error p n) as [i|] eqn:En.
    + assert (Hlen : n < length p) by (apply nth_error_Some; congruence).
      pose proof (forward_from_nth p 0 n i Hf En) as Hs.
      destruct i; try (inversion H; subst; cbn; unfold setth; rewrite Nat.eqb_refl; cbn; lia).
      cbn [succs In] in Hs. assert (n < ok) by (apply Hs; auto). assert (n < ex) by (apply Hs; auto).
      destruct o; inversion H; subst; cbn; unfold setth; rewrite Nat.eqb_refl; cbn; lia.
    + inversion H; subst; cbn; unfold setth; rewrite Nat.eqb_refl; cbn. lia.
Qed.

Lemma forward_py : forward py_prog = true. Proof. vm_compute. reflexivity. Qed.
Lemma forward_c : forward c_prog = true. Proof. vm_compute. reflexivity. Qed.

(* ---- the executable runner used by the correspondence only produces reachable states *)
Lemma local_closure_reach p fuel : forall s t, reach p s -> reach p (local_closure p fuel s t).
Proof.
  induction fuel as [|f IH]; intros s t H; cbn [local_closure]; auto.
  destruct (pc (th s t)); auto. destruct (nth_error p n); auto. destruct (is_local i); auto.
  destruct (step_fn p s t FRaise) as [s'|] eqn:E; auto.
  apply IH. apply (r_step p s t s'); auto. exists FRaise; exact E.
Qed.

Lemma vstep_reach p s t o s' : reach p s -> vstep p s t o = Some s' -> reach p s'.
Proof.
  unfold vstep. intros H E. destruct (step_fn p s t o) as [s1|] eqn:E1; try discriminate.
  inversion E; subst. apply local_closure_reach. apply (r_step p s t s1); auto. exists o; exact E1.
Qed.

Lemma run_steps_reach p : forall sch s acc s' tr, reach p s ->
  run_steps p s sch acc = Some (s', tr) -> reach p s'.
Proof.
  induction sch as [|[t o] sch IH]; intros s acc s' tr H E; cbn in E.
  - inversion E; subst; auto.
  - destruct (vstep p s t o) as [s1|] eqn:E1; try discriminate.
    eapply IH; [|eauto]. eapply vstep_reach; eauto.
Qed.

(* once Done, always Done with the same value *)
Lemma done_stable p s t s' r : modelled p -> Inv s -> cache s = Done r -> step p s t s' -> cache s' = Done r.
Proof.
  intros Hp HI Hc [o Hs]. pose proof (iHP _ HI t) as Ht. unfold pcinv in *.
  destruct Hp as [->| ->].
  - step_cases py_prog Hs s t; cbn; congruence.
  - step_cases c_prog Hs s t; cbn; congruence.
Qed.

(* ---- the statements of C26/Props.v *)
Lemma safety : forall p s, modelled p -> reach p s ->
  (forall t1 t2, in_f s t1 -> in_f s t2 -> t1 = t2) /\
  ndone s <= 1 /\
  (forall t r, returned s t r -> cache s = Done r) /\
  (forall r, cache s = Done r -> forall t, ~ in_f s t) /\
  (forall t e, pc (th s t) = Raised e -> e = FExn /\ own_f_raised s t) /\
  (forall t r, returned s t r -> fraised (th s t) = false) /\
  (forall t, pc (th s t) <> Stuck).
Proof.
  intros p s Hp H. pose proof (reach_inv p s Hp H) as HI.
  repeat split.
  - intros; eapply mutual_exclusion; eauto.
  - apply ndone_le_1; auto.
  - intros; eapply returned_cache; eauto.
  - intros; eapply done_no_f; eauto.
  - eapply raised_own; eauto.
  - eapply raised_own; eauto.
  - intros; eapply returned_not_raised; eauto.
  - intros; eapply never_stuck; eauto.
Qed.

Lemma done_iff_completed : forall p s, modelled p -> reach p s ->
  (ndone s = 1 <-> (exists r, cache s = Done r) \/ exists t, pc (th s t) = At 10).
Proof. intros p s Hp H. apply ndone_cache. eapply reach_inv; eauto. Qed.

Lemma done_is_final : forall p s t s' r, modelled p -> reach p s ->
  cache s = Done r -> step p s t s' -> cache s' = Done r.
Proof. intros p s t s' r Hp H. apply done_stable; auto. eapply reach_inv; eauto. Qed.

Lemma raise_caches_nothing : forall p s t s', reach p s -> step p s t s' ->
  is_f_raises_step p s t s' -> cache s' = cache s.
Proof. intros p s t s' _ _. apply f_raise_keeps_cache. Qed.

Lemma raiser_never_stores_reach : forall p s t s', modelled p -> reach p s ->
  own_f_raised s t -> step p s t s' -> cache s' = cache s.
Proof. intros p s t s' Hp H. apply raiser_never_stores; auto. eapply reach_inv; eauto. Qed.

Lemma no_deadlock : forall p s t, modelled p -> reach p s -> unfinished s t ->
  enabled p s t \/ exists t', t' <> t /\ blocked_on p s t t' /\ enabled p s t'.
Proof. intros p s t Hp H. apply progress; auto. eapply reach_inv; eauto. Qed.

Lemma bounded_steps : forall p s t s', modelled p -> step p s t s' ->
  rank p (pc (th s' t)) < rank p (pc (th s t)) /\
  forall t0, t0 <> t -> th s' t0 = th s t0.
Proof.
  intros p s t s' Hp H. split.
  - apply rank_decreases; auto. destruct Hp as [->| ->]; [apply forward_py | apply forward_c].
  - intros; eapply step_frame; eauto.
Qed.

Lemma runner_sound : forall p sch s tr, run_steps p init sch [] = Some (s, tr) -> reach p s.
Proof. intros p sch s tr. apply run_steps_reach. constructor. Qed.

(* every tag: the component of each tag is a reachable single-tag state *)
Lemma every_tag p S : mreach p S -> forall tag, reach p (S tag).
Proof.
  induction 1; intros tag0.
  - constructor.
  - unfold mupd. destruct (Nat.eqb_spec tag0 tag) as [->|]; auto. eapply r_step; eauto.
Qed.

Lemma safety_every_tag : forall p S tag, modelled p -> mreach p S ->
  (forall t1 t2, in_f (S tag) t1 -> in_f (S tag) t2 -> t1 = t2) /\
  ndone (S tag) <= 1 /\
  (forall t r, returned (S tag) t r -> cache (S tag) = Done r) /\
  (forall r, cache (S tag) = Done r -> forall t, ~ in_f (S tag) t) /\
  (forall t e, pc (th (S tag) t) = Raised e -> e = FExn /\ own_f_raised (S tag) t) /\
  (forall t r, returned (S tag) t r -> fraised (th (S tag) t) = false) /\
  (forall t, pc (th (S tag) t) <> Stuck).
Proof. intros p S tag Hp H. apply (safety p (S tag) Hp). apply every_tag; auto. Qed.

Lemma no_deadlock_every_tag : forall p S tag t, modelled p -> mreach p S -> unfinished (S tag) t ->
  enabled p (S tag) t \/ exists t', t' <> t /\ blocked_on p (S tag) t t' /\ enabled p (S tag) t'.
Proof. intros p S tag t Hp H. apply (no_deadlock p (S tag) t Hp). apply every_tag; auto. Qed.

(* a step on one tag leaves every other tag's component untouched *)
Lemma tags_independent : forall (S : mstate) tag s' tag', tag' <> tag -> mupd S tag s' tag' = S tag'.
Proof. intros. unfold mupd. destruct (Nat.eqb_spec tag' tag); congruence. Qed.
