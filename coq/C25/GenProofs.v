(* C25 — the regenerated search_sorted / MAKE_SEARCH_FUNC (C25/Gen.v) IS the hand model (C25/Model.v):
   every proof here is by computation on the regenerated terms, so an edit of the C source that changes a
   translated hole (a comparison operator, `middle + 1`, the order of the branches, the early return) makes
   one of these lemmas fail; the theorems of C25/Proofs.v are then transported to the regenerated function. *)
From Coq Require Import List Arith NArith Lia Bool String.
Import ListNotations.
From Cffi Require Import C25.Model C25.Gen C25.Proofs.

Definition step_of (p : probe) (left right middle : nat) : gstep :=
  match p with
  | Found => GReturn middle
  | GoLeft => GNext left middle
  | GoRight => GNext (middle + 1) right
  end.

(* the three-way decision: for every sign of diff and every value of `src[search_len] == 0` *)
Lemma gen_body_is_probe : forall diff src_ends left right middle,
  gen_body diff src_ends left right middle =
  step_of (match diff with
           | Eq => if src_ends then Found else GoLeft
           | Gt => GoLeft
           | Lt => GoRight
           end) left right middle.
Proof. intros [] [] left right middle; reflexivity. Qed.

Lemma gen_is_model : forall src key left right middle,
  gen_body (strncmp src key (List.length key)) (N.eqb (char_at src (List.length key)) 0) left right middle
  = step_of (probe_at src key) left right middle.
Proof. intros. rewrite gen_body_is_probe. unfold probe_at. reflexivity. Qed.

Lemma gen_search_is_search : forall fuel t key left right,
  gen_search fuel t key left right = search fuel t key left right.
Proof.
  induction fuel as [|f IH]; intros; [reflexivity|].
  cbn [gen_search search]. unfold gen_loop_cond, gen_middle.
  destruct (left <? right); [|reflexivity].
  rewrite gen_is_model.
  destruct (probe_at (nth ((left + right) / 2) t []) key); cbn [step_of]; try reflexivity; apply IH.
Qed.

Lemma gen_search_sorted_is_model : forall t key, gen_search_sorted t key = search_sorted t key.
Proof. intros. unfold gen_search_sorted, search_sorted, gen_left0, gen_right0. apply gen_search_is_search. Qed.

(* the early return of MAKE_SEARCH_FUNC agrees with the loop on the empty table *)
Lemma gen_search_in_is_model : forall t key, gen_search_in t key = search_sorted t key.
Proof.
  intros t key. unfold gen_search_in. rewrite gen_search_sorted_is_model.
  destruct t; reflexivity.
Qed.

Theorem gen_search_in_correct : forall t key,
  Forall nulfree t -> nulfree key -> sorted t ->
  match gen_search_in t key with
  | Some m => m < List.length t /\ nth m t [] = key
  | None => forall i, i < List.length t -> nth i t [] <> key
  end.
Proof. intros. rewrite gen_search_in_is_model. apply search_sorted_correct; assumption. Qed.

Theorem gen_declared_names_found : forall names key,
  NoDup names -> Forall nulfree names -> nulfree key ->
  (In key names <-> exists i, gen_search_in (py_sorted names) key = Some i
                              /\ nth i (py_sorted names) [] = key).
Proof. intros. rewrite gen_search_in_is_model. apply declared_names_found; assumption. Qed.

(* the four name tables are searched through the macro, on the `name` field of their records;
   every table the generator sorts is sorted on the attribute `name` *)
Lemma gen_tables_fact :
  gen_search_fields = [("globals", true); ("struct_unions", true); ("typenames", true); ("enums", true)]%string
  /\ map (fun r => snd r) (tl gen_sort_keys) = ["name"; "name"; "name"]%string.
Proof. split; reflexivity. Qed.

