(* C25 — Every declared name is found by the runtime lookup of generated tables.
   Statements only; proofs are in C25/Proofs.v (hand model) and C25/GenProofs.v (the function regenerated
   from src/c/parse_c_type.c into C25/Gen.v on every run is the hand model). *)
From Coq Require Import String.
From Coq Require Import List Arith NArith Permutation.
Import ListNotations.
From Cffi Require Import C25.Model C25.Gen C25.Proofs C25.GenProofs.

(* binary search with the strncmp-prefix comparator, on any table strictly sorted in byte
   order, for any key: a hit is a real entry equal to the key, a miss means no entry equals it *)
Theorem C25_search_sorted_correct : forall (t : list cstr) (key : cstr),
  Forall nulfree t -> nulfree key ->
  (forall i j, i < j < length t -> lex (nth i t []) (nth j t []) = Lt) ->
  match search_sorted t key with
  | Some m => m < length t /\ nth m t [] = key
  | None   => forall i, i < length t -> nth i t [] <> key
  end.
Proof. exact search_sorted_correct. Qed.
Print Assumptions C25_search_sorted_correct.

(* each entry resolves to its own index *)
Theorem C25_own_entry : forall t i, Forall nulfree t ->
  (forall i j, i < j < length t -> lex (nth i t []) (nth j t []) = Lt) ->
  i < length t -> search_sorted t (nth i t []) = Some i.
Proof. exact search_finds_member. Qed.
Print Assumptions C25_own_entry.

(* sorting any duplicate-free set of names by byte order gives such a table *)
Theorem C25_python_sort_gives_table : forall names, NoDup names ->
  Permutation (py_sorted names) names /\
  (forall i j, i < j < length (py_sorted names) ->
     lex (nth i (py_sorted names) []) (nth j (py_sorted names) []) = Lt).
Proof. exact python_sort_gives_table. Qed.
Print Assumptions C25_python_sort_gives_table.

Theorem C25_declared_iff_found : forall names key,
  NoDup names -> Forall nulfree names -> nulfree key ->
  (In key names <-> exists i, search_sorted (py_sorted names) key = Some i
                              /\ nth i (py_sorted names) [] = key).
Proof. exact declared_names_found. Qed.
Print Assumptions C25_declared_iff_found.

(* ---- tie to the source: C25/Gen.v is re-translated from search_sorted / MAKE_SEARCH_FUNC on every run ----
   the regenerated three-way decision (conditions `diff == 0 && src[search_len] == '\0'`, `diff >= 0`, and the
   actions `return middle`, `right = middle`, `left = middle + 1`) is the model's probe, for every table entry and key *)
Theorem C25_gen_is_model : forall src key left right middle,
  gen_body (strncmp src key (List.length key)) (N.eqb (char_at src (List.length key)) 0) left right middle
  = match probe_at src key with
    | Found => GReturn middle
    | GoLeft => GNext left middle
    | GoRight => GNext (middle + 1) right
    end.
Proof. exact gen_is_model. Qed.
Print Assumptions C25_gen_is_model.

(* the whole regenerated function (initial bounds, loop condition, middle, decision, and the early return of
   MAKE_SEARCH_FUNC on an empty table) computes the model's search_sorted on every table and key *)
Theorem C25_gen_search_is_model : forall t key, gen_search_in t key = search_sorted t key.
Proof. exact gen_search_in_is_model. Qed.
Print Assumptions C25_gen_search_is_model.

(* hence the headline statements hold of the regenerated search_in_FIELD *)
Theorem C25_search_in_correct : forall (t : list cstr) (key : cstr),
  Forall nulfree t -> nulfree key ->
  (forall i j, i < j < List.length t -> lex (nth i t []) (nth j t []) = Lt) ->
  match gen_search_in t key with
  | Some m => m < List.length t /\ nth m t [] = key
  | None   => forall i, i < List.length t -> nth i t [] <> key
  end.
Proof. exact gen_search_in_correct. Qed.
Print Assumptions C25_search_in_correct.

Theorem C25_search_in_declared_iff_found : forall names key,
  NoDup names -> Forall nulfree names -> nulfree key ->
  (In key names <-> exists i, gen_search_in (py_sorted names) key = Some i
                              /\ nth i (py_sorted names) [] = key).
Proof. exact gen_declared_names_found. Qed.
Print Assumptions C25_search_in_declared_iff_found.

(* regenerated facts: the macro is instantiated for exactly the four name tables, the record type of each has the
   key field `const char *name` that the macro passes; recompiler.py sorts _struct_unions, _enums and every step
   table except "field" on the attribute `name` *)
Theorem C25_tables_searched_on_name :
  gen_search_fields = [("globals", true); ("struct_unions", true); ("typenames", true); ("enums", true)]%string
  /\ map (fun r => snd r) (tl gen_sort_keys) = ["name"; "name"; "name"]%string.
Proof. exact gen_tables_fact. Qed.
Print Assumptions C25_tables_searched_on_name.

(* a table with a DUPLICATE key (struct x and union x declared together: two records named "x" in
   _struct_unions) is outside the hypothesis: only one of the two indices can be returned
   (finite computation; replayed on the implementation as known finding struct-union-same-tag) *)
Example C25_duplicate_key_example :
  gen_search_in [[120]; [120]; [121]]%N [120]%N = Some 1 /\ gen_search_in [[119]; [120]; [120]]%N [120]%N = Some 1.
Proof. vm_compute. split; reflexivity. Qed.

(* non-vacuity: prefixes of one another, one-character differences *)
Example C25_example :
  let names := [[102;111;111;95]; [103]; [102;111;111]; [102;111;111;95;115]; [102;111;112]]%N in
  map (search_sorted (py_sorted names))
      ([[102;111;111]; [102;111;111;95]; [102;111;111;95;115]; [102;111;112]; [103]; [102;111]; [104]; []]%N)
  = [Some 0; Some 1; Some 2; Some 3; Some 4; None; None; None].
Proof. vm_compute. reflexivity. Qed.
