(* C25 — Every declared name is found by the runtime lookup of generated tables.
   Statements only; proofs are in C25/Proofs.v. *)
From Coq Require Import List Arith NArith Permutation.
Import ListNotations.
From Cffi Require Import C25.Model C25.Proofs.

(* binary search with the strncmp-prefix comparator, on any table strictly sorted in byte
   order, for any key: a hit is a real entry equal to the key, a miss means no entry equals it *)
Theorem C25_search_sorted_correct : forall (t : list cstr) (key : cstr),
  Forall nulfree t -> nulfree key ->
  (forall i j, i < j < length t -> lex (nth i t []) (nth j t []) = Lt) ->
  match search_sorted t key with
  | Some m => m < length t /\ nth m t [] = key
  | None   => forall i, i < length t -> nth i t [] <> key
  end.
Proof. exact search_sorted_correct. Qed.
Print Assumptions C25_search_sorted_correct.

(* each entry resolves to its own index *)
Theorem C25_own_entry : forall t i, Forall nulfree t ->
  (forall i j, i < j < length t -> lex (nth i t []) (nth j t []) = Lt) ->
  i < length t -> search_sorted t (nth i t []) = Some i.
Proof. exact search_finds_member. Qed.
Print Assumptions C25_own_entry.

(* sorting any duplicate-free set of names by byte order gives such a table *)
Theorem C25_python_sort_gives_table : forall names, NoDup names ->
  Permutation (py_sorted names) names /\
  (forall i j, i < j < length (py_sorted names) ->
     lex (nth i (py_sorted names) []) (nth j (py_sorted names) []) = Lt).
Proof. exact python_sort_gives_table. Qed.
Print Assumptions C25_python_sort_gives_table.

Theorem C25_declared_iff_found : forall names key,
  NoDup names -> Forall nulfree names -> nulfree key ->
  (In key names <-> exists i, search_sorted (py_sorted names) key = Some i
                              /\ nth i (py_sorted names) [] = key).
Proof. exact declared_names_found. Qed.
Print Assumptions C25_declared_iff_found.

(* non-vacuity: prefixes of one another, one-character differences *)
Example C25_example :
  let names := [[102;111;111;95]; [103]; [102;111;111]; [102;111;111;95;115]; [102;111;112]]%N in
  map (search_sorted (py_sorted names))
      ([[102;111;111]; [102;111;111;95]; [102;111;111;95;115]; [102;111;112]; [103]; [102;111]; [104]; []]%N)
  = [Some 0; Some 1; Some 2; Some 3; Some 4; None; None; None].
Proof. vm_compute. reflexivity. Qed.
