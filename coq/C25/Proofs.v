From Coq Require Import List Arith NArith Lia Bool Sorted Permutation.
Import ListNotations.
From Cffi Require Import C25.Model.

Definition probe_of (c : comparison) := match c with Eq => Found | Gt => GoLeft | Lt => GoRight end.

Lemma probe_at_lex : forall key src, nulfree src -> nulfree key ->
  probe_at src key = probe_of (lex src key).
Proof.
  induction key as [|k key IH]; intros src Hs Hk.
  - unfold probe_at; simpl. destruct src as [|s src']; simpl; auto.
    inversion Hs; subst. unfold char_at; simpl.
    destruct (N.eqb_spec s 0); [contradiction|reflexivity].
  - inversion Hk as [|? ? Hk0 Hk']; subst.
    destruct src as [|s src'].
    + unfold probe_at; simpl. destruct k; [contradiction|reflexivity].
    + inversion Hs as [|? ? Hs0 Hs']; subst.
      specialize (IH src' Hs' Hk').
      unfold probe_at in *. simpl. unfold char_at in *. simpl.
      destruct (N.compare s k) eqn:E; simpl; auto.
Qed.

Lemma lex_eq : forall a b, lex a b = Eq <-> a = b.
Proof.
  induction a as [|x a IH]; destruct b as [|y b]; simpl; split; intros H; try congruence; auto.
  - destruct (N.compare x y) eqn:E; try discriminate. apply N.compare_eq in E. subst.
    f_equal. apply IH; auto.
  - inversion H; subst. rewrite N.compare_refl. apply IH; auto.
Qed.

Lemma lex_refl a : lex a a = Eq.
Proof. apply lex_eq; reflexivity. Qed.

Lemma lex_antisym : forall a b, lex a b = CompOpp (lex b a).
Proof.
  induction a as [|x a IH]; destruct b as [|y b]; simpl; auto.
  rewrite (N.compare_antisym y x). destruct (N.compare y x); simpl; auto.
Qed.

Lemma lex_trans : forall a b c, lex a b = Lt -> lex b c = Lt -> lex a c = Lt.
Proof.
  induction a as [|x a IH]; destruct b as [|y b]; destruct c as [|z c]; simpl; intros H1 H2; try congruence; auto.
  destruct (N.compare x y) eqn:E1; try discriminate;
  destruct (N.compare y z) eqn:E2; try discriminate.
  - apply N.compare_eq in E1; apply N.compare_eq in E2; subst. rewrite N.compare_refl. eauto.
  - apply N.compare_eq in E1; subst. rewrite E2; auto.
  - apply N.compare_eq in E2; subst. rewrite E1; auto.
  - rewrite N.compare_lt_iff in *. assert (Hxz : (x < z)%N) by lia.
    rewrite <- N.compare_lt_iff in Hxz. rewrite Hxz; auto.
Qed.

Definition sorted (t : list cstr) :=
  forall i j, i < j < length t -> lex (nth i t []) (nth j t []) = Lt.

Lemma search_inv : forall fuel t key left right,
  Forall nulfree t -> nulfree key -> sorted t ->
  left <= right <= length t -> right - left < fuel ->
  (forall i, i < left -> lex (nth i t []) key = Lt) ->
  (forall i, right <= i < length t -> lex (nth i t []) key = Gt) ->
  match search fuel t key left right with
  | Some m => m < length t /\ nth m t [] = key
  | None => forall i, i < length t -> nth i t [] <> key
  end.
Proof.
  induction fuel as [|f IH]; intros t key left right Ht Hk Hs Hb Hf HL HR; [lia|].
  cbn [search]. destruct (Nat.ltb_spec left right) as [Hlt|Hge].
  - set (m := (left + right) / 2).
    assert (Hm : left <= m < right).
    { unfold m. split.
      - apply Nat.div_le_lower_bound; lia.
      - apply Nat.div_lt_upper_bound; lia. }
    assert (Hmn : nulfree (nth m t [])).
    { rewrite Forall_forall in Ht. apply Ht. apply nth_In. lia. }
    rewrite (probe_at_lex key (nth m t []) Hmn Hk).
    destruct (lex (nth m t []) key) eqn:E; cbn [probe_of].
    + split; [lia|]. apply lex_eq; auto.
    + apply IH; auto; try lia.
      intros i Hi. destruct (Nat.eq_dec i m) as [->|Hne]; auto.
      destruct (Nat.lt_ge_cases i left) as [Hil|Hil]; auto.
      eapply lex_trans; [|exact E]. apply Hs. lia.
    + apply IH; auto; try lia.
      intros i Hi. destruct (Nat.eq_dec i m) as [->|Hne]; auto.
      destruct (Nat.lt_ge_cases i right) as [Hir|Hir]; [|apply HR; lia].
      assert (Hlt2 : lex (nth m t []) (nth i t []) = Lt) by (apply Hs; lia).
      rewrite lex_antisym.
      assert (Hki : lex key (nth i t []) = Lt).
      { eapply lex_trans; [|exact Hlt2]. rewrite lex_antisym, E. reflexivity. }
      rewrite Hki. reflexivity.
  - intros i Hi Heq.
    destruct (Nat.lt_ge_cases i left) as [Hil|Hil].
    + specialize (HL i Hil). rewrite Heq, lex_refl in HL. discriminate.
    + assert (Hr : right <= i < length t) by lia. specialize (HR i Hr).
      rewrite Heq, lex_refl in HR. discriminate.
Qed.

Theorem search_sorted_correct : forall t key,
  Forall nulfree t -> nulfree key -> sorted t ->
  match search_sorted t key with
  | Some m => m < length t /\ nth m t [] = key
  | None => forall i, i < length t -> nth i t [] <> key
  end.
Proof.
  intros. unfold search_sorted. apply search_inv; auto; try lia.
Qed.

(* every member is found at its own index *)
Theorem search_finds_member : forall t i,
  Forall nulfree t -> sorted t -> i < length t ->
  search_sorted t (nth i t []) = Some i.
Proof.
  intros t i Ht Hs Hi.
  assert (Hk : nulfree (nth i t [])).
  { rewrite Forall_forall in Ht. apply Ht, nth_In, Hi. }
  pose proof (search_sorted_correct t (nth i t []) Ht Hk Hs) as H.
  destruct (search_sorted t (nth i t [])) as [m|].
  - destruct H as [Hm Heq]. f_equal.
    destruct (Nat.lt_trichotomy m i) as [Hlt|[->|Hgt]]; auto.
    + assert (Hc : lex (nth m t []) (nth i t []) = Lt) by (apply Hs; lia).
      rewrite Heq, lex_refl in Hc. discriminate.
    + assert (Hc : lex (nth i t []) (nth m t []) = Lt) by (apply Hs; lia).
      rewrite Heq, lex_refl in Hc. discriminate.
  - exfalso. apply (H i Hi). reflexivity.
Qed.

(* ---- the Python-side sort yields a table meeting the hypothesis ---- *)

Lemma insert_perm x l : Permutation (insert_sorted x l) (x :: l).
Proof.
  induction l as [|y l IH]; simpl; auto.
  destruct (leb_lex x y); auto.
  eapply perm_trans; [apply perm_skip, IH|apply perm_swap].
Qed.

Lemma py_sorted_perm l : Permutation (py_sorted l) l.
Proof.
  induction l as [|x l IH]; simpl; auto.
  eapply perm_trans; [apply insert_perm|]. apply perm_skip, IH.
Qed.

Definition lt_lex a b := lex a b = Lt.

Lemma lex_total_strict a b : a <> b -> lex a b = Lt \/ lex b a = Lt.
Proof.
  intros Hne. destruct (lex a b) eqn:E; auto.
  - apply lex_eq in E. contradiction.
  - right. rewrite lex_antisym, E. reflexivity.
Qed.

Lemma insert_sorted_strict x l :
  StronglySorted lt_lex l -> ~ In x l -> StronglySorted lt_lex (insert_sorted x l).
Proof.
  induction l as [|y l IH]; intros Hs Hn; simpl.
  - constructor; constructor.
  - inversion Hs as [|? ? Hs' Hall]; subst.
    unfold leb_lex. destruct (lex x y) eqn:E.
    + apply lex_eq in E. subst. exfalso. apply Hn. left; reflexivity.
    + constructor; auto. constructor; auto.
      rewrite Forall_forall in *. intros z Hz. unfold lt_lex in *.
      eapply lex_trans; [exact E|]. apply Hall, Hz.
    + constructor.
      * apply IH; auto. intros Hin. apply Hn. right; exact Hin.
      * rewrite Forall_forall in *. intros z Hz.
        assert (Hz' : In z (x :: l)) by (eapply Permutation_in; [apply insert_perm|exact Hz]).
        destruct Hz' as [<-|Hz'].
        -- unfold lt_lex. rewrite lex_antisym, E. reflexivity.
        -- apply Hall, Hz'.
Qed.

Lemma py_sorted_strict l : NoDup l -> StronglySorted lt_lex (py_sorted l).
Proof.
  induction l as [|x l IH]; intros Hnd; simpl.
  - constructor.
  - inversion Hnd; subst. apply insert_sorted_strict; auto.
    intros Hin. apply (Permutation_in _ (py_sorted_perm l)) in Hin. contradiction.
Qed.

Lemma strongly_sorted_index t : StronglySorted lt_lex t -> sorted t.
Proof.
  induction 1 as [|a l Hs IH Hall]; intros i j Hij; simpl in *; [lia|].
  destruct i as [|i], j as [|j]; try lia.
  - rewrite Forall_forall in Hall. apply Hall, nth_In. lia.
  - apply IH. lia.
Qed.

Theorem python_sort_gives_table : forall names, NoDup names ->
  Permutation (py_sorted names) names /\ sorted (py_sorted names).
Proof.
  intros names Hnd. split; [apply py_sorted_perm|].
  apply strongly_sorted_index, py_sorted_strict, Hnd.
Qed.

(* end to end: every declared name is found, no undeclared name is found *)
Theorem declared_names_found : forall names key,
  NoDup names -> Forall nulfree names -> nulfree key ->
  (In key names <-> exists i, search_sorted (py_sorted names) key = Some i
                              /\ nth i (py_sorted names) [] = key).
Proof.
  intros names key Hnd Hnf Hk.
  destruct (python_sort_gives_table names Hnd) as [Hp Hs].
  assert (Hnf' : Forall nulfree (py_sorted names)).
  { rewrite Forall_forall in *. intros x Hx. apply Hnf. eapply Permutation_in; eauto. }
  split.
  - intros Hin. apply (Permutation_in _ (Permutation_sym Hp)) in Hin.
    destruct (In_nth _ _ [] Hin) as [i [Hi Heq]]. exists i. split; auto.
    rewrite <- Heq. apply search_finds_member; auto.
  - intros [i [Hsome Hnth]].
    pose proof (search_sorted_correct _ key Hnf' Hk Hs) as H. rewrite Hsome in H.
    destruct H as [Hi _]. eapply Permutation_in; [exact Hp|]. rewrite <- Hnth. apply nth_In, Hi.
Qed.
