(* C25 — model of search_sorted (src/c/parse_c_type.c:448) and of the Python-side sort.

   C code being modelled (macro MAKE_SEARCH_FUNC):
       int left = 0, right = ctx->num_FIELD;
       while (left < right) {
           int middle = (left + right) / 2;
           const char *src = ctx->FIELD[middle].name;
           int diff = strncmp(src, search, search_len);
           if (diff == 0 && src[search_len] == '\0') return middle;
           else if (diff >= 0) right = middle;
           else left = middle + 1;
       }
       return -1;
   Table entries are NUL-terminated C strings; the key is length-delimited. *)
From Coq Require Import List Arith NArith Lia Bool.
Import ListNotations.

Definition cstr := list N.     (* the bytes before the terminating NUL *)

(* sign of strncmp(src, key, n): src is NUL-terminated (reads past its end give 0 and stop
   the comparison), key supplies at least n bytes *)
Fixpoint strncmp (src key : cstr) (n : nat) : comparison :=
  match n with
  | O => Eq
  | S n' =>
    match src, key with
    | [], [] => Eq
    | [], k :: _ => N.compare 0 k
    | s :: _, [] => N.compare s 0
    | s :: src', k :: key' =>
        match N.compare s k with
        | Eq => strncmp src' key' n'
        | c => c
        end
    end
  end.

Definition char_at (s : cstr) (i : nat) : N := nth i s 0%N.

Inductive probe := Found | GoLeft | GoRight.
Definition probe_at (src key : cstr) : probe :=
  match strncmp src key (length key) with
  | Eq => if N.eqb (char_at src (length key)) 0 then Found else GoLeft
  | Gt => GoLeft
  | Lt => GoRight
  end.

Fixpoint search (fuel : nat) (t : list cstr) (key : cstr) (left right : nat) : option nat :=
  match fuel with
  | O => None
  | S f =>
    if left <? right then
      let middle := (left + right) / 2 in
      match probe_at (nth middle t []) key with
      | Found => Some middle
      | GoLeft => search f t key left middle
      | GoRight => search f t key (middle + 1) right
      end
    else None
  end.

Definition search_sorted (t : list cstr) (key : cstr) : option nat :=
  search (S (length t)) t key 0 (length t).

(* byte-wise lexicographic order = strcmp order = Python's order on ASCII str *)
Fixpoint lex (a b : cstr) : comparison :=
  match a, b with
  | [], [] => Eq
  | [], _ :: _ => Lt
  | _ :: _, [] => Gt
  | x :: a', y :: b' => match N.compare x y with Eq => lex a' b' | c => c end
  end.

Definition nulfree (s : cstr) := Forall (fun c => c <> 0%N) s.

(* Python side: lst.sort(key=name)  — insertion sort by lex is the specification of a
   stable sort by a total order; used to state that sorted tables meet the hypothesis *)
Definition leb_lex (a b : cstr) : bool := match lex a b with Gt => false | _ => true end.
Fixpoint insert_sorted (x : cstr) (l : list cstr) : list cstr :=
  match l with
  | [] => [x]
  | y :: l' => if leb_lex x y then x :: l else y :: insert_sorted x l'
  end.
Definition py_sorted (l : list cstr) : list cstr := fold_right insert_sorted [] l.

(* for the correspondence check: result as Z-like option over N *)
Definition search_sorted_N (t : list cstr) (key : cstr) : option N :=
  option_map N.of_nat (search_sorted t key).
