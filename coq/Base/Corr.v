(* Helpers for the correspondence checks: the harness writes (input, implementation output)
   pairs; the comparison with the model is evaluated inside Coq and only the indices of
   disagreeing cases are printed. *)
From Coq Require Import NArith List Bool ZArith.
Import ListNotations.

Fixpoint mismatches_from {A B : Type} (eqb : B -> B -> bool) (f : A -> B)
         (i : N) (cs : list (A * B)) : list N :=
  match cs with
  | [] => []
  | (a, b) :: cs' =>
      let rest := mismatches_from eqb f (N.succ i) cs' in
      if eqb (f a) b then rest else i :: rest
  end.

Definition mismatches {A B : Type} (eqb : B -> B -> bool) (f : A -> B) (cs : list (A * B)) : list N :=
  mismatches_from eqb f 0%N cs.

(* boolean equalities for the usual result shapes *)
Definition opt_eqb {A} (e : A -> A -> bool) (x y : option A) : bool :=
  match x, y with
  | Some a, Some b => e a b
  | None, None => true
  | _, _ => false
  end.

Fixpoint list_eqb {A} (e : A -> A -> bool) (x y : list A) : bool :=
  match x, y with
  | [], [] => true
  | a :: x', b :: y' => e a b && list_eqb e x' y'
  | _, _ => false
  end.

Definition pair_eqb {A B} (ea : A -> A -> bool) (eb : B -> B -> bool) (x y : A * B) : bool :=
  ea (fst x) (fst y) && eb (snd x) (snd y).

Definition sum_eqb {A B} (ea : A -> A -> bool) (eb : B -> B -> bool) (x y : A + B) : bool :=
  match x, y with
  | inl a, inl b => ea a b
  | inr a, inr b => eb a b
  | _, _ => false
  end.
