(* C08 — proofs about ct_name / ct_name_position and the two getctype implementations. *)
From Coq Require Import List Arith NArith ZArith Lia Bool String.
Import ListNotations.
From Cffi Require Import C07.Model C07.Realize C08.Gen C08.Model.

Local Open Scope nat_scope.

(* ---------------------------------------------------------------- inserting *)
Lemma insert_at_length n p x : List.length (insert_at n p x) = List.length n + List.length x.
Proof.
  unfold insert_at. rewrite !app_length.
  pose proof (firstn_skipn p n) as H. apply (f_equal (@List.length N)) in H. rewrite app_length in H. lia.
Qed.

(* plugging composes: text inserted at (position of the hole inside x) lands inside x *)
Lemma insert_compose n p x k y : p <= List.length n -> k <= List.length x ->
  insert_at (insert_at n p x) (p + k) y = insert_at n p (insert_at x k y).
Proof.
  intros Hp Hk. unfold insert_at.
  assert (Hl : List.length (firstn p n) = p) by (apply firstn_length_le; exact Hp).
  rewrite firstn_app, Hl. replace (p + k - p) with k by lia.
  rewrite (firstn_all2 (n := p + k) (firstn p n)) by lia.
  rewrite skipn_app, Hl. replace (p + k - p) with k by lia.
  rewrite (skipn_all2 (n := p + k) (firstn p n)) by lia. cbn [app].
  rewrite firstn_app, skipn_app.
  replace (k - List.length x) with 0 by lia. cbn [firstn skipn].
  rewrite app_nil_r. rewrite <- !app_assoc. reflexivity.
Qed.

Lemma cname_pos_le : forall c, snd (cname c) <= List.length (fst (cname c)).
Proof.
  fix IH 1. intros c. destruct c as [|p|t|t len|ret args ell|k n sz]; cbn [cname].
  - cbn. lia.
  - cbn. lia.
  - unfold on_top. cbn [fst snd]. rewrite insert_at_length. specialize (IH t).
    destruct (is_array t); cbn; lia.
  - unfold on_top. cbn [fst snd]. rewrite insert_at_length. specialize (IH t). lia.
  - specialize (IH ret). destruct (cname ret) as [rn rp]. cbn [fst snd] in *.
    rewrite !app_length. rewrite firstn_length_le by exact IH. cbn. lia.
  - cbn. lia.
Qed.

(* the function case has the same shape as on_top *)
Lemma cname_func ret args ell :
  cname (CFunc ret args ell) =
  on_top (cname ret)
         (s2l "(*)" ++ [c_lpar]
          ++ sep_commas (map (fun a => fst (cname a)) args ++ if ell then [s2l "..."] else [])
          ++ [c_rpar]) 2.
Proof.
  cbn [cname]. destruct (cname ret) as [rn rp]. unfold on_top, insert_at. cbn [fst snd].
  f_equal. rewrite <- !app_assoc. reflexivity.
Qed.

(* ---------------------------------------------------------------- position_is_hole *)
Theorem getcname_ptr t y :
  getcname (CPtr t) y =
  getcname t (if is_array t then [c_lpar; c_star] ++ y ++ [c_rpar] else [32%N; c_star] ++ y).
Proof.
  unfold getcname. cbn [cname]. unfold on_top. cbn [fst snd].
  rewrite insert_compose by (try apply cname_pos_le; destruct (is_array t); cbn; lia).
  destruct (is_array t); unfold insert_at at 2; cbn; rewrite ?app_nil_r; reflexivity.
Qed.

Theorem getcname_arr t len y :
  getcname (CArr t len) y =
  getcname t (y ++ match len with Some n => [c_lbr] ++ decimal n ++ [c_rbr] | None => [c_lbr; c_rbr] end).
Proof.
  unfold getcname. cbn [cname]. unfold on_top. cbn [fst snd].
  rewrite insert_compose by (try apply cname_pos_le; lia).
  reflexivity.
Qed.

Theorem getcname_func ret args ell y :
  getcname (CFunc ret args ell) y =
  getcname ret ([c_lpar; c_star] ++ y ++ [c_rpar] ++ [c_lpar]
                ++ sep_commas (map (fun a => fst (cname a)) args ++ if ell then [s2l "..."] else [])
                ++ [c_rpar]).
Proof.
  unfold getcname. rewrite cname_func. unfold on_top. cbn [fst snd].
  rewrite insert_compose by (try apply cname_pos_le; cbn; lia).
  reflexivity.
Qed.

(* ---------------------------------------------------------------- what follows the hole *)
Definition tail_of (c : ctype) : str := skipn (snd (cname c)) (fst (cname c)).

Lemma skipn_insert n p x k : p <= List.length n -> k <= List.length x ->
  skipn (p + k) (insert_at n p x) = skipn k x ++ skipn p n.
Proof.
  intros Hp Hk. unfold insert_at.
  assert (Hl : List.length (firstn p n) = p) by (apply firstn_length_le; exact Hp).
  rewrite skipn_app, Hl. replace (p + k - p) with k by lia.
  rewrite (skipn_all2 (n := p + k) (firstn p n)) by lia. cbn [app].
  rewrite skipn_app. replace (k - List.length x) with 0 by lia. reflexivity.
Qed.

Theorem tail_bracket_iff_array : forall c, first_is (tail_of c) c_lbr = is_array c.
Proof.
  fix IH 1. intros c. unfold tail_of.
  destruct c as [|p|t|t len|ret args ell|k n sz].
  - reflexivity.
  - cbn [cname fst snd]. rewrite skipn_all. reflexivity.
  - cbn [cname]. unfold on_top. cbn [fst snd is_array].
    rewrite skipn_insert by (try apply cname_pos_le; destruct (is_array t); cbn; lia).
    specialize (IH t). unfold tail_of in IH.
    destruct (is_array t); [reflexivity|]. cbn [skipn app]. exact IH.
  - cbn [cname]. unfold on_top. cbn [fst snd is_array].
    replace (snd (cname t)) with (snd (cname t) + 0) at 1 by lia.
    rewrite Nat.add_0_r at 1.
    replace (snd (cname t) + 0) with (snd (cname t) + 0) by reflexivity.
    rewrite skipn_insert by (try apply cname_pos_le; lia).
    destruct len; reflexivity.
  - rewrite cname_func. unfold on_top. cbn [fst snd is_array].
    rewrite skipn_insert by (try apply cname_pos_le; cbn; lia). reflexivity.
  - cbn [cname fst snd]. rewrite skipn_all. reflexivity.
Qed.

(* ---------------------------------------------------------------- no '&' in names *)
Definition no_amp (s : str) : bool := forallb (fun c => negb (N.eqb c 38)) s.

Fixpoint wf_names (c : ctype) : bool :=
  match c with
  | CAgg _ n _ => no_amp n
  | CPtr t | CArr t _ => wf_names t
  | CFunc r args _ => wf_names r && forallb wf_names args
  | _ => true
  end.

Lemma no_amp_app a b : no_amp (a ++ b) = no_amp a && no_amp b.
Proof. unfold no_amp. apply forallb_app. Qed.

Lemma no_amp_firstn n s : no_amp s = true -> no_amp (firstn n s) = true.
Proof.
  unfold no_amp. rewrite !forallb_forall. intros H x Hx. apply H.
  rewrite <- (firstn_skipn n s). apply in_or_app. left. exact Hx.
Qed.
Lemma no_amp_skipn n s : no_amp s = true -> no_amp (skipn n s) = true.
Proof.
  unfold no_amp. rewrite !forallb_forall. intros H x Hx. apply H.
  rewrite <- (firstn_skipn n s). apply in_or_app. right. exact Hx.
Qed.

Lemma no_amp_insert n p x : no_amp n = true -> no_amp x = true -> no_amp (insert_at n p x) = true.
Proof.
  intros Hn Hx. unfold insert_at. rewrite !no_amp_app, Hx, no_amp_firstn, no_amp_skipn by exact Hn. reflexivity.
Qed.

Lemma no_amp_dec_digits : forall f n acc, no_amp acc = true -> no_amp (dec_digits f n acc) = true.
Proof.
  induction f as [|f IH]; intros n acc Ha; cbn [dec_digits]; [exact Ha|].
  assert (Hd : no_amp (N.of_nat (Z.to_nat (48 + n mod 10)) :: acc) = true).
  { unfold no_amp in *. cbn [forallb]. rewrite Ha, andb_true_r.
    pose proof (Z.mod_pos_bound n 10 ltac:(lia)) as Hb.
    apply negb_true_iff, N.eqb_neq. lia. }
  destruct (n / 10 =? 0)%Z; [exact Hd | apply IH; exact Hd].
Qed.

Lemma no_amp_prims : forallb no_amp primitive_names = true.
Proof. vm_compute. reflexivity. Qed.

Lemma no_amp_sep_commas l : forallb no_amp l = true -> no_amp (sep_commas l) = true.
Proof.
  destruct l as [|x r]; [reflexivity|]. cbn [forallb sep_commas]. intros H.
  apply andb_true_iff in H as [Hx Hr]. rewrite no_amp_app, Hx. cbn [andb].
  induction r as [|y r IH]; [reflexivity|]. cbn [map List.concat forallb] in *.
  apply andb_true_iff in Hr as [Hy Hr]. rewrite !no_amp_app, Hy, (IH Hr). reflexivity.
Qed.

Lemma cname_no_amp : forall c, wf_names c = true -> no_amp (fst (cname c)) = true.
Proof.
  fix IH 1. intros c Hw. destruct c as [|p|t|t len|ret args ell|k n sz].
  - reflexivity.
  - cbn [cname fst].
    destruct (nth_in_or_default (Z.to_nat p) primitive_names []) as [Hin|Hd].
    + pose proof no_amp_prims as H. rewrite forallb_forall in H. apply H. exact Hin.
    + rewrite Hd. reflexivity.
  - cbn [cname]. unfold on_top. cbn [fst]. apply no_amp_insert; [apply IH; exact Hw|].
    destruct (is_array t); reflexivity.
  - cbn [cname]. unfold on_top. cbn [fst]. apply no_amp_insert; [apply IH; exact Hw|].
    destruct len; [|reflexivity]. rewrite !no_amp_app. unfold decimal.
    rewrite no_amp_dec_digits by reflexivity. reflexivity.
  - rewrite cname_func. unfold on_top. cbn [fst]. cbn [wf_names] in Hw.
    apply andb_true_iff in Hw as [Hr Ha].
    apply no_amp_insert; [apply IH; exact Hr|].
    rewrite !no_amp_app. cbn [andb].
    assert (Hargs : forallb no_amp (map (fun a => fst (cname a)) args) = true).
    { clear - IH Ha. induction args as [|a args IHa]; [reflexivity|]. cbn [forallb map] in *.
      apply andb_true_iff in Ha as [H0 H1]. rewrite (IH a H0), (IHa H1). reflexivity. }
    rewrite no_amp_sep_commas.
    + reflexivity.
    + rewrite forallb_app, Hargs. destruct ell; reflexivity.
  - cbn [cname fst]. exact Hw.
Qed.

(* ---------------------------------------------------------------- the marker test of FFI.getctype *)
Lemma contains_no_amp : forall s, no_amp s = true -> contains [38%N; 91%N] s = false.
Proof.
  induction s as [|c s IH]; intros H; [reflexivity|].
  cbn [no_amp forallb] in H. apply andb_true_iff in H as [Hc Hs].
  cbn [contains is_prefix]. apply negb_true_iff in Hc. rewrite N.eqb_sym in Hc. rewrite Hc. cbn [andb orb].
  apply IH. exact Hs.
Qed.

Lemma contains_marker : forall h t, no_amp h = true -> no_amp t = true ->
  contains [38%N; 91%N] (h ++ 38%N :: t) = first_is t 91%N.
Proof.
  induction h as [|c h IH]; intros t Hh Ht.
  - cbn [app contains is_prefix]. rewrite N.eqb_refl. cbn [andb].
    destruct t as [|x t']; [reflexivity|]. cbn [first_is is_prefix].
    rewrite N.eqb_sym. destruct (N.eqb x 91); [reflexivity|]. cbn [andb orb].
    apply contains_no_amp. exact Ht.
  - cbn [no_amp forallb] in Hh. apply andb_true_iff in Hh as [Hc Hh].
    cbn [app contains is_prefix]. apply negb_true_iff in Hc. rewrite N.eqb_sym in Hc. rewrite Hc.
    cbn [andb orb]. apply IH; assumption.
Qed.

Theorem marker_test_iff_array : forall c, wf_names c = true ->
  contains py_probe (getcname c py_marker) = is_array c.
Proof.
  intros c Hw. unfold getcname, insert_at, py_probe, py_marker. cbn [app].
  rewrite contains_marker.
  - apply tail_bracket_iff_array.
  - apply no_amp_firstn, cname_no_amp, Hw.
  - apply no_amp_skipn, cname_no_amp, Hw.
Qed.

(* ---------------------------------------------------------------- getctype_c = getctype_py *)
Theorem getctype_agree : forall c x, wf_names c = true -> getctype_c c x = getctype_py c x.
Proof.
  intros c x Hw. unfold getctype_c, getctype_py.
  rewrite (marker_test_iff_array c Hw).
  set (y := strip x).
  assert (Hstar : is_prefix py_star y = first_is y c_star).
  { unfold py_star. destruct y as [|a y']; [reflexivity|]. cbn. rewrite N.eqb_sym, andb_true_r. reflexivity. }
  rewrite Hstar.
  destruct (first_is y c_star && is_array c) eqn:E.
  - cbn [negb andb app]. unfold py_lparen, py_rparen. reflexivity.
  - cbn [negb andb app]. rewrite app_nil_r.
    assert (Hns : first_in y py_nospace = (first_is y c_lbr || first_is y c_lpar)%bool).
    { unfold py_nospace. destruct y as [|a y']; [reflexivity|]. cbn. rewrite orb_false_r. reflexivity. }
    rewrite Hns. rewrite negb_orb.
    destruct (nonempty y && (negb (first_is y c_lbr) && negb (first_is y c_lpar)))%bool eqn:E2.
    + rewrite <- andb_assoc, E2. reflexivity.
    + rewrite <- andb_assoc, E2. reflexivity.
Qed.
