(* C08 — the property's SECOND sentence, "getctype(T, x) names the type x builds over T", for the declarator
   texts x = "*", "[n]", "[]" and "( * )(args)":  ffi_getctype (ffi_obj.c:623) applied to T and that text returns
   exactly ct_name of the pointer / array / function-pointer type over T as the backend's constructors
   (new_pointer_type, new_array_type, fb_build_name; Model.cname) build it — for EVERY ctype T, including the
   parenthesis that an array T needs around '*'.  Composed with Proofs5.reparse_keyword_types (C parser model of
   C07, read-only) it gives typeof(getctype(T, "*")) = pointer-to-T and typeof(getctype(T, "[n]")) = T[n] on the
   re-parsing class. *)
From Coq Require Import List Arith NArith ZArith Lia Bool String.
Import ListNotations.
From Cffi Require Import C25.Model C07.Model C07.Realize C07.PyModel C07.Specs C07.Tables C07.Sequel C07.Sequel2 C07.Agree.
From Cffi Require Import C08.Gen C08.Model C08.Proofs C08.Spec C08.Proofs2 C08.Proofs4 C08.Proofs5.

(* strip() leaves a text alone when neither end is white space *)
Lemma lstrip_cons_nonspace : forall c r, is_cspace c = false -> lstrip (c :: r) = c :: r.
Proof. intros c r H. cbn [lstrip]. rewrite H. reflexivity. Qed.

Lemma strip_bracketed : forall a m b, is_cspace a = false -> is_cspace b = false ->
  strip (a :: m ++ [b]) = a :: m ++ [b].
Proof.
  intros a m b Ha Hb. unfold strip. rewrite lstrip_cons_nonspace by exact Ha.
  change (a :: m ++ [b]) with ((a :: m) ++ [b]). rewrite rev_app_distr. cbn [rev app].
  rewrite lstrip_cons_nonspace by exact Hb.
  transitivity (rev (rev (a :: m)) ++ [b]); [reflexivity | rewrite rev_involutive; reflexivity].
Qed.

(* x = "*" *)
Lemma getctype_star : forall T, getctype_c T [c_star] = fst (cname (CPtr T)).
Proof.
  intros T. unfold getctype_c. change (strip [c_star]) with [c_star].
  cbn [first_is nonempty]. rewrite N.eqb_refl. cbn [cname on_top fst getcname].
  unfold getcname. destruct (is_array T); reflexivity.
Qed.

(* x = "[n]" and x = "[]" *)
Lemma getctype_brackets : forall T m, getctype_c T ([c_lbr] ++ m ++ [c_rbr]) = insert_at (fst (cname T)) (snd (cname T)) ([c_lbr] ++ m ++ [c_rbr]).
Proof.
  intros T m. unfold getctype_c. cbn [app]. rewrite strip_bracketed by reflexivity.
  cbn [first_is nonempty]. change (N.eqb c_lbr c_star) with false. rewrite N.eqb_refl.
  cbn [andb negb app]. rewrite app_nil_r. reflexivity.
Qed.

Lemma getctype_array : forall T n, getctype_c T ([c_lbr] ++ decimal n ++ [c_rbr]) = fst (cname (CArr T (Some n))).
Proof. intros. rewrite getctype_brackets. reflexivity. Qed.

Lemma getctype_open_array : forall T, getctype_c T [c_lbr; c_rbr] = fst (cname (CArr T None)).
Proof. intros. apply (getctype_brackets T []). Qed.

(* x = "( * )(args)": the text fb_build_name puts at the position of the result type *)
Definition func_suffix (args : list ctype) (ell : bool) : str :=
  s2l "(*)" ++ [c_lpar] ++ sep_commas (map (fun a => fst (cname a)) args ++ if ell then [s2l "..."] else []) ++ [c_rpar].

Lemma getctype_funcptr : forall T args ell, getctype_c T (func_suffix args ell) = fst (cname (CFunc T args ell)).
Proof.
  intros T args ell. unfold getctype_c, func_suffix.
  set (inner := sep_commas _).
  change (s2l "(*)" ++ [c_lpar] ++ inner ++ [c_rpar]) with (c_lpar :: ([c_star; c_rpar; c_lpar] ++ inner) ++ [c_rpar]).
  rewrite strip_bracketed by reflexivity.
  cbn [first_is nonempty]. change (N.eqb c_lpar c_star) with false. change (N.eqb c_lpar c_lbr) with false.
  rewrite N.eqb_refl. cbn [andb negb app]. rewrite app_nil_r.
  unfold getcname, insert_at. cbn [cname]. fold inner. destruct (cname T) as [rn rp]. cbn [fst snd].
  f_equal. change (s2l "(*)") with [c_lpar; c_star; c_rpar]. cbn [app]. rewrite <- app_assoc. reflexivity.
Qed.

Theorem getctype_suffix_is_name : forall T,
  getctype_c T (s2l "*") = fst (cname (CPtr T)) /\
  (forall n, getctype_c T ([c_lbr] ++ decimal n ++ [c_rbr]) = fst (cname (CArr T (Some n)))) /\
  getctype_c T (s2l "[]") = fst (cname (CArr T None)) /\
  (forall args ell, getctype_c T (func_suffix args ell) = fst (cname (CFunc T args ell))).
Proof.
  intros T. split; [apply getctype_star|]. split; [apply getctype_array|]. split; [apply getctype_open_array|].
  apply getctype_funcptr.
Qed.

(* typeof(getctype(T, "*")) / typeof(getctype(T, "[n]")) on the re-parsing class (C side): the hypotheses are those of
   reparse_keyword_types for the RESULT type (its tree, buildable, buffer room, nesting) *)
Theorem typeof_getctype_suffix : forall (g : genv) (osz : nat) T,
  table_ok (map fst (g_globals g)) ->
  (forall p s, syn (CPtr T) = Some (p, s) -> build (mty_of (CPtr T)) = Some (RT (CPtr T)) ->
     (S (nops (to_decl s)) <= osz)%nat -> (cost (to_decl s) < 999)%nat ->
     c_typeof osz g (getctype_c T (s2l "*")) = Some (CPtr T)) /\
  (forall n p s, syn (CArr T (Some n)) = Some (p, s) ->
     build (mty_of (CArr T (Some n))) = Some (RT (CArr T (Some n))) ->
     (S (nops (to_decl s)) <= osz)%nat -> (cost (to_decl s) < 999)%nat ->
     c_typeof osz g (getctype_c T ([c_lbr] ++ decimal n ++ [c_rbr])) = Some (CArr T (Some n))).
Proof.
  intros g osz T Htab. split.
  - intros p s Hs Hb Hr Hc. change (s2l "*") with [c_star]. rewrite getctype_star.
    eapply reparse_keyword_types; eassumption.
  - intros n p s Hs Hb Hr Hc. rewrite getctype_array. eapply reparse_keyword_types; eassumption.
Qed.
