(* C08 — an independent specification of how a C type is written around a declarator (C11 6.7.6),
   outside-in, with C's precedence rule: the suffixes [n] and (args) bind tighter than the prefix *,
   so a declarator that begins with * is parenthesised before a suffix is appended to it.
   Written without reference to ct_name / ct_name_position; cffi's spacing conventions only:
   a declarator that begins with * is separated by one space from what precedes it (the base type
   name or another star), except directly inside parentheses; nothing else is separated. *)
From Coq Require Import List NArith ZArith String.
Import ListNotations.
From Cffi Require Import C07.Model C07.Realize C08.Model.

(* what the declarator text currently begins with *)
Inductive dkind := DTight   (* empty, a name, or something already followed by a suffix *)
                 | DStar.   (* begins with '*' *)

(* embedding after a type name or after a '*' *)
Definition emb (d : str) (k : dkind) : str := match k with DStar => 32%N :: d | DTight => d end.
(* embedding before a suffix: precedence *)
Definition grp (d : str) (k : dkind) : str := match k with DStar => [c_lpar] ++ d ++ [c_rpar] | DTight => d end.

Definition array_suffix (len : option Z) : str :=
  match len with Some n => [c_lbr] ++ decimal n ++ [c_rbr] | None => [c_lbr; c_rbr] end.

Fixpoint decl (T : ctype) (d : str) (k : dkind) : str :=
  match T with
  | CVoid => s2l "void" ++ emb d k
  | CPrim p => nth (Z.to_nat p) primitive_names [] ++ emb d k
  | CAgg _ n _ => n ++ emb d k
  | CPtr t => decl t (c_star :: emb d k) DStar
  | CArr t len => decl t (grp d k ++ array_suffix len) DTight
  | CFunc ret args ell =>
      (* cffi's function ctype is a pointer to function: first the pointer, then the parameter list *)
      decl ret (grp (c_star :: emb d k) DStar ++ [c_lpar]
                ++ sep_commas (map (fun a => decl a [] DTight) args ++ if ell then [s2l "..."] else [])
                ++ [c_rpar]) DTight
  end.

(* the text of `T <hole>` with x in the hole *)
Definition decl_string (T : ctype) (x : str) : str := decl T x DTight.
