(* C08 — ct_name with text inserted at ct_name_position is the C declaration of Spec.v. *)
From Coq Require Import List Arith NArith ZArith Lia Bool String.
Import ListNotations.
From Cffi Require Import C07.Model C07.Realize C08.Gen C08.Model C08.Proofs C08.Spec.

Lemma getcname_base n x : insert_at n (List.length n) x = n ++ x.
Proof. unfold insert_at. rewrite firstn_all, skipn_all, app_nil_r. reflexivity. Qed.

Lemma getcname_nil : forall T, getcname T [] = fst (cname T).
Proof. intros. unfold getcname, insert_at. cbn [app]. apply firstn_skipn. Qed.

(* both embeddings at once: a tight declarator is inserted as it is; one that begins with '*' is
   inserted after a space, or between parentheses when the type is an array *)
Definition hole_text (T : ctype) (d : str) (k : dkind) : str :=
  match k with
  | DTight => d
  | DStar => if is_array T then [c_lpar] ++ d ++ [c_rpar] else 32%N :: d
  end.

Lemma decl_is_getcname : forall T d k, decl T d k = getcname T (hole_text T d k).
Proof.
  fix IH 1. intros T d k. destruct T as [|p|t|t len|ret args ell|ak n sz].
  - cbn [decl]. unfold getcname. cbn [cname fst snd]. change 4 with (List.length (s2l "void")).
    rewrite getcname_base. destruct k; reflexivity.
  - cbn [decl]. unfold getcname. cbn [cname fst snd]. rewrite getcname_base. destruct k; reflexivity.
  - cbn [decl]. rewrite IH. rewrite getcname_ptr. cbn [hole_text is_array].
    destruct k; cbn [emb]; destruct (is_array t); reflexivity.
  - cbn [decl]. rewrite IH. rewrite getcname_arr. cbn [hole_text is_array]. unfold array_suffix.
    destruct k; cbn [grp]; reflexivity.
  - cbn [decl]. rewrite IH. rewrite getcname_func. cbn [hole_text is_array].
    assert (Hargs : map (fun a => decl a [] DTight) args = map (fun a => fst (cname a)) args).
    { clear - IH. induction args as [|a args IHa]; [reflexivity|]. cbn [map].
      rewrite IHa, IH. cbn [hole_text]. rewrite getcname_nil. reflexivity. }
    rewrite Hargs. destruct k; cbn [emb grp]; rewrite <- ?app_assoc; reflexivity.
  - cbn [decl]. unfold getcname. cbn [cname fst snd]. rewrite getcname_base. destruct k; reflexivity.
Qed.

Theorem position_is_hole : forall T x, getcname T x = decl_string T x.
Proof. intros. unfold decl_string. rewrite decl_is_getcname. reflexivity. Qed.

Corollary cname_is_abstract_declarator : forall T, fst (cname T) = decl_string T [].
Proof. intros. rewrite <- position_is_hole. symmetry. apply getcname_nil. Qed.

(* getctype of both FFIs, in terms of the specification only: white space is stripped; a text that
   begins with '*' is a pointer declarator (precedence applies); '[' and '(' are suffixes and attach
   directly; anything else (a name) is separated from the type by one space *)
Definition getctype_spec (T : ctype) (replace_with : str) : str :=
  let x := strip replace_with in
  if first_is x c_star then decl T x DStar
  else if nonempty x && negb (first_is x c_lbr) && negb (first_is x c_lpar) then decl_string T (32%N :: x)
  else decl_string T x.

Theorem getctype_c_is_spec : forall T x, getctype_c T x = getctype_spec T x.
Proof.
  intros T x. unfold getctype_c, getctype_spec. set (y := strip x).
  destruct (first_is y c_star) eqn:Es.
  - rewrite decl_is_getcname. cbn [hole_text andb].
    assert (Hne : nonempty y = true) by (destruct y; [discriminate|reflexivity]).
    assert (Hb : first_is y c_lbr = false).
    { destruct y as [|a y']; [reflexivity|]. cbn in *. apply N.eqb_eq in Es. subst a. reflexivity. }
    assert (Hp : first_is y c_lpar = false).
    { destruct y as [|a y']; [reflexivity|]. cbn in *. apply N.eqb_eq in Es. subst a. reflexivity. }
    rewrite Hne, Hb, Hp. destruct (is_array T); cbn [negb andb app]; rewrite ?app_nil_r; reflexivity.
  - cbn [andb negb]. unfold decl_string. rewrite !decl_is_getcname. cbn [hole_text app].
    destruct (nonempty y && negb (first_is y c_lbr) && negb (first_is y c_lpar))%bool eqn:E2.
    + rewrite app_nil_r. reflexivity.
    + rewrite app_nil_r. reflexivity.
Qed.
