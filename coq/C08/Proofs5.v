(* C08 — the re-parsing half on the class of types covered by C07.Agree.agree_partial:
   keyword primitives (void, _Bool ... long double), pointers, arrays of known length.
   For every such T that the backend can build, the C parser model of C07 (parse_c_type.c + realize)
   reads ct_name back as T:  c_typeof osz g (fst (cname T)) = Some T.

   Route: T --syn--> (primitive index, simple declarator tree)  [the tree whose spelling is ct_name]
     1. spelling:   the tokens of the tree, laid out with cffi's blanks, are exactly fst (cname T)
                    (through the precedence printer decl_string of C08/Spec.v);
     2. meaning:    the tree applied to the primitive denotes T (C07's apply_decl / build);
     3. C07.Agree.agree_partial: the C parser on that spelling = the meaning of the tree.
   C07 is imported read-only. *)
From Coq Require Import List Arith NArith ZArith Lia Bool String.
Import ListNotations.
From Cffi Require Import C25.Model C07.Model C07.Realize C07.PyModel C07.Specs C07.Tables C07.Sequel C07.Sequel2 C07.Agree.
From Cffi Require Import C08.Gen C08.Model C08.Proofs C08.Spec C08.Proofs2 C08.Proofs4.

(* ---------------------------------------------------------------- simple declarators *)
(* stars, then an optional parenthesised inner declarator, then array lengths:  * * ( inner ) [a][b] *)
Inductive sd := SDn (stars : nat) (inner : option sd) (arrs : list Z).

Fixpoint to_decl (s : sd) : PyModel.decl :=
  match s with
  | SDn st inner arrs =>
    D (repeat HStar st) None
      (match inner with Some i => Some (None, to_decl i) | None => None end)
      [] (map (fun n => ALLit (decimal n)) arrs)
  end.

(* T, outside-in: arrays are collected (outermost first), then the stars under them; an array found under
   stars closes the current segment, which becomes the parenthesised inner declarator of the next one *)
Fixpoint go (T : ctype) (arrs : list Z) (stars : nat) (grp : option sd) : option (Z * sd) :=
  match T with
  | CVoid => Some (0%Z, SDn stars grp arrs)
  | CPrim p => if ((1 <=? p) && (p <=? 15))%Z then Some (p, SDn stars grp arrs) else None
  | CPtr t => go t arrs (S stars) grp
  | CArr t (Some n) =>
    if ((0 <=? n) && (n <=? MAX_SSIZE_T))%Z then
      match stars with
      | O => go t (arrs ++ [n]) O grp
      | S _ => go t [n] O (Some (SDn stars grp arrs))
      end
    else None
  | _ => None
  end.
Definition syn (T : ctype) : option (Z * sd) := go T [] O None.

(* the class, as a boolean *)
Fixpoint kw_type (T : ctype) : bool :=
  match T with
  | CVoid => true
  | CPrim p => ((1 <=? p) && (p <=? 15))%Z
  | CPtr t => kw_type t
  | CArr t (Some n) => ((0 <=? n) && (n <=? MAX_SSIZE_T))%Z && kw_type t
  | _ => false
  end.

Lemma go_total : forall T arrs stars grp, kw_type T = true -> exists p s, go T arrs stars grp = Some (p, s).
Proof.
  induction T as [|p|t IH|t IH len|ret _ args ell|k n sz]; intros arrs stars grp H; cbn in H; try discriminate.
  - eexists _, _. reflexivity.
  - cbn. rewrite H. eexists _, _. reflexivity.
  - cbn. apply IH. exact H.
  - destruct len as [n|]; [|discriminate]. apply andb_true_iff in H as [Hn Ht]. cbn. rewrite Hn.
    destruct stars; apply IH; exact Ht.
Qed.

(* ---------------------------------------------------------------- 1a. text of a simple declarator *)
Definition stars_text (bare : bool) (n : nat) : str :=
  match n with
  | O => []
  | S k => (if bare then [c_star] else [32%N; c_star]) ++ List.concat (repeat [32%N; c_star] k)
  end.
Definition arrs_text (arrs : list Z) : str :=
  List.concat (map (fun n => [c_lbr] ++ decimal n ++ [c_rbr]) arrs).
Fixpoint sd_text (bare : bool) (s : sd) : str :=
  match s with
  | SDn st inner arrs =>
    stars_text bare st
    ++ (match inner with Some i => [c_lpar] ++ sd_text true i ++ [c_rpar] | None => [] end)
    ++ arrs_text arrs
  end.

Definition base_name (p : Z) : str := if (p =? 0)%Z then s2l "void" else nth (Z.to_nat p) primitive_names [].

Lemma stars_text_S : forall k, stars_text true (S (S k)) = c_star :: 32%N :: stars_text true (S k).
Proof.
  intros k. cbn [stars_text repeat List.concat app].
  induction k as [|k IH]; [reflexivity|]. reflexivity.
Qed.

Lemma stars_text_false : forall k, stars_text false (S k) = 32%N :: stars_text true (S k).
Proof. reflexivity. Qed.

Lemma arrs_text_app : forall a b, arrs_text (a ++ b) = arrs_text a ++ arrs_text b.
Proof. intros. unfold arrs_text. rewrite map_app, concat_app. reflexivity. Qed.

Definition kind_of (stars : nat) : dkind := match stars with O => DTight | S _ => DStar end.

Lemma go_text : forall T arrs stars gr p s, go T arrs stars gr = Some (p, s) ->
  decl T (sd_text true (SDn stars gr arrs)) (kind_of stars) = base_name p ++ sd_text false s.
Proof.
  induction T as [|q|t IH|t IH len|ret _ args ell|k n sz]; intros arrs stars gr p s H; cbn [go] in H; try discriminate.
  - inversion H; subst. cbn [decl]. unfold base_name. cbn [Z.eqb]. f_equal.
    destruct stars; [reflexivity|]. cbn [kind_of emb sd_text]. rewrite stars_text_false. reflexivity.
  - destruct ((1 <=? q) && (q <=? 15))%Z eqn:E; [|discriminate]. inversion H; subst. cbn [decl].
    unfold base_name. replace (p =? 0)%Z with false by (symmetry; apply Z.eqb_neq; lia). f_equal.
    destruct stars; [reflexivity|]. cbn [kind_of emb sd_text]. rewrite stars_text_false. reflexivity.
  - cbn [decl]. rewrite <- (IH _ _ _ _ _ H). cbn [kind_of]. f_equal.
    destruct stars as [|j].
    + reflexivity.
    + cbn [kind_of emb sd_text]. rewrite stars_text_S. reflexivity.
  - destruct len as [n|]; [|discriminate].
    destruct ((0 <=? n) && (n <=? MAX_SSIZE_T))%Z; [|discriminate]. cbn [decl].
    destruct stars as [|j].
    + rewrite <- (IH _ _ _ _ _ H). cbn [kind_of Spec.grp sd_text stars_text app]. f_equal.
      rewrite arrs_text_app. unfold array_suffix. cbn [arrs_text map List.concat]. rewrite app_nil_r, <- !app_assoc.
      reflexivity.
    + rewrite <- (IH _ _ _ _ _ H). cbn [kind_of Spec.grp]. f_equal.
      cbn [sd_text stars_text arrs_text map List.concat app]. unfold array_suffix. rewrite app_nil_r, <- !app_assoc.
      reflexivity.
Qed.

(* ct_name is the primitive name followed by the text of the declarator *)
Lemma cname_is_syn_text : forall T p s, syn T = Some (p, s) -> fst (cname T) = base_name p ++ sd_text false s.
Proof.
  intros T p s H. rewrite cname_is_abstract_declarator. unfold decl_string.
  exact (go_text T [] O None p s H).
Qed.

(* ---------------------------------------------------------------- 1b. tokens laid out with cffi's blanks *)
(* one blank before a '*' unless it follows '(' ; one blank between two words; nothing else *)
Definition gap (prev tok : str) : str :=
  if str_eqb tok [c_star] then (if str_eqb prev [c_lpar] then [] else [32%N])
  else if wordy_end prev && wordy_start tok then [32%N] else [].
Fixpoint lay (prev : str) (toks : list str) : list (str * str) :=
  match toks with [] => [] | t :: r => (gap prev t, t) :: lay t r end.
Definition txt (prev : str) (toks : list str) : str :=
  List.concat (map (fun wt => fst wt ++ snd wt) (lay prev toks)).
Definition lp (prev : str) : bool := str_eqb prev [c_lpar].

Lemma lay_snd : forall toks prev, map snd (lay prev toks) = toks.
Proof. induction toks as [|t r IH]; intros; cbn; [reflexivity|]. rewrite IH. reflexivity. Qed.

Lemma spell_lay : forall toks prev, spell (lay prev toks) [] = txt prev toks.
Proof. intros. unfold spell, txt. apply app_nil_r. Qed.

Lemma str_eqb_star : forall t, str_eqb t [c_star] = true -> t = [c_star].
Proof.
  intros [|a [|b r]] H; cbn in H; try discriminate.
  - apply andb_true_iff in H as [H _]. apply N.eqb_eq in H. subst. reflexivity.
  - apply andb_true_iff in H as [_ H]. discriminate.
Qed.

Lemma lay_sep_ok : forall toks prev, sep_ok prev (lay prev toks) = true.
Proof.
  induction toks as [|t r IH]; intros prev; [reflexivity|].
  cbn [lay sep_ok]. rewrite IH, andb_true_r. unfold gap.
  destruct (str_eqb t [c_star]) eqn:Es.
  - apply str_eqb_star in Es. subst t.
    destruct (str_eqb prev [c_lpar]); cbn; rewrite ?andb_false_r; reflexivity.
  - destruct (wordy_end prev && wordy_start t)%bool; reflexivity.
Qed.

Lemma last_nonempty : forall (x : str) l d1 d2, last (x :: l) d1 = last (x :: l) d2.
Proof. intros x l. revert x. induction l as [|y l IH]; intros x d1 d2; [reflexivity|]. cbn [last]. apply IH. Qed.

Lemma txt_app : forall a prev b, txt prev (a ++ b) = txt prev a ++ txt (last a prev) b.
Proof.
  induction a as [|t a IH]; intros prev b; [reflexivity|].
  unfold txt in *. cbn [app lay map List.concat]. rewrite IH. rewrite <- !app_assoc.
  destruct a as [|s a]; [reflexivity|]. rewrite (last_nonempty s a t prev). reflexivity.
Qed.

Lemma txt_cons : forall t r prev, txt prev (t :: r) = gap prev t ++ t ++ txt t r.
Proof. intros. unfold txt. cbn [lay map List.concat fst snd]. rewrite <- app_assoc. reflexivity. Qed.

(* tokens that never take a blank and do not depend on what precedes *)
Lemma gap_lpar : forall prev, gap prev [c_lpar] = [].
Proof. intros. unfold gap. cbn. rewrite andb_false_r. reflexivity. Qed.
Lemma gap_rpar : forall prev, gap prev [c_rpar] = [].
Proof. intros. unfold gap. cbn. rewrite andb_false_r. reflexivity. Qed.
Lemma gap_lbr : forall prev, gap prev [c_lbr] = [].
Proof. intros. unfold gap. cbn. rewrite andb_false_r. reflexivity. Qed.
Lemma gap_rbr : forall prev, gap prev [c_rbr] = [].
Proof. intros. unfold gap. cbn. rewrite andb_false_r. reflexivity. Qed.
Lemma gap_star : forall prev, gap prev [c_star] = if lp prev then [] else [32%N].
Proof. intros. reflexivity. Qed.

(* the decimal numeral: digits only, at least one *)
Definition isdig (c : N) : bool := (N.leb 48 c && N.leb c 57)%bool.

Lemma dec_digits_isdig : forall f n acc, (0 <= n)%Z -> forallb isdig acc = true ->
  forallb isdig (dec_digits f n acc) = true.
Proof.
  induction f as [|f IH]; intros n acc Hn Ha; cbn [dec_digits]; [exact Ha|].
  assert (Hd : forallb isdig (N.of_nat (Z.to_nat (48 + n mod 10)) :: acc) = true).
  { cbn [forallb]. rewrite Ha, andb_true_r. pose proof (Z.mod_pos_bound n 10 ltac:(lia)).
    unfold isdig. apply andb_true_iff. split; apply N.leb_le; lia. }
  destruct (n / 10 =? 0)%Z; [exact Hd|]. apply IH; [apply Z.div_pos; lia | exact Hd].
Qed.

Lemma dec_digits_nonempty : forall f n acc, dec_digits (S f) n acc <> [].
Proof.
  induction f as [|f IH]; intros n acc; cbn [dec_digits].
  - destruct (n / 10 =? 0)%Z; discriminate.
  - destruct (n / 10 =? 0)%Z; [discriminate|]. apply IH.
Qed.

Lemma decimal_shape : forall n, (0 <= n)%Z -> exists c r, decimal n = c :: r /\ isdig c = true /\ forallb isdig r = true.
Proof.
  intros n Hn. pose proof (dec_digits_isdig 25 n [] Hn eq_refl) as H. pose proof (dec_digits_nonempty 24 n []) as Hne.
  unfold decimal. destruct (dec_digits 25 n []) as [|c r]; [congruence|].
  cbn [forallb] in H. apply andb_true_iff in H as [H1 H2]. exists c, r. repeat split; assumption.
Qed.

Lemma gap_digits : forall n, (0 <= n)%Z -> gap [c_lbr] (decimal n) = [].
Proof.
  intros n Hn. destruct (decimal_shape n Hn) as [c [r [E [Hc _]]]]. rewrite E. unfold gap.
  assert (Hs : str_eqb (c :: r) [c_star] = false).
  { cbn. unfold isdig in Hc. apply andb_true_iff in Hc as [H1 H2]. apply N.leb_le in H1.
    replace (N.eqb c c_star) with false by (symmetry; apply N.eqb_neq; unfold c_star; lia). reflexivity. }
  rewrite Hs. reflexivity.
Qed.

Lemma txt_arrays : forall ds R K, (forall x, txt x R = K) -> Forall (fun n => (0 <= n)%Z) ds ->
  forall x, txt x (List.concat (map alen_tokens (map (fun n => ALLit (decimal n)) ds)) ++ R) = arrs_text ds ++ K.
Proof.
  induction ds as [|n ds IH]; intros R K HR Hds x.
  - cbn. apply HR.
  - inversion Hds as [|? ? Hn Hds']; subst.
    cbn [map alen_tokens List.concat]. rewrite <- !app_assoc. cbn [app].
    rewrite txt_cons, gap_lbr, txt_cons, gap_digits by exact Hn. rewrite txt_cons, gap_rbr.
    rewrite (IH R K HR Hds'). unfold arrs_text. cbn [map List.concat app]. rewrite <- !app_assoc. reflexivity.
Qed.

Lemma stars_text_step : forall b n,
  stars_text b (S n) = (if b then [] else [32%N]) ++ [c_star] ++ stars_text false n.
Proof.
  intros b n. destruct n as [|k]; cbn [stars_text repeat List.concat app].
  - destruct b; reflexivity.
  - destruct b; reflexivity.
Qed.

Lemma txt_stars : forall n prev R K, (forall x, txt x R = K) ->
  txt prev (repeat [c_star] n ++ R) = stars_text (lp prev) n ++ K.
Proof.
  induction n as [|n IH]; intros prev R K HR.
  - cbn. apply HR.
  - cbn [repeat app]. rewrite txt_cons, gap_star, (IH [c_star] R K HR), stars_text_step.
    change (lp [c_star]) with false. rewrite <- !app_assoc. reflexivity.
Qed.

Definition sd_lens_ok : sd -> Prop :=
  fix ok (s : sd) : Prop :=
    match s with
    | SDn st inner arrs =>
      Forall (fun n => (0 <= n <= MAX_SSIZE_T)%Z) arrs /\
      match inner with Some i => ok i | None => True end
    end.

Lemma decl_tokens_to_decl : forall st inner arrs,
  decl_tokens (to_decl (SDn st inner arrs)) =
  repeat [c_star] st
  ++ (match inner with Some i => [[c_lpar]] ++ decl_tokens (to_decl i) ++ [[c_rpar]] | None => [] end)
  ++ List.concat (map alen_tokens (map (fun n => ALLit (decimal n)) arrs)).
Proof.
  intros. cbn [to_decl decl_tokens]. f_equal.
  - induction st; cbn; [reflexivity|]. rewrite IHst. reflexivity.
  - destruct inner; reflexivity.
Qed.

Lemma txt_sd : forall s prev R K, sd_lens_ok s -> (forall x, txt x R = K) ->
  txt prev (decl_tokens (to_decl s) ++ R) = sd_text (lp prev) s ++ K.
Proof.
  fix IH 1. intros [st inner arrs] prev R K [Harrs Hin] HR.
  assert (Ha : Forall (fun n => (0 <= n)%Z) arrs).
  { eapply Forall_impl; [|exact Harrs]. cbn. intros. lia. }
  assert (Htail : forall x, txt x (List.concat (map alen_tokens (map (fun n => ALLit (decimal n)) arrs)) ++ R)
                            = arrs_text arrs ++ K) by (apply txt_arrays; assumption).
  rewrite decl_tokens_to_decl. cbn [sd_text].
  destruct inner as [i|].
  - assert (Hgrp : forall x, txt x ([c_lpar] :: decl_tokens (to_decl i) ++ [c_rpar] ::
                      List.concat (map alen_tokens (map (fun n => ALLit (decimal n)) arrs)) ++ R)
                    = [c_lpar] ++ sd_text true i ++ [c_rpar] ++ arrs_text arrs ++ K).
    { intros x. rewrite txt_cons, gap_lpar.
      rewrite (IH i [c_lpar] _ ([c_rpar] ++ arrs_text arrs ++ K) Hin).
      - change (lp [c_lpar]) with true. reflexivity.
      - intros y. rewrite txt_cons, gap_rpar, Htail. reflexivity. }
    rewrite <- !app_assoc. cbn [app]. etransitivity; [exact (txt_stars st prev _ _ Hgrp)|]. cbn [app]. reflexivity.
  - cbn [app]. rewrite <- !app_assoc. etransitivity; [exact (txt_stars st prev _ _ Htail)|]. reflexivity.
Qed.

(* ---------------------------------------------------------------- 2a. the array lengths are literals C07 accepts *)
Lemma digits_fold : forall s acc k, forallb isdig s = true ->
  fst (digits 10 s acc k) = fold_left (fun a c => (a * 10 + (Z.of_N c - 48))%Z) s acc.
Proof.
  induction s as [|c s IH]; intros acc k H; [reflexivity|].
  cbn [forallb] in H. apply andb_true_iff in H as [Hc Hs]. cbn [digits fold_left].
  unfold digit_val, in_range. unfold isdig in Hc. rewrite Hc.
  apply andb_true_iff in Hc as [H1 H2]. apply N.leb_le in H1. apply N.leb_le in H2.
  replace (Z.of_N c - 48 <? 10)%Z with true by (symmetry; apply Z.ltb_lt; lia).
  apply IH. exact Hs.
Qed.

Lemma all_digits_10 : forall s, forallb isdig s = true -> all_digits 10 s = true.
Proof.
  intros s H. unfold all_digits. rewrite forallb_forall in *. intros c Hc. specialize (H c Hc).
  unfold digit_val, in_range. unfold isdig in H. rewrite H.
  apply andb_true_iff in H as [H1 H2]. apply N.leb_le in H1. apply N.leb_le in H2. apply Z.ltb_lt. lia.
Qed.

Lemma leading_digit : forall f n acc, (0 < n < 10 ^ Z.of_nat f)%Z ->
  exists c r, dec_digits f n acc = c :: r /\ c <> 48%N.
Proof.
  induction f as [|f IH]; intros n acc Hn; [cbn in Hn; lia|].
  cbn [dec_digits]. rewrite Nat2Z.inj_succ, Z.pow_succ_r in Hn by lia.
  destruct (Z.eqb_spec (n / 10) 0) as [Hz|Hnz].
  - eexists _, _. split; [reflexivity|].
    assert (n mod 10 = n)%Z by (pose proof (Z.div_mod n 10 ltac:(lia)); lia). lia.
  - apply IH. split.
    + pose proof (Z.div_pos n 10 ltac:(lia) ltac:(lia)). lia.
    + apply Z.div_lt_upper_bound; lia.
Qed.

Lemma py_int_decimal : forall n, (0 <= n <= MAX_SSIZE_T)%Z -> py_int (decimal n) = Some n.
Proof.
  intros n Hn. unfold MAX_SSIZE_T in Hn.
  destruct (Z.eq_dec n 0) as [->|Hnz]; [vm_compute; reflexivity|].
  destruct (decimal_shape n ltac:(lia)) as [c [r [E [Hc Hr]]]].
  destruct (leading_digit 25 n [] ltac:(change (10 ^ Z.of_nat 25)%Z with 10000000000000000000000000%Z; lia))
    as [c' [r' [E' Hc']]].
  unfold decimal in E. rewrite E in E'. inversion E'; subst c' r'. clear E'.
  assert (Hval : fst (digits 10 (c :: r) 0 O) = n).
  { rewrite digits_fold by (cbn [forallb]; rewrite Hc, Hr; reflexivity).
    fold (dec_value (c :: r)). fold (decimal n) in E. rewrite <- E.
    apply (array_length_rendered_in_full n). change (2 ^ 64)%Z with 18446744073709551616%Z. lia. }
  assert (Hall : all_digits 10 (c :: r) = true)
    by (apply all_digits_10; cbn [forallb]; rewrite Hc, Hr; reflexivity).
  fold (decimal n) in E. rewrite E.
  unfold isdig in Hc. apply andb_true_iff in Hc as [H1 H2]. apply N.leb_le in H1. apply N.leb_le in H2.
  assert (Hcase : (c = 49 \/ c = 50 \/ c = 51 \/ c = 52 \/ c = 53 \/ c = 54 \/ c = 55 \/ c = 56 \/ c = 57)%N) by lia.
  destruct Hcase as [->|[->|[->|[->|[->|[->|[->|[->| ->]]]]]]]];
    unfold py_int; cbn [is_digit in_range N.leb N.compare Pos.compare Pos.compare_cont andb];
    rewrite Hall, Hval; reflexivity.
Qed.

Lemma alen_val_decimal : forall gl n, (0 <= n <= MAX_SSIZE_T)%Z ->
  alen_val gl (ALLit (decimal n)) = Some (Some n).
Proof.
  intros gl n Hn. cbn [alen_val]. rewrite py_int_decimal by exact Hn.
  replace (n <=? MAX_SSIZE_T)%Z with true by (symmetry; apply Z.leb_le; lia). reflexivity.
Qed.

(* ---------------------------------------------------------------- 2b. the tree is a simple declarator of C07 *)
Definition sd_stars (s : sd) : nat := match s with SDn st _ _ => st end.
Definition sd_ok : sd -> Prop :=
  fix ok (s : sd) : Prop :=
    match s with
    | SDn st inner arrs =>
      Forall (fun n => (0 <= n <= MAX_SSIZE_T)%Z) arrs /\
      match inner with
      | Some i => (0 < sd_stars i)%nat /\ ok i
      | None => True
      end
    end.

Lemma sd_ok_lens : forall s, sd_ok s -> sd_lens_ok s.
Proof.
  fix IH 1. intros [st inner arrs] [Ha Hi]. split; [exact Ha|].
  destruct inner as [i|]; [|exact I]. destruct Hi as [_ Hi]. apply IH. exact Hi.
Qed.

Lemma plain_stars : forall n, forallb hitem_plain (repeat HStar n) = true.
Proof. induction n; cbn; auto. Qed.

Lemma arrays_valid : forall gl arrs, Forall (fun n => (0 <= n <= MAX_SSIZE_T)%Z) arrs ->
  Forall (fun a => alen_val gl a <> None) (map (fun n => ALLit (decimal n)) arrs).
Proof.
  intros gl arrs H. induction H as [|n arrs Hn _ IH]; cbn [map]; constructor; [|exact IH].
  rewrite alen_val_decimal by exact Hn. discriminate.
Qed.

Lemma to_decl_sdecl : forall gl s, sd_ok s -> sdecl gl (to_decl s).
Proof.
  intros gl. fix IH 1. intros [st inner arrs] [Ha Hi]. cbn [to_decl].
  destruct inner as [i|].
  - destruct Hi as [Hpos Hi]. apply SD1.
    + apply plain_stars.
    + apply arrays_valid. exact Ha.
    + apply IH. exact Hi.
    + destruct i as [ist iin iarrs]. cbn [to_decl sd_stars] in *. destruct ist; [lia|]. reflexivity.
  - apply SD0; [apply plain_stars | apply arrays_valid; exact Ha].
Qed.

Lemma go_ok : forall T arrs stars gr p s,
  Forall (fun n => (0 <= n <= MAX_SSIZE_T)%Z) arrs ->
  match gr with Some i => (0 < sd_stars i)%nat /\ sd_ok i | None => True end ->
  go T arrs stars gr = Some (p, s) -> sd_ok s.
Proof.
  induction T as [|q|t IH|t IH len|ret _ args ell|k n sz]; intros arrs stars gr p s Ha Hg H; cbn [go] in H;
    try discriminate.
  - inversion H; subst. split; assumption.
  - destruct ((1 <=? q) && (q <=? 15))%Z; [|discriminate]. inversion H; subst. split; assumption.
  - eapply IH; eassumption.
  - destruct len as [n|]; [|discriminate].
    destruct ((0 <=? n) && (n <=? MAX_SSIZE_T))%Z eqn:En; [|discriminate].
    apply andb_true_iff in En as [E1 E2]. apply Z.leb_le in E1. apply Z.leb_le in E2.
    destruct stars as [|j].
    + eapply IH; [| exact Hg | exact H]. apply Forall_app. split; [exact Ha|]. constructor; [lia|constructor].
    + eapply IH; [| | exact H].
      * constructor; [lia|constructor].
      * split; [cbn; lia|]. split; assumption.
Qed.

(* ---------------------------------------------------------------- 2c. what the tree denotes *)
Fixpoint mty_of (T : ctype) : mty :=
  match T with
  | CVoid => MVoid
  | CPrim p => MPrim p
  | CPtr t => MPtr (mty_of t)
  | CArr t len => MArr (mty_of t) len
  | CFunc r _ _ => MVoid
  | CAgg k n sz => MAgg k n sz
  end.

Lemma nstars_repeat : forall n, nstars (repeat HStar n) = n.
Proof. induction n; cbn; [reflexivity|]. unfold nstars in *. cbn. rewrite IHn. reflexivity. Qed.

Lemma wrap_ptrs_shift : forall n m, wrap_ptrs (S n) m = wrap_ptrs n (MPtr m).
Proof.
  unfold wrap_ptrs. induction n as [|n IH]; intros m; [reflexivity|].
  change (Nat.iter (S (S n)) MPtr m) with (MPtr (Nat.iter (S n) MPtr m)). rewrite IH. reflexivity.
Qed.

Definition arrays_over (gl : list (str * gkind)) (arrs : list Z) (m : mty) : mty :=
  fold_right (fun a acc => MArr acc (lenval gl a)) m (map (fun n => ALLit (decimal n)) arrs).

Lemma apply_to_decl : forall gl st inner arrs m,
  apply_decl gl (to_decl (SDn st inner arrs)) m =
  let m2 := arrays_over gl arrs (wrap_ptrs st m) in
  match inner with Some i => apply_decl gl (to_decl i) m2 | None => m2 end.
Proof.
  intros. cbn [to_decl apply_decl fold_right]. rewrite nstars_repeat. unfold arrays_over.
  destruct inner; reflexivity.
Qed.

Lemma lenval_decimal : forall gl n, (0 <= n <= MAX_SSIZE_T)%Z -> lenval gl (ALLit (decimal n)) = Some n.
Proof. intros. unfold lenval. rewrite alen_val_decimal by assumption. reflexivity. Qed.

Lemma arrays_over_snoc : forall gl arrs n m, (0 <= n <= MAX_SSIZE_T)%Z ->
  arrays_over gl (arrs ++ [n]) m = arrays_over gl arrs (MArr m (Some n)).
Proof.
  intros. unfold arrays_over. rewrite map_app, fold_right_app. cbn [map fold_right].
  rewrite lenval_decimal by assumption. reflexivity.
Qed.

Lemma go_meaning : forall gl T arrs stars gr p s, go T arrs stars gr = Some (p, s) ->
  apply_decl gl (to_decl s) (prim_mty p) = apply_decl gl (to_decl (SDn stars gr arrs)) (mty_of T).
Proof.
  intros gl. induction T as [|q|t IH|t IH len|ret _ args ell|k n sz]; intros arrs stars gr p s H; cbn [go] in H;
    try discriminate.
  - inversion H; subst. reflexivity.
  - destruct ((1 <=? q) && (q <=? 15))%Z eqn:E; [|discriminate]. inversion H; subst.
    unfold prim_mty. replace (p =? 0)%Z with false by (symmetry; apply Z.eqb_neq; lia). reflexivity.
  - rewrite (IH _ _ _ _ _ H). rewrite !apply_to_decl. cbv zeta. rewrite wrap_ptrs_shift. reflexivity.
  - destruct len as [n|]; [|discriminate].
    destruct ((0 <=? n) && (n <=? MAX_SSIZE_T))%Z eqn:En; [|discriminate].
    apply andb_true_iff in En as [E1 E2]. apply Z.leb_le in E1. apply Z.leb_le in E2.
    destruct stars as [|j]; rewrite (IH _ _ _ _ _ H); cbn [mty_of].
    + rewrite !apply_to_decl. cbv zeta. rewrite arrays_over_snoc by lia. reflexivity.
    + rewrite (apply_to_decl gl O). cbv zeta. unfold arrays_over, wrap_ptrs. cbn [map fold_right Nat.iter].
      rewrite lenval_decimal by lia. reflexivity.
Qed.

(* ---------------------------------------------------------------- 3. the keyword spelling of the primitive *)
Definition kw_words (p : Z) : list word :=
  nth (Z.to_nat p)
      [ [WB Bvoid]; [WB Bbool]; [WB Bchar]; [WM Msigned; WB Bchar]; [WM Munsigned; WB Bchar]; [WM Mshort];
        [WM Munsigned; WM Mshort]; [WB Bint]; [WM Munsigned; WB Bint]; [WM Mlong]; [WM Munsigned; WM Mlong];
        [WM Mlong; WM Mlong]; [WM Munsigned; WM Mlong; WM Mlong]; [WB Bfloat]; [WB Bdouble];
        [WM Mlong; WB Bdouble] ] [].
Definition base_tokens (p : Z) : list str := List.concat (map stok_tokens (map stok_of_word (kw_words p))).

Definition opt_eqbZ (a b : option Z) : bool :=
  match a, b with Some x, Some y => (x =? y)%Z | None, None => true | _, _ => false end.
Definition kw_check (p : Z) : bool :=
  negb (match kw_words p with [] => true | _ => false end) && sign_ok (kw_words p)
  && opt_eqbZ (py_spec_abs (kw_words p)) (Some p)
  && str_eqb (txt [] (base_tokens p)) (base_name p)
  && negb (lp (last (base_tokens p) [])).

Lemma kw_check_all : forallb kw_check (map Z.of_nat (seq 0 16)) = true.
Proof. vm_compute. reflexivity. Qed.

Lemma kw_facts : forall p, (0 <= p <= 15)%Z ->
  kw_words p <> [] /\ sign_ok (kw_words p) = true /\ py_spec_abs (kw_words p) = Some p /\
  txt [] (base_tokens p) = base_name p /\ lp (last (base_tokens p) []) = false.
Proof.
  intros p Hp. pose proof kw_check_all as H. rewrite forallb_forall in H.
  assert (Hin : In p (map Z.of_nat (seq 0 16))).
  { apply in_map_iff. exists (Z.to_nat p). split; [lia|]. apply in_seq. lia. }
  specialize (H p Hin). unfold kw_check in H.
  repeat (apply andb_true_iff in H; destruct H as [H ?]).
  repeat split.
  - destruct (kw_words p); [discriminate|congruence].
  - assumption.
  - destruct (py_spec_abs (kw_words p)) as [q|]; cbn in *; [|discriminate].
    match goal with E : (q =? p)%Z = true |- _ => apply Z.eqb_eq in E; congruence end.
  - apply str_eqb_eq. assumption.
  - match goal with E : negb _ = true |- _ => apply negb_true_iff in E; exact E end.
Qed.

Lemma go_prim_range : forall T arrs stars gr p s, go T arrs stars gr = Some (p, s) -> (0 <= p <= 15)%Z.
Proof.
  induction T as [|q|t IH|t IH len|ret _ args ell|k n sz]; intros arrs stars gr p s H; cbn [go] in H; try discriminate.
  - inversion H; lia.
  - destruct ((1 <=? q) && (q <=? 15))%Z eqn:E; [|discriminate]. inversion H; subst. lia.
  - eapply IH; eassumption.
  - destruct len as [n|]; [|discriminate]. destruct ((0 <=? n) && (n <=? MAX_SSIZE_T))%Z; [|discriminate].
    destruct stars; eapply IH; eassumption.
Qed.

(* ---------------------------------------------------------------- 4. the theorem *)
Theorem reparse_keyword_types : forall (g : genv) (osz : nat) T p s,
  syn T = Some (p, s) ->
  build (mty_of T) = Some (RT T) ->
  table_ok (map fst (g_globals g)) ->
  (S (nops (to_decl s)) <= osz)%nat -> (cost (to_decl s) < 999)%nat ->
  c_typeof osz g (fst (cname T)) = Some T.
Proof.
  intros g osz T p s Hsyn Hbuild Htab Hroom Hdepth.
  pose proof (go_prim_range _ _ _ _ _ _ Hsyn) as Hp.
  destruct (kw_facts p Hp) as (Hne & Hsign & Hspec & Hbase & Hlast).
  assert (Hok : sd_ok s) by (eapply (go_ok T [] O None); [constructor | exact I | exact Hsyn]).
  set (ws := kw_words p). set (d := to_decl s).
  set (toks := te_tokens (simple_te [] ws d)).
  assert (Hd : sdecl (g_globals g) d) by (apply to_decl_sdecl; exact Hok).
  pose proof (agree_partial g osz [] ws d (lay [] toks) [] Hne Hsign Htab Hd (lay_snd toks []) (lay_sep_ok toks [])
                            eq_refl Hroom Hdepth) as HA.
  (* the spelling is ct_name *)
  assert (Hspell : spell (lay [] toks) [] = fst (cname T)).
  { rewrite spell_lay. unfold toks, simple_te. cbn [map app]. rewrite te_tokens_TE.
    change (List.concat (map stok_tokens (map stok_of_word ws))) with (base_tokens p). rewrite txt_app, Hbase.
    rewrite <- (app_nil_r (decl_tokens d)).
    rewrite (txt_sd s _ [] [] (sd_ok_lens s Hok) (fun _ => eq_refl)).
    rewrite Hlast, app_nil_r. symmetry. apply cname_is_syn_text. exact Hsyn. }
  rewrite Hspell in HA. rewrite HA.
  (* the meaning is T *)
  unfold denote.
  assert (Hpy : denote_mty g (simple_te [] ws d) = Some (mty_of T)).
  { unfold denote_mty, simple_te. cbn [py_te]. rewrite py_decl_sdecl by exact Hd.
    cbn [denote_py]. rewrite filter_specs, denote_base_words by exact Hne.
    fold ws in Hspec. rewrite Hspec. cbn [option_map]. f_equal.
    unfold d. rewrite (go_meaning (g_globals g) T [] O None p s Hsyn).
    rewrite apply_to_decl. reflexivity. }
  rewrite Hpy, Hbuild. reflexivity.
Qed.

(* the class is not empty of interest: every type made of keyword primitives, pointers and arrays has a tree *)
Lemma syn_total : forall T, kw_type T = true -> exists p s, syn T = Some (p, s).
Proof. intros T H. apply go_total. exact H. Qed.

(* ffi_getctype(T, "") is ct_name: the theorem is the property's first sentence, typeof(getctype(T)) is T,
   for the C-side parser on this class *)
Lemma getctype_empty : forall T, getctype_c T [] = fst (cname T).
Proof. intros. unfold getctype_c. cbn. apply getcname_nil. Qed.

Corollary typeof_getctype_keyword_types : forall (g : genv) (osz : nat) T p s,
  syn T = Some (p, s) -> build (mty_of T) = Some (RT T) -> table_ok (map fst (g_globals g)) ->
  (S (nops (to_decl s)) <= osz)%nat -> (cost (to_decl s) < 999)%nat ->
  c_typeof osz g (getctype_c T []) = Some T.
Proof. intros. rewrite getctype_empty. eapply reparse_keyword_types; eassumption. Qed.
