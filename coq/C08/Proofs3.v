(* C08 — model.get_c_name (Python type objects) computes what FFI.getctype computes. *)
From Coq Require Import List Arith NArith ZArith Lia Bool String.
Import ListNotations.
From Cffi Require Import C07.Model C07.Realize C08.Gen C08.Model C08.Proofs.

Lemma replace_char_no_amp : forall s r, no_amp s = true -> replace_char s 38%N r = s.
Proof.
  induction s as [|c s IH]; intros r H; [reflexivity|].
  cbn [no_amp forallb] in H. apply andb_true_iff in H as [Hc Hs]. apply negb_true_iff in Hc.
  cbn [replace_char flat_map]. rewrite Hc. cbn [app]. f_equal. apply IH. exact Hs.
Qed.

Lemma replace_char_marked : forall h t r, no_amp h = true -> no_amp t = true ->
  replace_char (h ++ 38%N :: t) 38%N r = h ++ r ++ t.
Proof.
  intros h t r Hh Ht. unfold replace_char. rewrite flat_map_app. cbn [flat_map]. rewrite N.eqb_refl.
  fold (replace_char h 38%N r). fold (replace_char t 38%N r).
  rewrite !replace_char_no_amp by assumption. reflexivity.
Qed.

Lemma qualify_0 : forall x, qualify 0 x = x.
Proof. intros. unfold qualify, py_qualify_table. cbn. reflexivity. Qed.

(* the '&'-marked name of a type, then get_c_name: same text as FFI.getctype (hence as ffi_getctype) *)
Theorem get_c_name_agree : forall T x, wf_names T = true ->
  get_c_name_py (getcname T py_marker) x 0 = getctype_py T x.
Proof.
  intros T x Hw. unfold get_c_name_py, getctype_py.
  change gc_probe with py_probe. change gc_star with py_star. change gc_lparen with py_lparen.
  change gc_rparen with py_rparen. change gc_nospace with py_nospace. change gc_space with py_space.
  rewrite qualify_0. set (y := strip x).
  set (marked := getcname T py_marker).
  assert (Hrep : forall r, replace_char marked (hd 0%N gc_marker) r = getcname T r).
  { intros r. unfold marked, getcname, insert_at, py_marker. cbn [app hd gc_marker].
    apply replace_char_marked; [apply no_amp_firstn | apply no_amp_skipn]; apply cname_no_amp; exact Hw. }
  rewrite Hrep. f_equal.
  destruct y as [|a y']; [cbn; reflexivity|].
  cbn [nonempty]. reflexivity.
Qed.
