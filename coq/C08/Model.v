(* C08 — C type names: how the backend builds ct_name / ct_name_position and how getctype uses them.

   cname    : ctypedescr_new_on_top (_cffi_backend.c:426), new_pointer_type (4917: " *" or "( * )" for
              arrays), new_array_type (4951: "[n]" / "[]", position unchanged), fb_build_name (5829),
              new_void_type / new_primitive_type / new_struct_or_union_type (position = end of name).
   getcname : b_getcname (6764) — insert text at ct_name_position.
   getctype_c  : ffi_getctype (ffi_obj.c:623).
   getctype_py : FFI.getctype (api.py:398); its literals come from Gen.v (regenerated from api.py). *)
From Coq Require Import List Arith NArith ZArith Lia Bool String.
Import ListNotations.
From Cffi Require Import C07.Model C07.Realize C08.Gen.

Definition primitive_names : list str :=
  map s2l [ ""; "_Bool"; "char"; "signed char"; "unsigned char"; "short"; "unsigned short"; "int";
            "unsigned int"; "long"; "unsigned long"; "long long"; "unsigned long long"; "float"; "double";
            "long double"; "wchar_t"; "int8_t"; "uint8_t"; "int16_t"; "uint16_t"; "int32_t"; "uint32_t";
            "int64_t"; "uint64_t"; "intptr_t"; "uintptr_t"; "ptrdiff_t"; "size_t"; "ssize_t";
            "int_least8_t"; "uint_least8_t"; "int_least16_t"; "uint_least16_t"; "int_least32_t";
            "uint_least32_t"; "int_least64_t"; "uint_least64_t"; "int_fast8_t"; "uint_fast8_t";
            "int_fast16_t"; "uint_fast16_t"; "int_fast32_t"; "uint_fast32_t"; "int_fast64_t";
            "uint_fast64_t"; "intmax_t"; "uintmax_t"; "_cffi_float_complex_t"; "_cffi_double_complex_t";
            "char16_t"; "char32_t" ]%string.

(* decimal spelling of a non-negative length: sprintf("%llu") *)
Fixpoint dec_digits (fuel : nat) (n : Z) (acc : str) : str :=
  match fuel with
  | O => acc
  | S f => let acc' := N.of_nat (Z.to_nat (48 + n mod 10)) :: acc in
           if (n / 10 =? 0)%Z then acc' else dec_digits f (n / 10) acc'
  end.
Definition decimal (n : Z) : str := dec_digits 25 n [].

Definition insert_at (name : str) (pos : nat) (x : str) : str := firstn pos name ++ x ++ skipn pos name.

(* ctypedescr_new_on_top (426) *)
Definition on_top (base : str * nat) (extra : str) (extra_position : nat) : str * nat :=
  (insert_at (fst base) (snd base) extra, snd base + extra_position).

Definition is_array (c : ctype) : bool := match c with CArr _ _ => true | _ => false end.

Definition sep_commas (l : list str) : str :=
  match l with
  | [] => []
  | x :: r => x ++ List.concat (map (fun y => s2l ", " ++ y) r)
  end.

(* (ct_name, ct_name_position) *)
Fixpoint cname (c : ctype) : str * nat :=
  match c with
  | CVoid => (s2l "void", 4)
  | CPrim p => let n := nth (Z.to_nat p) primitive_names [] in (n, List.length n)
  | CAgg _ n _ => (n, List.length n)
  | CPtr t => on_top (cname t) (if is_array t then s2l "(*)" else s2l " *") 2
  | CArr t len =>
    on_top (cname t) (match len with
                      | Some n => [c_lbr] ++ decimal n ++ [c_rbr]
                      | None => [c_lbr; c_rbr]
                      end) 0
  | CFunc ret args ell =>
    (* fb_build_name with repl = "( * )" : HEAD ( * )(ARGS) TAIL, position just before the last ")" of repl *)
    let '(rn, rp) := cname ret in
    let argnames := map (fun a => fst (cname a)) args in
    let inner := sep_commas (argnames ++ if ell then [s2l "..."] else []) in
    (firstn rp rn ++ s2l "(*)" ++ [c_lpar] ++ inner ++ [c_rpar] ++ skipn rp rn, rp + 2)
  end.

(* b_getcname (6764) *)
Definition getcname (c : ctype) (x : str) : str := insert_at (fst (cname c)) (snd (cname c)) x.

(* strip(): white space at both ends (isspace in the "C" locale / str.strip on ASCII text) *)
Definition is_cspace (c : N) : bool := (is_space c)%bool.
Fixpoint lstrip (s : str) : str :=
  match s with c :: r => if is_cspace c then lstrip r else s | [] => [] end.
Definition strip (s : str) : str := rev (lstrip (rev (lstrip s))).

Definition first_is (s : str) (c : N) : bool := match s with x :: _ => N.eqb x c | [] => false end.
Definition first_in (s : str) (cs : str) : bool := match s with x :: _ => existsb (N.eqb x) cs | [] => false end.
Definition nonempty (s : str) : bool := match s with [] => false | _ => true end.

(* ffi_getctype (ffi_obj.c:623) *)
Definition getctype_c (c : ctype) (replace_with : str) : str :=
  let x := strip replace_with in
  let add_paren := first_is x c_star && is_array c in
  let add_space := negb add_paren && nonempty x && negb (first_is x c_lbr) && negb (first_is x c_lpar) in
  getcname c ((if add_paren then [c_lpar] else []) ++ (if add_space then [32%N] else []) ++ x
              ++ (if add_paren then [c_rpar] else [])).

Fixpoint is_prefix (p s : str) : bool :=
  match p, s with
  | [], _ => true
  | x :: p', y :: s' => N.eqb x y && is_prefix p' s'
  | _, [] => false
  end.
Fixpoint contains (p s : str) : bool :=
  is_prefix p s || match s with [] => false | _ :: s' => contains p s' end.

(* FFI.getctype (api.py:398), with the literals of Gen.v *)
Definition getctype_py (c : ctype) (replace_with : str) : str :=
  let x := strip replace_with in
  let x' :=
    if is_prefix py_star x && contains py_probe (getcname c py_marker)
    then py_lparen ++ x ++ py_rparen
    else if nonempty x && negb (first_in x py_nospace) then py_space ++ x
    else x in
  getcname c x'.

(* ---- the Python type objects' own copy of the same logic: model.BaseTypeByIdentity.get_c_name and
   model.qualify (src/cffi/model.py:12, 29), literals from Gen.v.

       result = self.c_name_with_marker                    (`marked`: the name with one gc_marker in it)
       replace_with = replace_with.strip()
       if replace_with:
           if replace_with.startswith(gc_star) and gc_probe in result: replace_with = gc_lparen % replace_with % gc_rparen
           elif replace_with[0] not in gc_nospace:                     replace_with = gc_space + replace_with
       replace_with = qualify(quals, replace_with)
       result = result.replace(gc_marker, replace_with) *)
Definition replace_char (s : str) (c : N) (r : str) : str :=
  flat_map (fun ch => if N.eqb ch c then r else [ch]) s.

(* if quals & FLAG: replace_with = TEXT + replace_with.lstrip()   -- one `if` per table row, in order *)
Definition qualify (quals : N) (x : str) : str :=
  fold_left (fun acc row => if N.eqb (N.land quals (fst row)) 0 then acc else snd row ++ lstrip acc)
            py_qualify_table x.

Definition get_c_name_py (marked : str) (replace_with : str) (quals : N) : str :=
  let x := strip replace_with in
  let x1 :=
    if nonempty x then
      if is_prefix gc_star x && contains gc_probe marked then gc_lparen ++ x ++ gc_rparen
      else if negb (first_in x gc_nospace) then gc_space ++ x
      else x
    else x in
  replace_char marked (hd 0%N gc_marker) (qualify quals x1).
