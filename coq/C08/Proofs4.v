(* C08 — the length of an array type is printed in full: `decimal n` (the model of sprintf "%llu") has no
   bound on the number of digits below the fuel 25, reads back as n, and needs at most 20 digits for a
   64-bit length; the buffer of new_array_type (size regenerated into Gen.v) must hold '[' digits ']' NUL. *)
From Coq Require Import List Arith NArith ZArith Lia Bool String.
Import ListNotations.
From Cffi Require Import C07.Model C07.Realize C08.Gen C08.Model.
Open Scope Z_scope.

(* reading a decimal numeral (strtoull without the checks) *)
Definition dec_value (s : str) : Z := fold_left (fun a c => a * 10 + (Z.of_N c - 48)) s 0.

Lemma fold_dec_acc : forall s a,
  fold_left (fun a c => a * 10 + (Z.of_N c - 48)) s a
  = a * 10 ^ Z.of_nat (List.length s) + fold_left (fun a c => a * 10 + (Z.of_N c - 48)) s 0.
Proof.
  induction s as [|c s IH]; intros a.
  - cbn. lia.
  - cbn [fold_left List.length]. rewrite IH. rewrite (IH (0 * 10 + (Z.of_N c - 48))).
    rewrite Nat2Z.inj_succ, Z.pow_succ_r by lia. lia.
Qed.

Lemma dec_value_cons : forall c s,
  dec_value (c :: s) = (Z.of_N c - 48) * 10 ^ Z.of_nat (List.length s) + dec_value s.
Proof. intros. unfold dec_value. cbn [fold_left]. rewrite fold_dec_acc. lia. Qed.

Lemma digit_value : forall n, 0 <= n -> Z.of_N (N.of_nat (Z.to_nat (48 + n mod 10))) - 48 = n mod 10.
Proof.
  intros n Hn. pose proof (Z.mod_pos_bound n 10 ltac:(lia)).
  rewrite nat_N_Z, Z2Nat.id by lia. lia.
Qed.

Lemma dec_digits_value : forall f n acc, 0 <= n < 10 ^ Z.of_nat f -> (0 < f)%nat ->
  dec_value (dec_digits f n acc) = n * 10 ^ Z.of_nat (List.length acc) + dec_value acc /\
  (List.length (dec_digits f n acc) <= f + List.length acc)%nat.
Proof.
  induction f as [|f IH]; intros n acc Hn Hf; [lia|].
  cbn [dec_digits].
  set (d := N.of_nat (Z.to_nat (48 + n mod 10))).
  assert (Hd : Z.of_N d - 48 = n mod 10) by (apply digit_value; lia).
  rewrite Nat2Z.inj_succ, Z.pow_succ_r in Hn by lia.
  destruct (Z.eqb_spec (n / 10) 0) as [Hz|Hnz].
  - split; [|cbn [List.length]; lia].
    rewrite dec_value_cons, Hd.
    assert (n mod 10 = n).
    { pose proof (Z.div_mod n 10 ltac:(lia)). lia. }
    lia.
  - assert (Hq : 0 <= n / 10 < 10 ^ Z.of_nat f).
    { split; [apply Z.div_pos; lia|]. apply Z.div_lt_upper_bound; lia. }
    assert (Hf' : (0 < f)%nat).
    { destruct f; [|lia]. cbn in Hq. assert (n / 10 = 0) by lia. contradiction. }
    destruct (IH (n / 10) (d :: acc) Hq Hf') as [Hv Hl]. split.
    + rewrite Hv, dec_value_cons, Hd. cbn [List.length]. rewrite Nat2Z.inj_succ, Z.pow_succ_r by lia.
      pose proof (Z.div_mod n 10 ltac:(lia)). lia.
    + cbn [List.length] in Hl. lia.
Qed.

(* every 64-bit length: the printed numeral denotes the length and has at most 20 digits *)
Theorem array_length_rendered_in_full : forall n, 0 <= n < 2 ^ 64 ->
  dec_value (decimal n) = n /\ (List.length (decimal n) <= 20)%nat.
Proof.
  intros n Hn. unfold decimal. split.
  - destruct (dec_digits_value 25 n [] ltac:(change (2 ^ 64) with 18446744073709551616 in Hn;
                                             change (10 ^ Z.of_nat 25) with 10000000000000000000000000; lia)
                               ltac:(lia)) as [Hv _].
    rewrite Hv. cbn. lia.
  - (* 20 digits of fuel are enough below 10^20, and more fuel does not change the result *)
    assert (Hmono : forall f n acc, 0 <= n < 10 ^ Z.of_nat f -> (0 < f)%nat ->
                    forall g, dec_digits (f + g) n acc = dec_digits f n acc).
    { induction f as [|f IH]; intros m acc Hm Hf g; [lia|].
      cbn [dec_digits Nat.add]. destruct (Z.eqb_spec (m / 10) 0); [reflexivity|].
      rewrite Nat2Z.inj_succ, Z.pow_succ_r in Hm by lia.
      assert (Hq : 0 <= m / 10 < 10 ^ Z.of_nat f).
      { split; [apply Z.div_pos; lia|]. apply Z.div_lt_upper_bound; lia. }
      assert ((0 < f)%nat).
      { destruct f; [|lia]. cbn in Hq. assert (m / 10 = 0) by lia. contradiction. }
      apply IH; assumption. }
    assert (H20 : 0 <= n < 10 ^ Z.of_nat 20).
    { change (2 ^ 64) with 18446744073709551616 in Hn. change (10 ^ Z.of_nat 20) with 100000000000000000000. lia. }
    change 25%nat with (20 + 5)%nat. rewrite Hmono by (try exact H20; lia).
    destruct (dec_digits_value 20 n [] H20 ltac:(lia)) as [_ Hl]. cbn [List.length] in Hl. lia.
Qed.

(* what new_array_type writes into extra_text: '[' digits ']' and the terminating NUL *)
Definition array_extra_bytes (n : Z) : Z := Z.of_nat (List.length ([c_lbr] ++ decimal n ++ [c_rbr])) + 1.

Lemma array_extra_bytes_bound : forall n, 0 <= n < 2 ^ 64 -> array_extra_bytes n <= 23.
Proof.
  intros n Hn. unfold array_extra_bytes. rewrite !app_length. cbn [List.length].
  destruct (array_length_rendered_in_full n Hn) as [_ Hl]. lia.
Qed.

Lemma array_extra_bytes_attained : array_extra_bytes (2 ^ 64 - 1) = 23.
Proof. vm_compute. reflexivity. Qed.

(* the regenerated declaration `char extra_text[N]` of new_array_type is large enough for every length *)
Theorem array_name_buffer_suffices : forall n, 0 <= n < 2 ^ 64 -> array_extra_bytes n <= c_array_extra_text_size.
Proof.
  intros n Hn. pose proof (array_extra_bytes_bound n Hn).
  assert (23 <= c_array_extra_text_size) by (vm_compute; discriminate). lia.
Qed.
