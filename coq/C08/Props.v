(* C08 — C type names round-trip through getctype and typeof.  Statements only.

   Model (C08/Model.v): `cname T` = (ct_name, ct_name_position) as built by ctypedescr_new_on_top,
   new_pointer_type, new_array_type, fb_build_name; `getcname` = b_getcname; `getctype_c` =
   ffi_getctype (ffi_obj.c); `getctype_py` = FFI.getctype (api.py) with its literals regenerated
   into C08/Gen.v.

   FULL STATEMENT: for every ctype T and declarator text x, both FFIs: typeof(getctype(T)) is T and
   typeof(getctype(T, x)) is the type x builds over T.
   PROVED: the name position is the declarator hole: for every T and x, ct_name with x inserted at
   ct_name_position is the C declaration of T around x according to the independent precedence-based
   printer of C08/Spec.v (C08_position_is_hole; step lemmas _pointer, _array, _function); both getctype
   implementations are that printer applied to the stripped text, with '*' texts as pointer declarators
   (C08_getctype_is_spec); the two getctype implementations and model.get_c_name (third copy of the logic,
   on the Python type objects) produce the same text for all T and x (C08_getctype_c_eq_py,
   C08_get_c_name_eq_getctype); the marker test of FFI.getctype holds exactly for arrays (C08_marker_test).
   RE-PARSING HALF, PARTIAL: C08_reparse_keyword_types / C08_typeof_getctype_keyword_types prove the first
   sentence of the property, typeof(getctype(T)) = T, for the C-side parser (parse_c_type.c + realize, model
   of coq/C07, imported read-only; composition with C07.Agree.agree_partial) on the class named
   Proofs5.kw_type: void and the keyword primitives _Bool ... long double, pointers, arrays with a length,
   in any nesting (exactly the part of C07's sub-grammar that ct_name can print; qualifiers never appear in
   a ct_name).  SECOND SENTENCE (getctype(T, x) names the type x builds over T): C08_getctype_suffix_is_name — for EVERY
   T, ffi_getctype(T, "*"), (T, "[n]"), (T, "[]") and (T, "( * )(args)") return exactly ct_name of the backend's
   pointer-to-T / T[n] / T[] / function-pointer-returning-T type (with the parentheses an array T needs);
   C08_typeof_getctype_suffix composes the first two with the re-parsing theorem: typeof(getctype(T, "*")) = T* and
   typeof(getctype(T, "[n]")) = T[n] on the kw_type class (C side).  MISSING: function types, *_t / typedef / struct / union / enum names, open arrays, the
   Python-side parser (C07_agree_partial relates it to the C side on the same class), and getctype(T, x) for
   other x (identifiers, composite declarators such as "*[3]" or "( * )[3]").  Those are decided by the correspondence runs (both FFIs, gcc). *)
From Coq Require Import List Arith NArith ZArith Lia Bool String.
Import ListNotations.
From Cffi Require Import C07.Model C07.Realize C08.Gen C08.Model C08.Proofs C08.Spec C08.Proofs2 C08.Proofs3 C08.Proofs4.
From Cffi Require C07.PyModel C07.Tables C07.Sequel C07.Sequel2 C07.Agree C08.Proofs5 C08.Proofs6.

(* ct_name_position never points outside the name *)
Theorem C08_position_in_range : forall T, (snd (cname T) <= List.length (fst (cname T)))%nat.
Proof. exact cname_pos_le. Qed.
Print Assumptions C08_position_in_range.

(* inserting y at the position of 'pointer to T' is inserting " *y" (or "( *y)" for arrays) at the
   position of T: the position is the declarator hole *)
Theorem C08_position_is_hole_pointer : forall T y,
  getcname (CPtr T) y =
  getcname T (if is_array T then [c_lpar; c_star] ++ y ++ [c_rpar] else [32%N; c_star] ++ y).
Proof. exact getcname_ptr. Qed.
Print Assumptions C08_position_is_hole_pointer.

Theorem C08_position_is_hole_array : forall T len y,
  getcname (CArr T len) y =
  getcname T (y ++ match len with Some n => [c_lbr] ++ decimal n ++ [c_rbr] | None => [c_lbr; c_rbr] end).
Proof. exact getcname_arr. Qed.
Print Assumptions C08_position_is_hole_array.

Theorem C08_position_is_hole_function : forall ret args ell y,
  getcname (CFunc ret args ell) y =
  getcname ret ([c_lpar; c_star] ++ y ++ [c_rpar] ++ [c_lpar]
                ++ sep_commas (map (fun a => fst (cname a)) args ++ if ell then [s2l "..."] else [])
                ++ [c_rpar]).
Proof. exact getcname_func. Qed.
Print Assumptions C08_position_is_hole_function.

(* the character after the hole is '[' exactly for array types *)
Theorem C08_tail_bracket_iff_array : forall T, first_is (tail_of T) c_lbr = is_array T.
Proof. exact tail_bracket_iff_array. Qed.
Print Assumptions C08_tail_bracket_iff_array.

(* FFI.getctype's test  '&[' in getcname(T, '&')  is true exactly for arrays (names without '&') *)
Theorem C08_marker_test : forall T, wf_names T = true ->
  contains py_probe (getcname T py_marker) = is_array T.
Proof. exact marker_test_iff_array. Qed.
Print Assumptions C08_marker_test.

(* ffi_getctype (C) and FFI.getctype (Python) return the same text, for every type and every
   replacement text *)
Theorem C08_getctype_c_eq_py : forall T x, wf_names T = true -> getctype_c T x = getctype_py T x.
Proof. exact getctype_agree. Qed.
Print Assumptions C08_getctype_c_eq_py.

(* THE position theorem: for EVERY ctype T and EVERY text x, the name with x inserted at ct_name_position is
   `decl_string T x`, the declaration of T around the declarator x printed outside-in with C's precedence
   rule (C08/Spec.v, written without reference to names or positions) *)
Theorem C08_position_is_hole : forall T x, getcname T x = decl_string T x.
Proof. exact position_is_hole. Qed.
Print Assumptions C08_position_is_hole.

Theorem C08_cname_is_abstract_declarator : forall T, fst (cname T) = decl_string T [].
Proof. exact cname_is_abstract_declarator. Qed.
Print Assumptions C08_cname_is_abstract_declarator.

(* ffi_getctype in terms of the specification only (all T, all x) *)
Theorem C08_getctype_is_spec : forall T x, getctype_c T x = getctype_spec T x.
Proof. exact getctype_c_is_spec. Qed.
Print Assumptions C08_getctype_is_spec.

(* model.BaseTypeByIdentity.get_c_name (quals = 0) applied to the '&'-marked name computes the same text *)
Theorem C08_get_c_name_eq_getctype : forall T x, wf_names T = true ->
  get_c_name_py (getcname T py_marker) x 0 = getctype_py T x.
Proof. exact get_c_name_agree. Qed.
Print Assumptions C08_get_c_name_eq_getctype.

(* the length of an array type is printed IN FULL: for every 64-bit length n (in particular every
   Py_ssize_t length < 2^63) the numeral inside the brackets of the name reads back as n; it has up to 20
   digits, so "[n]" plus the terminating NUL needs up to 23 bytes (attained by 2^64-1) *)
Theorem C08_array_length_rendered_in_full : forall n, (0 <= n < 2 ^ 64)%Z ->
  dec_value (decimal n) = n /\ (List.length (decimal n) <= 20)%nat.
Proof. exact array_length_rendered_in_full. Qed.
Print Assumptions C08_array_length_rendered_in_full.

(* ... and the buffer `char extra_text[N]` of new_array_type (N regenerated from _cffi_backend.c into Gen.v)
   holds that text for every length *)
Theorem C08_array_name_buffer_suffices : forall n, (0 <= n < 2 ^ 64)%Z ->
  (array_extra_bytes n <= c_array_extra_text_size)%Z.
Proof. exact array_name_buffer_suffices. Qed.
Print Assumptions C08_array_name_buffer_suffices.

Example C08_example_lengths :
  fst (cname (CArr (CPrim 2) (Some 9223372036854775807%Z))) = s2l "char[9223372036854775807]" /\
  fst (cname (CPtr (CArr (CPrim 2) (Some 10000000000000%Z)))) = s2l "char(*)[10000000000000]" /\
  array_extra_bytes 10000000000000 = 17%Z /\ array_extra_bytes (2 ^ 64 - 1) = 23%Z.
Proof. vm_compute. repeat split; reflexivity. Qed.

(* the property's first sentence as a theorem, on the class `kw_type` (keyword primitives, pointers, arrays):
   the C parser reads ct_name / getctype(T, "") back as T.  `syn T = Some (p, s)` names the class (it holds for every
   T with kw_type T = true, C08_reparse_class); `build (mty_of T) = Some (RT T)` says that T is a type the backend
   can build (e.g. no array of void, total size within Py_ssize_t); osz and 999 are the parser's output-buffer size
   and nesting limit. *)
Theorem C08_reparse_keyword_types : forall (g : genv) (osz : nat) T p s,
  Proofs5.syn T = Some (p, s) ->
  build (Proofs5.mty_of T) = Some (RT T) ->
  Tables.table_ok (map fst (g_globals g)) ->
  (S (Sequel.nops (Proofs5.to_decl s)) <= osz)%nat -> (Sequel2.cost (Proofs5.to_decl s) < 999)%nat ->
  c_typeof osz g (fst (cname T)) = Some T.
Proof. exact Proofs5.reparse_keyword_types. Qed.
Print Assumptions C08_reparse_keyword_types.

Theorem C08_typeof_getctype_keyword_types : forall (g : genv) (osz : nat) T p s,
  Proofs5.syn T = Some (p, s) -> build (Proofs5.mty_of T) = Some (RT T) ->
  Tables.table_ok (map fst (g_globals g)) ->
  (S (Sequel.nops (Proofs5.to_decl s)) <= osz)%nat -> (Sequel2.cost (Proofs5.to_decl s) < 999)%nat ->
  c_typeof osz g (getctype_c T []) = Some T.
Proof. exact Proofs5.typeof_getctype_keyword_types. Qed.
Print Assumptions C08_typeof_getctype_keyword_types.

Theorem C08_reparse_class : forall T, Proofs5.kw_type T = true -> exists p s, Proofs5.syn T = Some (p, s).
Proof. exact Proofs5.syn_total. Qed.
Print Assumptions C08_reparse_class.

(* the property's second sentence for the one-step declarator texts, ALL T: getctype(T, x) is ct_name of the type the
   backend builds by applying x's constructor to T (new_pointer_type / new_array_type / fb_build_name) *)
Theorem C08_getctype_suffix_is_name : forall T,
  getctype_c T (s2l "*") = fst (cname (CPtr T)) /\
  (forall n, getctype_c T ([c_lbr] ++ decimal n ++ [c_rbr]) = fst (cname (CArr T (Some n)))) /\
  getctype_c T (s2l "[]") = fst (cname (CArr T None)) /\
  (forall args ell, getctype_c T (Proofs6.func_suffix args ell) = fst (cname (CFunc T args ell))).
Proof. exact Proofs6.getctype_suffix_is_name. Qed.
Print Assumptions C08_getctype_suffix_is_name.

(* ... and typeof of that text is the pointer / array type, on the re-parsing class (C-side parser); hypotheses as in
   C08_reparse_keyword_types, for the result type *)
Theorem C08_typeof_getctype_suffix : forall (g : genv) (osz : nat) T,
  Tables.table_ok (map fst (g_globals g)) ->
  (forall p s, Proofs5.syn (CPtr T) = Some (p, s) -> build (Proofs5.mty_of (CPtr T)) = Some (RT (CPtr T)) ->
     (S (Sequel.nops (Proofs5.to_decl s)) <= osz)%nat -> (Sequel2.cost (Proofs5.to_decl s) < 999)%nat ->
     c_typeof osz g (getctype_c T (s2l "*")) = Some (CPtr T)) /\
  (forall n p s, Proofs5.syn (CArr T (Some n)) = Some (p, s) ->
     build (Proofs5.mty_of (CArr T (Some n))) = Some (RT (CArr T (Some n))) ->
     (S (Sequel.nops (Proofs5.to_decl s)) <= osz)%nat -> (Sequel2.cost (Proofs5.to_decl s) < 999)%nat ->
     c_typeof osz g (getctype_c T ([c_lbr] ++ decimal n ++ [c_rbr])) = Some (CArr T (Some n))).
Proof. exact Proofs6.typeof_getctype_suffix. Qed.
Print Assumptions C08_typeof_getctype_suffix.

(* non-vacuity: T = int[3]; "*" needs the parentheses; the hypotheses for "int( * )[3]" and "int[7][3]" hold *)
Example C08_example_suffix :
  let T := CArr (CPrim 7) (Some 3%Z) in
  let g := mkGenv [] [] [] [] in
  getctype_c T (s2l "*") = s2l "int(*)[3]" /\
  getctype_c T (s2l "[7]") = s2l "int[7][3]" /\ decimal 7 = s2l "7" /\
  getctype_c (CPrim 7) (Proofs6.func_suffix [CPrim 2; CPtr CVoid] true) = s2l "int(*)(char, void *, ...)" /\
  (exists p s, Proofs5.syn (CPtr T) = Some (p, s) /\ build (Proofs5.mty_of (CPtr T)) = Some (RT (CPtr T)) /\
               (S (Sequel.nops (Proofs5.to_decl s)) <= 100)%nat /\ (Sequel2.cost (Proofs5.to_decl s) < 999)%nat) /\
  c_typeof 100 g (getctype_c T (s2l "*")) = Some (CPtr T) /\
  c_typeof 100 g (getctype_c T (s2l "[7]")) = Some (CArr T (Some 7%Z)).
Proof.
  cbv zeta. split; [vm_compute; reflexivity|]. split; [vm_compute; reflexivity|]. split; [vm_compute; reflexivity|].
  split; [vm_compute; reflexivity|]. split.
  - eexists _, _. split; [vm_compute; reflexivity|]. split; [vm_compute; reflexivity|]. split; vm_compute; lia.
  - split; vm_compute; reflexivity.
Qed.

(* non-vacuity of the re-parsing theorem: array of 16 pointers to arrays of 3 pointers to unsigned long,
   empty declaration context *)
Example C08_example_reparse :
  let T := CArr (CPtr (CArr (CPtr (CPrim 10)) (Some 3%Z))) (Some 16%Z) in
  let g := mkGenv [] [] [] [] in
  Proofs5.kw_type T = true /\
  fst (cname T) = s2l "unsigned long *(" ++ s2l "*[16])[3]" /\
  (exists p s, Proofs5.syn T = Some (p, s) /\ build (Proofs5.mty_of T) = Some (RT T) /\
               (S (Sequel.nops (Proofs5.to_decl s)) <= 100)%nat /\ (Sequel2.cost (Proofs5.to_decl s) < 999)%nat) /\
  c_typeof 100 g (fst (cname T)) = Some T.
Proof.
  cbv zeta. split; [reflexivity|]. split; [vm_compute; reflexivity|]. split.
  - eexists _, _. split; [vm_compute; reflexivity|]. split; [vm_compute; reflexivity|]. split; vm_compute; lia.
  - vm_compute. reflexivity.
Qed.

(* non-vacuity *)
Example C08_example :
  let T := CArr (CPtr (CFunc (CPtr (CArr (CPrim 7) (Some 3%Z))) [CPrim 2; CPtr CVoid] true)) (Some 5%Z) in
  wf_names T = true /\
  fst (cname T) = s2l "int(*(* *[5])(char, void *, ...))[3]" /\
  getctype_c T (s2l " *x ") = s2l "int(*(* *(*x)[5])(char, void *, ...))[3]" /\
  getctype_py T (s2l " *x ") = s2l "int(*(* *(*x)[5])(char, void *, ...))[3]" /\
  getctype_c (CPtr (CPrim 7)) (s2l "v") = s2l "int * v" /\
  decl_string T (s2l "x") = s2l "int(*(* *x[5])(char, void *, ...))[3]" /\
  get_c_name_py (getcname T py_marker) (s2l "*x") 0 = s2l "int(*(* *(*x)[5])(char, void *, ...))[3]" /\
  qualify 5 (s2l " *x") = s2l " volatile const *x".
Proof. vm_compute. repeat split; reflexivity. Qed.
