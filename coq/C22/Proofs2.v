(* C22 — proofs, part 2: the control flow of the callback brackets (regenerated), final-state
   refinement of the one-cell specification, threads that start their life in C. *)
From Coq Require Import ZArith List Bool Arith Lia.
Import ListNotations.
From Cffi Require Import C22.Model C22.Spec C22.Gen C22.Proofs.
Open Scope Z_scope.

(* ---- end_mode refines wf *)
Lemma end_mode_wf : forall ops m m', end_mode m ops = Some m' -> wf m ops = true.
Proof.
  induction ops as [|o ops IH]; intros m m' H; [reflexivity|].
  destruct m, o; cbn [end_mode wf] in *; try discriminate; eauto.
Qed.

Lemma end_mode_app : forall a b m m1, end_mode m a = Some m1 -> end_mode m (a ++ b) = end_mode m1 b.
Proof.
  induction a as [|o a IH]; intros b m m1 H.
  - cbn in H. inversion H. reflexivity.
  - destruct m, o; cbn [end_mode app] in *; try discriminate; eauto.
Qed.

(* ---- observations AND final state of the two-cell implementation are those of the one-cell spec *)
Lemma refines_final_gen : forall ops m s z m',
  end_mode m ops = Some m' ->
  (m = Py -> saved s = z) -> (m = InC -> cerr s = z) ->
  snd (run1 s ops) = spec_run z ops /\
  (m' = Py -> saved (fst (run1 s ops)) = spec_final z ops) /\
  (m' = InC -> cerr (fst (run1 s ops)) = spec_final z ops).
Proof.
  induction ops as [|o ops IH]; intros m s z m' Hend Hp Hc.
  - cbn in Hend. inversion Hend; subst m'. cbn. split; [reflexivity|]. split; assumption.
  - destruct s as [e sv].
    destruct m, o; cbn [end_mode] in Hend; try discriminate;
      rewrite run1_cons; cbn [step1 spec_run spec_final spec_step saved cerr fst snd];
      try (specialize (Hp eq_refl)); try (specialize (Hc eq_refl)); cbn [saved cerr] in *; subst.
    + destruct (in_int v); cbn [fst snd].
      * eapply IH; eauto; intros; try discriminate; reflexivity.
      * edestruct IH as (A & B & C); [exact Hend| | |].
        3: { split; [rewrite A; reflexivity|]. split; assumption. }
        all: intros; try discriminate; reflexivity.
    + edestruct IH as (A & B & C); [exact Hend| | |].
      3: { split; [rewrite A; reflexivity|]. split; assumption. }
      all: intros; try discriminate; reflexivity.
    + eapply IH; eauto; intros; try discriminate; reflexivity.
    + eapply IH; eauto; intros; try discriminate; reflexivity.
    + eapply IH; eauto; intros; try discriminate; reflexivity.
    + eapply IH; eauto; intros; try discriminate; reflexivity.
    + edestruct IH as (A & B & C); [exact Hend| | |].
      3: { split; [rewrite A; reflexivity|]. split; assumption. }
      all: intros; try discriminate; reflexivity.
    + eapply IH; eauto; intros; try discriminate; reflexivity.
    + eapply IH; eauto; intros; try discriminate; reflexivity.
Qed.

(* a thread created by C code (it starts in C with errno = 0) also observes one logical errno *)
Lemma refines_spec_inC : forall ops s, wf InC ops = true -> snd (run1 s ops) = spec_run (cerr s) ops.
Proof. intros. eapply refines_spec_gen; eauto. intros; discriminate. Qed.

Lemma c_threads_refine_spec : forall sch t, wf InC (ops_of t sch) = true ->
  obs_of t (snd (crun false cs0 sch)) = spec_run 0 (ops_of t sch).
Proof. intros. rewrite noninterference. apply (refines_spec_inC _ ts0). assumption. Qed.

(* ---- paths of a callback bracket *)
Lemma cb_path_ok_shape : forall p, cb_path_ok p = true ->
  exists mid, p = VSave :: mid ++ [VRestore] /\ forallb is_touch mid = true /\ (count_invoke mid <= 1)%nat.
Proof.
  intros p H. destruct p as [|[| | |k] rest]; cbn [cb_path_ok] in H; try discriminate.
  destruct (rev rest) as [|[| | |k] rmid] eqn:E; try discriminate.
  apply andb_true_iff in H. destruct H as [H1 H2].
  exists (rev rmid). split; [|split].
  - f_equal. rewrite <- (rev_involutive rest). rewrite E. reflexivity.
  - rewrite forallb_forall in *. intros x Hx. apply H1. apply in_rev. assumption.
  - apply Nat.leb_le in H2. unfold count_invoke in *.
    assert (L : forall l, length (filter is_invoke (rev l)) = length (filter is_invoke l)).
    { induction l as [|a l IHl]; [reflexivity|]. cbn [rev]. rewrite filter_app, app_length, IHl. cbn [filter].
      destruct (is_invoke a); cbn [length]; lia. }
    rewrite L. assumption.
Qed.

Lemma exec_mid_restore : forall mid nz body s, forallb is_touch mid = true ->
  exec_evs (mid ++ [VRestore]) nz body s = run1 s (inner_ops mid nz body ++ [OCbExit]).
Proof.
  induction mid as [|e mid IH]; intros nz body s H.
  - cbn. reflexivity.
  - cbn [forallb] in H. apply andb_true_iff in H. destruct H as [He H].
    destruct e; cbn [is_touch] in He; try discriminate; cbn [app exec_evs inner_ops].
    + (* VInvoke *) rewrite <- app_assoc. rewrite (run1_app body).
      destruct (run1 s body) as [s1 o1]. cbn [fst snd]. rewrite IH by assumption.
      destruct (run1 s1 (inner_ops mid nz body ++ [OCbExit])); reflexivity.
    + (* VNoise *) rewrite IH by assumption. rewrite run1_cons. cbn [step1 fst snd].
      destruct (run1 _ _); reflexivity.
Qed.

(* each path with the right shape IS the abstract callback: OCbEnter, Python-side activity, OCbExit *)
Lemma cb_path_is_the_model : forall p nz body s, cb_path_ok p = true ->
  exists mid, p = VSave :: mid ++ [VRestore] /\
    exec_evs p nz body s = run1 s (OCbEnter :: inner_ops mid nz body ++ [OCbExit]).
Proof.
  intros p nz body s H. destruct (cb_path_ok_shape p H) as (mid & -> & Ht & _).
  exists mid. split; [reflexivity|].
  cbn [exec_evs]. rewrite exec_mid_restore by assumption. rewrite run1_cons. cbn [step1 fst snd].
  unfold save_fn. destruct (run1 _ _); reflexivity.
Qed.

Lemma inner_ops_end : forall mid nz body, forallb is_touch mid = true ->
  end_mode Py body = Some Py -> end_mode Py (inner_ops mid nz body) = Some Py.
Proof.
  induction mid as [|e mid IH]; intros nz body H Hb; [reflexivity|].
  cbn [forallb] in H. apply andb_true_iff in H. destruct H as [He H].
  destruct e; cbn [is_touch] in He; try discriminate; cbn [inner_ops].
  - rewrite (end_mode_app body _ Py Py) by assumption. apply IH; assumption.
  - cbn [end_mode]. apply IH; assumption.
Qed.

Lemma has_invoke_count : forall mid, has_invoke mid = negb (count_invoke mid =? 0)%nat.
Proof.
  induction mid as [|e mid IH]; [reflexivity|].
  unfold has_invoke, count_invoke in *. cbn [existsb filter]. destruct (is_invoke e); cbn [orb length]; [reflexivity|exact IH].
Qed.

Lemma spec_final_app : forall a b z, spec_final z (a ++ b) = spec_final (spec_final z a) b.
Proof. induction a as [|o a IH]; intros; [reflexivity|]. cbn [app spec_final]. apply IH. Qed.
Lemma spec_run_app : forall a b z, spec_run z (a ++ b) = spec_run z a ++ spec_run (spec_final z a) b.
Proof.
  induction a as [|o a IH]; intros; [reflexivity|]. cbn [app spec_run spec_final].
  destruct (spec_step z o) as [z1 [x|]]; cbn [fst]; rewrite IH; reflexivity.
Qed.

Lemma inner_ops_spec : forall mid nz body z, forallb is_touch mid = true -> (count_invoke mid <= 1)%nat ->
  spec_final z (inner_ops mid nz body) = (if has_invoke mid then spec_final z body else z) /\
  spec_run z (inner_ops mid nz body) = (if has_invoke mid then spec_run z body else []).
Proof.
  induction mid as [|e mid IH]; intros nz body z H Hc; [split; reflexivity|].
  cbn [forallb] in H. apply andb_true_iff in H. destruct H as [He H].
  destruct e; cbn [is_touch] in He; try discriminate.
  - (* VInvoke: no further invoke in mid *)
    unfold count_invoke in Hc. cbn [filter is_invoke length] in Hc.
    assert (Hz : count_invoke mid = 0%nat) by (unfold count_invoke; lia).
    assert (Hn : has_invoke mid = false) by (rewrite has_invoke_count, Hz; reflexivity).
    cbn [inner_ops]. unfold has_invoke. cbn [existsb is_invoke orb].
    rewrite spec_final_app, spec_run_app.
    destruct (IH nz body (spec_final z body) H) as [A B]; [lia|]. rewrite Hn in A, B. rewrite A, B, app_nil_r. split; reflexivity.
  - (* VNoise *)
    cbn [inner_ops spec_final spec_run spec_step fst]. unfold has_invoke. cbn [existsb is_invoke orb]. fold (has_invoke mid).
    apply IH; [assumption|]. unfold count_invoke in *. cbn [filter is_invoke] in Hc. assumption.
Qed.

Lemma has_invoke_bracket : forall mid, has_invoke (VSave :: mid ++ [VRestore]) = has_invoke mid.
Proof.
  intros. unfold has_invoke. cbn [existsb is_invoke orb]. rewrite existsb_app. cbn. rewrite orb_false_r. reflexivity.
Qed.

(* THE statement about one path: whatever the noise statements leave in errno, the C-level errno after
   the function equals the logical errno at the end of the callback's Python code started from the C
   errno before the call — and on a path that runs no Python code, the C errno before the call; the
   Python code observes exactly the one-cell specification started from the caller's errno *)
Lemma cb_path_semantics : forall p nz body s, cb_path_ok p = true -> end_mode Py body = Some Py ->
  cerr (fst (exec_evs p nz body s)) = (if has_invoke p then spec_final (cerr s) body else cerr s) /\
  saved (fst (exec_evs p nz body s)) = cerr (fst (exec_evs p nz body s)) /\
  snd (exec_evs p nz body s) = (if has_invoke p then spec_run (cerr s) body else []).
Proof.
  intros p nz body s H Hb.
  destruct (cb_path_ok_shape p H) as (mid & E & Ht & Hc).
  destruct (cb_path_is_the_model p nz body s H) as (mid' & E' & R).
  assert (mid' = mid). { rewrite E in E'. inversion E'. apply app_inv_tail in H1. congruence. } subst mid'.
  rewrite R. rewrite E, has_invoke_bracket.
  set (ops := OCbEnter :: inner_ops mid nz body ++ [OCbExit]).
  assert (Hend : end_mode InC ops = Some InC).
  { unfold ops. cbn [end_mode]. rewrite (end_mode_app _ _ Py Py) by (apply inner_ops_end; assumption). reflexivity. }
  destruct (refines_final_gen ops InC s (cerr s) InC Hend) as (A & _ & C); [intros; discriminate|reflexivity|].
  destruct (inner_ops_spec mid nz body (cerr s) Ht Hc) as [F G].
  assert (SF : spec_final (cerr s) ops = spec_final (cerr s) (inner_ops mid nz body)).
  { unfold ops. cbn [spec_final spec_step fst]. rewrite spec_final_app. reflexivity. }
  assert (SR : spec_run (cerr s) ops = spec_run (cerr s) (inner_ops mid nz body)).
  { unfold ops. cbn [spec_run spec_step]. rewrite spec_run_app. cbn. apply app_nil_r. }
  split; [|split].
  - rewrite (C eq_refl), SF, F. reflexivity.
  - unfold ops. rewrite app_comm_cons. rewrite run1_snoc. cbn [step1 fst]. reflexivity.
  - rewrite A, SR, G. reflexivity.
Qed.

(* ---- the regenerated control flow *)
Lemma gen_call_python_paths_ok : forallb cb_path_ok (cfg_paths gen_call_python_cfg) = true.
Proof. vm_compute. reflexivity. Qed.
Lemma gen_invoke_callback_paths_ok : forallb cb_path_ok (cfg_paths gen_invoke_callback_cfg) = true.
Proof. vm_compute. reflexivity. Qed.
(* no path leaves the function through `return` *)
Lemma gen_cb_no_early_return :
  existsb snd (bpaths gen_call_python_cfg) = false /\ existsb snd (bpaths gen_invoke_callback_cfg) = false.
Proof. split; vm_compute; reflexivity. Qed.

Definition cb_paths : list (list ev) := cfg_paths gen_call_python_cfg ++ cfg_paths gen_invoke_callback_cfg.

Lemma cb_paths_ok : forall p, In p cb_paths -> cb_path_ok p = true.
Proof.
  intros p H. unfold cb_paths in H. apply in_app_or in H. destruct H as [H|H].
  - exact (proj1 (forallb_forall _ _) gen_call_python_paths_ok p H).
  - exact (proj1 (forallb_forall _ _) gen_invoke_callback_paths_ok p H).
Qed.

Lemma gen_cb_paths_shape : forall p, In p cb_paths ->
  exists mid, p = VSave :: mid ++ [VRestore] /\ forallb is_touch mid = true /\ (count_invoke mid <= 1)%nat.
Proof. intros. apply cb_path_ok_shape. apply cb_paths_ok. assumption. Qed.

Lemma gen_cb_paths_semantics : forall p, In p cb_paths -> forall nz body s, end_mode Py body = Some Py ->
  cerr (fst (exec_evs p nz body s)) = (if has_invoke p then spec_final (cerr s) body else cerr s) /\
  saved (fst (exec_evs p nz body s)) = cerr (fst (exec_evs p nz body s)) /\
  snd (exec_evs p nz body s) = (if has_invoke p then spec_run (cerr s) body else []).
Proof. intros. apply cb_path_semantics; [apply cb_paths_ok|]; assumption. Qed.

Lemma gen_cb_paths_are_the_model : forall p, In p cb_paths -> forall nz body s,
  exists mid, p = VSave :: mid ++ [VRestore] /\
    exec_evs p nz body s = run1 s (OCbEnter :: inner_ops mid nz body ++ [OCbExit]).
Proof. intros. apply cb_path_is_the_model. apply cb_paths_ok. assumption. Qed.

Lemma gen_giv_facts :
  gen_general_invoke_callback_leaves_bracket_alone = true /\
  gen_general_invoke_callback_only_called_inside_brackets = true.
Proof. split; reflexivity. Qed.
