(* C22 — errno is passed to and from C calls and is thread-local.  Statements only.
   `crun false` is the code as written under the hypothesis that __thread storage
   (cffi_saved_errno) and the C library's errno are per thread; threads are `nat`, a schedule is
   any list of (thread, operation). *)
From Coq Require Import ZArith List Bool Arith.
Import ListNotations.
From Cffi Require Import C22.Model C22.Spec C22.Proofs.
Open Scope Z_scope.

(* for every schedule over any number of threads, thread t's observations (ffi.errno reads and the
   errno seen by C code it calls) are those of its own operations run alone *)
Theorem C22_noninterference : forall (sch : list (nat * op)) (t : nat),
  obs_of t (snd (crun false cs0 sch)) = snd (run1 ts0 (ops_of t sch)).
Proof. exact noninterference. Qed.
Print Assumptions C22_noninterference.

(* the central statement: under any schedule over any number of threads, every thread whose
   operations are well-bracketed (Python / C alternation) observes exactly one logical errno of
   its own (C22/Spec.v) — values assigned to ffi.errno reach the C code, values left by C code or
   assigned in callbacks reach ffi.errno, interpreter noise and other threads are invisible *)
Theorem C22_threads_refine_spec : forall (sch : list (nat * op)) (t : nat),
  wf Py (ops_of t sch) = true ->
  obs_of t (snd (crun false cs0 sch)) = spec_run 0 (ops_of t sch).
Proof. exact threads_refine_spec. Qed.
Print Assumptions C22_threads_refine_spec.

(* whatever the interpreter does to the C errno while the thread runs Python code is invisible *)
Theorem C22_noise_irrelevant : forall ops s e',
  wf Py ops = true ->
  snd (run1 s ops) = snd (run1 (mkTs e' (saved s)) (erase ops)).
Proof. exact noise_irrelevant. Qed.
Print Assumptions C22_noise_irrelevant.

(* a value assigned to ffi.errno is the errno the next C call sees *)
Theorem C22_set_then_call : forall s v, in_int v = true ->
  snd (run1 s [OSet v; OCallEnter; OCRead]) = [ObsVal v].
Proof. exact law_set_then_call. Qed.
Print Assumptions C22_set_then_call.

(* the errno left by a C function is what ffi.errno returns afterwards *)
Theorem C22_call_then_get : forall s e,
  snd (run1 s [OCallEnter; OCSet e; OCallExit; OGet]) = [ObsVal e].
Proof. exact law_call_then_get. Qed.
Print Assumptions C22_call_then_get.

Theorem C22_call_untouched : forall s v, in_int v = true ->
  snd (run1 s [OSet v; OCallEnter; OCallExit; OGet]) = [ObsVal v].
Proof. exact law_call_untouched. Qed.

(* inside a callback ffi.errno is the caller's errno; what the callback assigns is what the C caller sees *)
Theorem C22_callback_sees_c_errno : forall s e,
  snd (run1 s [OCallEnter; OCSet e; OCbEnter; OGet]) = [ObsVal e].
Proof. exact law_callback_sees_c_errno. Qed.
Theorem C22_callback_sets_c_errno : forall s v, in_int v = true ->
  snd (run1 s [OCallEnter; OCbEnter; OSet v; OCbExit; OCRead]) = [ObsVal v].
Proof. exact law_callback_sets_c_errno. Qed.
Theorem C22_callback_preserves : forall s e,
  snd (run1 s [OCallEnter; OCSet e; OCbEnter; OCbExit; OCRead]) = [ObsVal e].
Proof. exact law_callback_preserves. Qed.
Print Assumptions C22_callback_sets_c_errno.

(* out-of-range assignments are refused and change nothing *)
Theorem C22_set_overflow : forall s v, in_int v = false -> run1 s [OSet v] = (s, [ObsOverflow]).
Proof. exact law_set_overflow. Qed.

(* the laws compose with any prefix (run1 is a fold) *)
Theorem C22_run_app : forall a b s,
  run1 s (a ++ b) = (fst (run1 (fst (run1 s a)) b), snd (run1 s a) ++ snd (run1 (fst (run1 s a)) b)).
Proof. exact run1_app. Qed.

(* the hypothesis is needed: the same code with one process-wide saved cell is not isolated *)
Theorem C22_shared_saved_refuted :
  obs_of 0 (snd (crun true cs0 witness_sched)) <> snd (run1 ts0 (ops_of 0 witness_sched)).
Proof. exact shared_saved_breaks_isolation. Qed.
Print Assumptions C22_shared_saved_refuted.

(* non-vacuity: a noisy two-thread schedule with a callback *)
Example C22_example :
  run_sched false 2
    [(0%nat, (0, 5)); (1%nat, (0, 7)); (0%nat, (2, 99)); (0%nat, (3, 0)); (0%nat, (5, 0)); (1%nat, (1, 0));
     (0%nat, (4, 11)); (0%nat, (7, 0)); (0%nat, (1, 0)); (1%nat, (0, 8)); (0%nat, (0, 12)); (0%nat, (8, 0));
     (0%nat, (5, 0)); (0%nat, (6, 0)); (0%nat, (1, 0)); (1%nat, (1, 0))]
  = [[5; 11; 12; 12]; [7; 8]].
Proof. vm_compute. reflexivity. Qed.
