(* C22 — proofs *)
From Coq Require Import ZArith List Bool Arith Lia.
Import ListNotations.
From Cffi Require Import C22.Model C22.Spec C22.Gen.
Open Scope Z_scope.

(* ---- frame: with per-thread cells a step of t changes only t's view *)
Lemma upd_same f t v : upd f t v t = v.
Proof. unfold upd. rewrite Nat.eqb_refl. reflexivity. Qed.
Lemma upd_other f t v t' : t' <> t -> upd f t v t' = f t'.
Proof. intros H. unfold upd. destruct (Nat.eqb_spec t' t); congruence. Qed.

Lemma view_put_same st t s : view false (put false st t s) t = s.
Proof. unfold view, put; cbn. rewrite !upd_same. destruct s; reflexivity. Qed.
Lemma view_put_other st t s t' : t' <> t -> view false (put false st t s) t' = view false st t'.
Proof. intros H. unfold view, put; cbn. rewrite !upd_other by assumption. reflexivity. Qed.

Lemma run1_cons s o rest :
  run1 s (o :: rest) =
  (fst (run1 (fst (step1 s o)) rest),
   match snd (step1 s o) with Some x => x :: snd (run1 (fst (step1 s o)) rest) | None => snd (run1 (fst (step1 s o)) rest) end).
Proof. cbn [run1]. destruct (step1 s o) as [s1 ob]. cbn [fst snd]. destruct (run1 s1 rest) as [s2 obl]. reflexivity. Qed.

(* non-interference: under ANY schedule over ANY number of threads, thread t observes exactly
   what its own operations produce when run alone from its own initial cells *)
Lemma noninterference_from : forall sch st t,
  obs_of t (snd (crun false st sch)) = snd (run1 (view false st t) (ops_of t sch)).
Proof.
  induction sch as [|[t' o] sch IH]; intros st t.
  - reflexivity.
  - cbn [crun]. unfold cstep. destruct (step1 (view false st t') o) as [s' ob] eqn:E.
    specialize (IH (put false st t' s') t).
    destruct (crun false (put false st t' s') sch) as [st2 obl] eqn:E2. cbn [snd] in *.
    unfold ops_of in *. cbn [filter fst]. destruct (Nat.eqb_spec t' t) as [->|Hne].
    + cbn [map snd]. rewrite run1_cons. rewrite E. cbn [fst snd].
      rewrite view_put_same in IH.
      destruct ob; unfold obs_of in *; cbn [filter fst snd map]; rewrite ?Nat.eqb_refl; cbn [map snd]; rewrite IH; reflexivity.
    + rewrite view_put_other in IH by congruence.
      destruct ob; unfold obs_of in *; cbn [filter fst snd map];
        rewrite ?(proj2 (Nat.eqb_neq t' t)) by assumption; exact IH.
Qed.

Lemma noninterference : forall sch t,
  obs_of t (snd (crun false cs0 sch)) = snd (run1 ts0 (ops_of t sch)).
Proof. intros. apply noninterference_from. Qed.

(* ---- the interpreter's clobbering of errno is invisible *)
Lemma noise_irrelevant_gen : forall ops m s s',
  wf m ops = true ->
  saved s = saved s' -> (m = InC -> cerr s = cerr s') ->
  snd (run1 s ops) = snd (run1 s' (erase ops)).
Proof.
  induction ops as [|o ops IH]; intros m s s' Hwf Hs Hc; [reflexivity|].
  destruct s as [e sv], s' as [e' sv']. cbn in Hs. subst sv'.
  destruct m, o; cbn [wf] in Hwf; try discriminate; unfold erase; cbn [filter is_clobber negb]; fold (erase ops).
  - (* OSet *) rewrite !run1_cons. cbn [step1 saved cerr]. destruct (in_int v); cbn [fst snd].
    + eapply IH; eauto; intros; discriminate.
    + f_equal. eapply IH; eauto; intros; discriminate.
  - (* OGet *) rewrite !run1_cons. cbn [step1 saved cerr fst snd]. f_equal. eapply IH; eauto; intros; discriminate.
  - (* OClobber *) rewrite run1_cons. cbn [step1 saved cerr fst snd]. eapply IH; eauto; intros; discriminate.
  - (* OCallEnter *) rewrite !run1_cons. cbn [step1 saved cerr fst snd]. eapply IH; eauto.
  - (* OCbExit *) rewrite !run1_cons. cbn [step1 saved cerr fst snd]. eapply IH; eauto.
  - (* OCSet *) rewrite !run1_cons. cbn [step1 saved cerr fst snd]. eapply IH; eauto.
  - (* OCRead *) specialize (Hc eq_refl). cbn in Hc. subst e'. rewrite !run1_cons. cbn [step1 saved cerr fst snd].
    f_equal. eapply IH; eauto.
  - (* OCallExit *) specialize (Hc eq_refl). cbn in Hc. subst e'. rewrite !run1_cons. cbn [step1 saved cerr fst snd].
    eapply IH; eauto; intros; discriminate.
  - (* OCbEnter *) specialize (Hc eq_refl). cbn in Hc. subst e'. rewrite !run1_cons. cbn [step1 saved cerr fst snd].
    eapply IH; eauto; intros; discriminate.
Qed.

Lemma noise_irrelevant : forall ops s e',
  wf Py ops = true ->
  snd (run1 s ops) = snd (run1 (mkTs e' (saved s)) (erase ops)).
Proof. intros. eapply noise_irrelevant_gen; eauto. intros; discriminate. Qed.

(* ---- the two-cell implementation refines the one-cell specification *)
Lemma refines_spec_gen : forall ops m s z,
  wf m ops = true ->
  (m = Py -> saved s = z) -> (m = InC -> cerr s = z) ->
  snd (run1 s ops) = spec_run z ops.
Proof.
  induction ops as [|o ops IH]; intros m s z Hwf Hp Hc; [reflexivity|].
  destruct s as [e sv].
  destruct m, o; cbn [wf] in Hwf; try discriminate;
    rewrite run1_cons; cbn [step1 spec_run spec_step saved cerr fst snd];
    try (specialize (Hp eq_refl)); try (specialize (Hc eq_refl)); cbn [saved cerr] in *; subst.
  - destruct (in_int v); cbn [fst snd].
    + eapply IH; eauto; intros; try discriminate; reflexivity.
    + f_equal. eapply IH; eauto; intros; try discriminate; reflexivity.
  - f_equal. eapply IH; eauto; intros; try discriminate; reflexivity.
  - eapply IH; eauto; intros; try discriminate; reflexivity.
  - eapply IH; eauto; intros; try discriminate; reflexivity.
  - eapply IH; eauto; intros; try discriminate; reflexivity.
  - eapply IH; eauto; intros; try discriminate; reflexivity.
  - f_equal. eapply IH; eauto; intros; try discriminate; reflexivity.
  - eapply IH; eauto; intros; try discriminate; reflexivity.
  - eapply IH; eauto; intros; try discriminate; reflexivity.
Qed.

Lemma refines_spec : forall ops s, wf Py ops = true -> snd (run1 s ops) = spec_run (saved s) ops.
Proof. intros. eapply refines_spec_gen; eauto. intros; discriminate. Qed.

(* any schedule, any number of threads: every thread observes its own single logical errno *)
Lemma threads_refine_spec : forall sch t, wf Py (ops_of t sch) = true ->
  obs_of t (snd (crun false cs0 sch)) = spec_run 0 (ops_of t sch).
Proof. intros. rewrite noninterference. apply (refines_spec _ ts0). assumption. Qed.

(* ---- sequential laws (stated without noise; noise_irrelevant extends them to any clobbering) *)
Lemma law_set_then_call : forall s v, in_int v = true ->
  snd (run1 s [OSet v; OCallEnter; OCRead]) = [ObsVal v].
Proof. intros s v H. cbn. rewrite H. reflexivity. Qed.

Lemma law_call_then_get : forall s e,
  snd (run1 s [OCallEnter; OCSet e; OCallExit; OGet]) = [ObsVal e].
Proof. intros. reflexivity. Qed.

Lemma law_call_untouched : forall s v, in_int v = true ->
  snd (run1 s [OSet v; OCallEnter; OCallExit; OGet]) = [ObsVal v].
Proof. intros s v H. cbn. rewrite H. reflexivity. Qed.

Lemma law_callback_sees_c_errno : forall s e,
  snd (run1 s [OCallEnter; OCSet e; OCbEnter; OGet]) = [ObsVal e].
Proof. intros. reflexivity. Qed.

Lemma law_callback_sets_c_errno : forall s v, in_int v = true ->
  snd (run1 s [OCallEnter; OCbEnter; OSet v; OCbExit; OCRead]) = [ObsVal v].
Proof. intros s v H. cbn. rewrite H. reflexivity. Qed.

Lemma law_callback_preserves : forall s e,
  snd (run1 s [OCallEnter; OCSet e; OCbEnter; OCbExit; OCRead]) = [ObsVal e].
Proof. intros. reflexivity. Qed.

Lemma law_get_twice : forall s, snd (run1 s [OGet; OGet]) = [ObsVal (saved s); ObsVal (saved s)].
Proof. intros. reflexivity. Qed.

Lemma law_set_overflow : forall s v, in_int v = false ->
  run1 s [OSet v] = (s, [ObsOverflow]).
Proof. intros s v H. cbn. rewrite H. reflexivity. Qed.

(* general form: what a thread observes is a function of the saved cell only at Python points,
   so the laws hold after any prefix *)
Lemma run1_app : forall a b s,
  run1 s (a ++ b) = (fst (run1 (fst (run1 s a)) b), snd (run1 s a) ++ snd (run1 (fst (run1 s a)) b)).
Proof.
  induction a as [|o a IH]; intros b s.
  - cbn. destruct (run1 s b); reflexivity.
  - rewrite <- app_comm_cons. rewrite !run1_cons. rewrite IH. cbn [fst snd].
    destruct (snd (step1 s o)); reflexivity.
Qed.

(* ---- the same code with a single process-wide saved cell is NOT isolated *)
Definition witness_sched : list (nat * op) :=
  [(0%nat, OSet 5); (1%nat, OSet 7); (0%nat, OCallEnter); (0%nat, OCRead); (0%nat, OCallExit)].

Lemma shared_saved_breaks_isolation :
  obs_of 0 (snd (crun true cs0 witness_sched)) <> snd (run1 ts0 (ops_of 0 witness_sched)).
Proof. vm_compute. discriminate. Qed.

(* ---- the regenerated call paths instantiate the abstract operations *)
Lemma run1_snoc : forall body s o,
  run1 s (body ++ [o]) =
  (fst (step1 (fst (run1 s body)) o),
   snd (run1 s body) ++ match snd (step1 (fst (run1 s body)) o) with Some x => [x] | None => [] end).
Proof.
  intros. rewrite run1_app. cbn [run1]. destruct (step1 (fst (run1 s body)) o) as [s1 [x|]]; reflexivity.
Qed.

Lemma exec_call_bracket : forall body s,
  exec_path call_bracket body s = run1 s (OCallEnter :: body ++ [OCallExit]).
Proof.
  intros. unfold call_bracket. cbn [exec_path]. rewrite run1_cons. cbn [step1 fst snd]. fold (restore_fn s).
  rewrite run1_snoc. cbn [step1 fst snd]. destruct (run1 (restore_fn s) body) as [s1 o1]. cbn [fst snd].
  unfold save_fn. reflexivity.
Qed.

Lemma exec_cb_bracket : forall body s,
  exec_path cb_bracket body s = run1 s (OCbEnter :: body ++ [OCbExit]).
Proof.
  intros. unfold cb_bracket. cbn [exec_path]. rewrite run1_cons. cbn [step1 fst snd]. fold (save_fn s).
  rewrite run1_snoc. cbn [step1 fst snd]. destruct (run1 (save_fn s) body) as [s1 o1]. cbn [fst snd].
  unfold restore_fn. reflexivity.
Qed.

Lemma gen_call_paths :
  gen_b_call = call_bracket /\ gen_api_wrapper = call_bracket /\ gen_glob_fetch = call_bracket /\
  gen_invoke_callback = cb_bracket /\ gen_call_python = cb_bracket /\
  gen_api_export_slots_ok = true /\ gen_posix_aliases = true /\
  gen_save_errno_only_copies_errno_to_saved = true /\ gen_restore_errno_only_copies_saved_to_errno = true.
Proof. repeat split; reflexivity. Qed.

Lemma gen_paths_are_the_model : forall body s,
  exec_path gen_b_call body s = run1 s (OCallEnter :: body ++ [OCallExit]) /\
  exec_path gen_api_wrapper body s = run1 s (OCallEnter :: body ++ [OCallExit]) /\
  exec_path gen_glob_fetch body s = run1 s (OCallEnter :: body ++ [OCallExit]) /\
  exec_path gen_invoke_callback body s = run1 s (OCbEnter :: body ++ [OCbExit]) /\
  exec_path gen_call_python body s = run1 s (OCbEnter :: body ++ [OCbExit]).
Proof.
  intros. destruct gen_call_paths as (-> & -> & -> & -> & -> & _).
  repeat split; first [apply exec_call_bracket | apply exec_cb_bracket].
Qed.

Lemma gen_get_errno_is_OGet : forall s,
  exec_e gen_get_errno 0 s None = (fst (step1 s OGet), Some (saved s)) /\
  snd (step1 s OGet) = Some (ObsVal (saved s)).
Proof. intros. split; reflexivity. Qed.

Lemma gen_set_errno_is_OSet : forall s v, in_int v = true ->
  exec_e gen_set_errno v s None = (fst (step1 s (OSet v)), None) /\
  (fst gen_set_errno_range <=? v) && (v <=? snd gen_set_errno_range) = true.
Proof.
  intros s v H. split.
  - cbn. rewrite H. reflexivity.
  - exact H.
Qed.

Lemma gen_set_errno_range_is_int : gen_set_errno_range = (int_min, int_max).
Proof. reflexivity. Qed.

(* the non-interference theorem for the storage class the source declares *)
Lemma noninterference_gen : forall sch t,
  obs_of t (snd (crun (negb gen_saved_thread_local) cs0 sch)) = snd (run1 ts0 (ops_of t sch)).
Proof. exact noninterference. Qed.

Lemma zero_is_first_class : forall s,
  snd (run1 s [OSet 0; OCallEnter; OCRead]) = [ObsVal 0] /\
  snd (run1 s [OCallEnter; OCSet 0; OCallExit; OGet]) = [ObsVal 0] /\
  snd (run1 s [OCallEnter; OCbEnter; OSet 0; OCbExit; OCRead]) = [ObsVal 0] /\
  snd (run1 s [OCallEnter; OCSet 0; OCbEnter; OGet]) = [ObsVal 0].
Proof. intros; repeat split; reflexivity. Qed.
