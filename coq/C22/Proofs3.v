(* C22 — proofs, part 3: the statement-level N-thread system refines the one-cell specification *)
From Coq Require Import ZArith List Bool Arith Lia.
Import ListNotations.
From Cffi Require Import C22.Model C22.Spec C22.Gen C22.Proofs C22.Proofs2 C22.Micro.
Open Scope Z_scope.

Section Generic.
  Context {A : Type} (step : ts -> A -> ts * option obs).

  Lemma grun1_cons s a rest :
    grun1 step s (a :: rest) =
    (fst (grun1 step (fst (step s a)) rest),
     match snd (step s a) with
     | Some x => x :: snd (grun1 step (fst (step s a)) rest)
     | None => snd (grun1 step (fst (step s a)) rest) end).
  Proof. cbn [grun1]. destruct (step s a) as [s1 ob]. cbn [fst snd]. destruct (grun1 step s1 rest). reflexivity. Qed.

  Lemma grun1_app : forall a b s,
    grun1 step s (a ++ b) =
    (fst (grun1 step (fst (grun1 step s a)) b), snd (grun1 step s a) ++ snd (grun1 step (fst (grun1 step s a)) b)).
  Proof.
    induction a as [|o a IH]; intros b s.
    - cbn. destruct (grun1 step s b); reflexivity.
    - rewrite <- app_comm_cons. rewrite !grun1_cons. rewrite IH. cbn [fst snd].
      destruct (snd (step s o)); reflexivity.
  Qed.

  (* thread-locality for ANY step function on the per-thread cells, any number of threads, any schedule *)
  Lemma g_noninterference_from : forall sch st t,
    obs_of t (snd (gcrun step st sch)) = snd (grun1 step (view false st t) (gops_of t sch)).
  Proof.
    induction sch as [|[t' o] sch IH]; intros st t.
    - reflexivity.
    - cbn [gcrun]. destruct (step (view false st t') o) as [s' ob] eqn:E.
      specialize (IH (put false st t' s') t).
      destruct (gcrun step (put false st t' s') sch) as [st2 obl] eqn:E2. cbn [snd] in *.
      unfold gops_of in *. cbn [filter fst]. destruct (Nat.eqb_spec t' t) as [->|Hne].
      + cbn [map snd]. rewrite grun1_cons. rewrite E. cbn [fst snd].
        rewrite view_put_same in IH.
        destruct ob; unfold obs_of in *; cbn [filter fst snd map]; rewrite ?Nat.eqb_refl; cbn [map snd]; rewrite IH; reflexivity.
      + rewrite view_put_other in IH by congruence.
        destruct ob; unfold obs_of in *; cbn [filter fst snd map];
          rewrite ?(proj2 (Nat.eqb_neq t' t)) by assumption; exact IH.
  Qed.
End Generic.

(* ---- facts about the regenerated path pieces (recomputed on every run) *)
Lemma gen_pres_ok : forallb pre_ok cb_pres = true.
Proof. vm_compute. reflexivity. Qed.
Lemma gen_posts_ok : forallb post_ok cb_posts = true.
Proof. vm_compute. reflexivity. Qed.
Lemma gen_nopy_ok : forallb nopy_ok cb_nopy = true.
Proof. vm_compute. reflexivity. Qed.

Lemma ev_eqb_eq : forall a b, ev_eqb a b = true -> a = b.
Proof. intros [| | |[]] [| | |[]] H; cbn in H; try discriminate; reflexivity. Qed.
Lemma evs_eqb_eq : forall a b, evs_eqb a b = true -> a = b.
Proof.
  induction a as [|x a IH]; intros [|y b] H; cbn in H; try discriminate; [reflexivity|].
  apply andb_true_iff in H. destruct H as [H1 H2]. f_equal; [apply ev_eqb_eq|apply IH]; assumption.
Qed.
Lemma existsb_eqb_in : forall p l, existsb (evs_eqb p) l = true -> In p l.
Proof.
  intros p l H. apply existsb_exists in H. destruct H as (q & Hq & E). apply evs_eqb_eq in E. subst. assumption.
Qed.

(* ---- noise statements are OClobber *)
Lemma noise_run : forall ns nz s, forallb is_noise ns = true ->
  grun1 mstep1 s (m_of_evs ns nz) = run1 s (clob ns nz).
Proof.
  induction ns as [|e ns IH]; intros nz s H; [reflexivity|].
  cbn [forallb] in H. apply andb_true_iff in H. destruct H as [He H].
  destruct e; cbn [is_noise] in He; try discriminate.
  cbn [m_of_evs clob]. rewrite grun1_cons, run1_cons. cbn [mstep1 step1 fst snd]. rewrite IH by assumption. reflexivity.
Qed.

Lemma m_of_evs_app_restore : forall ns nz, forallb is_noise ns = true ->
  m_of_evs (ns ++ [VRestore]) nz = m_of_evs ns nz ++ [MRestore] /\ clob (ns ++ [VRestore]) nz = clob ns nz.
Proof.
  induction ns as [|e ns IH]; intros nz H; [split; reflexivity|].
  cbn [forallb] in H. apply andb_true_iff in H. destruct H as [He H].
  destruct e; cbn [is_noise] in He; try discriminate.
  cbn [app m_of_evs clob]. destruct (IH (tl nz) H) as [A B]. rewrite A, B. split; reflexivity.
Qed.

Lemma post_ok_shape : forall p, post_ok p = true -> exists ns, p = ns ++ [VRestore] /\ forallb is_noise ns = true.
Proof.
  intros p H. unfold post_ok in H. destruct (rev p) as [|[| | |k] r] eqn:E; try discriminate.
  exists (rev r). split.
  - rewrite <- (rev_involutive p), E. reflexivity.
  - rewrite forallb_forall in *. intros x Hx. apply H. apply in_rev. assumption.
Qed.

Lemma post_run : forall p nz s, post_ok p = true ->
  grun1 mstep1 s (m_of_evs p nz) = run1 s (clob p nz ++ [OCbExit]).
Proof.
  intros p nz s H. destruct (post_ok_shape p H) as (ns & -> & Hn).
  destruct (m_of_evs_app_restore ns nz Hn) as [A B]. rewrite A, B.
  rewrite grun1_app, run1_app. rewrite noise_run by assumption.
  cbn [grun1 run1 mstep1 step1 fst snd]. rewrite app_nil_r.
  destruct (run1 s (clob ns nz)) as [s1 o1]. cbn [fst snd]. unfold restore_fn. reflexivity.
Qed.

Lemma pre_run : forall p nz s, pre_ok p = true ->
  grun1 mstep1 s (m_of_evs p nz) = run1 s (OCbEnter :: clob p nz).
Proof.
  intros p nz s H. destruct p as [|[| | |k] r]; cbn [pre_ok] in H; try discriminate.
  cbn [m_of_evs clob]. rewrite grun1_cons, run1_cons. cbn [mstep1 step1 fst snd]. rewrite noise_run by assumption.
  unfold save_fn. reflexivity.
Qed.

Lemma nopy_run : forall p nz s, nopy_ok p = true ->
  grun1 mstep1 s (m_of_evs p nz) = run1 s (OCbEnter :: clob p nz ++ [OCbExit]).
Proof.
  intros p nz s H. destruct p as [|[| | |k] r]; cbn [nopy_ok] in H; try discriminate.
  cbn [m_of_evs clob]. rewrite grun1_cons, run1_cons. cbn [mstep1 step1 fst snd]. rewrite post_run by assumption.
  unfold save_fn. reflexivity.
Qed.

(* ---- every operation, expanded into the regenerated statements of its code path, is the abstract operation *)
Lemma micro_is_abs : forall k s, kvalid k = true -> grun1 mstep1 s (micro k) = run1 s (abs k).
Proof.
  intros k s Hv. destruct k; cbn [micro abs].
  - (* KSet *) change ((fst gen_set_errno_range <=? v) && (v <=? snd gen_set_errno_range)) with (in_int v).
    cbn [run1 step1]. destruct (in_int v); reflexivity.
  - reflexivity.
  - reflexivity.
  - reflexivity.
  - reflexivity.
  - destruct c; reflexivity.
  - destruct c; reflexivity.
  - apply pre_run. cbn [kvalid] in Hv. apply existsb_eqb_in in Hv.
    exact (proj1 (forallb_forall _ _) gen_pres_ok _ Hv).
  - apply post_run. cbn [kvalid] in Hv. apply existsb_eqb_in in Hv.
    exact (proj1 (forallb_forall _ _) gen_posts_ok _ Hv).
  - apply nopy_run. cbn [kvalid] in Hv. apply existsb_eqb_in in Hv.
    exact (proj1 (forallb_forall _ _) gen_nopy_ok _ Hv).
Qed.

Lemma micro_prog_is_abs : forall ks s, forallb kvalid ks = true ->
  grun1 mstep1 s (flat_map micro ks) = run1 s (flat_map abs ks).
Proof.
  induction ks as [|k ks IH]; intros s H; [reflexivity|].
  cbn [forallb] in H. apply andb_true_iff in H. destruct H as [Hk H].
  cbn [flat_map]. rewrite grun1_app, run1_app. rewrite micro_is_abs by assumption. rewrite IH by assumption. reflexivity.
Qed.

(* ---- the refinement theorem at statement granularity *)
Lemma micro_threads_refine_spec : forall (msch : list (nat * mstep)) (prog : nat -> list kop) (t : nat),
  gops_of t msch = flat_map micro (prog t) ->
  forallb kvalid (prog t) = true ->
  wf Py (flat_map abs (prog t)) = true ->
  obs_of t (snd (gcrun mstep1 cs0 msch)) = spec_run 0 (flat_map abs (prog t)).
Proof.
  intros msch prog t Hops Hv Hwf.
  rewrite g_noninterference_from. rewrite Hops. rewrite micro_prog_is_abs by assumption.
  apply (refines_spec _ ts0). assumption.
Qed.

Lemma micro_c_threads_refine_spec : forall (msch : list (nat * mstep)) (prog : nat -> list kop) (t : nat),
  gops_of t msch = flat_map micro (prog t) ->
  forallb kvalid (prog t) = true ->
  wf InC (flat_map abs (prog t)) = true ->
  obs_of t (snd (gcrun mstep1 cs0 msch)) = spec_run 0 (flat_map abs (prog t)).
Proof.
  intros msch prog t Hops Hv Hwf.
  rewrite g_noninterference_from. rewrite Hops. rewrite micro_prog_is_abs by assumption.
  apply (refines_spec_inC _ ts0). assumption.
Qed.

(* the four call paths of the property are present and distinct in the statement-level model *)
Definition demo_prog (c : callpath) : list kop :=
  [KSet 5; KClobber 99; KCallEnter c; KCRead; KCSet 11;
   KCbEnter [VSave; VNoise NGilEnsure] [7]; KGet; KSet 12; KCbExit [VNoise NGilRelease; VRestore] [8];
   KCRead; KCSet 21; KCbNoPy [VSave; VNoise NReport; VNoise NMemset; VRestore] [25; 0]; KCRead;
   KCallExit c; KClobber 3; KGet].
Lemma demo_valid : forall c, forallb kvalid (demo_prog c) = true /\ wf Py (flat_map abs (demo_prog c)) = true /\
  snd (grun1 mstep1 ts0 (flat_map micro (demo_prog c))) = [ObsVal 5; ObsVal 11; ObsVal 12; ObsVal 21; ObsVal 21].
Proof. intros []; repeat split; vm_compute; reflexivity. Qed.
