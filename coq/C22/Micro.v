(* C22 — statement-level ("micro") model.  Definitions only.
   Every operation of a thread is expanded into the statements of the code path it takes, as
   REGENERATED into C22/Gen.v: ffi.errno get/set -> bodies of b_get_errno / b_set_errno; a C call ->
   the statements before / after the foreign call in b_call (ABI), in the generated wrapper (API) or in
   fetch_global_var_addr (global variable); a callback -> the statements of one syntactic path of
   cffi_call_python / invoke_callback before / after the Python code (or a whole path that runs no
   Python code).  N threads are interleaved between ANY two statements (finer than the GIL allows). *)
From Coq Require Import ZArith List Bool Arith.
Import ListNotations.
From Cffi Require Import C22.Model C22.Gen C22.Proofs2.
Open Scope Z_scope.

Inductive mstep :=
| MRestore | MSave            (* restore_errno() / save_errno() and the _only variants *)
| MAssign (v : Z)             (* errno = v: C code, b_set_errno, the zeroing in b_get/set_errno, noise *)
| MRead                       (* errno is read: an observation *)
| MOverflow.                  (* b_set_errno refuses the value: an observation *)

Definition mstep1 (s : ts) (m : mstep) : ts * option obs :=
  match m with
  | MRestore => (restore_fn s, None)
  | MSave => (save_fn s, None)
  | MAssign v => (mkTs v (saved s), None)
  | MRead => (s, Some (ObsVal (cerr s)))
  | MOverflow => (s, Some ObsOverflow)
  end.

(* generic single-thread run and N-thread interleaved run over per-thread cells *)
Section Generic.
  Context {A : Type} (step : ts -> A -> ts * option obs).
  Fixpoint grun1 (s : ts) (l : list A) : ts * list obs :=
    match l with
    | [] => (s, [])
    | a :: rest =>
        let '(s1, ob) := step s a in
        let '(s2, obl) := grun1 s1 rest in
        (s2, match ob with Some x => x :: obl | None => obl end)
    end.
  Fixpoint gcrun (st : cstate) (sch : list (nat * A)) : cstate * list (nat * obs) :=
    match sch with
    | [] => (st, [])
    | (t, a) :: rest =>
        let '(s', ob) := step (view false st t) a in
        let '(st2, obl) := gcrun (put false st t s') rest in
        (st2, match ob with Some x => (t, x) :: obl | None => obl end)
    end.
  Definition gops_of (t : nat) (sch : list (nat * A)) : list A :=
    map snd (filter (fun x => Nat.eqb (fst x) t) sch).
End Generic.

(* the operations of a thread, naming the code path taken *)
Inductive callpath := PAbi | PApi | PGlob.
Inductive kop :=
| KSet (v : Z) | KGet | KClobber (v : Z) | KCSet (v : Z) | KCRead
| KCallEnter (c : callpath) | KCallExit (c : callpath)
| KCbEnter (pre : list ev) (nz : list Z)    (* a bracket path up to the Python code; nz = what the noise leaves *)
| KCbExit (post : list ev) (nz : list Z)    (* ... from the end of the Python code *)
| KCbNoPy (p : list ev) (nz : list Z).      (* a whole path that runs no Python code *)

Definition path_of (c : callpath) : list bstep :=
  match c with PAbi => gen_b_call | PApi => gen_api_wrapper | PGlob => gen_glob_fetch end.
Fixpoint before_foreign (l : list bstep) : list bstep :=
  match l with [] => [] | BForeign :: _ => [] | x :: r => x :: before_foreign r end.
Fixpoint after_foreign (l : list bstep) : list bstep :=
  match l with [] => [] | BForeign :: r => r | _ :: r => after_foreign r end.
Definition m_of_b (b : bstep) : list mstep :=
  match b with BRestore => [MRestore] | BSave => [MSave] | BForeign => [] end.
Definition m_of_e (ival : Z) (e : estep) : mstep :=
  match e with
  | ERestoreOnly => MRestore | ESaveOnly => MSave | EReadErrno => MRead
  | EZeroErrno => MAssign 0 | EAssignErrno => MAssign ival
  end.
Fixpoint m_of_evs (p : list ev) (nz : list Z) : list mstep :=
  match p with
  | [] => []
  | VSave :: r => MSave :: m_of_evs r nz
  | VRestore :: r => MRestore :: m_of_evs r nz
  | VNoise _ :: r => MAssign (hd 0 nz) :: m_of_evs r (tl nz)
  | VInvoke :: r => m_of_evs r nz
  end.

Definition micro (k : kop) : list mstep :=
  match k with
  | KSet v => if (fst gen_set_errno_range <=? v) && (v <=? snd gen_set_errno_range)
              then map (m_of_e v) gen_set_errno else [MOverflow]
  | KGet => map (m_of_e 0) gen_get_errno
  | KClobber v => [MAssign v]
  | KCSet v => [MAssign v]
  | KCRead => [MRead]
  | KCallEnter c => flat_map m_of_b (before_foreign (path_of c))
  | KCallExit c => flat_map m_of_b (after_foreign (path_of c))
  | KCbEnter pre nz => m_of_evs pre nz
  | KCbExit post nz => m_of_evs post nz
  | KCbNoPy p nz => m_of_evs p nz
  end.

(* the abstract operations (C22/Model.v) the same activity stands for *)
Fixpoint clob (l : list ev) (nz : list Z) : list op :=
  match l with
  | [] => []
  | VNoise _ :: r => OClobber (hd 0 nz) :: clob r (tl nz)
  | _ :: r => clob r nz
  end.
Definition abs (k : kop) : list op :=
  match k with
  | KSet v => [OSet v] | KGet => [OGet] | KClobber v => [OClobber v] | KCSet v => [OCSet v] | KCRead => [OCRead]
  | KCallEnter _ => [OCallEnter] | KCallExit _ => [OCallExit]
  | KCbEnter pre nz => OCbEnter :: clob pre nz
  | KCbExit post nz => clob post nz ++ [OCbExit]
  | KCbNoPy p nz => OCbEnter :: clob p nz ++ [OCbExit]
  end.

(* which path pieces exist in the regenerated code *)
Definition ev_eqb (a b : ev) : bool :=
  match a, b with
  | VSave, VSave | VRestore, VRestore | VInvoke, VInvoke => true
  | VNoise x, VNoise y =>
      match x, y with
      | NGilEnsure, NGilEnsure | NGilRelease, NGilRelease | NUpdateCache, NUpdateCache
      | NReport, NReport | NMemset, NMemset => true
      | _, _ => false
      end
  | _, _ => false
  end.
Fixpoint evs_eqb (a b : list ev) : bool :=
  match a, b with
  | [], [] => true
  | x :: a', y :: b' => ev_eqb x y && evs_eqb a' b'
  | _, _ => false
  end.
Fixpoint split_invoke (p : list ev) : option (list ev * list ev) :=
  match p with
  | [] => None
  | VInvoke :: r => Some ([], r)
  | x :: r => match split_invoke r with Some (a, b) => Some (x :: a, b) | None => None end
  end.
Definition cb_pres : list (list ev) :=
  flat_map (fun p => match split_invoke p with Some (a, _) => [a] | None => [] end) cb_paths.
Definition cb_posts : list (list ev) :=
  flat_map (fun p => match split_invoke p with Some (_, b) => [b] | None => [] end) cb_paths.
Definition cb_nopy : list (list ev) := filter (fun p => negb (has_invoke p)) cb_paths.
Definition kvalid (k : kop) : bool :=
  match k with
  | KCbEnter pre _ => existsb (evs_eqb pre) cb_pres
  | KCbExit post _ => existsb (evs_eqb post) cb_posts
  | KCbNoPy p _ => existsb (evs_eqb p) cb_nopy
  | _ => true
  end.

Definition is_noise (e : ev) : bool := match e with VNoise _ => true | _ => false end.
Definition pre_ok (p : list ev) : bool := match p with VSave :: r => forallb is_noise r | _ => false end.
Definition post_ok (p : list ev) : bool :=
  match rev p with VRestore :: r => forallb is_noise r | _ => false end.
Definition nopy_ok (p : list ev) : bool := match p with VSave :: r => post_ok r | _ => false end.
