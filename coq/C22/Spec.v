(* C22 — specification, written from the property text only: each thread has ONE logical errno.
   ffi.errno reads and writes it, C code called through cffi reads and writes it, callbacks see
   and may change it; the interpreter's own activity does not touch it; crossing between Python
   and C does not change it. *)
From Coq Require Import ZArith List Bool.
Import ListNotations.
From Cffi Require Import C22.Model.
Open Scope Z_scope.

Definition spec_step (z : Z) (o : op) : Z * option obs :=
  match o with
  | OSet v => if in_int v then (v, None) else (z, Some ObsOverflow)
  | OGet | OCRead => (z, Some (ObsVal z))
  | OCSet v => (v, None)
  | OClobber _ | OCallEnter | OCallExit | OCbEnter | OCbExit => (z, None)
  end.

Fixpoint spec_run (z : Z) (ops : list op) : list obs :=
  match ops with
  | [] => []
  | o :: rest =>
      let '(z1, ob) := spec_step z o in
      match ob with Some x => x :: spec_run z1 rest | None => spec_run z1 rest end
  end.

(* the logical errno after the operations *)
Fixpoint spec_final (z : Z) (ops : list op) : Z :=
  match ops with
  | [] => z
  | o :: rest => spec_final (fst (spec_step z o)) rest
  end.
