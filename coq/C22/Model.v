(* C22 — errno is passed to and from C calls and is thread-local.

   Code modelled (pinned commit):
     src/c/misc_thread_common.h:292  static __thread int cffi_saved_errno = 0;
                              :293  save_errno_only():    cffi_saved_errno = errno;
                              :294  restore_errno_only(): errno = cffi_saved_errno;
     src/c/_cffi_backend.c:7100 b_get_errno: restore_errno_only(); err = errno; errno = 0; return err
                          :7109 b_set_errno: range check; errno = ival; save_errno_only(); errno = 0
                          :3223 b_call:   Py_BEGIN_ALLOW_THREADS restore_errno(); ffi_call(...); save_errno(); Py_END_ALLOW_THREADS
                          :6317 invoke_callback: save_errno(); <run the Python callback>; restore_errno()
     src/c/call_python.c:241/278   cffi_call_python (extern "Python"): save_errno(); ...; restore_errno()
     src/cffi/recompiler.py:745    API-mode wrappers: _cffi_restore_errno(); call; _cffi_save_errno()
     src/c/cglob.c                 fetch of a global through its accessor: restore_errno(); fetch; save_errno()

   Per thread there are two cells: the C library's errno and cffi's saved copy.  A thread's
   activity is a sequence of the operations below; while the thread runs Python code the C
   errno is clobbered at will by the interpreter (OClobber); while it runs C code called through
   cffi only that C code touches it (OCSet / OCRead).  *)
From Coq Require Import ZArith List Bool Arith Lia.
Import ListNotations.
Open Scope Z_scope.

Inductive op :=
| OSet (v : Z)        (* ffi.errno = v                                   (Python) *)
| OGet                (* ffi.errno                                       (Python) *)
| OClobber (v : Z)    (* the interpreter's own libc calls change errno   (Python) *)
| OCallEnter          (* a C function is called through cffi: restore_errno()  (Python -> C) *)
| OCSet (v : Z)       (* the C code assigns errno                        (C) *)
| OCRead              (* the C code reads errno: an observation          (C) *)
| OCallExit           (* the C function returns: save_errno()            (C -> Python) *)
| OCbEnter            (* C code calls a cffi callback: save_errno()      (C -> Python) *)
| OCbExit.            (* the callback returns: restore_errno()           (Python -> C) *)

Inductive obs := ObsVal (z : Z) | ObsOverflow.

Record ts := mkTs { cerr : Z; saved : Z }.

Definition int_min : Z := - 2 ^ 31.
Definition int_max : Z := 2 ^ 31 - 1.
Definition in_int (v : Z) : bool := (int_min <=? v) && (v <=? int_max).

(* one operation of one thread on its own two cells *)
Definition step1 (s : ts) (o : op) : ts * option obs :=
  match o with
  | OSet v => if in_int v then (mkTs 0 v, None) else (s, Some ObsOverflow)
  | OGet => (mkTs 0 (saved s), Some (ObsVal (saved s)))
  | OClobber v => (mkTs v (saved s), None)
  | OCallEnter => (mkTs (saved s) (saved s), None)
  | OCSet v => (mkTs v (saved s), None)
  | OCRead => (s, Some (ObsVal (cerr s)))
  | OCallExit => (mkTs (cerr s) (cerr s), None)
  | OCbEnter => (mkTs (cerr s) (cerr s), None)
  | OCbExit => (mkTs (saved s) (saved s), None)
  end.

Fixpoint run1 (s : ts) (ops : list op) : ts * list obs :=
  match ops with
  | [] => (s, [])
  | o :: rest =>
      let '(s1, ob) := step1 s o in
      let '(s2, obl) := run1 s1 rest in
      (s2, match ob with Some x => x :: obl | None => obl end)
  end.

Definition ts0 : ts := mkTs 0 0.

(* ---- any number of threads.  `shared` = false is the code as written under the hypothesis
   that `__thread` storage (cffi_saved_errno) and the C library's errno are per thread;
   `shared` = true is the same code with ONE cffi_saved_errno cell for the whole process
   (what `static int cffi_saved_errno` without __thread would be). *)
Record cstate := mkCs { errs : nat -> Z; saveds : nat -> Z; gsaved : Z }.
Definition cs0 : cstate := mkCs (fun _ => 0) (fun _ => 0) 0.

Definition upd (f : nat -> Z) (t : nat) (v : Z) : nat -> Z := fun t' => if Nat.eqb t' t then v else f t'.

Definition view (shared : bool) (st : cstate) (t : nat) : ts :=
  mkTs (errs st t) (if shared then gsaved st else saveds st t).

Definition put (shared : bool) (st : cstate) (t : nat) (s : ts) : cstate :=
  if shared then mkCs (upd (errs st) t (cerr s)) (saveds st) (saved s)
  else mkCs (upd (errs st) t (cerr s)) (upd (saveds st) t (saved s)) (gsaved st).

Definition cstep (shared : bool) (st : cstate) (t : nat) (o : op) : cstate * option obs :=
  let '(s', ob) := step1 (view shared st t) o in (put shared st t s', ob).

(* a schedule is any interleaving: a list of (thread, operation) *)
Fixpoint crun (shared : bool) (st : cstate) (sch : list (nat * op)) : cstate * list (nat * obs) :=
  match sch with
  | [] => (st, [])
  | (t, o) :: rest =>
      let '(st1, ob) := cstep shared st t o in
      let '(st2, obl) := crun shared st1 rest in
      (st2, match ob with Some x => (t, x) :: obl | None => obl end)
  end.

Definition obs_of (t : nat) (l : list (nat * obs)) : list obs :=
  map snd (filter (fun x => Nat.eqb (fst x) t) l).
Definition ops_of (t : nat) (sch : list (nat * op)) : list op :=
  map snd (filter (fun x => Nat.eqb (fst x) t) sch).

(* ---- where the interpreter may clobber errno: only while the thread runs Python code *)
Inductive mode := Py | InC.
Fixpoint wf (m : mode) (ops : list op) : bool :=
  match ops with
  | [] => true
  | o :: rest =>
      match m, o with
      | Py, (OSet _ | OGet | OClobber _) => wf Py rest
      | Py, (OCallEnter | OCbExit) => wf InC rest
      | InC, (OCSet _ | OCRead) => wf InC rest
      | InC, (OCallExit | OCbEnter) => wf Py rest
      | _, _ => false
      end
  end.
Definition is_clobber (o : op) : bool := match o with OClobber _ => true | _ => false end.
Definition erase (ops : list op) : list op := filter (fun o => negb (is_clobber o)) ops.

(* ---- encoding used by the correspondence harness: op codes and observation lists *)
Definition decode_op (c : Z) (v : Z) : op :=
  if c =? 0 then OSet v else if c =? 1 then OGet else if c =? 2 then OClobber v
  else if c =? 3 then OCallEnter else if c =? 4 then OCSet v else if c =? 5 then OCRead
  else if c =? 6 then OCallExit else if c =? 7 then OCbEnter else OCbExit.
Definition obs_code (o : obs) : Z := match o with ObsVal z => z | ObsOverflow => -999999 end.
(* schedule given as (thread, opcode, value) triples; result: per thread < n its observations *)
Definition run_sched (shared : bool) (n : nat) (sch : list (nat * (Z * Z))) : list (list Z) :=
  let r := snd (crun shared cs0 (map (fun x => (fst x, decode_op (fst (snd x)) (snd (snd x)))) sch)) in
  map (fun t => map obs_code (obs_of t r)) (seq 0 n).

(* ---- the concrete call paths, as regenerated from the sources (C22/Gen.v).
   Every path into foreign code is a sequence of three kinds of steps; the abstract operations
   above assume the two brackets below. *)
Inductive bstep := BRestore | BSave | BForeign.
Definition call_bracket : list bstep := [BRestore; BForeign; BSave].   (* Python -> C -> Python *)
Definition cb_bracket : list bstep := [BSave; BForeign; BRestore].     (* C -> Python -> C *)

Definition restore_fn (s : ts) : ts := mkTs (saved s) (saved s).       (* errno = cffi_saved_errno *)
Definition save_fn (s : ts) : ts := mkTs (cerr s) (cerr s).            (* cffi_saved_errno = errno *)

Fixpoint exec_path (path : list bstep) (body : list op) (s : ts) : ts * list obs :=
  match path with
  | [] => (s, [])
  | BRestore :: rest => exec_path rest body (restore_fn s)
  | BSave :: rest => exec_path rest body (save_fn s)
  | BForeign :: rest =>
      let '(s1, o1) := run1 s body in
      let '(s2, o2) := exec_path rest body s1 in (s2, o1 ++ o2)
  end.

(* bodies of b_get_errno / b_set_errno as statement sequences *)
Inductive estep := ERestoreOnly | ESaveOnly | EReadErrno | EZeroErrno | EAssignErrno.
Fixpoint exec_e (body : list estep) (ival : Z) (s : ts) (r : option Z) : ts * option Z :=
  match body with
  | [] => (s, r)
  | ERestoreOnly :: rest => exec_e rest ival (restore_fn s) r
  | ESaveOnly :: rest => exec_e rest ival (save_fn s) r
  | EReadErrno :: rest => exec_e rest ival s (Some (cerr s))
  | EZeroErrno :: rest => exec_e rest ival (mkTs 0 (saved s)) r
  | EAssignErrno :: rest => exec_e rest ival (mkTs ival (saved s)) r
  end.

(* ---- control flow of the functions that bracket a callback (cffi_call_python, call_python.c:205;
   invoke_callback, _cffi_backend.c:6360), regenerated statement by statement into C22/Gen.v.
   Every statement of the function body is one of the constructors below (the translator refuses
   anything else); the conditions of `if` are not interpreted: the theorems quantify over ALL
   syntactic paths, a superset of the feasible ones. *)
Inductive noise := NGilEnsure | NGilRelease | NUpdateCache | NReport | NMemset.
Inductive cstmt :=
| CPure                      (* declarations, assignments to locals, read_barrier(): errno untouched *)
| CSave                      (* save_errno();    *)
| CRestore                   (* restore_errno(); *)
| CInvoke                    (* general_invoke_callback(...): the Python code of the callback runs,
                                including its error path (traceback on stderr / the onerror handler) *)
| CNoise (k : noise)         (* library / interpreter code that may leave anything in errno:
                                gil_ensure(), gil_release(), _update_cache_to_call_python(),
                                fprintf(stderr, ...) (the error report), memset() *)
| CIf (a b : list cstmt)     (* if (...) { a } else { b } *)
| CReturn.                   (* return; *)

Inductive ev := VSave | VRestore | VInvoke | VNoise (k : noise).

(* paths: the events executed, and whether the path ended in `return` *)
Definition seqp (p q : list (list ev * bool)) : list (list ev * bool) :=
  flat_map (fun x : list ev * bool => if snd x then [x] else map (fun y : list ev * bool => (fst x ++ fst y, snd y)) q) p.
Fixpoint spaths (s : cstmt) : list (list ev * bool) :=
  match s with
  | CPure => [([], false)]
  | CSave => [([VSave], false)]
  | CRestore => [([VRestore], false)]
  | CInvoke => [([VInvoke], false)]
  | CNoise k => [([VNoise k], false)]
  | CReturn => [([], true)]
  | CIf a b =>
      (fix bl (l : list cstmt) : list (list ev * bool) :=
         match l with [] => [([], false)] | x :: r => seqp (spaths x) (bl r) end) a ++
      (fix bl (l : list cstmt) : list (list ev * bool) :=
         match l with [] => [([], false)] | x :: r => seqp (spaths x) (bl r) end) b
  end.
Definition bpaths (l : list cstmt) : list (list ev * bool) :=
  fold_right (fun x acc => seqp (spaths x) acc) [([], false)] l.
Definition cfg_paths (l : list cstmt) : list (list ev) := map fst (bpaths l).

Definition is_touch (e : ev) : bool := match e with VInvoke | VNoise _ => true | _ => false end.
Definition is_invoke (e : ev) : bool := match e with VInvoke => true | _ => false end.
Definition has_invoke (p : list ev) : bool := existsb is_invoke p.
Definition count_invoke (p : list ev) : nat := length (filter is_invoke p).
(* the shape every path of a callback bracket must have: save_errno() first, restore_errno() last,
   everything that can touch errno (Python code, error reporting, GIL, ...) strictly in between,
   the Python code at most once *)
Definition cb_path_ok (p : list ev) : bool :=
  match p with
  | VSave :: rest =>
      match rev rest with
      | VRestore :: rmid => forallb is_touch rmid && (count_invoke rmid <=? 1)%nat
      | _ => false
      end
  | _ => false
  end.

(* executing a path: `body` is what the Python code of the callback does (including the calls to C it
   makes), `nz` the values the noise statements leave in errno *)
Fixpoint exec_evs (p : list ev) (nz : list Z) (body : list op) (s : ts) : ts * list obs :=
  match p with
  | [] => (s, [])
  | VSave :: r => exec_evs r nz body (save_fn s)
  | VRestore :: r => exec_evs r nz body (restore_fn s)
  | VNoise _ :: r => exec_evs r (tl nz) body (mkTs (hd 0 nz) (saved s))
  | VInvoke :: r =>
      let '(s1, o1) := run1 s body in
      let '(s2, o2) := exec_evs r nz body s1 in (s2, o1 ++ o2)
  end.
(* the same activity as abstract operations of the thread *)
Fixpoint inner_ops (mid : list ev) (nz : list Z) (body : list op) : list op :=
  match mid with
  | [] => []
  | VNoise _ :: r => OClobber (hd 0 nz) :: inner_ops r (tl nz) body
  | VInvoke :: r => body ++ inner_ops r nz body
  | _ :: r => inner_ops r nz body
  end.

(* where a well-bracketed sequence of operations ends (None = not well-bracketed) *)
Fixpoint end_mode (m : mode) (ops : list op) : option mode :=
  match ops with
  | [] => Some m
  | o :: rest =>
      match m, o with
      | Py, (OSet _ | OGet | OClobber _) => end_mode Py rest
      | Py, (OCallEnter | OCbExit) => end_mode InC rest
      | InC, (OCSet _ | OCRead) => end_mode InC rest
      | InC, (OCallExit | OCbEnter) => end_mode Py rest
      | _, _ => None
      end
  end.

(* compact encoding (one numeral per step; observations compared through two fingerprints
   computed here — numerals are what costs time in coqc):
   step = ((thread * 16 + opcode) * 2^72) + (value + 2^71) *)
Definition decode_step (x : Z) : nat * op :=
  (Z.to_nat (x / 2 ^ 76), decode_op ((x / 2 ^ 72) mod 16) (x mod 2 ^ 72 - 2 ^ 71)).
Definition fpz (m b : Z) (l : list Z) : Z :=
  fold_left (fun acc z => (acc * b + (z + 2 ^ 71) + 1) mod m) l 7.
Definition run_code (n : nat) (sch : list Z) : option (Z * Z) :=
  let s := map decode_step sch in
  if forallb (fun t => wf Py (ops_of t s)) (seq 0 n) then
    let r := snd (crun false cs0 s) in
    let flat := flat_map (fun t => let o := map obs_code (obs_of t r) in Z.of_nat (length o) :: o) (seq 0 n) in
    Some (fpz 2305843009213693951 1000003 flat, fpz 2147483647 48271 flat)
  else None.
(* the same with m further threads (ids n .. n+m-1) that are started by C code (pthread_create in a C
   function called through cffi) and therefore begin their life in C, not in Python *)
Definition run_code2 (n m : nat) (sch : list Z) : option (Z * Z) :=
  let s := map decode_step sch in
  if forallb (fun t => wf Py (ops_of t s)) (seq 0 n) && forallb (fun t => wf InC (ops_of t s)) (seq n m) then
    let r := snd (crun false cs0 s) in
    let flat := flat_map (fun t => let o := map obs_code (obs_of t r) in Z.of_nat (length o) :: o) (seq 0 (n + m)) in
    Some (fpz 2305843009213693951 1000003 flat, fpz 2147483647 48271 flat)
  else None.
