(* C22/Gen.v — regenerated from src/c/*.c, *.h and src/cffi/recompiler.py.  Do not edit: rewritten by tools/props/c22.py regen() on every run. *)
From Coq Require Import ZArith List Bool.
Import ListNotations.
From Cffi Require Import C22.Model.

(* misc_thread_common.h: storage class of cffi_saved_errno *)
Definition gen_saved_thread_local : bool := true.
Definition gen_save_errno_only_copies_errno_to_saved : bool := true.
Definition gen_restore_errno_only_copies_saved_to_errno : bool := true.
Definition gen_posix_aliases : bool := true.
(* _cffi_backend.c: statements around ffi_call() in b_call *)
Definition gen_b_call : list bstep := [BRestore; BForeign; BSave].
(* recompiler.py _generate_cpy_function_decl: lines emitted between Py_BEGIN/END_ALLOW_THREADS *)
Definition gen_api_wrapper : list bstep := [BRestore; BForeign; BSave].
(* _cffi_include.h slots of _cffi_restore_errno/_cffi_save_errno vs cffi_exports[] *)
Definition gen_api_export_slots_ok : bool := true.
(* cglob.c fetch_global_var_addr *)
Definition gen_glob_fetch : list bstep := [BRestore; BForeign; BSave].
(* _cffi_backend.c invoke_callback *)
Definition gen_invoke_callback : list bstep := [BSave; BForeign; BRestore].
(* call_python.c cffi_call_python (textual order; control flow: gen_call_python_cfg) *)
Definition gen_call_python : list bstep := [BSave; BForeign; BRestore].
(* _cffi_backend.c b_get_errno *)
Definition gen_get_errno : list estep := [ERestoreOnly; EReadErrno; EZeroErrno].
(* _cffi_backend.c b_set_errno (after the range check) *)
Definition gen_set_errno : list estep := [EAssignErrno; ESaveOnly; EZeroErrno].
Definition gen_set_errno_range : Z * Z := (-2147483648, 2147483647)%Z.
(* call_python.c cffi_call_python: the whole body, statement by statement *)
Definition gen_call_python_cfg : list cstmt :=
  [CPure; CPure; CSave; CIf (* externpy.reserved1 == NULL *) [CPure] [CNoise NGilEnsure; CIf (* externpy.reserved1 != _current_interp_key *) [CNoise NUpdateCache] []; CIf (* !err *) [CInvoke] []; CNoise NGilRelease]; CIf (* err *) [CPure; CNoise NReport; CNoise NMemset] []; CRestore].
(* _cffi_backend.c invoke_callback: the whole body *)
Definition gen_invoke_callback_cfg : list cstmt :=
  [CSave; CNoise NGilEnsure; CInvoke; CNoise NGilRelease; CRestore].
(* _cffi_backend.c general_invoke_callback: no errno / save_errno / restore_errno in its body (incl. the error: path) *)
Definition gen_general_invoke_callback_leaves_bracket_alone : bool := true.
(* all .c and .h files of src/c: every call of general_invoke_callback() is in cffi_call_python or invoke_callback *)
Definition gen_general_invoke_callback_only_called_inside_brackets : bool := true.
