(* C18 — model of ffi.unpack (b_unpack, src/c/_cffi_backend.c:6871) and of element-wise reading
   p[i] (cdata_subscript :2712 -> _cdata_get_indexed_ptr :2469 -> convert_to_object :1085).

   Memory is a list of bytes (Z, taken mod 256) starting at the address [addr] of the first item;
   integers are little-endian (x86-64 SysV; the sizes below are compared with ffi.sizeof on
   every run).  The fast-path selection of b_unpack (the `casenum` if-chains :6955-6978 and the
   `switch (casenum)` :6983-7006) is NOT written here: it is a parameter [tables], whose value
   is regenerated from the C source into C18/Gen.v on every run.  Definitions only. *)
From Coq Require Import ZArith List Bool.
Import ListNotations.
(* exn, res (C15/Spec.v) and the wide-character helpers from_char16 / from_char32 (C15/Gen.v,
   REGENERATED from src/c/wchar_helper_3.h on every run by tools/props/c15_regen.py) *)
From Cffi Require Export C15.Spec C15.Gen.
Open Scope Z_scope.

(* ---------------------------------------------------------------- bytes and integers *)
Fixpoint decode_le (bs : list Z) : Z :=
  match bs with
  | [] => 0
  | b :: r => (b mod 256) + 256 * decode_le r
  end.

Definition to_signed (bits v : Z) : Z := if v <? 2 ^ (bits - 1) then v else v - 2 ^ bits.
Definition wrap_u (bits v : Z) : Z := v mod 2 ^ bits.
Definition wrap_s (bits v : Z) : Z := to_signed bits (v mod 2 ^ bits).

Definition take (n : Z) (bs : list Z) : list Z := firstn (Z.to_nat n) bs.
Definition drop (n : Z) (bs : list Z) : list Z := skipn (Z.to_nat n) bs.

(* the value of an object of an integer type of [sz] bytes stored at the head of [bs] *)
Definition int_value (sg : bool) (sz : Z) (bs : list Z) : Z :=
  let raw := decode_le (take sz bs) in
  if sg then to_signed (8 * sz) raw else raw.

(* ---------------------------------------------------------------- C types named in b_unpack *)
Inductive cty :=
| T_schar | T_short | T_int | T_long | T_longlong
| T_uchar | T_ushort | T_uint | T_ulong | T_ulonglong
| T_float | T_double.

Definition sizeof (t : cty) : Z :=
  match t with
  | T_schar | T_uchar => 1
  | T_short | T_ushort => 2
  | T_int | T_uint | T_float => 4
  | T_long | T_ulong | T_longlong | T_ulonglong | T_double => 8
  end.
Definition is_float_ty (t : cty) : bool := match t with T_float | T_double => true | _ => false end.
Definition is_signed_ty (t : cty) : bool :=
  match t with T_schar | T_short | T_int | T_long | T_longlong => true | _ => false end.
Definition c_int_value (t : cty) (bs : list Z) : Z := int_value (is_signed_ty t) (sizeof t) bs.

Definition cty_eqb (a b : cty) : bool :=
  match a, b with
  | T_schar, T_schar | T_short, T_short | T_int, T_int | T_long, T_long | T_longlong, T_longlong
  | T_uchar, T_uchar | T_ushort, T_ushort | T_uint, T_uint | T_ulong, T_ulong
  | T_ulonglong, T_ulonglong | T_float, T_float | T_double, T_double => true
  | _, _ => false
  end.

(* (double)f for a float with bit pattern w: exact widening; a signalling NaN is quieted (SSE cvtss2sd) *)
Definition f32_to_f64 (w : Z) : Z :=
  let s := Z.shiftl (Z.shiftr w 31) 63 in
  let e := Z.land (Z.shiftr w 23) 255 in
  let m := Z.land w (2 ^ 23 - 1) in
  if e =? 255 then s + Z.shiftl 2047 52 + (if m =? 0 then 0 else Z.lor (Z.shiftl m 29) (2 ^ 51))
  else if e =? 0 then
    (if m =? 0 then s
     else let k := Z.log2 m in s + Z.shiftl (k - 149 + 1023) 52 + Z.shiftl (m - 2 ^ k) (52 - k))
  else s + Z.shiftl (e - 127 + 1023) 52 + Z.shiftl m 29.

(* ---------------------------------------------------------------- item kinds, values, results *)
Inductive kind :=
| KSigned (size : Z)        (* CT_PRIMITIVE_SIGNED (also enums with a signed base type) *)
| KUnsigned (size : Z)      (* CT_PRIMITIVE_UNSIGNED without CT_IS_BOOL *)
| KBool
| KFloat (size : Z)         (* float / double *)
| KLongDouble
| KChar (size : Z)          (* char / char16_t / char32_t, wchar_t *)
| KComplex (size : Z)       (* 8 = float _Complex, 16 = double _Complex *)
| KPointer                  (* CT_POINTER | CT_FUNCTIONPTR *)
| KAggregate (size : Z)     (* complete struct / union *)
| KArrayItem (size : Z)     (* array of known length *)
| KOpaque.                  (* void, incomplete struct: ct_size = -1 *)

Definition sizeof_long : Z := 8.
Definition sizeof_longdouble : Z := 16.

Definition ksize (k : kind) : Z :=
  match k with
  | KSigned s | KUnsigned s | KFloat s | KChar s | KComplex s | KAggregate s | KArrayItem s => s
  | KBool => 1
  | KLongDouble => sizeof_longdouble
  | KPointer => 8
  | KOpaque => -1
  end.

Definition is_primitive_any (k : kind) : bool :=
  match k with
  | KSigned _ | KUnsigned _ | KBool | KFloat _ | KLongDouble | KChar _ | KComplex _ => true
  | _ => false
  end.
Definition is_signed (k : kind) : bool := match k with KSigned _ => true | _ => false end.
Definition is_unsigned (k : kind) : bool := match k with KUnsigned _ | KBool => true | _ => false end.
Definition is_bool (k : kind) : bool := match k with KBool => true | _ => false end.
Definition is_float (k : kind) : bool := match k with KFloat _ | KLongDouble => true | _ => false end.
Definition is_pointer (k : kind) : bool := match k with KPointer => true | _ => false end.

(* CT_PRIMITIVE_FITS_LONG, new_primitive_type :4848-4855 *)
Definition fits_long (k : kind) : bool :=
  match k with
  | KSigned s | KChar s => s <=? sizeof_long
  | KUnsigned s => s <? sizeof_long
  | KBool => true
  | _ => false
  end.

(* exn (with OutOfModel: a read past the end of the modelled memory, no claim is made) and res:
   C15/Spec.v *)

Inductive value :=
| VInt (z : Z)
| VBool (b : bool)
| VFloat (bits : Z)               (* bit pattern of the C double handed to PyFloat_FromDouble *)
| VLongDouble (bs : list Z)       (* the 10 value bytes of an x87 long double *)
| VComplex (re im : Z)            (* two double bit patterns *)
| VPtr (a : Z)                    (* new pointer cdata holding address a *)
| VView (a : Z)                   (* struct/union/array cdata that is a view at address a *)
| VBytes (l : list Z)
| VStr (l : list Z).              (* code points *)

(* what ffi.unpack / the joined comprehension returns *)
Inductive result :=
| RList (l : list value)
| RBytes (l : list Z)
| RStr (l : list Z)
| RErr (e : exn).

(* ---------------------------------------------------------------- wchar_helper_3.h *)
(* _my_PyUnicode_FromChar16 / _my_PyUnicode_FromChar32: [from_char16], [from_char32] of C15/Gen.v *)

(* n units of usz bytes each *)
Fixpoint units (usz : Z) (bs : list Z) (n : nat) : list Z :=
  match n with
  | O => []
  | S n' => decode_le (take usz bs) :: units usz (drop usz bs) n'
  end.

(* ---------------------------------------------------------------- convert_to_object :1085 *)
Definition signed_types := [T_schar; T_short; T_int; T_long; T_longlong].
Definition unsigned_types := [T_uchar; T_ushort; T_uint; T_ulong; T_ulonglong].

(* read_raw_signed_data / read_raw_unsigned_data :926-948: the first type of the list whose size
   matches; Py_FatalError otherwise *)
Definition read_raw_int (types : list cty) (size : Z) (bs : list Z) : res Z :=
  match find (fun t => size =? sizeof t) types with
  | Some t => Ok (c_int_value t bs)
  | None => Err FatalError
  end.

Definition read_raw_float (size : Z) (bs : list Z) : res Z :=
  if size =? 4 then Ok (f32_to_f64 (decode_le (take 4 bs)))
  else if size =? 8 then Ok (decode_le (take 8 bs))
  else Err FatalError.

(* [a] is the address of the item, [bs] the memory from that address on *)
Definition convert_to_object (k : kind) (a : Z) (bs : list Z) : res value :=
  match k with
  | KPointer => Ok (VPtr (decode_le (take 8 bs)))
  | KOpaque => Err TypeError
  | KAggregate _ => Ok (VView a)
  | KArrayItem _ => Ok (VView a)
  | KSigned s =>
      match read_raw_int signed_types s bs with
      | Err e => Err e
      | Ok value => if fits_long k then Ok (VInt (wrap_s 64 value))   (* PyLong_FromLong((long)value) *)
                    else Ok (VInt value)                               (* PyLong_FromLongLong *)
      end
  | KUnsigned s =>
      match read_raw_int unsigned_types s bs with
      | Err e => Err e
      | Ok value => if fits_long k then Ok (VInt (wrap_s 64 value))
                    else Ok (VInt (wrap_u 64 value))                   (* PyLong_FromUnsignedLongLong *)
      end
  | KBool =>
      match read_raw_int unsigned_types 1 bs with
      | Err e => Err e
      | Ok value => if value =? 0 then Ok (VBool false)
                    else if value =? 1 then Ok (VBool true)
                    else Err ValueError
      end
  | KFloat s => match read_raw_float s bs with Err e => Err e | Ok d => Ok (VFloat d) end
  | KLongDouble => Ok (VLongDouble (map (fun b => b mod 256) (take 10 bs)))
  | KChar s =>
      if s =? 1 then Ok (VBytes [decode_le (take 1 bs)])
      else if s =? 2 then
        match from_char16 (units 2 bs 1) with Err e => Err e | Ok l => Ok (VStr l) end
      else if s =? 4 then
        match from_char32 (units 4 bs 1) with Err e => Err e | Ok l => Ok (VStr l) end
      else Err SystemError
  | KComplex s =>
      if s =? 8 then Ok (VComplex (f32_to_f64 (decode_le (take 4 bs)))
                                  (f32_to_f64 (decode_le (take 4 (drop 4 bs)))))
      else if s =? 16 then Ok (VComplex (decode_le (take 8 bs)) (decode_le (take 8 (drop 8 bs))))
      else Err FatalError
  end.

(* ---------------------------------------------------------------- element-wise reading *)
(* p[i] for a non-owning pointer cdata p with c_data = addr (any i is accepted,
   _cdata_get_indexed_ptr :2475-2491, address addr + i*itemsize :2512) *)
Definition out_of_model (k : kind) (bs : list Z) (items : Z) : bool :=
  (0 <=? ksize k) && (Z.of_nat (length bs) <? items * ksize k).

Definition index (k : kind) (addr : Z) (bs : list Z) (i : Z) : res value :=
  if addr =? 0 then Err RuntimeError
  else if out_of_model k bs (i + 1) then Err OutOfModel
  else convert_to_object k (addr + i * ksize k) (drop (i * ksize k) bs).

Fixpoint map_until_error {A B} (f : A -> res B) (l : list A) : res (list B) :=
  match l with
  | [] => Ok []
  | x :: r => match f x with
              | Err e => Err e
              | Ok y => match map_until_error f r with Err e => Err e | Ok ys => Ok (y :: ys) end
              end
  end.

Definition zrange (n : nat) : list Z := map Z.of_nat (seq 0 n).

(* [p[i] for i in range(n)] *)
Definition elementwise (k : kind) (addr : Z) (bs : list Z) (n : Z) : res (list value) :=
  map_until_error (index k addr bs) (zrange (Z.to_nat n)).

(* joined into bytes / str for character types (b''.join / ''.join); a list otherwise *)
Fixpoint concat_values (vs : list value) : list Z :=
  match vs with
  | [] => []
  | VBytes l :: r => l ++ concat_values r
  | VStr l :: r => l ++ concat_values r
  | _ :: r => concat_values r
  end.

Definition joined (k : kind) (r : res (list value)) : result :=
  match r with
  | Err e => RErr e
  | Ok vs => match k with
             | KChar s => if s =? 1 then RBytes (concat_values vs) else RStr (concat_values vs)
             | _ => RList vs
             end
  end.

(* ---------------------------------------------------------------- b_unpack :6871 *)
Inductive fastpath :=
| FP_FromLong (cast_long : bool) (t : cty)      (* PyLong_FromLong([(long)] *(T * )src) *)
| FP_FromUnsignedLong (t : cty)                 (* PyLong_FromUnsignedLong( *(T * )src) *)
| FP_FromDouble (t : cty)                       (* PyFloat_FromDouble( *(T * )src) *)
| FP_NewPtr                                     (* new_simple_cdata( *(char ** )src, ctitem) *)
| FP_Bool.                                      (* switch ( *(unsigned char * )src) 0 / 1 / default: generic *)

Record tables := {
  tb_signed : list (cty * Z);      (* if (itemsize == sizeof(T)) casenum = N; else if ... *)
  tb_bool : Z;
  tb_unsigned : list (cty * Z);
  tb_float : list (cty * Z);
  tb_pointer : Z;
  tb_fast : list (Z * fastpath)    (* case N: ... of the switch; anything else is `default` *)
}.

Fixpoint chain (l : list (cty * Z)) (itemsize : Z) : Z :=
  match l with
  | [] => -1
  | (t, n) :: r => if itemsize =? sizeof t then n else chain r itemsize
  end.

(* ALIGNMENT_CHECK(align) :6941 with src = addr, 0 <= addr < 2^64 *)
Definition alignment_check (align addr : Z) : bool :=
  (Z.land align (align - 1) =? 0) && (Z.land addr (align - 1) =? 0).

Definition casenum_b (tb : tables) (k : kind) (aligned : bool) : Z :=
  if is_primitive_any k && aligned then
    if is_signed k then chain (tb_signed tb) (ksize k)
    else if is_unsigned k then
      (if is_bool k then tb_bool tb else chain (tb_unsigned tb) (ksize k))
    else if is_float k then chain (tb_float tb) (ksize k)
    else -1
  else if is_pointer k then tb_pointer tb
  else -1.

Definition casenum (tb : tables) (k : kind) (align addr : Z) : Z :=
  casenum_b tb k (alignment_check align addr).

Fixpoint lookup {A} (n : Z) (l : list (Z * A)) : option A :=
  match l with
  | [] => None
  | (m, x) :: r => if n =? m then Some x else lookup n r
  end.

Definition fp_eval (fp : fastpath) (k : kind) (a : Z) (bs : list Z) : res value :=
  match fp with
  | FP_FromLong _ t =>
      if is_float_ty t then Err FatalError      (* not produced by the translator *)
      else Ok (VInt (wrap_s 64 (c_int_value t bs)))       (* conversion of the T value to long *)
  | FP_FromUnsignedLong t =>
      if is_float_ty t then Err FatalError
      else Ok (VInt (wrap_u 64 (c_int_value t bs)))       (* conversion to unsigned long *)
  | FP_FromDouble t =>
      match t with
      | T_float => Ok (VFloat (f32_to_f64 (decode_le (take 4 bs))))
      | T_double => Ok (VFloat (decode_le (take 8 bs)))
      | _ => Err FatalError
      end
  | FP_NewPtr => Ok (VPtr (decode_le (take 8 bs)))
  | FP_Bool =>
      let b := c_int_value T_uchar bs in
      if b =? 0 then Ok (VBool false) else if b =? 1 then Ok (VBool true)
      else convert_to_object k a bs
  end.

(* one iteration of the loop :6981 *)
Definition unpack_item (tb : tables) (cn : Z) (k : kind) (a : Z) (bs : list Z) : res value :=
  match lookup cn (tb_fast tb) with
  | Some fp => fp_eval fp k a bs
  | None => convert_to_object k a bs
  end.

Fixpoint unpack_loop (tb : tables) (cn : Z) (k : kind) (a : Z) (bs : list Z) (n : nat)
  : res (list value) :=
  match n with
  | O => Ok []
  | S n' =>
      match unpack_item tb cn k a bs with
      | Err e => Err e                                  (* Py_DECREF(result); return NULL *)
      | Ok x => match unpack_loop tb cn k (a + ksize k) (drop (ksize k) bs) n' with
                | Err e => Err e
                | Ok xs => Ok (x :: xs)
                end
      end
  end.

Definition of_res (f : list Z -> result) (r : res (list Z)) : result :=
  match r with Ok l => f l | Err e => RErr e end.

(* ffi.unpack(p, n): p a pointer/array cdata with c_data = addr, item kind k, item alignment
   (ct_length of the item type) align; bs = the memory from addr on *)
Definition unpack (tb : tables) (k : kind) (align addr : Z) (bs : list Z) (n : Z) : result :=
  if n <? 0 then RErr ValueError
  else if addr =? 0 then RErr RuntimeError
  else if out_of_model k bs n then RErr OutOfModel
  else
    let generic :=
      if ksize k <? 0 then RErr ValueError
      else match unpack_loop tb (casenum tb k align addr) k addr bs (Z.to_nat n) with
           | Ok l => RList l
           | Err e => RErr e
           end in
    match k with
    | KChar s =>
        if s =? 1 then RBytes (map (fun b => b mod 256) (take n bs))
        else if s =? 2 then of_res RStr (from_char16 (units 2 bs (Z.to_nat n)))
        else if s =? 4 then of_res RStr (from_char32 (units 4 bs (Z.to_nat n)))
        else generic
    | _ => generic
    end.

(* ---------------------------------------------------------------- boolean equalities (harness) *)
Fixpoint zlist_eqb (x y : list Z) : bool :=
  match x, y with
  | [], [] => true
  | a :: x', b :: y' => (a =? b) && zlist_eqb x' y'
  | _, _ => false
  end.

Definition value_eqb (a b : value) : bool :=
  match a, b with
  | VInt x, VInt y => x =? y
  | VBool x, VBool y => Bool.eqb x y
  | VFloat x, VFloat y => x =? y
  | VLongDouble x, VLongDouble y => zlist_eqb x y
  | VComplex a1 a2, VComplex b1 b2 => (a1 =? b1) && (a2 =? b2)
  | VPtr x, VPtr y => x =? y
  | VView x, VView y => x =? y
  | VBytes x, VBytes y => zlist_eqb x y
  | VStr x, VStr y => zlist_eqb x y
  | _, _ => false
  end.

Fixpoint vlist_eqb (x y : list value) : bool :=
  match x, y with
  | [], [] => true
  | a :: x', b :: y' => value_eqb a b && vlist_eqb x' y'
  | _, _ => false
  end.

Definition result_eqb (a b : result) : bool :=
  match a, b with
  | RList x, RList y => vlist_eqb x y
  | RBytes x, RBytes y => zlist_eqb x y
  | RStr x, RStr y => zlist_eqb x y
  | RErr x, RErr y => exn_eqb x y
  | _, _ => false
  end.

(* well-formed item kinds: the sizes the backend can create (new_primitive_type :4795-4836) *)
Definition int_size (s : Z) : Prop := s = 1 \/ s = 2 \/ s = 4 \/ s = 8.
Definition wf_kind (k : kind) : Prop :=
  match k with
  | KSigned s | KUnsigned s => int_size s
  | KFloat s => s = 4 \/ s = 8
  | KChar s => s = 1 \/ s = 2 \/ s = 4
  | KComplex s => s = 8 \/ s = 16
  | KAggregate s | KArrayItem s => 0 <= s
  | KBool | KLongDouble | KPointer => True
  | KOpaque => False
  end.
