(* C18 — proofs: every fast path of b_unpack selected by the (regenerated) tables computes what
   convert_to_object computes; hence ffi.unpack = element-wise reading. *)
From Coq Require Import ZArith List Bool Lia.
Import ListNotations.
From Cffi Require Import C15.WProofs C18.Model C18.Gen.
Open Scope Z_scope.

(* ---------------------------------------------------------------- arithmetic of the decoders *)
Lemma decode_le_bound : forall bs, 0 <= decode_le bs < 2 ^ (8 * Z.of_nat (length bs)).
Proof.
  induction bs as [|b r IH]; cbn [decode_le length].
  - cbn. lia.
  - rewrite Nat2Z.inj_succ.
    replace (8 * Z.succ (Z.of_nat (length r))) with (8 + 8 * Z.of_nat (length r)) by lia.
    rewrite Z.pow_add_r by lia. change (2 ^ 8) with 256.
    pose proof (Z.mod_pos_bound b 256 ltac:(lia)). nia.
Qed.

Lemma take_length_le : forall n bs, 0 <= n -> Z.of_nat (length (take n bs)) <= n.
Proof.
  intros n bs Hn. unfold take. rewrite firstn_length. lia.
Qed.

Lemma decode_take_bound : forall n bs, 0 <= n -> 0 <= decode_le (take n bs) < 2 ^ (8 * n).
Proof.
  intros n bs Hn. pose proof (decode_le_bound (take n bs)) as H.
  pose proof (take_length_le n bs Hn) as L.
  split; [lia|]. eapply Z.lt_le_trans; [apply H|].
  apply Z.pow_le_mono_r; lia.
Qed.

Lemma wrap_u_small : forall bits v, 0 <= v < 2 ^ bits -> wrap_u bits v = v.
Proof. intros. unfold wrap_u. apply Z.mod_small. lia. Qed.

Lemma wrap_s_small_nonneg : forall v, 0 <= v < 2 ^ 63 -> wrap_s 64 v = v.
Proof.
  intros v H. unfold wrap_s, to_signed. rewrite Z.mod_small by lia.
  change (64 - 1) with 63. destruct (Z.ltb_spec v (2 ^ 63)); lia.
Qed.

(* ---------------------------------------------------------------- compatibility of a fast path *)
Definition is_int_ty (t : cty) : bool := negb (is_float_ty t).

Definition fp_compat (fp : fastpath) (k : kind) : bool :=
  match fp, k with
  | FP_FromLong _ t, KSigned s => is_int_ty t && is_signed_ty t && (sizeof t =? s)
  | FP_FromLong _ t, KUnsigned s =>
      is_int_ty t && negb (is_signed_ty t) && (sizeof t =? s) && (s <? sizeof_long)
  | FP_FromUnsignedLong t, KUnsigned s => is_int_ty t && negb (is_signed_ty t) && (sizeof t =? s)
  | FP_FromDouble t, KFloat s => is_float_ty t && (sizeof t =? s)
  | FP_NewPtr, KPointer => true
  | FP_Bool, KBool => true
  | _, _ => false
  end.

Definition prim_kinds : list kind :=
  [KSigned 1; KSigned 2; KSigned 4; KSigned 8; KUnsigned 1; KUnsigned 2; KUnsigned 4; KUnsigned 8;
   KBool; KFloat 4; KFloat 8; KLongDouble; KChar 1; KChar 2; KChar 4; KComplex 8; KComplex 16;
   KPointer].

Definition item_ok (tb : tables) (k : kind) (aligned : bool) : bool :=
  match lookup (casenum_b tb k aligned) (tb_fast tb) with
  | None => true
  | Some fp => fp_compat fp k
  end.

(* the decidable condition on the regenerated tables *)
Definition tables_ok (tb : tables) : bool :=
  forallb (fun k => item_ok tb k true && item_ok tb k false) prim_kinds &&
  match lookup (-1) (tb_fast tb) with None => true | Some _ => false end.

Lemma gen_tables_ok : tables_ok gen_tables = true.
Proof. vm_compute. reflexivity. Qed.

Lemma wf_kind_cases : forall k, wf_kind k ->
  In k prim_kinds \/ (exists s, 0 <= s /\ (k = KAggregate s \/ k = KArrayItem s)).
Proof.
  intros k H. destruct k; cbn in H; unfold int_size in H;
    try (right; eexists; split; [eassumption|]; auto; fail);
    left; cbn;
    repeat match goal with H : _ \/ _ |- _ => destruct H end; subst; tauto.
Qed.

Lemma wf_ksize : forall k, wf_kind k -> 0 <= ksize k.
Proof.
  intros k H. destruct k; cbn in *; unfold int_size, sizeof_longdouble in *; lia.
Qed.

(* ---------------------------------------------------------------- each compatible fast path is sound *)
Lemma find_size : forall types s t,
  find (fun t => s =? sizeof t) types = Some t -> sizeof t = s.
Proof.
  intros types s t H. apply find_some in H. destruct H as [_ H]. apply Z.eqb_eq in H. lia.
Qed.

Lemma read_signed : forall s bs, int_size s ->
  read_raw_int signed_types s bs = Ok (int_value true s bs).
Proof. intros s bs [H|[H|[H|H]]]; subst; reflexivity. Qed.

Lemma read_unsigned : forall s bs, int_size s ->
  read_raw_int unsigned_types s bs = Ok (int_value false s bs).
Proof. intros s bs [H|[H|[H|H]]]; subst; reflexivity. Qed.

Lemma uvalue_bound : forall s bs, 0 <= s -> 0 <= int_value false s bs < 2 ^ (8 * s).
Proof. intros. unfold int_value. apply decode_take_bound. lia. Qed.

Lemma fp_sound : forall fp k a bs, wf_kind k -> fp_compat fp k = true ->
  fp_eval fp k a bs = convert_to_object k a bs.
Proof.
  intros fp k a bs Hwf Hc.
  destruct fp as [c t|t|t| |]; destruct k; cbn [fp_compat] in Hc; try discriminate;
    cbn [wf_kind] in Hwf.
  - (* FromLong, signed *)
    apply andb_prop in Hc. destruct Hc as [Hc Hs]. apply andb_prop in Hc. destruct Hc as [Hi Hsg].
    apply Z.eqb_eq in Hs. unfold is_int_ty in Hi. apply negb_true_iff in Hi.
    cbn [fp_eval convert_to_object]. rewrite Hi, read_signed by assumption.
    unfold c_int_value. rewrite Hsg, Hs.
    assert (fits_long (KSigned size) = true) as ->.
    { cbn. unfold sizeof_long. apply Z.leb_le. destruct Hwf as [H|[H|[H|H]]]; lia. }
    reflexivity.
  - (* FromLong, unsigned, size < sizeof(long) *)
    apply andb_prop in Hc. destruct Hc as [Hc Hlt]. apply andb_prop in Hc. destruct Hc as [Hc Hs].
    apply andb_prop in Hc. destruct Hc as [Hi Hsg].
    apply Z.eqb_eq in Hs. unfold is_int_ty in Hi. apply negb_true_iff in Hi, Hsg.
    cbn [fp_eval convert_to_object]. rewrite Hi, read_unsigned by assumption.
    unfold c_int_value. rewrite Hsg, Hs.
    cbn [fits_long]. rewrite Hlt. reflexivity.
  - (* FromUnsignedLong, unsigned *)
    apply andb_prop in Hc. destruct Hc as [Hc Hs]. apply andb_prop in Hc. destruct Hc as [Hi Hsg].
    apply Z.eqb_eq in Hs. unfold is_int_ty in Hi. apply negb_true_iff in Hi, Hsg.
    cbn [fp_eval convert_to_object]. rewrite Hi, read_unsigned by assumption.
    unfold c_int_value. rewrite Hsg, Hs.
    pose proof (uvalue_bound size bs) as B.
    cbn [fits_long]. unfold sizeof_long.
    destruct (Z.ltb_spec size 8).
    + (* value < 2^32: both conversions are the identity *)
      assert (0 <= int_value false size bs < 2 ^ 32).
      { destruct Hwf as [H0|[H0|[H0|H0]]]; subst size; try lia;
          specialize (B ltac:(lia)); cbn in B; lia. }
      rewrite wrap_u_small, wrap_s_small_nonneg by lia. reflexivity.
    + reflexivity.
  - (* FromDouble *)
    apply andb_prop in Hc. destruct Hc as [Hf Hs]. apply Z.eqb_eq in Hs.
    destruct t; cbn in Hf; try discriminate; cbn in Hs; subst size; reflexivity.
  - reflexivity.
  - (* Bool *)
    cbn [fp_eval convert_to_object]. rewrite read_unsigned by (unfold int_size; lia).
    unfold c_int_value. cbn [is_signed_ty sizeof].
    destruct (int_value false 1 bs =? 0); [reflexivity|].
    destruct (int_value false 1 bs =? 1); reflexivity.
Qed.

Lemma item_sound : forall tb k aligned a bs, tables_ok tb = true -> wf_kind k ->
  unpack_item tb (casenum_b tb k aligned) k a bs = convert_to_object k a bs.
Proof.
  intros tb k aligned a bs Hok Hwf. unfold tables_ok in Hok.
  apply andb_prop in Hok. destruct Hok as [Hall Hm1].
  unfold unpack_item.
  destruct (wf_kind_cases k Hwf) as [Hin|[s [Hs [->| ->]]]].
  - rewrite forallb_forall in Hall. specialize (Hall k Hin).
    apply andb_prop in Hall. destruct Hall as [Ht Hf].
    assert (item_ok tb k aligned = true) as Hi by (destruct aligned; assumption).
    unfold item_ok in Hi.
    destruct (lookup (casenum_b tb k aligned) (tb_fast tb)); [|reflexivity].
    apply fp_sound; assumption.
  - unfold casenum_b. cbn [is_primitive_any is_pointer andb].
    destruct (lookup (-1) (tb_fast tb)); [discriminate|reflexivity].
  - unfold casenum_b. cbn [is_primitive_any is_pointer andb].
    destruct (lookup (-1) (tb_fast tb)); [discriminate|reflexivity].
Qed.

(* ---------------------------------------------------------------- loops *)
(* the unpack loop with the generic conversion in every iteration *)
Fixpoint gen_loop (k : kind) (a : Z) (bs : list Z) (n : nat) : res (list value) :=
  match n with
  | O => Ok []
  | S n' =>
      match convert_to_object k a bs with
      | Err e => Err e
      | Ok x => match gen_loop k (a + ksize k) (drop (ksize k) bs) n' with
                | Err e => Err e
                | Ok xs => Ok (x :: xs)
                end
      end
  end.

Lemma loop_sound : forall tb k aligned n a bs, tables_ok tb = true -> wf_kind k ->
  unpack_loop tb (casenum_b tb k aligned) k a bs n = gen_loop k a bs n.
Proof.
  intros tb k aligned n. induction n as [|n IH]; intros a bs Hok Hwf; cbn [unpack_loop gen_loop].
  - reflexivity.
  - rewrite item_sound by assumption. rewrite IH by assumption. reflexivity.
Qed.

Lemma mue_ext : forall A B (f g : A -> res B) l,
  (forall x, In x l -> f x = g x) -> map_until_error f l = map_until_error g l.
Proof.
  intros A B f g l. induction l as [|x r IH]; intros H; cbn [map_until_error].
  - reflexivity.
  - rewrite H by (left; reflexivity). rewrite IH by (intros; apply H; right; assumption).
    reflexivity.
Qed.

Lemma mue_map : forall A B C (f : B -> res C) (g : A -> B) l,
  map_until_error f (map g l) = map_until_error (fun x => f (g x)) l.
Proof.
  intros. induction l as [|x r IH]; cbn [map map_until_error]; [reflexivity|].
  rewrite IH. reflexivity.
Qed.

Lemma zrange_succ : forall n, zrange (S n) = 0 :: map Z.succ (zrange n).
Proof.
  intros n. unfold zrange. cbn [seq map]. f_equal.
  rewrite <- seq_shift. rewrite !map_map. apply map_ext. intros. lia.
Qed.

Lemma zrange_nonneg : forall n x, In x (zrange n) -> 0 <= x.
Proof.
  intros n x H. unfold zrange in H. apply in_map_iff in H. destruct H as [y [<- _]]. lia.
Qed.

Lemma skipn_add : forall (a b : nat) (l : list Z), skipn a (skipn b l) = skipn (b + a) l.
Proof.
  intros a b. induction b as [|b IH]; intros l; [reflexivity|].
  destruct l; [destruct a; reflexivity|]. cbn [skipn Nat.add]. apply IH.
Qed.

Lemma drop_drop : forall a b bs, 0 <= a -> 0 <= b -> drop a (drop b bs) = drop (b + a) bs.
Proof.
  intros a b bs Ha Hb. unfold drop. rewrite skipn_add. f_equal. lia.
Qed.

Lemma drop_0 : forall bs, drop 0 bs = bs.
Proof. reflexivity. Qed.

Lemma gen_loop_elementwise : forall k n a bs, 0 <= ksize k ->
  gen_loop k a bs n =
  map_until_error (fun i => convert_to_object k (a + i * ksize k) (drop (i * ksize k) bs))
                  (zrange n).
Proof.
  intros k n. induction n as [|n IH]; intros a bs Hs.
  - reflexivity.
  - rewrite zrange_succ. cbn [gen_loop map_until_error].
    rewrite Z.mul_0_l, Z.add_0_r, drop_0.
    destruct (convert_to_object k a bs); [|reflexivity].
    rewrite IH by assumption. rewrite mue_map.
    erewrite mue_ext; [reflexivity|].
    intros x Hx. apply zrange_nonneg in Hx. cbn beta.
    rewrite Z.mul_succ_l. rewrite drop_drop by nia. f_equal; [lia|]. f_equal. lia.
Qed.

Lemma zrange_bound : forall n x, In x (zrange n) -> 0 <= x < Z.of_nat n.
Proof.
  intros n x H. unfold zrange in H. apply in_map_iff in H. destruct H as [y [<- Hy]].
  apply in_seq in Hy. lia.
Qed.

Lemma in_model : forall k bs n, 0 <= ksize k -> n * ksize k <= Z.of_nat (length bs) ->
  out_of_model k bs n = false.
Proof.
  intros k bs n Hs Hb. unfold out_of_model. apply andb_false_intro2. apply Z.ltb_ge. exact Hb.
Qed.

Lemma elementwise_gen_loop : forall k addr bs n, addr <> 0 -> 0 <= ksize k -> 0 <= n ->
  n * ksize k <= Z.of_nat (length bs) ->
  elementwise k addr bs n = gen_loop k addr bs (Z.to_nat n).
Proof.
  intros k addr bs n Ha Hs Hn Hb. unfold elementwise. rewrite gen_loop_elementwise by assumption.
  apply mue_ext. intros x Hx. apply zrange_bound in Hx. rewrite Z2Nat.id in Hx by assumption.
  unfold index. destruct (Z.eqb_spec addr 0); [contradiction|].
  rewrite in_model by (assumption || nia). reflexivity.
Qed.

(* ---------------------------------------------------------------- the list-valued kinds *)
Definition is_char (k : kind) : bool := match k with KChar _ => true | _ => false end.

Theorem unpack_elementwise_list : forall tb k align addr bs n,
  tables_ok tb = true -> wf_kind k -> is_char k = false -> 0 <= n ->
  n * ksize k <= Z.of_nat (length bs) -> addr <> 0 ->
  unpack tb k align addr bs n = joined k (elementwise k addr bs n).
Proof.
  intros tb k align addr bs n Hok Hwf Hc Hn Hb Ha.
  pose proof (wf_ksize k Hwf) as Hs.
  rewrite elementwise_gen_loop by assumption.
  unfold unpack.
  destruct (Z.ltb_spec n 0); [lia|].
  destruct (Z.eqb_spec addr 0); [contradiction|].
  rewrite in_model by assumption.
  destruct (Z.ltb_spec (ksize k) 0); [lia|].
  unfold casenum. rewrite loop_sound by assumption.
  destruct k; try discriminate; cbn [joined];
    match goal with |- context [gen_loop ?k ?a ?b ?n] => destruct (gen_loop k a b n) end; reflexivity.
Qed.

(* ---------------------------------------------------------------- character kinds *)
Lemma take_succ : forall n b r, 0 <= n -> take (Z.succ n) (b :: r) = b :: take n r.
Proof.
  intros. unfold take. rewrite Z2Nat.inj_succ by lia. reflexivity.
Qed.

Lemma gen_loop_char1 : forall n a bs, (n <= length bs)%nat ->
  gen_loop (KChar 1) a bs n = Ok (map (fun b => VBytes [b mod 256]) (firstn n bs)).
Proof.
  induction n as [|n IH]; intros a bs Hl; [reflexivity|].
  destruct bs as [|b r]; [cbn in Hl; lia|].
  cbn [gen_loop convert_to_object ksize]. cbn [Z.eqb Pos.eqb].
  change (drop 1 (b :: r)) with r.
  rewrite IH by (cbn in Hl; lia).
  cbn [firstn map]. change (take 1 (b :: r)) with [b]. cbn [decode_le].
  rewrite Z.mul_0_r, Z.add_0_r. reflexivity.
Qed.

Lemma concat_values_bytes : forall l,
  concat_values (map (fun b => VBytes [b mod 256]) l) = map (fun b => b mod 256) l.
Proof.
  induction l as [|b r IH]; [reflexivity|]. cbn [map concat_values app]. rewrite IH. reflexivity.
Qed.

Theorem unpack_elementwise_char : forall tb align addr bs n,
  0 <= n <= Z.of_nat (length bs) -> addr <> 0 ->
  unpack tb (KChar 1) align addr bs n = joined (KChar 1) (elementwise (KChar 1) addr bs n).
Proof.
  intros tb align addr bs n Hn Ha.
  rewrite elementwise_gen_loop by (cbn [ksize]; lia || assumption).
  rewrite gen_loop_char1 by lia.
  unfold unpack. destruct (Z.ltb_spec n 0); [lia|]. destruct (Z.eqb_spec addr 0); [contradiction|].
  rewrite in_model by (cbn [ksize]; lia).
  cbn [joined Z.eqb Pos.eqb]. rewrite concat_values_bytes. reflexivity.
Qed.

(* 16- and 32-bit units: p[i] reads unit i *)
Lemma gen_loop_char2 : forall n a bs,
  gen_loop (KChar 2) a bs n = Ok (map (fun u => VStr [u]) (units 2 bs n)).
Proof.
  induction n as [|n IH]; intros a bs; [reflexivity|].
  cbn [gen_loop convert_to_object ksize units]. cbn [Z.eqb Pos.eqb].
  rewrite from_char16_single. rewrite IH. reflexivity.
Qed.

Lemma concat_values_str : forall l, concat_values (map (fun u => VStr [u]) l) = l.
Proof.
  induction l as [|b r IH]; [reflexivity|]. cbn [map concat_values app]. rewrite IH. reflexivity.
Qed.

(* char16_t: equal as Python strings when no high surrogate is immediately followed by a low one *)
Theorem unpack_elementwise_char16 : forall tb align addr bs n,
  0 <= n -> n * 2 <= Z.of_nat (length bs) -> addr <> 0 ->
  count_surrogates (units 2 bs (Z.to_nat n)) = 0 ->
  unpack tb (KChar 2) align addr bs n = joined (KChar 2) (elementwise (KChar 2) addr bs n).
Proof.
  intros tb align addr bs n Hn Hb Ha Hc.
  rewrite elementwise_gen_loop by (cbn [ksize]; lia || assumption).
  rewrite gen_loop_char2.
  unfold unpack. destruct (Z.ltb_spec n 0); [lia|]. destruct (Z.eqb_spec addr 0); [contradiction|].
  rewrite in_model by (cbn [ksize]; lia).
  cbn [joined Z.eqb Pos.eqb]. rewrite from_char16_eq, Hc. cbn [Z.eqb of_res].
  rewrite concat_values_str. reflexivity.
Qed.

(* ... and in every case both sides are the same UTF-16 text: re-encoding what unpack returns gives
   back exactly the units that the element-wise reading returns one by one *)
Definition encode16_cp (c : Z) : list Z :=
  if 0xFFFF <? c then [0xD800 + (c - 0x10000) / 1024; 0xDC00 + (c - 0x10000) mod 1024] else [c].
Definition encode16 (s : list Z) : list Z := flat_map encode16_cp s.

Lemma join_pair_encode : forall a b, is_hi a = true -> is_lo b = true ->
  encode16_cp (join_pair a b) = [a; b].
Proof.
  intros a b Ha Hb. rewrite join_pair_val by assumption.
  apply is_hi_range in Ha. apply is_lo_range in Hb.
  unfold encode16_cp.
  destruct (Z.ltb_spec 0xFFFF ((a - 0xD800) * 1024 + (b - 0xDC00) + 0x10000)); [|lia].
  replace ((a - 0xD800) * 1024 + (b - 0xDC00) + 0x10000 - 0x10000)
    with ((b - 0xDC00) + (a - 0xD800) * 1024) by lia.
  rewrite Z.div_add by lia. rewrite Z.mod_add by lia.
  rewrite Z.div_small, Z.mod_small by lia. f_equal; [lia|]. f_equal. lia.
Qed.

Lemma encode16_cons : forall c s, encode16 (c :: s) = encode16_cp c ++ encode16 s.
Proof. reflexivity. Qed.

Lemma encode16_cp_unit : forall a, 0 <= a < 0x10000 -> encode16_cp a = [a].
Proof. intros a H. unfold encode16_cp. destruct (Z.ltb_spec 0xFFFF a); [lia|reflexivity]. Qed.

Lemma encode16_join16 : forall w, Forall (fun u => 0 <= u < 0x10000) w ->
  encode16 (join16_loop w) = w.
Proof.
  intros w. remember (length w) as n eqn:Hn. revert w Hn.
  induction n as [n IH] using lt_wf_ind. intros w Hn Hw.
  destruct w as [|a r]; [reflexivity|].
  destruct r as [|b r'].
  - cbn [join16_loop]. inversion Hw; subst.
    rewrite encode16_cons, encode16_cp_unit by assumption. reflexivity.
  - rewrite join16_loop_cons2.
    inversion Hw as [|? ? Ha Hr]; subst. inversion Hr as [|? ? Hb Hr']; subst.
    destruct (is_hi a && is_lo b) eqn:E.
    + apply andb_prop in E. destruct E as [E1 E2].
      rewrite encode16_cons, join_pair_encode by assumption.
      rewrite (IH (length r')); [reflexivity|cbn; lia|reflexivity|assumption].
    + rewrite encode16_cons, encode16_cp_unit by assumption.
      rewrite (IH (length (b :: r'))); [reflexivity|cbn; lia|reflexivity|assumption].
Qed.

Lemma encode16_units : forall w, Forall (fun u => 0 <= u < 0x10000) w -> encode16 w = w.
Proof.
  induction w as [|a r IH]; intros H; [reflexivity|].
  inversion H; subst. rewrite encode16_cons, encode16_cp_unit, IH by assumption. reflexivity.
Qed.

Lemma units2_range : forall n bs, Forall (fun u => 0 <= u < 0x10000) (units 2 bs n).
Proof.
  induction n as [|n IH]; intros bs; cbn [units]; constructor; [|apply IH].
  pose proof (decode_take_bound 2 bs ltac:(lia)) as B.
  change (2 ^ (8 * 2)) with 0x10000 in B. cbn beta. lia.
Qed.

Definition utf16 (r : result) : result :=
  match r with RStr l => RStr (encode16 l) | _ => r end.

Theorem unpack_elementwise_char16_utf16 : forall tb align addr bs n,
  0 <= n -> n * 2 <= Z.of_nat (length bs) -> addr <> 0 ->
  utf16 (unpack tb (KChar 2) align addr bs n)
  = utf16 (joined (KChar 2) (elementwise (KChar 2) addr bs n)).
Proof.
  intros tb align addr bs n Hn Hb Ha.
  rewrite elementwise_gen_loop by (cbn [ksize]; lia || assumption).
  rewrite gen_loop_char2.
  unfold unpack. destruct (Z.ltb_spec n 0); [lia|]. destruct (Z.eqb_spec addr 0); [contradiction|].
  rewrite in_model by (cbn [ksize]; lia).
  cbn [joined Z.eqb Pos.eqb]. rewrite concat_values_str.
  pose proof (units2_range (Z.to_nat n) bs) as R.
  rewrite from_char16_eq.
  destruct (count_surrogates (units 2 bs (Z.to_nat n)) =? 0); cbn [of_res utf16].
  - reflexivity.
  - rewrite encode16_join16, encode16_units by assumption. reflexivity.
Qed.

(* the strict equality is false for char16_t: a surrogate pair is joined by unpack only *)
Theorem unpack_elementwise_char16_refuted : exists bs,
  unpack gen_tables (KChar 2) 2 4096 bs 2 <> joined (KChar 2) (elementwise (KChar 2) 4096 bs 2).
Proof. exists [0x3D; 0xD8; 0x00; 0xDE]. vm_compute. discriminate. Qed.

(* char32_t / wchar_t *)
Lemma from_char32_cons : forall u w,
  from_char32 (u :: w) =
  if 0x10FFFF <? u then Err SystemError
  else match from_char32 w with Ok l => Ok (u :: l) | Err e => Err e end.
Proof.
  intros u w. rewrite !from_char32_eq. cbn [existsb].
  destruct (0x10FFFF <? u); cbn [orb]; [reflexivity|].
  destruct (existsb (fun u0 => 0x10FFFF <? u0) w); reflexivity.
Qed.

Lemma gen_loop_char4 : forall n a bs,
  gen_loop (KChar 4) a bs n =
  match from_char32 (units 4 bs n) with
  | Ok l => Ok (map (fun u => VStr [u]) l)
  | Err e => Err e
  end.
Proof.
  induction n as [|n IH]; intros a bs; [reflexivity|].
  cbn [gen_loop convert_to_object ksize units]. cbn [Z.eqb Pos.eqb].
  rewrite !from_char32_cons. rewrite IH.
  destruct (0x10FFFF <? decode_le (take 4 bs)); [reflexivity|].
  change (from_char32 []) with (@Ok (list Z) []).
  destruct (from_char32 (units 4 (drop 4 bs) n)); reflexivity.
Qed.

Theorem unpack_elementwise_char32 : forall tb align addr bs n,
  0 <= n -> n * 4 <= Z.of_nat (length bs) -> addr <> 0 ->
  unpack tb (KChar 4) align addr bs n = joined (KChar 4) (elementwise (KChar 4) addr bs n).
Proof.
  intros tb align addr bs n Hn Hb Ha.
  rewrite elementwise_gen_loop by (cbn [ksize]; lia || assumption).
  rewrite gen_loop_char4.
  unfold unpack. destruct (Z.ltb_spec n 0); [lia|]. destruct (Z.eqb_spec addr 0); [contradiction|].
  rewrite in_model by (cbn [ksize]; lia).
  cbn [Z.eqb Pos.eqb].
  destruct (from_char32 (units 4 bs (Z.to_nat n))); cbn [joined of_res Z.eqb Pos.eqb].
  - rewrite concat_values_str. reflexivity.
  - reflexivity.
Qed.

(* ---------------------------------------------------------------- the error raised is the first one *)
Lemma mue_first_error : forall A B (f : A -> res B) l e,
  map_until_error f l = Err e ->
  exists l1 x l2, l = l1 ++ x :: l2 /\ f x = Err e /\ forall y, In y l1 -> exists v, f y = Ok v.
Proof.
  intros A B f l. induction l as [|x r IH]; intros e H; cbn [map_until_error] in H; [discriminate|].
  destruct (f x) as [v|e'] eqn:E.
  - destruct (map_until_error f r) as [vs|e''] eqn:E2; [discriminate|].
    inversion H; subst. destruct (IH e eq_refl) as [l1 [y [l2 [-> [Hy Hl1]]]]].
    exists (x :: l1), y, l2. repeat split; auto.
    intros z [<-|Hz]; [eauto|auto].
  - inversion H; subst. exists [], x, r. repeat split; auto. intros y [].
Qed.

(* ---------------------------------------------------------------- all kinds together *)
Theorem unpack_elementwise_all : forall k align addr bs n,
  wf_kind k -> k <> KChar 2 -> 0 <= n -> n * ksize k <= Z.of_nat (length bs) -> addr <> 0 ->
  unpack gen_tables k align addr bs n = joined k (elementwise k addr bs n).
Proof.
  intros k align addr bs n Hwf H2 Hn Hb Ha.
  destruct (is_char k) eqn:Hc.
  - destruct k; try discriminate. cbn [wf_kind] in Hwf. cbn [ksize] in Hb.
    destruct Hwf as [->|[->| ->]].
    + apply unpack_elementwise_char; [lia|assumption].
    + contradiction H2; reflexivity.
    + apply unpack_elementwise_char32; assumption.
  - apply unpack_elementwise_list; auto using gen_tables_ok.
Qed.

Theorem unpack_error_is_first : forall k align addr bs n e,
  wf_kind k -> k <> KChar 2 -> 0 <= n -> n * ksize k <= Z.of_nat (length bs) -> addr <> 0 ->
  unpack gen_tables k align addr bs n = RErr e ->
  exists l1 i l2, zrange (Z.to_nat n) = l1 ++ i :: l2 /\ index k addr bs i = Err e /\
                  forall j, In j l1 -> exists v, index k addr bs j = Ok v.
Proof.
  intros k align addr bs n e Hwf H2 Hn Hb Ha H.
  rewrite unpack_elementwise_all in H by assumption.
  unfold joined in H. destruct (elementwise k addr bs n) as [vs|e'] eqn:E.
  - destruct k; try discriminate. destruct (size =? 1); discriminate.
  - inversion H; subst. apply mue_first_error. exact E.
Qed.

(* reads past the end of the modelled memory are an explicit error on both sides, not a value *)
Theorem unpack_out_of_model : forall tb k align addr bs n,
  0 <= n -> addr <> 0 -> 0 <= ksize k -> Z.of_nat (length bs) < n * ksize k ->
  unpack tb k align addr bs n = RErr OutOfModel /\
  index k addr bs (n - 1) = Err OutOfModel.
Proof.
  intros tb k align addr bs n Hn Ha Hs Hb.
  assert (out_of_model k bs n = true) as E.
  { unfold out_of_model. apply andb_true_intro. split; [apply Z.leb_le|apply Z.ltb_lt]; assumption. }
  split.
  - unfold unpack. destruct (Z.ltb_spec n 0); [lia|]. destruct (Z.eqb_spec addr 0); [contradiction|].
    rewrite E. reflexivity.
  - unfold index. destruct (Z.eqb_spec addr 0); [contradiction|].
    replace (n - 1 + 1) with n by lia. rewrite E. reflexivity.
Qed.

(* ---------------------------------------------------------------- whole run vs unit by unit, on the
   REGENERATED helpers of wchar_helper_3.h (C15/Gen.v), for ALL unit lists *)
(* ''.join of per-unit conversions: the first exception, else the concatenation *)
Fixpoint concat_res (l : list (res (list Z))) : res (list Z) :=
  match l with
  | [] => Ok []
  | r :: t => match r with
              | Err e => Err e
              | Ok x => match concat_res t with Err e => Err e | Ok y => Ok (x ++ y) end
              end
  end.

(* char32_t / wchar_t: converting the whole run is converting unit by unit and concatenating *)
Theorem from_char32_elementwise : forall w,
  from_char32 w = concat_res (map (fun u => from_char32 [u]) w).
Proof.
  induction w as [|u r IH]; [reflexivity|].
  cbn [map concat_res]. rewrite <- IH. rewrite (from_char32_cons u r), (from_char32_cons u []).
  destruct (0x10FFFF <? u); [reflexivity|].
  change (from_char32 []) with (@Ok (list Z) []).
  destruct (from_char32 r); reflexivity.
Qed.

(* ... and no unit is dropped, altered, combined or interpreted (no BOM, no surrogate handling) *)
Theorem from_char32_identity : forall w s, from_char32 w = Ok s -> s = w.
Proof.
  intros w s H. rewrite from_char32_eq in H.
  destruct (existsb (fun u => 0x10FFFF <? u) w); [discriminate|]. inversion H. reflexivity.
Qed.

Theorem from_char32_error : forall w e, from_char32 w = Err e ->
  e = SystemError /\ exists u, In u w /\ 0x10FFFF < u /\ from_char32 [u] = Err SystemError.
Proof.
  intros w e H. rewrite from_char32_eq in H.
  destruct (existsb (fun u => 0x10FFFF <? u) w) eqn:E; [|discriminate]. inversion H; subst.
  split; [reflexivity|]. apply existsb_exists in E. destruct E as [u [Hin Hu]].
  exists u. split; [exact Hin|]. split; [apply Z.ltb_lt; exact Hu|].
  rewrite from_char32_eq. cbn [existsb]. rewrite Hu. reflexivity.
Qed.

Theorem from_char32_ok : forall w, Forall (fun u => u <= 0x10FFFF) w -> from_char32 w = Ok w.
Proof.
  intros w H. rewrite from_char32_eq.
  assert (existsb (fun u => 0x10FFFF <? u) w = false) as ->; [|reflexivity].
  induction H as [|u r Hu Hr IH]; [reflexivity|]. cbn [existsb]. rewrite IH.
  destruct (Z.ltb_spec 0x10FFFF u); [lia|reflexivity].
Qed.

(* char16_t: unit by unit nothing is ever joined ... *)
Lemma concat_res_singletons16 : forall w, concat_res (map (fun u => from_char16 [u]) w) = Ok w.
Proof.
  induction w as [|u r IH]; [reflexivity|]. cbn [map concat_res].
  rewrite from_char16_single, IH. reflexivity.
Qed.

(* ... so the whole-run conversion equals the unit-by-unit one EXACTLY when no high surrogate is
   immediately followed by a low surrogate *)
Theorem from_char16_elementwise_iff : forall w,
  from_char16 w = concat_res (map (fun u => from_char16 [u]) w) <-> count_surrogates w = 0.
Proof.
  intros w. rewrite concat_res_singletons16, from_char16_join, <- join16_fixed_iff.
  split; [intros H; inversion H; congruence|intros ->; reflexivity].
Qed.

(* the same at the level of ffi.unpack on memory *)
Theorem unpack_elementwise_char16_iff : forall tb align addr bs n,
  0 <= n -> n * 2 <= Z.of_nat (length bs) -> addr <> 0 ->
  (unpack tb (KChar 2) align addr bs n = joined (KChar 2) (elementwise (KChar 2) addr bs n)
   <-> count_surrogates (units 2 bs (Z.to_nat n)) = 0).
Proof.
  intros tb align addr bs n Hn Hb Ha.
  rewrite elementwise_gen_loop by (cbn [ksize]; lia || assumption).
  rewrite gen_loop_char2.
  unfold unpack. destruct (Z.ltb_spec n 0); [lia|]. destruct (Z.eqb_spec addr 0); [contradiction|].
  rewrite in_model by (cbn [ksize]; lia).
  cbn [joined Z.eqb Pos.eqb]. rewrite concat_values_str, from_char16_join. cbn [of_res].
  rewrite <- join16_fixed_iff.
  split; [intros HH; inversion HH; congruence|intros ->; reflexivity].
Qed.

Theorem from_char16_differs_iff : forall w,
  from_char16 w <> concat_res (map (fun u => from_char16 [u]) w) <->
  exists l1 a b l2, w = l1 ++ a :: b :: l2 /\ 0xD800 <= a <= 0xDBFF /\ 0xDC00 <= b <= 0xDFFF.
Proof.
  intros w. rewrite from_char16_elementwise_iff, count_pos_has_pair. unfold has_pair.
  split; intros [l1 [a [b [l2 [H1 [H2 H3]]]]]]; exists l1, a, b, l2;
    (split; [exact H1|]); split; first [apply is_hi_range; assumption | apply is_lo_range; assumption].
Qed.

Theorem from_char16_allocation_exact : forall w,
  from_char16 w = Ok (join16_loop w) /\ zlen (join16_loop w) = zlen w - count_surrogates w.
Proof. intros w. split; [apply from_char16_join|]. pose proof (join16_length w). lia. Qed.
