(* C18 — ffi.unpack equals element-wise reading.  Statements only; proofs in C18/Proofs.v.
   [gen_tables] (C18/Gen.v) is regenerated from b_unpack's source on every run: a change of a
   casenum chain or of a `case N:` line changes Gen.v and these statements are re-proved against it.
   [from_char16], [from_char32], [count_surrogates], [join16_loop] (C15/Gen.v) are regenerated from
   src/c/wchar_helper_3.h (_my_PyUnicode_FromChar16/32) on every run as well; the CPython functions they
   call are specified in C15/Spec.v. *)
From Coq Require Import ZArith List Bool.
Import ListNotations.
From Cffi Require Import C15.WProofs C18.Model C18.Gen C18.Proofs.
Open Scope Z_scope.

(* For every item kind the backend can create except char16_t, every item alignment, every start
   address (aligned or not), every memory content and every n >= 0 inside the memory:
   ffi.unpack(p, n) is [p[i] for i in range(n)] (joined for character types), an exception
   included. *)
Theorem C18_unpack_elementwise : forall k align addr bs n,
  wf_kind k -> k <> KChar 2 -> 0 <= n -> n * ksize k <= Z.of_nat (length bs) -> addr <> 0 ->
  unpack gen_tables k align addr bs n = joined k (elementwise k addr bs n).
Proof. exact unpack_elementwise_all. Qed.
Print Assumptions C18_unpack_elementwise.

(* ... and an exception raised by unpack is the one raised by the first failing p[i] *)
Theorem C18_unpack_error_is_first : forall k align addr bs n e,
  wf_kind k -> k <> KChar 2 -> 0 <= n -> n * ksize k <= Z.of_nat (length bs) -> addr <> 0 ->
  unpack gen_tables k align addr bs n = RErr e ->
  exists l1 i l2, zrange (Z.to_nat n) = l1 ++ i :: l2 /\ index k addr bs i = Err e /\
                  forall j, In j l1 -> exists v, index k addr bs j = Ok v.
Proof. exact unpack_error_is_first. Qed.
Print Assumptions C18_unpack_error_is_first.

(* The same for ANY tables that pass the decidable check [tables_ok] (this is the lemma a changed
   Gen.v has to satisfy), for the list-valued kinds. *)
Theorem C18_any_ok_tables : forall tb k align addr bs n,
  tables_ok tb = true -> wf_kind k -> is_char k = false -> 0 <= n ->
  n * ksize k <= Z.of_nat (length bs) -> addr <> 0 ->
  unpack tb k align addr bs n = joined k (elementwise k addr bs n).
Proof. exact unpack_elementwise_list. Qed.
Print Assumptions C18_any_ok_tables.

Theorem C18_generated_tables_ok : tables_ok gen_tables = true.
Proof. exact gen_tables_ok. Qed.
Print Assumptions C18_generated_tables_ok.

(* char16_t: equal when no high surrogate is immediately followed by a low surrogate ... *)
Theorem C18_char16_no_pair : forall align addr bs n,
  0 <= n -> n * 2 <= Z.of_nat (length bs) -> addr <> 0 ->
  count_surrogates (units 2 bs (Z.to_nat n)) = 0 ->
  unpack gen_tables (KChar 2) align addr bs n = joined (KChar 2) (elementwise (KChar 2) addr bs n).
Proof. intros. apply unpack_elementwise_char16; assumption. Qed.
Print Assumptions C18_char16_no_pair.

(* ... always equal as UTF-16 text (same code units) ... *)
Theorem C18_char16_same_utf16 : forall align addr bs n,
  0 <= n -> n * 2 <= Z.of_nat (length bs) -> addr <> 0 ->
  utf16 (unpack gen_tables (KChar 2) align addr bs n)
  = utf16 (joined (KChar 2) (elementwise (KChar 2) addr bs n)).
Proof. intros. apply unpack_elementwise_char16_utf16; assumption. Qed.
Print Assumptions C18_char16_same_utf16.

(* ---- the wide-character helpers themselves, for ALL unit lists (regenerated definitions) ---- *)
(* char32_t / wchar_t: converting a whole run = converting each unit alone and concatenating (first
   exception wins): element-wise reading and ffi.unpack cannot differ, whatever the units are
   (U+FEFF, 0xFFFE0000, surrogates, values above 0x10FFFF included) *)
Theorem C18_char32_whole_is_elementwise : forall w,
  from_char32 w = concat_res (map (fun u => from_char32 [u]) w).
Proof. exact from_char32_elementwise. Qed.
Print Assumptions C18_char32_whole_is_elementwise.

(* ... no unit is dropped, altered, combined or interpreted: a successful conversion is the identity
   on code units, it succeeds whenever all units are <= 0x10FFFF, and it fails only with SystemError
   on a unit above 0x10FFFF, which fails alone in the same way *)
Theorem C18_char32_identity : forall w s, from_char32 w = Ok s -> s = w.
Proof. exact from_char32_identity. Qed.
Print Assumptions C18_char32_identity.

Theorem C18_char32_ok : forall w, Forall (fun u => u <= 0x10FFFF) w -> from_char32 w = Ok w.
Proof. exact from_char32_ok. Qed.
Print Assumptions C18_char32_ok.

Theorem C18_char32_error : forall w e, from_char32 w = Err e ->
  e = SystemError /\ exists u, In u w /\ 0x10FFFF < u /\ from_char32 [u] = Err SystemError.
Proof. exact from_char32_error. Qed.
Print Assumptions C18_char32_error.

(* char16_t: whole-run and unit-by-unit conversion differ EXACTLY when a high surrogate
   (0xD800..0xDBFF) is immediately followed by a low surrogate (0xDC00..0xDFFF) - the known finding
   char16_pair, restated on the regenerated loops; the whole-run conversion never fails and fills the
   allocated str exactly *)
Theorem C18_char16_whole_vs_elementwise : forall w,
  from_char16 w = concat_res (map (fun u => from_char16 [u]) w) <-> count_surrogates w = 0.
Proof. exact from_char16_elementwise_iff. Qed.
Print Assumptions C18_char16_whole_vs_elementwise.

Theorem C18_char16_differs_iff_adjacent_pair : forall w,
  from_char16 w <> concat_res (map (fun u => from_char16 [u]) w) <->
  exists l1 a b l2, w = l1 ++ a :: b :: l2 /\ 0xD800 <= a <= 0xDBFF /\ 0xDC00 <= b <= 0xDFFF.
Proof. exact from_char16_differs_iff. Qed.
Print Assumptions C18_char16_differs_iff_adjacent_pair.

Theorem C18_char16_allocation_exact : forall w,
  from_char16 w = Ok (join16_loop w) /\ zlen (join16_loop w) = zlen w - count_surrogates w.
Proof. exact from_char16_allocation_exact. Qed.
Print Assumptions C18_char16_allocation_exact.

(* the same for ffi.unpack over memory *)
Theorem C18_char16_unpack_iff : forall align addr bs n,
  0 <= n -> n * 2 <= Z.of_nat (length bs) -> addr <> 0 ->
  (unpack gen_tables (KChar 2) align addr bs n = joined (KChar 2) (elementwise (KChar 2) addr bs n)
   <-> count_surrogates (units 2 bs (Z.to_nat n)) = 0).
Proof. intros. apply unpack_elementwise_char16_iff; assumption. Qed.
Print Assumptions C18_char16_unpack_iff.

(* Every statement above is about n items INSIDE the memory (n * itemsize <= length bs) at a non-NULL
   address.  Outside, the model makes no claim: a read past the end of the modelled memory is the
   explicit error OutOfModel for ffi.unpack and for p[i] alike. *)
Theorem C18_out_of_model_is_an_error : forall tb k align addr bs n,
  0 <= n -> addr <> 0 -> 0 <= ksize k -> Z.of_nat (length bs) < n * ksize k ->
  unpack tb k align addr bs n = RErr OutOfModel /\
  index k addr bs (n - 1) = Err OutOfModel.
Proof. exact unpack_out_of_model. Qed.
Print Assumptions C18_out_of_model_is_an_error.

(* ... but not equal as Python str in general: unpack joins a surrogate pair into one code point,
   p[i] returns the two surrogates (finding "char16_pair", inherent to UTF-16) *)
Theorem C18_char16_strict_refuted : exists bs,
  unpack gen_tables (KChar 2) 2 4096 bs 2 <> joined (KChar 2) (elementwise (KChar 2) 4096 bs 2).
Proof. exact unpack_elementwise_char16_refuted. Qed.
Print Assumptions C18_char16_strict_refuted.

(* non-vacuity: a negative short on the aligned fast path (case 1) and on the misaligned generic
   path (case -1); a _Bool byte 2 after two valid ones raises ValueError; unsigned long above 2^63;
   a denormal float and a signalling NaN; struct items are views at addr + i*size *)
Example C18_example_short :
  casenum gen_tables (KSigned 2) 2 4096 = 1 /\ casenum gen_tables (KSigned 2) 2 4097 = -1 /\
  unpack gen_tables (KSigned 2) 2 4096 [0xFE; 0xFF; 0x01; 0x80; 7] 2 = RList [VInt (-2); VInt (-32767)] /\
  unpack gen_tables (KSigned 2) 2 4097 [0xFE; 0xFF; 0x01; 0x80; 7] 2 = RList [VInt (-2); VInt (-32767)].
Proof. vm_compute. repeat split; reflexivity. Qed.

Example C18_example_bool :
  unpack gen_tables KBool 1 4096 [0; 1; 2; 1] 4 = RErr ValueError /\
  unpack gen_tables KBool 1 4096 [0; 1; 2; 1] 2 = RList [VBool false; VBool true] /\
  joined KBool (elementwise KBool 4096 [0; 1; 2; 1] 4) = RErr ValueError.
Proof. vm_compute. repeat split; reflexivity. Qed.

Example C18_example_others :
  unpack gen_tables (KUnsigned 8) 8 4096 [1; 0; 0; 0; 0; 0; 0; 0x80] 1 = RList [VInt 9223372036854775809] /\
  unpack gen_tables (KFloat 4) 4 4096 [0; 0; 0x80; 0x3f; 1; 0; 0; 0; 1; 0; 0x80; 0x7f] 3
    = RList [VFloat 4607182418800017408; VFloat 3936146074321813504; VFloat 9221120237577961472] /\
  unpack gen_tables (KAggregate 3) 1 4096 [1; 2; 3; 4; 5; 6] 2 = RList [VView 4096; VView 4099] /\
  unpack gen_tables (KChar 2) 2 4096 [0x3D; 0xD8; 0x00; 0xDE] 2 = RStr [128512] /\
  joined (KChar 2) (elementwise (KChar 2) 4096 [0x3D; 0xD8; 0x00; 0xDE] 2) = RStr [55357; 56832] /\
  unpack gen_tables (KChar 4) 4 4096 [0x3D; 0xD8; 0; 0; 0; 0; 0x11; 0] 2 = RErr SystemError.
Proof. vm_compute. repeat split; reflexivity. Qed.

(* code points with a special meaning to codecs are plain data here: U+FEFF first / in the middle,
   0xFFFE0000, lone and paired surrogates in char32_t; a BOM in char16_t *)
Example C18_example_codec_specials :
  from_char32 [0xFEFF; 0x41; 0xFEFF; 0xFFFE; 0xD800; 0xDC00; 0x10FFFF] =
    Ok [0xFEFF; 0x41; 0xFEFF; 0xFFFE; 0xD800; 0xDC00; 0x10FFFF] /\
  from_char32 [0x41; 0xFFFE0000] = Err SystemError /\ from_char32 [0x110000] = Err SystemError /\
  from_char16 [0xFEFF; 0x41; 0xFFFE; 0xDC00; 0xD800] = Ok [0xFEFF; 0x41; 0xFFFE; 0xDC00; 0xD800] /\
  from_char16 [0xD800; 0xDC00; 0xDBFF; 0xDFFF; 0xD800] = Ok [0x10000; 0x10FFFF; 0xD800] /\
  unpack gen_tables (KChar 4) 4 4096 [0x41; 0; 0; 0; 0xFF; 0xFE; 0; 0; 0x42; 0; 0; 0] 3 = RStr [0x41; 0xFEFF; 0x42] /\
  joined (KChar 4) (elementwise (KChar 4) 4096 [0x41; 0; 0; 0; 0xFF; 0xFE; 0; 0; 0x42; 0; 0; 0] 3)
    = RStr [0x41; 0xFEFF; 0x42].
Proof. vm_compute. repeat split; reflexivity. Qed.
