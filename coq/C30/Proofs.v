(* C30 — which exceptions the regenerated constant evaluator (C09/Gen.v + C09/Model.v) can raise. *)
From Coq Require Import ZArith NArith String List Bool Lia ZifyBool.
Import ListNotations.
From Cffi Require Import C09.Prim C09.Gen C09.Model C30.Model.
Open Scope Z_scope.

(* ------------------------------------------------------------------ generic: errors of py_eval come from its parts *)
Section Closure.
  Variable P : pyexn -> Prop.
  Hypothesis P_ffi : P FFIError.
  Hypothesis P_unop : forall op f v x, unop op = Some f -> f v = Err x -> P x.
  Hypothesis P_binop : forall op a b x, binop op a b = Some (Err x) -> P x.
  Hypothesis P_lit : forall s x, s <> [] -> lit_value s = Err x -> P x.

  (* every literal token is non-empty (pycparser's lexer) *)
  Fixpoint wf (e : expr) : Prop :=
    match e with
    | Const s => s <> []
    | Unary _ e1 => wf e1
    | Binary _ l r => wf l /\ wf r
    | Id _ | Other => True
    end.

  Lemma py_eval_errors : forall env e x, wf e -> py_eval env e = Err x -> P x.
  Proof.
    induction e as [s|n|op e1 IH|op l IHl r IHr|]; intros x W H; simpl in H.
    - eapply P_lit; eauto.
    - destruct (lookup n env); [discriminate|]. inversion H; subst. assumption.
    - destruct (unop op) as [f|] eqn:U.
      + destruct (py_eval env e1) as [v|y] eqn:E; simpl in H.
        * eapply P_unop; eauto.
        * inversion H; subst. apply IH; auto.
      + inversion H; subst. assumption.
    - destruct W as [Wl Wr].
      destruct (py_eval env l) as [a|y] eqn:El; simpl in H; [|inversion H; subst; apply IHl; auto].
      destruct (py_eval env r) as [b|y] eqn:Er; simpl in H; [|inversion H; subst; apply IHr; auto].
      destruct (binop op a b) as [z|] eqn:B.
      + subst z. eapply P_binop; eauto.
      + inversion H; subst. assumption.
    - inversion H; subst. assumption.
  Qed.
End Closure.

(* ------------------------------------------------------------------ the parts, as the source is now *)

Lemma c_div_errors : forall a b x, c_div a b = Err x -> x = CDefError.
Proof.
  intros a b x. unfold c_div, bind2, bind, and_then, py_floordiv, py_mod.
  destruct (Z.eqb_spec b 0) as [->|Hb]; simpl.
  - intros H. now inversion H.
  - destruct (b =? 0) eqn:E; [lia|].
    destruct (xorb (a <? 0) (b <? 0)); simpl; try discriminate.
    destruct (negb (a mod b =? 0)); simpl; discriminate.
Qed.

Lemma binop_errors : forall op a b x, binop op a b = Some (Err x) -> x = CDefError.
Proof.
  intros op a b x. unfold binop.
  destruct ((String.eqb op "<<" || String.eqb op ">>") && negb ((0 <=? b) && (b <=? 1024))) eqn:G.
  - intros E. now injection E as <-.
  - repeat match goal with
    | |- (if String.eqb op ?s then _ else _) = _ -> _ =>
        destruct (String.eqb_spec op s) as [->|_]
    end; unfold bind2, bind; try discriminate.
    + intros E. injection E as E. eapply c_div_errors; eauto.
    + destruct (c_div a b) as [q|y] eqn:D; simpl; [discriminate|].
      intros E. injection E as E. subst y. eapply c_div_errors; eauto.
    + simpl in G. unfold py_lshift. destruct (Z.ltb_spec b 0); [lia|discriminate].
    + simpl in G. unfold py_rshift. destruct (Z.ltb_spec b 0); [lia|].
      destruct (Z.log2 (Z.abs a) <? b); discriminate.
Qed.

Lemma unop_errors : forall op f v x, unop op = Some f -> f v = Err x -> False.
Proof.
  intros op f v x. unfold unop.
  destruct (String.eqb_spec op "+"); [intros H; inversion H; subst; discriminate|].
  destruct (String.eqb_spec op "-"); [intros H; inversion H; subst; discriminate|].
  discriminate.
Qed.

Lemma num_value_errors : forall s x, num_value s = Err x -> x = CDefError.
Proof.
  intros s x. unfold num_value.
  destruct (if starts0 s then py_int 8 s else py_int 10 s); [discriminate|].
  destruct (1 <? Z.of_nat (length s)); [|intros H; now inversion H].
  destruct (prefix2_is s 120).
  - destruct (py_int 16 s); [discriminate|]. intros H; now inversion H.
  - destruct (prefix2_is s 98).
    + destruct (py_int 2 s); [discriminate|]. intros H; now inversion H.
    + intros H; now inversion H.
Qed.

Lemma char_value_errors : forall s x, char_value s = Err x -> x = CDefError.
Proof.
  intros s x. unfold char_value.
  destruct s as [|a [|b [|c [|d [|e r]]]]]; try (intros H; inversion H; reflexivity).
  - destruct (negb (N.eqb b 92)); [discriminate|]. intros H; inversion H; reflexivity.
  - destruct (N.eqb b 92); [|intros H; inversion H; reflexivity].
    destruct (assoc c simple_escapes); [discriminate|]. intros H; inversion H; reflexivity.
Qed.

Lemma lit_value_errors : forall s x, s <> [] -> lit_value s = Err x -> x = CDefError.
Proof.
  intros s x Hne. unfold lit_value. destruct s as [|c0 r]; [congruence|].
  destruct (n_in 48 57 c0).
  - apply num_value_errors.
  - destruct (N.eqb c0 39 && last_is (c0 :: r) 39).
    + apply char_value_errors.
    + intros H; now inversion H.
Qed.

(* what can escape from _parse_constant, for every expression tree and every table of known constants:
   only cffi's own errors *)
Theorem evaluator_closed : forall env e x, wf e -> py_eval env e = Err x -> cffi_error x.
Proof.
  intros env e x. apply (py_eval_errors cffi_error); unfold cffi_error.
  - auto.
  - intros op f v y U F. exfalso. eapply unop_errors; eauto.
  - intros op a b y B. apply binop_errors in B. auto.
  - intros s y Hne L. apply lit_value_errors in L; auto.
Qed.

(* the shift-count guard (cparser.py, BinaryOp block): counts outside 0..1024 are refused, so Python never
   sees a negative count nor builds an astronomically large integer *)
Lemma shift_guard : forall a b, ~ (0 <= b <= 1024) ->
  binop "<<" a b = Some (Err CDefError) /\ binop ">>" a b = Some (Err CDefError).
Proof.
  intros a b H. unfold binop. simpl.
  assert (G : negb ((0 <=? b) && (b <=? 1024)) = true) by lia. rewrite G. auto.
Qed.
