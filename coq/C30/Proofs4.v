(* C30 — proofs about the model of _preprocess_extern_python (C30/ExternPy.v over the regenerated C30/Gen.v).
   The proofs use the regenerated facts by conversion (`change ep_requires_next with true`, `change ep_end_adjust
   with 1`, the three raise classes): if the source drops the trailing `.` of the pattern, or the `- 1`, or raises
   another class, Gen.v changes and this file no longer compiles (broken obligation). *)
From Coq Require Import ZArith NArith List Bool Lia.
Import ListNotations.
From Cffi Require Import C30.Gen C30.ExternPy.
Open Scope Z_scope.

Lemma strip_prefix_len : forall p t r, strip_prefix p t = Some r -> (length r <= length t)%nat.
Proof.
  induction p as [|c p IH]; intros t r H; cbn [strip_prefix] in H.
  - inversion H; subst; lia.
  - destruct t as [|x t']; [discriminate|]. destruct (N.eqb x c); [|discriminate].
    apply IH in H. cbn [length]. lia.
Qed.

Section P.
Variables isw iss : N -> bool.

Lemma skip_ws_len : forall t, (length (skip_ws iss t) <= length t)%nat.
Proof. induction t as [|c r IH]; cbn [skip_ws length]; [lia|]. destruct (iss c); cbn [length]; lia. Qed.

Lemma plus_C_len : forall t r h, plus_C iss t = Some (r, h) -> (length r <= length t)%nat.
Proof.
  intros t r h H. unfold plus_C in H.
  pose proof (skip_ws_len t) as L1.
  destruct (skip_ws iss t) as [|p r3] eqn:E1; [discriminate|].
  destruct (N.eqb p PLUS); [|discriminate].
  pose proof (skip_ws_len r3) as L2.
  destruct (skip_ws iss r3) as [|c1 [|q r4]] eqn:E2; try discriminate.
  destruct (N.eqb c1 BIGC && N.eqb q DQ); [|discriminate].
  inversion H; subst. cbn [length] in *. lia.
Qed.

Lemma plus_Python_len : forall t r h, plus_Python iss t = Some (r, h) -> (length r <= length t)%nat.
Proof.
  intros t r h H. unfold plus_Python in H.
  pose proof (skip_ws_len t) as L1.
  destruct (skip_ws iss t) as [|p r3] eqn:E1; [discriminate|].
  destruct (N.eqb p PLUS); [|discriminate].
  pose proof (skip_ws_len r3) as L2.
  destruct (strip_prefix s_Python (skip_ws iss r3)) as [[|q r4]|] eqn:E2; try discriminate.
  apply strip_prefix_len in E2. destruct (N.eqb q DQ); [|discriminate].
  inversion H; subst. cbn [length] in *. lia.
Qed.

Lemma group_len : forall t r h, group iss t = Some (r, h) -> (length r <= length t)%nat.
Proof.
  intros t r h H. unfold group in H.
  destruct (strip_prefix s_Python t) as [r1|] eqn:E.
  - apply strip_prefix_len in E. destruct r1 as [|c r2]; [discriminate|].
    destruct (N.eqb c DQ).
    + inversion H; subst. cbn [length] in E. lia.
    + apply plus_C_len in H. lia.
  - destruct t as [|c r1]; [discriminate|]. destruct (N.eqb c BIGC); [|discriminate].
    apply plus_Python_len in H. cbn [length]. lia.
Qed.

(* the regenerated fact "the pattern ends with `\s*.`" at work: every match of the tail consumes a character *)
Lemma tail_next_bound : forall r n, tail_next iss r = Some n -> 1 <= n <= len r.
Proof.
  induction r as [|c r IH]; intros n H; cbn [tail_next] in H; [discriminate|].
  unfold len in *. cbn [length]. rewrite Nat2Z.inj_succ.
  destruct (iss c).
  - destruct (tail_next iss r) as [m|] eqn:E.
    + inversion H; subst. specialize (IH m eq_refl). lia.
    + destruct (N.eqb c NL); [discriminate|]. inversion H; subst. lia.
  - destruct (N.eqb c NL); [discriminate|]. inversion H; subst. lia.
Qed.

Lemma match_at_bound : forall t n h, match_at iss t = Some (n, h) -> 1 <= n <= len t.
Proof.
  intros t n h H. unfold match_at in H.
  destruct (strip_prefix s_extern t) as [r0|] eqn:E0; [|discriminate].
  apply strip_prefix_len in E0.
  pose proof (skip_ws_len r0) as L1.
  destruct (skip_ws iss r0) as [|q r1] eqn:E1; [discriminate|].
  destruct (N.eqb q DQ); [|discriminate].
  destruct (group iss r1) as [[r2 hc]|] eqn:E2; [|discriminate].
  apply group_len in E2.
  unfold tail in H. change ep_requires_next with true in H. cbv iota in H.
  destruct (tail_next iss r2) as [m|] eqn:E3; [|discriminate].
  apply tail_next_bound in E3. inversion H; subst. unfold len in *. cbn [length] in L1. lia.
Qed.

Lemma search_bound : forall t pw pos st en h, search isw iss pw t pos = Some (st, en, h) ->
  pos <= st /\ st + 1 <= en <= pos + len t.
Proof.
  induction t as [|c r IH]; intros pw pos st en h H; cbn [search] in H; [discriminate|].
  destruct (if xorb pw (isw c) then match_at iss (c :: r) else None) as [[n hh]|] eqn:E.
  - inversion H; subst. destruct (xorb pw (isw c)); [|discriminate]. apply match_at_bound in E. lia.
  - apply IH in H. unfold len in *. cbn [length]. rewrite Nat2Z.inj_succ. lia.
Qed.

Lemma getitem_in : forall s i, 0 <= i < len s -> exists c, py_getitem s i = Some c.
Proof.
  intros s i H. unfold py_getitem.
  assert ((0 <=? i) && (i <? len s) = true) as ->
    by (apply andb_true_intro; split; [apply Z.leb_le|apply Z.ltb_lt]; lia).
  destruct (nth_error s (Z.to_nat i)) eqn:E; [eauto|].
  apply nth_error_None in E. unfold len in H. lia.
Qed.

Lemma slice_rest_shorter : forall s k, 0 <= k -> (0 < length s)%nat ->
  (length (slice s (k + 1) (len s)) < length s)%nat.
Proof.
  intros s k Hk Hs. unfold slice. rewrite firstn_length, skipn_length.
  assert (1 <= norm s (k + 1)) as H1.
  { unfold norm. destruct (k + 1 <? 0) eqn:E; [apply Z.ltb_lt in E; lia|]. unfold len. lia. }
  assert (1 <= Z.to_nat (norm s (k + 1)))%nat by lia.
  lia.
Qed.

Lemma ep_loop_closed : forall fuel parts cs x, (length cs < fuel)%nat ->
  ep_loop isw iss fuel parts cs = Err x -> x = CDefError \/ x = NotImplementedError.
Proof.
  induction fuel as [|f IH]; intros parts cs x Hf H; [lia|].
  cbn [ep_loop] in H. cbv zeta in H.
  destruct (search isw iss false cs 0) as [[[st en] hasc]|] eqn:ES; [|discriminate].
  apply search_bound in ES. destruct ES as [S1 S2].
  change ep_end_adjust with 1 in H.
  destruct (getitem_in cs (en - 1)) as [ch Hch]; [lia|].
  rewrite Hch in H.
  assert (0 < length cs)%nat as Hpos by (unfold len in S2; lia).
  destruct (N.eqb ch ep_brace).
  - destruct (py_find ep_close cs (en - 1) (len cs) <? 0) eqn:E1.
    + injection H as <-. left. reflexivity.
    + apply Z.ltb_ge in E1.
      destruct (0 <=? py_find ep_inner cs (en - 1 + 1) (py_find ep_close cs (en - 1) (len cs))) eqn:E2.
      * injection H as <-. right. reflexivity.
      * eapply IH; [|exact H]. pose proof (slice_rest_shorter cs _ E1 Hpos). lia.
  - destruct (py_find ep_semi cs (en - 1) (len cs) <? 0) eqn:E1.
    + injection H as <-. left. reflexivity.
    + apply Z.ltb_ge in E1. eapply IH; [|exact H]. pose proof (slice_rest_shorter cs _ E1 Hpos). lia.
Qed.

Lemma extern_python_closed : forall s x, extern_python isw iss s = Err x -> x = CDefError \/ x = NotImplementedError.
Proof. intros s x H. unfold extern_python in H. eapply ep_loop_closed; [|exact H]. lia. Qed.

(* termination (the fuel S (length s) is never exhausted) and no IndexError, as corollaries *)
Lemma extern_python_total : forall s, extern_python isw iss s <> Err OutOfFuel /\ extern_python isw iss s <> Err IndexError.
Proof. intros s. split; intros H; destruct (extern_python_closed s _ H); discriminate. Qed.
End P.
