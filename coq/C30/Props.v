(* C30 — Declaration and type-string errors are reported as cffi errors.
   Statements only; proofs in C30/Proofs.v, C30/Proofs2.v.  About the models of
   Parser._parse_constant (C09/Gen.v regenerated from cparser.py + C09/Model.v), of
   _process_macros/_add_integer_constant/_r_int_literal (C30/Model.v, C09/Model.v), of five stages of _preprocess
   (C31/Model.v) and of _preprocess_extern_python (C30/ExternPy.v over the regenerated C30/Gen.v).  parse_c_type.c is covered by the theorems imported from C07 (below); everything else past these
   (pycparser, the rest of cparser.py, ffi_obj.c/_ffi_type, realize_c_type.c) is covered by fuzzing only
   (tools/props/c30.py): label partial. *)
From Coq Require Import ZArith NArith String Ascii List Bool.
Import ListNotations.
From Cffi Require Import C09.Prim C09.Gen C09.Model C30.Model C30.Proofs C30.Proofs2 C30.Proofs3.
From Cffi Require C31.Model C31.Proofs2.
From Cffi Require C07.Model C07.NoFault.
From Cffi Require C30.Gen C30.ExternPy C30.Proofs4 C30.Proofs5.
Open Scope Z_scope.
Open Scope string_scope.

(* TIES (differential runs of tools/props/c30.py on every ./check C30; a disagreement is reported under these names):
     [tie-eval]   "C09.Model.py_eval (exception class) vs cparser._parse_constant"   Gen.v is regenerated from the source
                  (c09_regen.py); the hand-written literal scanner lit_value is tied by this run
     [tie-macro]  "C30.Model.r_int_literal/process_macro vs cparser._r_int_literal/_process_macros"
                  the regular expression _r_int_literal against Python's re, _add_integer_constant against int(s, 0)
     [tie-preprocess] "C31.Model.preprocess vs cparser._preprocess" (run by ./check C31): _r_line_directive,
                  _r_define, _r_comment, _r_other_whitespace against re
     [tie-C07]    ./check C07: C07.Model against the unmodified parse_c_type.c (ASan harness) *)

(* the full statement, now true of the regenerated text (fixes d0898b6 shift-count guard, 77a8ba4 hex-float
   guard, 501df80 division by zero): for every expression tree (any depth, any table of known constants)
   _parse_constant returns a value or raises CDefError or FFIError -- nothing else *)
(* [tie-eval] *)
Theorem C30_evaluator_closed : forall env e x, wf e -> py_eval env e = Err x -> cffi_error x.
Proof. exact evaluator_closed. Qed.
Print Assumptions C30_evaluator_closed.

(* [tie-eval] *)
Corollary C30_no_python_exception : forall env e, wf e ->
  py_eval env e <> Err ZeroDivisionError /\ py_eval env e <> Err ValueError /\
  py_eval env e <> Err IndexError /\ py_eval env e <> Err KeyError /\ py_eval env e <> Err MemoryError.
Proof. exact no_python_exception. Qed.
Print Assumptions C30_no_python_exception.

(* the guard: every shift count outside 0..1024 is refused with CDefError before Python shifts *)
(* [tie-eval] *)
Theorem C30_shift_guard : forall a b, ~ (0 <= b <= 1024) ->
  binop "<<" a b = Some (Err CDefError) /\ binop ">>" a b = Some (Err CDefError).
Proof. exact shift_guard. Qed.
Print Assumptions C30_shift_guard.


(* the former refutation witnesses (fixed findings shift_count, hex_float_constant) *)
Example C30_former_witnesses :
  py_eval [] (Binary "<<" (lit "1") (Unary "-" (lit "1"))) = Err CDefError /\
  py_eval [] (Binary ">>" (lit "1") (Unary "-" (lit "1"))) = Err CDefError /\
  py_eval [] (Binary "<<" (lit "1") (lit "99999999999999999999")) = Err CDefError /\
  py_eval [] (lit "0x1p3") = Err CDefError /\
  py_eval [] (Binary "<<" (lit "1") (lit "1024")) = Ok (2 ^ 1024).
Proof. vm_compute. repeat split; reflexivity. Qed.

(* '#define NAME value': whatever _r_int_literal accepts, int(..., 0) converts: no ValueError (all strings) *)
(* [tie-macro] *)
Theorem C30_macros_closed : forall s, r_int_literal s = true -> exists v, add_integer_constant s = Ok v.
Proof. exact macros_closed. Qed.
Print Assumptions C30_macros_closed.

(* [tie-macro] *)
Theorem C30_negated_literal_closed : forall s, r_int_literal s = true ->
  match s with c :: _ => N.eqb c 45 | [] => false end = false ->
  exists v, add_integer_constant (45%N :: s) = Ok v.
Proof. exact negated_literal_closed. Qed.
Print Assumptions C30_negated_literal_closed.

(* [tie-macro] *)
Theorem C30_process_macro_closed : forall value x, process_macro value = Err x -> x = CDefError.
Proof. exact process_macro_closed. Qed.
Print Assumptions C30_process_macro_closed.

(* _preprocess: five of its stages (model of C31, tied to the real _preprocess on every run).  The model's exception type has the
   classes that occur in _put_back_line_directives: replace() by itself raises ValueError (a directive-like
   line that is not a '#line@N' placeholder; int() failing on N, with Python's int() grammar modelled) or
   IndexError (N out of range, with Python's negative indices modelled) ... *)
(* [tie-preprocess] *)
Theorem C30_replace_raw_errors : forall l st x, C31.Model.replace_raw l st = C31.Model.Err x ->
  x = C31.Model.ValueError \/ x = C31.Model.IndexError.
Proof. exact C31.Proofs2.replace_raw_errors. Qed.
Print Assumptions C30_replace_raw_errors.

(* ... and the handler: `except (ValueError, IndexError): raise CDefError(...)` is REGENERATED from cparser.py into
   C30/Gen.v (caught, handler_raises; tools/props/c30_regen.py).  replace_gen is replace() with that regenerated
   handler; it coincides with the hand-written C31.Model.replace (so narrowing the except clause in the source breaks
   this obligation, not only the fuzz witness "/*\n*/#line@7") and raises only CDefError *)
(* [tie-preprocess] *)
Theorem C30_handler_regenerated : forall l st, C30.Proofs5.replace_gen l st = C31.Model.replace l st.
Proof. exact C30.Proofs5.replace_gen_is_model. Qed.
Print Assumptions C30_handler_regenerated.

(* [tie-preprocess] *)
Theorem C30_replace_closed : forall l st x, C30.Proofs5.replace_gen l st = C31.Model.Err x -> x = C31.Model.CDefError.
Proof. exact C30.Proofs5.replace_gen_closed. Qed.
Print Assumptions C30_replace_closed.

Example C30_placeholder_regenerated :
  C30.Gen.placeholder = C31.Model.s_lineat /\ C30.Gen.placeholder_skip = length C31.Model.s_lineat /\
  C30.Proofs5.to_c31 C30.Gen.not_placeholder_raises = Some C31.Model.ValueError.
Proof. exact C30.Proofs5.placeholder_is_model. Qed.

(* every failure of the FIVE MODELLED STAGES of _preprocess (C31.Model.preprocess: other-white-space normalisation,
   line-directive stashing, comment removal, #define removal, putting the line directives back) is a CDefError (all
   texts).  This is NOT the whole _preprocess: the stdcall/cdecl rewriting and the '...' rewriting with their `assert`s
   (cparser.py:243-255) are not modelled, and _preprocess_extern_python, which also raises NotImplementedError, is
   covered separately by C30_extern_python_closed below.
   Not vacuous: with `except ValueError` only, "/*\n*/#line@7" would give IndexError *)
(* [tie-preprocess] *)
Theorem C30_preprocess_stages_closed : forall s x, C31.Model.preprocess s = C31.Model.Err x -> x = C31.Model.CDefError.
Proof. exact C31.Proofs2.preprocess_errors. Qed.
Print Assumptions C30_preprocess_stages_closed.

(* ==== _preprocess_extern_python (cparser.py:98-140) and _r_extern_python (:48) ====
   Model C30/ExternPy.v over facts regenerated into C30/Gen.v on every run (ep_requires_next: the pattern ends with
   `\s*.`, so one more character belongs to every match; ep_end_adjust: the 1 of `endpos = match.end() - 1`; the
   compared/searched characters; the three raised classes).  Indexing in the model is partial (csource[i] out of range
   = Err IndexError) and the loop has fuel (exhaustion = Err OutOfFuel), so the statement says: for EVERY text (and
   every reading isw/iss of \w and \s) the function terminates and raises nothing but CDefError / NotImplementedError
   -- in particular csource[endpos] never raises IndexError, also when the text ends right after `extern <dq>Python<dq>`.
   [tie-extpy] "C30.ExternPy.extern_python vs cparser._preprocess_extern_python": whole output / exception class on
   every truncation of valid cdefs and on random marker/brace/semicolon/white-space soups (tools/props/c30.py) *)
(* [tie-extpy] *)
Theorem C30_extern_python_closed : forall (isw iss : N -> bool) s x,
  C30.ExternPy.extern_python isw iss s = C30.ExternPy.Err x -> x = C30.Gen.CDefError \/ x = C30.Gen.NotImplementedError.
Proof. exact C30.Proofs4.extern_python_closed. Qed.
Print Assumptions C30_extern_python_closed.

(* [tie-extpy] *)
Theorem C30_extern_python_terminates_no_index_error : forall (isw iss : N -> bool) s,
  C30.ExternPy.extern_python isw iss s <> C30.ExternPy.Err C30.Gen.OutOfFuel /\
  C30.ExternPy.extern_python isw iss s <> C30.ExternPy.Err C30.Gen.IndexError.
Proof. exact C30.Proofs4.extern_python_total. Qed.
Print Assumptions C30_extern_python_terminates_no_index_error.

(* both error classes occur; the marker at the very end of the text; accepted texts are rewritten *)
Example C30_extern_python_examples :
  let t s := map (fun a => N_of_ascii a) (list_ascii_of_string s) in
  let ep s := C30.ExternPy.extern_python C30.ExternPy.py_word C30.ExternPy.py_space (t s) in
  ep "extern ""Python""" = C30.ExternPy.Ok (t "extern ""Python""") /\     (* no character follows: no match; pycparser rejects it *)
  ep "extern ""Python"" " = C30.ExternPy.Err C30.Gen.CDefError /\
  ep "int f(int); extern ""Python+C"" " = C30.ExternPy.Err C30.Gen.CDefError /\
  ep "extern ""Python"" { int f(int);" = C30.ExternPy.Err C30.Gen.CDefError /\
  ep "extern ""Python"" { { } }" = C30.ExternPy.Err C30.Gen.NotImplementedError /\
  ep "extern ""Python"" int f(int);" =
    C30.ExternPy.Ok (t "void __cffi_extern_python_start; int f(int); void __cffi_extern_python_stop;") /\
  ep "xextern ""Python"" int f(int);" = C30.ExternPy.Ok (t "xextern ""Python"" int f(int);").
Proof. vm_compute. repeat split; reflexivity. Qed.

Example C30_replace_raw_witnesses :
  C31.Model.replace_raw [32;35;32;53]%N [] = C31.Model.Err C31.Model.ValueError /\            (* " # 5" *)
  C31.Model.replace_raw [35;108;105;110;101;64;55]%N [] = C31.Model.Err C31.Model.IndexError /\    (* "#line@7" *)
  C31.Model.replace_raw [35;108;105;110;101;64;48;120]%N [[1%N]] = C31.Model.Err C31.Model.ValueError /\  (* "#line@0x" *)
  C31.Model.replace_raw [35;108;105;110;101;64;45;49]%N [[1%N]; [2%N]] = C31.Model.Ok [2%N] /\      (* "#line@-1" *)
  C31.Model.replace_raw [35;108;105;110;101;64;32;43;49;95;48;32]%N [] = C31.Model.Err C31.Model.IndexError.  (* "#line@ +1_0 " *)
Proof. vm_compute. repeat split; reflexivity. Qed.

(* the former witnesses (fixed finding line_directive_put_back):   "/**/# 5"   and   "/*\n*/#line@7" *)
Example C30_preprocess_former_witnesses :
  C31.Model.preprocess [47;42;42;47;35;32;53]%N = C31.Model.Err C31.Model.CDefError /\
  C31.Model.preprocess [47;42;10;42;47;35;108;105;110;101;64;55]%N = C31.Model.Err C31.Model.CDefError.
Proof. split; vm_compute; reflexivity. Qed.

(* ==== second sentence of C30: "typeof() on a compiled FFI returns a ctype or raises ffi.error ... and never
   crashes or reads outside the string" -- the part decided by parse_c_type.c ====
   Imported (read-only) from C07 (proofs in C07/NoFault3.v, restated in C07/Props.v as C07_no_fault,
   C07_result_index_in_range, C07_next_token_stops_at_terminator, C07_lookahead_stops_at_terminator; C30 depends on
   C07/Model, Lexer, NoFault, NoFault2, NoFault3 only): C07.Model is a character/token-level model of parse_c_type.c (next_token,
   parse_complete, parse_sequel, write_ds, the opcode buffer with every load/store checked); it is tied to the
   UNMODIFIED parse_c_type.c by ./check C07 (an ASan harness with exact-size output buffers) -- C30's own run
   exercises the same file through the real _cffi_backend with ASan/UBSan and PYTHONMALLOC=debug
   (tools/props/c30.py, streams ctype and complexity-limit).
   What the C07 model covers: parse_c_type.c only.  NOT in it: _ffi_type() in ffi_obj.c (allocation of the
   FFI_COMPLEXITY_OUTPUT-slot buffer, the error message built by _ffi_bad_type), realize_c_type.c (building the
   ctype from the opcodes: TypeError/ValueError/OverflowError/RuntimeError paths) and the conversion of the
   Python str to a NUL-terminated char*.  Those remain fuzz-only.  The model's outcome type also has
   `Err E_out_of_fuel`, an artefact of the model's fuel (C07 sets fuel = 6*length+24); it is not a C behaviour. *)

(* "never ... reads outside" for the opcode buffer: for EVERY string, declaration context and buffer size the
   parser performs no load or store outside the part of the output buffer it has already written *)
(* [tie-C07] *)
Theorem C30_type_parser_no_buffer_fault : forall (output_size : nat) (cx : C07.Model.ctx) (input : C07.Model.str),
  C07.Model.parse_c_type output_size cx input <> C07.Model.Fault.
Proof. exact type_parser_no_buffer_fault. Qed.
Print Assumptions C30_type_parser_no_buffer_fault.

(* "returns a ctype or raises ffi.error": the outcome is an error (ffi.error with message and position) or a result
   index that lies inside the opcodes written -- what realize_c_type then reads is initialised memory *)
(* [tie-C07] *)
Theorem C30_type_parser_outcome : forall (output_size : nat) (cx : C07.Model.ctx) (input : C07.Model.str),
  match C07.Model.parse_c_type output_size cx input with
  | C07.Model.Ok (out, r) => (0 <= r < Z.of_nat (List.length out))%Z
  | C07.Model.Err _ _ => True
  | C07.Model.Fault => False
  end.
Proof. exact type_parser_outcome. Qed.
Print Assumptions C30_type_parser_outcome.

(* "never reads outside the string": the tokenizer and the two look-ahead helpers do not depend on anything stored
   after the terminating NUL, and every token lies before it *)
(* [tie-C07] *)
Theorem C30_type_parser_stays_in_string : forall s junk, C07.NoFault.nulfree s = true ->
  C07.Model.lex_from (s ++ 0%N :: junk)%list = C07.Model.lex_from s /\
  (forall k n kd, C07.Model.lex_from s = (k, n, kd) -> (k + n <= List.length s)%nat) /\
  C07.Model.first_nonspace (s ++ 0%N :: junk)%list = C07.Model.first_nonspace s /\
  (forall d acc, C07.Model.ncommas (s ++ 0%N :: junk)%list d acc = C07.Model.ncommas s d acc).
Proof. exact type_parser_stays_in_string. Qed.
Print Assumptions C30_type_parser_stays_in_string.

(* ---- non-vacuity ---- *)
Example C30_wf_example : wf (Binary "<<" (Unary "-" (lit "0x1p3")) (Binary "/" (Id [120%N]) (lit "0"))).
Proof. simpl. repeat split; discriminate. Qed.

Example C30_examples :
  py_eval [] (Binary "/" (lit "5") (lit "0")) = Err CDefError /\
  py_eval [] (Binary "%" (lit "5") (Binary "-" (lit "1") (lit "1"))) = Err CDefError /\
  py_eval [] (Unary "~" (Binary "/" (lit "5") (lit "0"))) = Err FFIError /\
  py_eval [] (Binary "==" (lit "08") (lit "1")) = Err CDefError /\
  py_eval [] (Id [120%N]) = Err FFIError /\
  py_eval [([120%N], 7)] (Binary "<<" (Id [120%N]) (lit "2")) = Ok 28 /\
  process_macro (map (fun a => N_of_ascii a) (list_ascii_of_string "-0x1FuL")) = Ok (Some (-31)) /\
  process_macro (map (fun a => N_of_ascii a) (list_ascii_of_string "010")) = Ok (Some 8) /\
  process_macro (map (fun a => N_of_ascii a) (list_ascii_of_string "08")) = Err CDefError /\
  process_macro (map (fun a => N_of_ascii a) (list_ascii_of_string "abc")) = Err CDefError /\
  process_macro (map (fun a => N_of_ascii a) (list_ascii_of_string "...")) = Ok None.
Proof. vm_compute. repeat split; reflexivity. Qed.
