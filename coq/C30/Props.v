(* C30 — Declaration and type-string errors are reported as cffi errors.
   Statements only; proofs in C30/Proofs.v, C30/Proofs2.v.  About the models of
   Parser._parse_constant (C09/Gen.v regenerated from cparser.py + C09/Model.v), of
   _process_macros/_add_integer_constant/_r_int_literal (C30/Model.v, C09/Model.v) and of _preprocess
   (C31/Model.v).  Everything past these (pycparser, the rest of cparser.py, parse_c_type.c) is
   covered by fuzzing only (tools/props/c30.py): label partial. *)
From Coq Require Import ZArith NArith String Ascii List Bool.
Import ListNotations.
From Cffi Require Import C09.Prim C09.Gen C09.Model C30.Model C30.Proofs C30.Proofs2.
From Cffi Require C31.Model.
Open Scope Z_scope.
Open Scope string_scope.

(* for every expression tree (any depth, any table of known constants) the evaluator returns a value or
   raises CDefError, FFIError or ValueError -- in particular never ZeroDivisionError, IndexError, KeyError *)
Theorem C30_evaluator_errors : forall env e x, wf e -> py_eval env e = Err x ->
  x = CDefError \/ x = FFIError \/ x = ValueError.
Proof. exact evaluator_errors. Qed.
Print Assumptions C30_evaluator_errors.

Theorem C30_no_zero_division : forall env e, wf e -> py_eval env e <> Err ZeroDivisionError.
Proof.
  intros env e W H. destruct (evaluator_errors env e _ W H) as [E|[E|E]]; discriminate E.
Qed.
Print Assumptions C30_no_zero_division.

(* the full statement ... *)
Definition C30_evaluator_closed : Prop :=
  forall env e x, wf e -> py_eval env e = Err x -> cffi_error x.

(* ... holds away from the two sources of ValueError (a literal on which int(s, 16)/int(s, 2) fails, a
   negative shift count) ... *)
Theorem C30_evaluator_closed_partial : forall env e x, wf e -> no_value_error_source env e ->
  py_eval env e = Err x -> cffi_error x.
Proof. exact evaluator_closed_partial. Qed.
Print Assumptions C30_evaluator_closed_partial.

(* ... and is false as the source stands: known findings shift_count and hex_float_constant *)
Definition lit (s : string) : expr := Const (map (fun a => N_of_ascii a) (list_ascii_of_string s)).

Theorem C30_refuted_negative_shift :
  py_eval [] (Binary "<<" (lit "1") (Unary "-" (lit "1"))) = Err ValueError /\
  py_eval [] (Binary ">>" (lit "1") (Unary "-" (lit "1"))) = Err ValueError.
Proof. split; vm_compute; reflexivity. Qed.

Theorem C30_refuted_hex_float : py_eval [] (lit "0x1p3") = Err ValueError.
Proof. vm_compute. reflexivity. Qed.

Theorem C30_evaluator_closed_refuted : ~ C30_evaluator_closed.
Proof.
  intros H. specialize (H [] (lit "0x1p3") ValueError).
  destruct H as [E|E]; try discriminate E.
  - simpl. discriminate.
  - apply C30_refuted_hex_float.
Qed.
Print Assumptions C30_evaluator_closed_refuted.

(* '#define NAME value': whatever _r_int_literal accepts, int(..., 0) converts: no ValueError (all strings) *)
Theorem C30_macros_closed : forall s, r_int_literal s = true -> exists v, add_integer_constant s = Ok v.
Proof. exact macros_closed. Qed.
Print Assumptions C30_macros_closed.

Theorem C30_negated_literal_closed : forall s, r_int_literal s = true ->
  match s with c :: _ => N.eqb c 45 | [] => false end = false ->
  exists v, add_integer_constant (45%N :: s) = Ok v.
Proof. exact negated_literal_closed. Qed.
Print Assumptions C30_negated_literal_closed.

Theorem C30_process_macro_closed : forall value x, process_macro value = Err x -> x = CDefError.
Proof. exact process_macro_closed. Qed.
Print Assumptions C30_process_macro_closed.

(* _preprocess (model of C31): AssertionError and IndexError escape from _put_back_line_directives:
   known finding line_directive_put_back.   "/**/# 5"   and   "/*\n*/#line@7" *)
Theorem C30_preprocess_refuted :
  C31.Model.preprocess [47;42;42;47;35;32;53]%N = C31.Model.Err C31.Model.AssertionError /\
  C31.Model.preprocess [47;42;10;42;47;35;108;105;110;101;64;55]%N = C31.Model.Err C31.Model.IndexError.
Proof. split; vm_compute; reflexivity. Qed.

(* ---- non-vacuity ---- *)
Example C30_examples :
  py_eval [] (Binary "/" (lit "5") (lit "0")) = Err CDefError /\
  py_eval [] (Binary "%" (lit "5") (Binary "-" (lit "1") (lit "1"))) = Err CDefError /\
  py_eval [] (Unary "~" (Binary "/" (lit "5") (lit "0"))) = Err FFIError /\
  py_eval [] (Binary "==" (lit "08") (lit "1")) = Err CDefError /\
  py_eval [] (Id [120%N]) = Err FFIError /\
  py_eval [([120%N], 7)] (Binary "<<" (Id [120%N]) (lit "2")) = Ok 28 /\
  process_macro (map (fun a => N_of_ascii a) (list_ascii_of_string "-0x1FuL")) = Ok (Some (-31)) /\
  process_macro (map (fun a => N_of_ascii a) (list_ascii_of_string "010")) = Ok (Some 8) /\
  process_macro (map (fun a => N_of_ascii a) (list_ascii_of_string "08")) = Err CDefError /\
  process_macro (map (fun a => N_of_ascii a) (list_ascii_of_string "abc")) = Err CDefError /\
  process_macro (map (fun a => N_of_ascii a) (list_ascii_of_string "...")) = Ok None.
Proof. vm_compute. repeat split; reflexivity. Qed.
