(* C30 — the '#define NAME value' path never raises ValueError: whatever _r_int_literal accepts,
   _add_integer_constant can convert (int(s, 0) does not fail). *)
From Coq Require Import ZArith NArith String List Bool Lia ZifyBool.
Import ListNotations.
From Cffi Require Import C09.Prim C09.Gen C09.Model C30.Model.
Open Scope Z_scope.

(* ------------------------------------------------------------------ digits *)
Definition good (base : Z) (c : N) : bool :=
  match digit_val c with Some d => d <? base | None => false end.

Lemma parse_digits_good : forall base l acc, forallb (good base) l = true ->
  exists v, parse_digits base acc l = Some v.
Proof.
  induction l as [|c l IH]; intros acc H; simpl; [eauto|].
  simpl in H. apply andb_true_iff in H. destruct H as [Hc Hl]. unfold good in Hc.
  destruct (digit_val c) as [d|]; [|discriminate]. rewrite Hc. now apply IH.
Qed.

Lemma hex_good : forall c, is_hex c = true -> good 16 (lower c) = true.
Proof.
  intros c. unfold is_hex, good, digit_val, lower, n_in. intros H.
  destruct (N.leb 65 c && N.leb c 90) eqn:U;
    repeat match goal with |- context [if ?b then _ else _] => destruct b eqn:? end; lia.
Qed.
Lemma oct_good : forall c, is_oct c = true -> good 8 (lower c) = true.
Proof.
  intros c. unfold is_oct, good, digit_val, lower, n_in. intros H.
  destruct (N.leb 65 c && N.leb c 90) eqn:U;
    repeat match goal with |- context [if ?b then _ else _] => destruct b eqn:? end; lia.
Qed.
Lemma dec_good : forall c, is_dec c = true -> good 10 (lower c) = true.
Proof.
  intros c. unfold is_dec, good, digit_val, lower, n_in. intros H.
  destruct (N.leb 65 c && N.leb c 90) eqn:U;
    repeat match goal with |- context [if ?b then _ else _] => destruct b eqn:? end; lia.
Qed.

Lemma forallb_map_lower : forall (p q : N -> bool) l, (forall c, p c = true -> q (lower c) = true) ->
  forallb p l = true -> forallb q (map lower l) = true.
Proof.
  induction l as [|c l IH]; intros Hpq H; [reflexivity|].
  simpl in *. apply andb_true_iff in H. destruct H as [Hc Hl]. rewrite (Hpq _ Hc). now apply IH.
Qed.

(* ------------------------------------------------------------------ the body after lower-casing and the octal fix-up *)
Definition fixup (s1 : text) : text :=
  if starts0 s1 && negb (text_eqb s1 [48%N]) && negb (starts_0x s1) then 48%N :: 111%N :: tl s1 else s1.

Lemma body_converts : forall b, body_ok b = true -> exists v, py_int0 (fixup (map lower b)) = Some v.
Proof.
  intros b H. unfold body_ok in H. destruct b as [|c0 r]; [discriminate|].
  destruct (N.eqb c0 48) eqn:Z0.
  - apply N.eqb_eq in Z0. subst c0. destruct r as [|c1 r1].
    + exists 0. reflexivity.
    + destruct (N.eqb (lower c1) 120) eqn:X.
      * destruct r1 as [|h r1']; [discriminate|].
        apply N.eqb_eq in X.
        assert (F : fixup (map lower (48%N :: c1 :: h :: r1')) = 48%N :: 120%N :: map lower (h :: r1')).
        { unfold fixup. simpl map. rewrite X. reflexivity. }
        rewrite F. unfold py_int0. change (N.eqb 48 48) with true. cbv iota.
        change (lower 120) with 120%N. change (N.eqb 120 120) with true. cbv iota.
        unfold nonempty_digits. simpl map.
        apply (parse_digits_good 16 (lower h :: map lower r1') 0).
        change (lower h :: map lower r1') with (map lower (h :: r1')).
        eapply forallb_map_lower; [apply hex_good|assumption].
      * assert (F : fixup (map lower (48%N :: c1 :: r1)) = 48%N :: 111%N :: map lower (c1 :: r1)).
        { unfold fixup. simpl map. unfold starts0, starts_0x, text_eqb. change (lower 48) with 48%N.
          change (N.eqb 48 48) with true. rewrite X. reflexivity. }
        rewrite F. unfold py_int0. change (N.eqb 48 48) with true. cbv iota.
        change (lower 111) with 111%N. change (N.eqb 111 120) with false. change (N.eqb 111 111) with true. cbv iota.
        unfold nonempty_digits. simpl map.
        apply (parse_digits_good 8 (lower c1 :: map lower r1) 0).
        change (lower c1 :: map lower r1) with (map lower (c1 :: r1)).
        eapply forallb_map_lower; [apply oct_good|assumption].
  - apply andb_true_iff in H. destruct H as [H19 Hd].
    assert (L : N.eqb (lower c0) 48 = false) by (unfold is_19, lower, n_in in *; destruct (N.leb 65 c0 && N.leb c0 90) eqn:U; lia).
    assert (F : fixup (map lower (c0 :: r)) = map lower (c0 :: r)).
    { unfold fixup, starts0. simpl map. cbv iota. rewrite L. reflexivity. }
    rewrite F. unfold py_int0. simpl map. cbv iota. rewrite L.
    apply (parse_digits_good 10 (lower c0 :: map lower r) 0).
    change (lower c0 :: map lower r) with (map lower (c0 :: r)).
    eapply forallb_map_lower; [apply dec_good|].
    simpl. rewrite Hd, andb_true_r. unfold is_19, is_dec, n_in in *. lia.
Qed.

(* ------------------------------------------------------------------ rstrip commutes with lower-casing and with a leading '-' *)
Definition lu (c : N) : bool := N.eqb c 117 || N.eqb c 108.

Lemma lu_lower : forall c, lu (lower c) = is_ul c.
Proof. intros c. unfold lu, is_ul, lower, n_in. destruct (N.leb 65 c && N.leb c 90) eqn:U; lia. Qed.

Lemma skip_map_lower : forall l, skip_while lu (map lower l) = map lower (skip_while is_ul l).
Proof.
  induction l as [|c l IH]; [reflexivity|]. simpl. rewrite lu_lower. destruct (is_ul c); [assumption|reflexivity].
Qed.

Lemma rstrip_lower : forall s, rstrip_ul_lower s = map lower (rstrip_ul s).
Proof.
  intros s. unfold rstrip_ul_lower, rstrip_ul. change (fun c : N => (N.eqb c 117 || N.eqb c 108)%bool) with lu.
  now rewrite <- map_rev, skip_map_lower, map_rev.
Qed.

Lemma skip_while_snoc : forall (p : N -> bool) l c, p c = false -> skip_while p (l ++ [c]) = skip_while p l ++ [c].
Proof.
  induction l as [|a l IH]; intros c H; simpl; [now rewrite H|].
  destruct (p a); [now apply IH|reflexivity].
Qed.

Lemma rstrip_cons : forall c r, is_ul c = false -> rstrip_ul (c :: r) = c :: rstrip_ul r.
Proof.
  intros c r H. unfold rstrip_ul. simpl rev. rewrite skip_while_snoc by assumption.
  now rewrite rev_unit.
Qed.

Lemma body_head : forall b, body_ok b = true -> match map lower b with c :: _ => N.eqb c 45 | [] => false end = false.
Proof.
  intros b H. destruct b as [|c0 r]; [reflexivity|]. simpl. unfold body_ok in H.
  destruct (N.eqb c0 48) eqn:Z0.
  - apply N.eqb_eq in Z0. subst. reflexivity.
  - apply andb_true_iff in H. destruct H as [H _]. unfold is_19, lower, n_in in *.
    destruct (N.leb 65 c0 && N.leb c0 90) eqn:U; lia.
Qed.

Theorem macros_closed : forall s, r_int_literal s = true -> exists v, add_integer_constant s = Ok v.
Proof.
  intros s H. unfold r_int_literal in H. unfold add_integer_constant. rewrite rstrip_lower.
  assert (G : forall (neg : bool) lb, (exists v, py_int0 (fixup lb) = Some v) ->
              exists v, match py_int0 (fixup lb) with Some v0 => Ok (if neg then - v0 else v0) | None => Err ValueError end = Ok v).
  { intros neg lb [v E]. rewrite E. eauto. }
  destruct s as [|c r].
  - discriminate.
  - unfold drop_minus in H. destruct (N.eqb c 45) eqn:M.
    + apply N.eqb_eq in M. subst c. rewrite rstrip_cons by reflexivity. simpl map.
      change (lower 45) with 45%N. change (N.eqb 45 45) with true. cbv iota. simpl tl.
      apply (G true). now apply body_converts.
    + pose proof (body_head _ H) as Hh.
      destruct (map lower (rstrip_ul (c :: r))) as [|h t] eqn:E.
      * apply (G false []). rewrite <- E. now apply body_converts.
      * rewrite Hh. apply (G false (h :: t)). rewrite <- E. now apply body_converts.
Qed.

(* ... and neither does the 'static const T NAME = -literal' path, which passes '-' + literal *)
Theorem negated_literal_closed : forall s, r_int_literal s = true ->
  match s with c :: _ => N.eqb c 45 | [] => false end = false ->
  exists v, add_integer_constant (45%N :: s) = Ok v.
Proof.
  intros s H Hm. apply macros_closed. unfold r_int_literal in *. simpl drop_minus.
  destruct s as [|c r]; [discriminate|]. unfold drop_minus in H. now rewrite Hm in H.
Qed.

Theorem process_macro_closed : forall value x, process_macro value = Err x -> x = CDefError.
Proof.
  intros value x. unfold process_macro. destruct (r_int_literal value) eqn:R.
  - destruct (macros_closed _ R) as [v ->]. discriminate.
  - destruct (text_eqb value dotdotdot); [discriminate|]. intros H; now inversion H.
Qed.
