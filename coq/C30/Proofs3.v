(* C30 — corollaries; the memory-safety statements about parse_c_type.c imported (read-only) from C07.
   C07/NoFault3.v holds the proofs (parse_no_fault, result_index_in_range, next_token_stops_at_terminator,
   lookahead_stops_at_terminator); C07/Props.v restates them as C07_no_fault, C07_result_index_in_range,
   C07_next_token_stops_at_terminator, C07_lookahead_stops_at_terminator.  Only the files those proofs need
   (C07/Model, Lexer, NoFault, NoFault2, NoFault3) are in C30's closure. *)
From Coq Require Import ZArith NArith String List Bool.
Import ListNotations.
From Cffi Require Import C09.Prim C09.Gen C09.Model C30.Model C30.Proofs.
From Cffi Require C07.Model C07.NoFault C07.NoFault3.
Open Scope Z_scope.

Lemma no_python_exception : forall env e, wf e ->
  py_eval env e <> Err ZeroDivisionError /\ py_eval env e <> Err ValueError /\
  py_eval env e <> Err IndexError /\ py_eval env e <> Err KeyError /\ py_eval env e <> Err MemoryError.
Proof.
  intros env e W. repeat split; intros H; destruct (evaluator_closed env e _ W H) as [E|E]; discriminate E.
Qed.

Lemma type_parser_no_buffer_fault : forall (output_size : nat) (cx : C07.Model.ctx) (input : C07.Model.str),
  C07.Model.parse_c_type output_size cx input <> C07.Model.Fault.
Proof. exact C07.NoFault3.parse_no_fault. Qed.

Lemma type_parser_outcome : forall (output_size : nat) (cx : C07.Model.ctx) (input : C07.Model.str),
  match C07.Model.parse_c_type output_size cx input with
  | C07.Model.Ok (out, r) => (0 <= r < Z.of_nat (List.length out))%Z
  | C07.Model.Err _ _ => True
  | C07.Model.Fault => False
  end.
Proof.
  intros osz cx input. destruct (C07.Model.parse_c_type osz cx input) as [[out r]|e p|] eqn:E.
  - eapply C07.NoFault3.result_index_in_range; eauto.
  - exact I.
  - exact (C07.NoFault3.parse_no_fault osz cx input E).
Qed.

Lemma type_parser_stays_in_string : forall s junk, C07.NoFault.nulfree s = true ->
  C07.Model.lex_from (s ++ 0%N :: junk) = C07.Model.lex_from s /\
  (forall k n kd, C07.Model.lex_from s = (k, n, kd) -> (k + n <= List.length s)%nat) /\
  C07.Model.first_nonspace (s ++ 0%N :: junk) = C07.Model.first_nonspace s /\
  (forall d acc, C07.Model.ncommas (s ++ 0%N :: junk) d acc = C07.Model.ncommas s d acc).
Proof.
  intros s junk H. destruct (C07.NoFault3.next_token_stops_at_terminator s junk H) as [A B].
  destruct (C07.NoFault3.lookahead_stops_at_terminator s junk) as [C D]. auto.
Qed.
