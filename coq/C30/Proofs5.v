(* C30 — the handler of _put_back_line_directives.replace over the REGENERATED except-tuple (C30/Gen.v: caught,
   handler_raises, not_placeholder_raises, placeholder, placeholder_skip), and its agreement with the hand-written
   C31.Model.replace (imported read-only).  If the source narrows `except (ValueError, IndexError)` (or raises another
   class, or changes the '#line@' literal / the s[6:] offset) Gen.v changes and `replace_gen_is_model` /
   `placeholder_is_model` no longer compile: the closure theorem about _preprocess's five modelled stages
   (C31.Proofs2.preprocess_errors) is then no longer known to be about the source. *)
From Coq Require Import ZArith NArith List Bool.
Import ListNotations.
From Cffi Require Import C30.Gen.
From Cffi Require C31.Model C31.Proofs2.

Definition to_c31 (e : exn) : option C31.Model.exn :=
  match e with
  | CDefError => Some C31.Model.CDefError
  | IndexError => Some C31.Model.IndexError
  | ValueError => Some C31.Model.ValueError
  | AssertionError => Some C31.Model.AssertionError
  | _ => None
  end.
Definition c31_eqb (a b : C31.Model.exn) : bool :=
  match a, b with
  | C31.Model.CDefError, C31.Model.CDefError | C31.Model.AssertionError, C31.Model.AssertionError
  | C31.Model.IndexError, C31.Model.IndexError | C31.Model.ValueError, C31.Model.ValueError => true
  | _, _ => false
  end.
(* `except <caught>:` catches e *)
Definition catches (e : C31.Model.exn) : bool :=
  existsb (fun g => match to_c31 g with Some e' => c31_eqb e e' | None => false end) caught.

(* try: <replace_raw> except <caught>: raise <handler_raises>(...) *)
Definition replace_gen (l : C31.Model.text) (st : list C31.Model.text) : C31.Model.result C31.Model.text :=
  match C31.Model.replace_raw l st with
  | C31.Model.Err e =>
      if catches e then match to_c31 handler_raises with Some h => C31.Model.Err h | None => C31.Model.Err e end
      else C31.Model.Err e
  | r => r
  end.

Lemma replace_gen_is_model : forall l st, replace_gen l st = C31.Model.replace l st.
Proof.
  intros l st. unfold replace_gen, C31.Model.replace.
  destruct (C31.Model.replace_raw l st) as [d|[]]; reflexivity.
Qed.

Lemma placeholder_is_model :
  placeholder = C31.Model.s_lineat /\ placeholder_skip = length C31.Model.s_lineat /\
  to_c31 not_placeholder_raises = Some C31.Model.ValueError.
Proof. repeat split. Qed.

(* every class replace_raw can raise is in the regenerated tuple, hence replace (with the regenerated handler)
   raises only the regenerated handler class, which is CDefError *)
Lemma replace_gen_closed : forall l st x, replace_gen l st = C31.Model.Err x -> x = C31.Model.CDefError.
Proof.
  intros l st x H. unfold replace_gen in H.
  destruct (C31.Model.replace_raw l st) as [d|e] eqn:E; [discriminate|].
  destruct (C31.Proofs2.replace_raw_errors l st e E) as [-> | ->]; cbv in H; inversion H; reflexivity.
Qed.
