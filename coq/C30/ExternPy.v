(* C30 — model of cparser._preprocess_extern_python (src/cffi/cparser.py:98-140) and of the regular expression
   _r_extern_python (:48-49), over the facts REGENERATED into C30/Gen.v on every run (tools/props/c30_regen.py):
   whether the pattern requires one more character after `<dq>\s*` (ep_requires_next), the K of
   `endpos = match.end() - K` (ep_end_adjust), the characters compared/searched and the classes raised.

   Texts are lists of code points.  Python's indexing is PARTIAL here: csource[i] outside the string is
   `Err IndexError`, so that <dq>only CDefError / NotImplementedError<dq> is a statement about the arithmetic
   (match.end() - 1 is inside the string because the pattern consumed one more character).
   \s and \w are parameters of the model (isw, iss): the theorems hold for every choice; the correspondence
   (tools/props/c30.py, stream `extpy`) instantiates them with Python's str.isspace / \w on the stream's alphabet. *)
From Coq Require Import ZArith NArith List Bool Lia.
Import ListNotations.
From Cffi Require Import C30.Gen.
Open Scope Z_scope.

Definition text := list N.
Inductive res (A : Type) := Ok (a : A) | Err (e : exn).
Arguments Ok {A} a.
Arguments Err {A} e.

Definition len (s : text) : Z := Z.of_nat (length s).

(* s[i]: Python's indexing with negative indices, partial *)
Definition py_getitem (s : text) (i : Z) : option N :=
  if (0 <=? i) && (i <? len s) then nth_error s (Z.to_nat i)
  else if (i <? 0) && (- len s <=? i) then nth_error s (Z.to_nat (len s + i))
  else None.

(* slice bounds as Python normalises them *)
Definition norm (s : text) (i : Z) : Z := if i <? 0 then Z.max 0 (len s + i) else Z.min i (len s).
Definition slice (s : text) (a b : Z) : text :=
  let a' := norm s a in let b' := norm s b in
  firstn (Z.to_nat (b' - a')) (skipn (Z.to_nat a') s).

Fixpoint find_from (c : N) (s : text) (i : Z) : Z :=
  match s with
  | [] => -1
  | x :: r => if N.eqb x c then i else find_from c r (i + 1)
  end.
(* s.find(c, a, b) *)
Definition py_find (c : N) (s : text) (a b : Z) : Z := find_from c (slice s a b) (norm s a).

Definition s_extern : text := [101; 120; 116; 101; 114; 110]%N.
Definition s_Python : text := [80; 121; 116; 104; 111; 110]%N.
Definition DQ : N := 34%N.
Definition PLUS : N := 43%N.
Definition BIGC : N := 67%N.
Definition NL : N := 10%N.

Fixpoint strip_prefix (p t : text) : option text :=
  match p with
  | [] => Some t
  | c :: p' => match t with x :: t' => if N.eqb x c then strip_prefix p' t' else None | [] => None end
  end.

Section Regex.
Variables isw iss : N -> bool.

Fixpoint skip_ws (t : text) : text :=
  match t with c :: r => if iss c then skip_ws r else t | [] => [] end.

(* (Python|Python\s*\+\s*C|C\s*\+\s*Python)<dq>   after the opening quote: rest after the closing quote, 'C' in group(1) *)
(* after a run of white space: `\+\s*C<dq>` resp. `\+\s*Python<dq>` *)
Definition plus_C (t : text) : option (text * bool) :=
  match skip_ws t with
  | p :: r3 =>
      if N.eqb p PLUS then
        match skip_ws r3 with
        | c1 :: q :: r4 => if N.eqb c1 BIGC && N.eqb q DQ then Some (r4, true) else None
        | _ => None
        end
      else None
  | [] => None
  end.
Definition plus_Python (t : text) : option (text * bool) :=
  match skip_ws t with
  | p :: r3 =>
      if N.eqb p PLUS then
        match strip_prefix s_Python (skip_ws r3) with
        | Some (q :: r4) => if N.eqb q DQ then Some (r4, true) else None
        | _ => None
        end
      else None
  | [] => None
  end.
Definition group (t : text) : option (text * bool) :=
  match strip_prefix s_Python t with
  | Some r1 =>
      match r1 with
      | c :: r2 => if N.eqb c DQ then Some (r2, false) else plus_C r1
      | [] => None
      end
  | None =>
      match t with
      | c :: r1 => if N.eqb c BIGC then plus_Python r1 else None
      | [] => None
      end
  end.

(* the tail `\s*.` : number of characters it consumes (greedy \s*, backtracking so that `.`, which does not match
   a newline, finds a character) *)
Fixpoint tail_next (r : text) : option Z :=
  match r with
  | [] => None
  | c :: r' =>
      if iss c then
        match tail_next r' with
        | Some n => Some (n + 1)
        | None => if N.eqb c NL then None else Some 1
        end
      else if N.eqb c NL then None else Some 1
  end.
(* the tail `\s*` *)
Fixpoint tail_ws (r : text) : Z :=
  match r with c :: r' => if iss c then tail_ws r' + 1 else 0 | [] => 0 end.
Definition tail (r : text) : option Z := if ep_requires_next then tail_next r else Some (tail_ws r).

(* the pattern without its leading \b, anchored at the beginning of t: (length of the match, 'C' in group(1)) *)
Definition match_at (t : text) : option (Z * bool) :=
  match strip_prefix s_extern t with
  | Some r0 =>
      match skip_ws r0 with
      | q :: r1 =>
          if N.eqb q DQ then
            match group r1 with
            | Some (r2, hasc) => match tail r2 with Some n => Some (len t - len r2 + n, hasc) | None => None end
            | None => None
            end
          else None
      | [] => None
      end
  | None => None
  end.

(* _r_extern_python.search: leftmost match; \b = exactly one of (previous, current) is a word character *)
Fixpoint search (prev_word : bool) (t : text) (pos : Z) : option (Z * Z * bool) :=
  match t with
  | [] => None
  | c :: r =>
      match (if xorb prev_word (isw c) then match_at t else None) with
      | Some (n, h) => Some (pos, pos + n, h)
      | None => search (isw c) r (pos + 1)
      end
  end.

Definition m_start : text :=        (* 'void __cffi_extern_python_start; ' *)
  [118;111;105;100;32;95;95;99;102;102;105;95;101;120;116;101;114;110;95;112;121;116;104;111;110;95;115;116;97;114;116;59;32]%N.
Definition m_plus_c : text :=       (* 'void __cffi_extern_python_plus_c_start; ' *)
  [118;111;105;100;32;95;95;99;102;102;105;95;101;120;116;101;114;110;95;112;121;116;104;111;110;95;112;108;117;115;95;99;95;115;116;97;114;116;59;32]%N.
Definition m_stop : text :=         (* ' void __cffi_extern_python_stop;' *)
  [32;118;111;105;100;32;95;95;99;102;102;105;95;101;120;116;101;114;110;95;112;121;116;104;111;110;95;115;116;111;112;59]%N.

(* the `while True` loop (cparser.py:118-138); fuel = an upper bound on the number of iterations *)
Fixpoint ep_loop (fuel : nat) (parts cs : text) : res text :=
  match fuel with
  | O => Err OutOfFuel
  | S f =>
      match search false cs 0 with
      | None => Ok (parts ++ cs)
      | Some (st, en, hasc) =>
          let endpos := en - ep_end_adjust in
          let parts := parts ++ slice cs 0 st ++ (if hasc then m_plus_c else m_start) in
          match py_getitem cs endpos with
          | None => Err IndexError
          | Some ch =>
              if N.eqb ch ep_brace then
                let closing := py_find ep_close cs endpos (len cs) in
                if closing <? 0 then Err ep_raise_no_close
                else if 0 <=? py_find ep_inner cs (endpos + 1) closing then Err ep_raise_nested
                else ep_loop f (parts ++ slice cs (endpos + 1) closing ++ m_stop) (slice cs (closing + 1) (len cs))
              else
                let semi := py_find ep_semi cs endpos (len cs) in
                if semi <? 0 then Err ep_raise_no_semi
                else ep_loop f (parts ++ slice cs endpos (semi + 1) ++ m_stop) (slice cs (semi + 1) (len cs))
          end
      end
  end.

Definition extern_python (cs : text) : res text := ep_loop (S (length cs)) [] cs.
End Regex.

(* ---- instances for the correspondence: \s and \w of Python 3 `re` on str patterns, on the code points the
   stream uses (ASCII, Latin-1 and the listed others) ---- *)
Definition n_in (lo hi c : N) : bool := N.leb lo c && N.leb c hi.
Definition py_space (c : N) : bool :=
  n_in 9 13 c || n_in 28 32 c || N.eqb c 133 || N.eqb c 160 || N.eqb c 5760 || n_in 8192 8202 c || N.eqb c 8232 ||
  N.eqb c 8233 || N.eqb c 8239 || N.eqb c 8287 || N.eqb c 12288.
(* \w below 256: [A-Za-z0-9_] and the Latin-1 alphanumerics (str.isalnum): 170 178 179 181 185 186 188-190 192-214 216-246 248-255 *)
Definition py_word (c : N) : bool :=
  n_in 48 57 c || n_in 65 90 c || n_in 97 122 c || N.eqb c 95 || N.eqb c 170 || n_in 178 179 c || N.eqb c 181 ||
  n_in 185 186 c || n_in 188 190 c || n_in 192 214 c || n_in 216 246 c || n_in 248 255 c.

Definition exn_code (e : exn) : Z :=
  match e with CDefError => 1 | NotImplementedError => 2 | IndexError => 5 | ValueError => 4 | AssertionError => 9
             | KeyError => 6 | TypeError => 8 | FFIError => 3 | OutOfFuel => 99 end.
Definition extern_python_out (cs : text) : Z * text :=
  match extern_python py_word py_space cs with Ok t => (0, t) | Err e => (exn_code e, []) end.
