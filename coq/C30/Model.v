(* C30 — model of the '#define NAME value' path (src/cffi/cparser.py: _process_macros :484,
   _r_int_literal :39) on top of the C09 model (_add_integer_constant, _parse_constant).

   _r_int_literal = -?(0x[0-9a-f]+|0[0-7]*|[1-9][0-9]* )[lu]*$   with re.IGNORECASE   (hand model,
   tied to Python's re by tools/props/c30.py; domain: strings without '\n', as produced by
   value.strip() and by pycparser's lexer).  The three alternatives contain no 'l'/'u', so the suffix
   [lu]* is exactly the maximal trailing run of l/u characters. *)
From Coq Require Import ZArith NArith String List Bool.
Import ListNotations.
From Cffi Require Import C09.Prim C09.Gen C09.Model.
Open Scope Z_scope.

Definition is_dec (c : N) : bool := n_in 48 57 c.
Definition is_19 (c : N) : bool := n_in 49 57 c.
Definition is_oct (c : N) : bool := n_in 48 55 c.
Definition is_hex (c : N) : bool := n_in 48 57 c || n_in 97 102 c || n_in 65 70 c.

Definition body_ok (b : text) : bool :=
  match b with
  | [] => false
  | c0 :: r =>
      if N.eqb c0 48 then
        match r with
        | [] => true
        | c1 :: r1 =>
            if N.eqb (lower c1) 120 then (match r1 with [] => false | _ => forallb is_hex r1 end)
            else forallb is_oct r
        end
      else is_19 c0 && forallb is_dec r
  end.

Definition drop_minus (s : text) : text :=
  match s with c :: r => if N.eqb c 45 then r else s | [] => [] end.
Definition r_int_literal (s : text) : bool := body_ok (rstrip_ul (drop_minus s)).

(* one iteration of the loop of _process_macros on an (already stripped) value:
   Ok (Some v): integer constant; Ok None: '...'; CDefError otherwise.  (The FFIError of a second,
   different definition of the same name is raised by _add_constants/_declare: not modelled.) *)
Definition dotdotdot : text := [46%N; 46%N; 46%N].
Definition process_macro (value : text) : res (option Z) :=
  if r_int_literal value then
    match add_integer_constant value with Ok v => Ok (Some v) | Err e => Err e end
  else if text_eqb value dotdotdot then Ok None
  else Err CDefError.

Definition cffi_error (x : pyexn) : Prop := x = CDefError \/ x = FFIError.

(* for the correspondence: 0 no match / 1 match *)
Definition r_int_literal_out (s : text) : Z := if r_int_literal s then 1 else 0.
Definition process_macro_out (s : text) : Z * Z :=
  match process_macro s with
  | Ok (Some v) => (0, v)
  | Ok None => (100, 0)
  | Err e => (exn_code e, 0)
  end.
