(* C12 — proofs, part (a): the integer-constant check. *)
From Coq Require Import ZArith List Bool Lia ZifyBool.
Import ListNotations.
From Cffi Require Import C12.Spec C12.Gen C12.Model.
Local Open Scope Z_scope.
Ltac Zify.zify_post_hook ::= Z.to_euclidean_division_equations.

(* the types an integer constant expression can have after the integer promotions, LP64 *)
Definition promoted (T : cty) : Prop := T = s32 \/ T = u32 \/ T = s64 \/ T = u64.

Ltac pows :=
  repeat match goal with
         | |- context [2 ^ ?k] =>
             let v := eval vm_compute in (2 ^ k) in change (2 ^ k) with v
         | H : context [2 ^ ?k] |- _ =>
             let v := eval vm_compute in (2 ^ k) in change (2 ^ k) with v in H
         end.

Ltac split_ifs :=
  repeat match goal with
         | |- context [if ?b then _ else _] => let E := fresh "E" in destruct b eqn:E
         end.

Ltac conv_tac t :=
  unfold conv, in_range, ty_min, ty_max, t; cbn [ty_signed ty_bits]; pows; intros;
  repeat match goal with
         | |- context [?a / 2] => let v := eval vm_compute in (a / 2) in change (a / 2) with v
         end;
  split_ifs; lia.

Lemma conv_s32_id z : in_range s32 z -> conv s32 z = z.
Proof. conv_tac s32. Qed.
Lemma conv_u32_id z : in_range u32 z -> conv u32 z = z.
Proof. conv_tac u32. Qed.
Lemma conv_s64_id z : in_range s64 z -> conv s64 z = z.
Proof. conv_tac s64. Qed.
Lemma conv_u64_id z : in_range u64 z -> conv u64 z = z.
Proof. conv_tac u64. Qed.
Lemma conv_s128_id z : in_range s128 z -> conv s128 z = z.
Proof. conv_tac s128. Qed.

Lemma conv_u64_mod z : conv u64 z = z mod 2 ^ 64.
Proof. reflexivity. Qed.

Lemma conv_s64_of_mod z : - 2 ^ 63 <= z < 2 ^ 63 -> conv s64 (z mod 2 ^ 64) = z.
Proof.
  unfold conv, s64; cbn [ty_signed ty_bits]; pows; intros.
  change (18446744073709551616 / 2) with 9223372036854775808. split_ifs; lia.
Qed.

(* int n = (X) <= 0; *)
Lemma eval_gen_n T c : promoted T -> in_range T c ->
  ceval (rho_X T c) gen_const_n = Some (s32, b2z (c <=? 0)).
Proof.
  intros [-> | [-> | [-> | ->]]] R; unfold gen_const_n; cbn [ceval rho_X];
    change (lit_type false 0) with (Some s32); cbv beta iota.
  - change (uac s32 s32) with s32. rewrite (conv_s32_id c R). reflexivity.
  - change (uac u32 s32) with u32. rewrite (conv_u32_id c R). reflexivity.
  - change (uac s64 s32) with s64. rewrite (conv_s64_id c R). reflexivity.
  - change (uac u64 s32) with u64. rewrite (conv_u64_id c R). reflexivity.
Qed.

(* *o = (unsigned long long)((X) | 0); *)
Lemma eval_gen_o T c : promoted T -> in_range T c ->
  exists t, ceval (rho_X T c) gen_const_o = Some (t, c mod 2 ^ 64).
Proof.
  intros [-> | [-> | [-> | ->]]] R; unfold gen_const_o; cbn [ceval rho_X];
    change (lit_type false 0) with (Some s32); cbv beta iota; eexists.
  - change (uac s32 s32) with s32. rewrite (conv_s32_id c R). change (conv s32 0) with 0.
    rewrite Z.lor_0_r, (conv_s32_id c R). reflexivity.
  - change (uac u32 s32) with u32. rewrite (conv_u32_id c R). change (conv u32 0) with 0.
    rewrite Z.lor_0_r, (conv_u32_id c R). reflexivity.
  - change (uac s64 s32) with s64. rewrite (conv_s64_id c R). change (conv s64 0) with 0.
    rewrite Z.lor_0_r, (conv_s64_id c R). reflexivity.
  - change (uac u64 s32) with u64. rewrite (conv_u64_id c R). change (conv u64 0) with 0.
    rewrite Z.lor_0_r, (conv_u64_id c R). reflexivity.
Qed.

(* the check_value literal, for every cdef value that C can write at all *)
Definition lit_ok (e : Z) (lv : cty * Z) : Prop :=
  snd lv = e /\ in_range (fst lv) e /\
  (fst lv = s32 \/ fst lv = u32 \/ fst lv = s64 \/ fst lv = u64 \/ fst lv = s128).

Ltac lit_fin :=
  unfold lit_ok, in_range, ty_min, ty_max;
  cbn [fst snd ty_signed ty_bits s32 u32 s64 u64 s128]; pows;
  split; [reflexivity | split; [lia | auto 10]].

Lemma eval_check_literal rho e : - 2 ^ 64 < e < 2 ^ 64 ->
  exists lv, ceval rho (check_literal e) = Some lv /\ lit_ok e lv.
Proof.
  intros R. unfold check_literal, gen_check_suffixU.
  destruct (Z.ltb_spec e 0) as [Hneg | Hpos].
  - assert (Hg : (e >? 0) = false) by lia. rewrite Hg. cbn [ceval]. unfold lit_type.
    assert (Hn : (- e <? 0) = false) by lia. rewrite Hn.
    destruct (Z.ltb_spec (- e) (2 ^ 31)).
    { cbn [ty_signed s32]. unfold in_rangeb, ty_min, ty_max; cbn [ty_signed ty_bits s32].
      rewrite Z.opp_involutive.
      assert (Hr : ((- 2 ^ (32 - 1) <=? e) && (e <=? 2 ^ (32 - 1) - 1)) = true) by (cbn [Z.sub Z.pos_sub Pos.pred_double]; pows; lia).
      rewrite Hr. eexists; split; [reflexivity|].
      lit_fin. }
    destruct (Z.ltb_spec (- e) (2 ^ 63)).
    { cbn [ty_signed s64]. unfold in_rangeb, ty_min, ty_max; cbn [ty_signed ty_bits s64].
      rewrite Z.opp_involutive.
      assert (Hr : ((- 2 ^ (64 - 1) <=? e) && (e <=? 2 ^ (64 - 1) - 1)) = true) by (cbn [Z.sub Z.pos_sub Pos.pred_double]; pows; lia).
      rewrite Hr. eexists; split; [reflexivity|].
      lit_fin. }
    assert (Hl : (- e <? 2 ^ 64) = true) by lia. rewrite Hl.
    cbn [ty_signed s128]. unfold in_rangeb, ty_min, ty_max; cbn [ty_signed ty_bits s128].
    rewrite Z.opp_involutive.
    assert (Hr : ((- 2 ^ (128 - 1) <=? e) && (e <=? 2 ^ (128 - 1) - 1)) = true) by (cbn [Z.sub Z.pos_sub Pos.pred_double]; pows; lia).
    rewrite Hr. eexists; split; [reflexivity|].
    lit_fin.
  - cbn [ceval]. unfold lit_type.
    assert (Hn : (e <? 0) = false) by lia. rewrite Hn.
    destruct (Z.gtb_spec e 0) as [Hg | Hz].
    + destruct (Z.ltb_spec e (2 ^ 32)).
      { eexists; split; [reflexivity|].
        lit_fin. }
      assert (Hl : (e <? 2 ^ 64) = true) by lia. rewrite Hl.
      eexists; split; [reflexivity|].
      lit_fin.
    + assert (e = 0) by lia; subst e. eexists; split; [reflexivity|].
      lit_fin.
Qed.

(* _cffi_check_int(got, got_nonpos, expected) with got = *o, got_nonpos = n *)
Lemma eval_check_macro o n e lv : lit_ok e lv -> 0 <= o < 2 ^ 64 -> (n = 0 \/ n = 1) ->
  exists t, ceval (rho_check o n lv) macro_cffi_check_int
            = Some (t, b2z ((n =? b2z (e <=? 0)) && (o =? e mod 2 ^ 64))).
Proof.
  intros (Hv & Hr & Ht) Ho Hn. destruct lv as [lt v]; cbn [fst snd] in *; subst v.
  unfold macro_cffi_check_int; cbn [ceval rho_check].
  change (lit_type false 0) with (Some s32); cbv beta iota.
  change (uac s32 s32) with s32. change (uac u64 (mkty false 64)) with u64.
  change (mkty false 64) with u64.
  assert (Hle : conv (uac lt s32) e <=? conv (uac lt s32) 0 = (e <=? 0)).
  { destruct Ht as [-> | [-> | [-> | [-> | ->]]]].
    - change (uac s32 s32) with s32. rewrite (conv_s32_id e Hr). reflexivity.
    - change (uac u32 s32) with u32. rewrite (conv_u32_id e Hr). reflexivity.
    - change (uac s64 s32) with s64. rewrite (conv_s64_id e Hr). reflexivity.
    - change (uac u64 s32) with u64. rewrite (conv_u64_id e Hr). reflexivity.
    - change (uac s128 s32) with s128. rewrite (conv_s128_id e Hr). reflexivity. }
  rewrite Hle.
  assert (Hn32 : conv s32 n = n) by (destruct Hn; subst; reflexivity).
  assert (Hb32 : conv s32 (b2z (e <=? 0)) = b2z (e <=? 0)) by (destruct (e <=? 0); reflexivity).
  rewrite Hn32, Hb32.
  assert (Ho64 : conv u64 o = o).
  { apply conv_u64_id. unfold in_range, ty_min, ty_max; cbn. pows. cbn. pows. lia. }
  rewrite Ho64. rewrite (conv_u64_mod (conv u64 e)), (conv_u64_mod e), Z.mod_mod by (pows; lia).
  eexists. f_equal. f_equal.
  destruct (n =? b2z (e <=? 0)), (o =? e mod 2 ^ 64); reflexivity.
Qed.

Lemma in_range_promoted T c : promoted T -> in_range T c -> - 2 ^ 63 <= c < 2 ^ 64.
Proof.
  intros [-> | [-> | [-> | ->]]]; unfold in_range, ty_min, ty_max; cbn; pows; cbn; lia.
Qed.

Lemma getter_unchecked T c : promoted T -> in_range T c ->
  const_getter T c None = Some (b2z (c <=? 0), c mod 2 ^ 64).
Proof.
  intros P R. unfold const_getter.
  rewrite (eval_gen_n T c P R). destruct (eval_gen_o T c P R) as [t ->].
  rewrite conv_u64_mod, Z.mod_mod by (pows; lia).
  destruct (c <=? 0); reflexivity.
Qed.

Lemma getter_checked T c e : promoted T -> in_range T c -> - 2 ^ 64 < e < 2 ^ 64 ->
  const_getter T c (Some e) =
  Some (if c =? e then b2z (c <=? 0) else Z.lor (b2z (c <=? 0)) gen_check_fail_bits, c mod 2 ^ 64).
Proof.
  intros P R E. unfold const_getter.
  rewrite (eval_gen_n T c P R). destruct (eval_gen_o T c P R) as [t ->].
  destruct (eval_check_literal (rho_X T c) e E) as (lv & -> & L).
  rewrite conv_u64_mod, Z.mod_mod by (pows; lia).
  assert (Hn : conv s32 (b2z (c <=? 0)) = b2z (c <=? 0)) by (destruct (c <=? 0); reflexivity).
  rewrite Hn.
  destruct (eval_check_macro (c mod 2 ^ 64) (b2z (c <=? 0)) e lv L) as [t' ->].
  { pows; lia. } { destruct (c <=? 0); auto. }
  pose proof (in_range_promoted T c P R) as C.
  assert (Hiff : ((b2z (c <=? 0) =? b2z (e <=? 0)) && (c mod 2 ^ 64 =? e mod 2 ^ 64)) = (c =? e)).
  { pows. unfold b2z. destruct (Z.eqb_spec c e) as [-> | Hne].
    - destruct (e <=? 0); lia.
    - destruct (Z.leb_spec c 0), (Z.leb_spec e 0); cbn; try reflexivity; lia. }
  rewrite Hiff. destruct (c =? e); reflexivity.
Qed.

Lemma realize_ok c : - 2 ^ 63 <= c < 2 ^ 64 ->
  realize_global_int (b2z (c <=? 0)) (c mod 2 ^ 64) = Ok c.
Proof.
  intros C. unfold realize_global_int, LONG_MAX, LONG_MIN.
  destruct (Z.leb_spec c 0); cbn [b2z].
  - change (1 =? 0) with false. change (1 =? 1) with true. cbv iota.
    rewrite conv_s64_of_mod by (pows; lia). destruct (c >=? - 2 ^ 63); reflexivity.
  - change (0 =? 0) with true. cbv iota.
    assert (Hm : c mod 2 ^ 64 = c) by (pows; lia). rewrite Hm.
    destruct (Z.leb_spec c (2 ^ 63 - 1)).
    + f_equal. apply conv_s64_id. unfold in_range, ty_min, ty_max; cbn; pows; cbn; pows; lia.
    + reflexivity.
Qed.

Lemma realize_fail c : realize_global_int (Z.lor (b2z (c <=? 0)) gen_check_fail_bits) (c mod 2 ^ 64) = Err FFIError.
Proof. unfold realize_global_int. destruct (c <=? 0); reflexivity. Qed.

(* ---- the statements used by Props.v *)
Lemma in_domain_spec e : gen_check_in_domain e = true <-> - 2 ^ 64 < e < 2 ^ 64.
Proof.
  unfold gen_check_in_domain. change (Z.shiftl 1 64) with (2 ^ 64). pows.
  rewrite andb_true_iff, !Z.ltb_lt. tauto.
Qed.

Theorem const_check_iff : forall T c e,
  promoted T -> in_range T c -> - 2 ^ 64 < e < 2 ^ 64 ->
  lib_constant KMacro T c (Some e) = Some (if c =? e then Ok c else Err FFIError).
Proof.
  intros T c e P R E. unfold lib_constant, check_value_of.
  change gen_macro_checked with true. cbv iota.
  rewrite (proj2 (in_domain_spec e) E). cbn [negb].
  rewrite (getter_checked T c e P R E).
  pose proof (in_range_promoted T c P R) as C.
  destruct (c =? e).
  - rewrite realize_ok by exact C. reflexivity.
  - rewrite realize_fail. reflexivity.
Qed.

Theorem const_dotdotdot : forall k T c,
  promoted T -> in_range T c -> lib_constant k T c None = Some (Ok c).
Proof.
  intros k T c P R. unfold lib_constant.
  assert (H : check_value_of k None = None) by (destruct k; reflexivity).
  rewrite H, (getter_unchecked T c P R), realize_ok by exact (in_range_promoted T c P R).
  reflexivity.
Qed.

(* enumerators: _generate_cpy_enum_decl passes no check_value, so the cdef's value is never
   consulted; the compiler's value is used *)
Theorem enumerator_unchecked : forall T c cdef,
  promoted T -> in_range T c -> lib_constant KEnumerator T c cdef = Some (Ok c).
Proof.
  intros T c cdef P R. unfold lib_constant, check_value_of.
  change gen_enumerator_checked with false. cbv iota.
  rewrite (getter_unchecked T c P R), realize_ok by exact (in_range_promoted T c P R).
  reflexivity.
Qed.

(* outside (-2^64, 2^64) the value is not a C literal: the recompiler refuses to generate the
   module (VerificationError), so such a declaration is never silently accepted *)
Theorem const_literal_outside_C : forall T c e, e <= - 2 ^ 64 \/ 2 ^ 64 <= e ->
  lib_constant KMacro T c (Some e) = Some (Err BuildError).
Proof.
  intros T c e E. unfold lib_constant, check_value_of.
  change gen_macro_checked with true. cbv iota.
  assert (D : gen_check_in_domain e = false).
  { destruct (gen_check_in_domain e) eqn:G; [|reflexivity]. apply in_domain_spec in G. lia. }
  rewrite D. reflexivity.
Qed.
