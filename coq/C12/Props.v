(* C12 — API-mode modules faithfully reflect the C source and detect mismatches.
   Statements only; proofs are in C12/Proofs.v (constants), C12/Proofs2.v (structs) and
   C12/Proofs3.v (constants used as array lengths).
   The C expressions and the macro that the constant theorems talk about are the regenerated
   definitions of C12/Gen.v (text of /repo at the time of the run). *)
From Coq Require Import ZArith List Bool.
Import ListNotations.
From Cffi Require Import C12.Spec C12.Gen C12.Model C12.Proofs C12.Proofs2 C12.Proofs3.
Local Open Scope Z_scope.

(* (a) "#define X <e>" / checked integer constant: for every C constant expression of any
   promoted integer type T (int, unsigned, long, unsigned long [long long]) with any value c of
   that type — i.e. every c in [-2^63, 2^64) — and every cdef value e that can be written as a
   C literal (-2^64 < e < 2^64): reading lib.X returns c when c = e and raises ffi.error
   otherwise.  In particular the cdef's value is never returned in place of the compiler's. *)
Theorem C12_const_check_iff : forall T c e,
  promoted T -> in_range T c -> - 2 ^ 64 < e < 2 ^ 64 ->
  lib_constant KMacro T c (Some e) = Some (if c =? e then Ok c else Err FFIError).
Proof. exact const_check_iff. Qed.
Print Assumptions C12_const_check_iff.

(* "#define X ..." : the compiler's value, silently, for every value *)
Theorem C12_const_dotdotdot : forall k T c,
  promoted T -> in_range T c -> lib_constant k T c None = Some (Ok c).
Proof. exact const_dotdotdot. Qed.
Print Assumptions C12_const_dotdotdot.

(* enumerators: the generated getter carries no check (recompiler.py:1112 passes no
   check_value; Gen.gen_enumerator_checked = false), hence the compiler's value is used whatever
   the cdef says.  The property text asks for an error on disagreement: this is the
   known finding "enumerator-unchecked" (the cdef's value is nevertheless never used). *)
Theorem C12_enumerator_uses_compiler_value : forall T c cdef,
  promoted T -> in_range T c -> lib_constant KEnumerator T c cdef = Some (Ok c).
Proof. exact enumerator_unchecked. Qed.
Print Assumptions C12_enumerator_uses_compiler_value.

(* hence the statement "a disagreeing enumerator value raises" is false of the faithful model;
   the witness (cdef 'enum e { A = 5 }', C source 'enum e { A = 6 }') is replayed on the real
   code by every run (findings/C12.json, key enumerator-unchecked) *)
Theorem C12_enumerator_check_refuted :
  exists T c e, promoted T /\ in_range T c /\ c <> e /\
                lib_constant KEnumerator T c (Some e) = Some (Ok c).
Proof.
  exists s32, 6, 5. split; [left; reflexivity|]. split; [vm_compute; split; discriminate|].
  split; [discriminate | vm_compute; reflexivity].
Qed.
Print Assumptions C12_enumerator_check_refuted.

(* Whatever the regenerated flag says: an enumerator of a non-partial enum is checked exactly
   like a macro when the recompiler passes its value, and gives the compiler's value silently when
   it does not (today's source; upstream's test_verify1.py::test_typedef_broken_complete_enum
   asserts that behaviour, so no fix is proposed for finding enumerator-unchecked). *)
Theorem C12_enumerator_by_flag : forall T c e,
  promoted T -> in_range T c -> - 2 ^ 64 < e < 2 ^ 64 ->
  lib_constant KEnumerator T c (Some e) =
    Some (if gen_enumerator_checked then (if c =? e then Ok c else Err FFIError) else Ok c).
Proof. exact enumerator_by_flag. Qed.
Print Assumptions C12_enumerator_by_flag.

(* the generated check is complete and sound for EVERY kind of declaration that is given a check
   value [e]: lib.X raises ffi.error iff the C value differs from e (as a mathematical integer:
   64-bit pattern and sign), and the name used as an array length raises too. *)
Theorem C12_checked_declaration_iff : forall k T c cdef e,
  promoted T -> in_range T c -> - 2 ^ 64 < e < 2 ^ 64 -> check_value_of k cdef = Some e ->
  lib_constant k T c cdef = Some (if c =? e then Ok c else Err FFIError) /\
  const_array_length k T c cdef =
    Some (Ok (if c =? e then length_of_value c else PSErr PSDisagree)).
Proof. exact checked_kind_iff. Qed.
Print Assumptions C12_checked_declaration_iff.

(* "with '...' the compiler's values are used silently": enumerators of 'enum e { A = 5, ... }' *)
Theorem C12_partial_enumerator_value : forall T c cdef,
  promoted T -> in_range T c ->
  lib_constant KEnumeratorPartial T c cdef = Some (Ok c) /\
  const_array_length KEnumeratorPartial T c cdef = Some (Ok (length_of_value c)).
Proof. exact partial_enumerator_value. Qed.
Print Assumptions C12_partial_enumerator_value.

(* cdef values outside (-2^64, 2^64) are not C literals (gcc would truncate them with a
   warning): the recompiler refuses to generate the module, so the declaration is not silently
   accepted.  (The guard is the fix of finding const-beyond-64bit, /repo 52726e0; it is part of the
   regenerated Gen.gen_check_in_domain.) *)
Theorem C12_const_literal_outside_C : forall T c e, e <= - 2 ^ 64 \/ 2 ^ 64 <= e ->
  lib_constant KMacro T c (Some e) = Some (Err BuildError).
Proof. exact const_literal_outside_C. Qed.
Print Assumptions C12_const_literal_outside_C.

(* (c) "using that item" also means: writing the constant's NAME as an array length inside a type
   string given at run time to ffi.typeof()/new()/cast()/sizeof() on the module's ffi.
   parse_c_type.c parse_sequel() then calls the same generated getter as lib.N and interprets
   its return code itself.  [gen_ps_const_length] is REGENERATED from those C statements on every
   run (tools/props/c12_regen.py; Gen.v).

   The decision, for every return code [neg] an int can hold and every 64-bit [value]:
   code 0 ("positive, agrees"): the value if it fits a ssize_t, else "too large";
   code 1 ("<= 0, agrees"): length 0 when the value is 0, else "expected a positive integer
   constant";
   every other code (2, 3 = "the C compiler disagrees with the cdef"), whatever the value:
   "disagreement about this constant's value".
   (Until /repo 8e135ea the value 0 was accepted under every code: finding
   zero-const-array-length, fixed; its witness is still generated on every run.) *)
Theorem C12_array_length_decision : forall neg value,
  - 2 ^ 31 <= neg < 2 ^ 31 -> 0 <= value < 2 ^ 64 ->
  gen_ps_const_length neg value =
    if neg =? 0 then (if value <=? 2 ^ 63 - 1 then PSLen value else PSErr PSTooLarge)
    else if neg =? 1 then (if value =? 0 then PSLen 0 else PSErr PSNotPositive)
    else PSErr PSDisagree.
Proof. exact ps_decision. Qed.
Print Assumptions C12_array_length_decision.

(* in particular the getter's "disagrees" codes never yield a length *)
Theorem C12_array_length_mismatch_code_is_error : forall neg value,
  - 2 ^ 31 <= neg < 2 ^ 31 -> 0 <= value < 2 ^ 64 -> neg <> 0 -> neg <> 1 ->
  gen_ps_const_length neg value = PSErr PSDisagree.
Proof. exact ps_mismatch_code. Qed.
Print Assumptions C12_array_length_mismatch_code_is_error.

(* a length that comes out is the getter's value (the compiler's), within ssize_t, and the
   getter said "agrees" *)
Theorem C12_array_length_is_getter_value : forall neg value n,
  - 2 ^ 31 <= neg < 2 ^ 31 -> 0 <= value < 2 ^ 64 ->
  gen_ps_const_length neg value = PSLen n ->
  n = value /\ 0 <= n <= 2 ^ 63 - 1 /\ (neg = 0 \/ neg = 1).
Proof. exact ps_length_is_value. Qed.
Print Assumptions C12_array_length_is_getter_value.

(* end to end (generated getter with its _cffi_check_int test, then parse_sequel): checked
   '#define N <e>' against a C constant of any promoted type and value c.
   c = e: the length is c when 0 <= c <= SSIZE_MAX, an error otherwise (negative / too large);
   c <> e: always the "disagreement" error. *)
Theorem C12_array_length_checked : forall T c e,
  promoted T -> in_range T c -> - 2 ^ 64 < e < 2 ^ 64 ->
  const_array_length KMacro T c (Some e) =
    Some (Ok (if c =? e then length_of_value c else PSErr PSDisagree)).
Proof. exact array_length_checked. Qed.
Print Assumptions C12_array_length_checked.

(* "where a checked integer constant disagrees with the C source, using it raises an error":
   for every C value and every cdef value *)
Theorem C12_array_length_mismatch_raises : forall T c e,
  promoted T -> in_range T c -> - 2 ^ 64 < e < 2 ^ 64 -> c <> e ->
  const_array_length KMacro T c (Some e) = Some (Ok (PSErr PSDisagree)).
Proof. exact array_length_mismatch_raises. Qed.
Print Assumptions C12_array_length_mismatch_raises.

(* '#define N ...', 'static const <int type> N;' and enumerators (no check value is passed for
   them, see C12_enumerator_check_refuted): the compiler's value, silently, when it is a valid
   length *)
Theorem C12_array_length_unchecked : forall k T c cdef,
  promoted T -> in_range T c -> check_value_of k cdef = None ->
  const_array_length k T c cdef = Some (Ok (length_of_value c)).
Proof. exact array_length_unchecked. Qed.
Print Assumptions C12_array_length_unchecked.

Theorem C12_array_length_literal_outside_C : forall T c e, e <= - 2 ^ 64 \/ 2 ^ 64 <= e ->
  const_array_length KMacro T c (Some e) = Some (Err BuildError).
Proof. exact array_length_literal_outside_C. Qed.
Print Assumptions C12_array_length_literal_outside_C.

(* What is NOT a theorem here and is decided by the correspondence run only (tools/props/c12.py):
   "calls return what the C function returns", "globals read and write the C object", "global
   addresses are the compiler's", typedef sizes, and everything about bitfields and anonymous
   nested structs/unions.  Unions ARE covered by the struct theorems below (parameter [u]). *)

(* (b) structs/unions of named non-bitfield fields.  [decl] = per field the size and alignment
   of the type the cdef declares; [rep] = what the C compiler reports (offsetof, sizeof per
   field; sizeof and alignment of the struct).  [natural] = the layout the cdef implies (the
   layout function run with nothing forced).

   Without "...": realisation succeeds iff the report equals the cdef's natural layout in
   every field offset, every field size, the total size and the alignment; the result is then
   the report; any difference raises ffi.error.  The alignment is part of the comparison
   because the backend compares it: b_complete_struct_or_union, _cffi_backend.c:5500
   detect_custom_layout(ct, sflags, alignment, totalalignment, "wrong total alignment"). *)
Theorem C12_struct_checked : forall packed u decl rep Lnat,
  length decl = length (r_fields rep) -> wf_report rep ->
  Forall (fun d => pow2 (fd_align d)) decl ->
  natural packed u decl = Ok Lnat ->
  (report_layout rep = Lnat ->
     realize_struct (struct_flags false packed) u decl rep = Ok (report_layout rep)) /\
  (report_layout rep <> Lnat ->
     realize_struct (struct_flags false packed) u decl rep = Err FFIError).
Proof. exact struct_checked. Qed.
Print Assumptions C12_struct_checked.

(* With "...": offsets, total size and alignment are taken from the report whatever they
   are; what is still compared is each declared field's size (documented: "you must use the
   correct type for those you declare") — a difference raises ffi.error — and a total size
   smaller than the end of the last field (impossible for a truthful compiler) raises
   TypeError. *)
Theorem C12_struct_partial : forall packed u decl rep,
  length decl = length (r_fields rep) -> wf_report rep ->
  (map fd_size decl <> map fr_size (r_fields rep) ->
     realize_struct (struct_flags true packed) u decl rep = Err FFIError) /\
  (map fd_size decl = map fr_size (r_fields rep) -> r_size rep < rep_end (r_fields rep) ->
     realize_struct (struct_flags true packed) u decl rep = Err TypeError) /\
  (map fd_size decl = map fr_size (r_fields rep) -> rep_end (r_fields rep) <= r_size rep ->
     realize_struct (struct_flags true packed) u decl rep = Ok (report_layout rep)).
Proof. exact struct_partial. Qed.
Print Assumptions C12_struct_partial.

(* in every case a layout that comes out is the compiler's, never the cdef's *)
Theorem C12_struct_layout_is_report : forall partial packed u decl rep Lnat L,
  length decl = length (r_fields rep) -> wf_report rep ->
  Forall (fun d => pow2 (fd_align d)) decl ->
  natural packed u decl = Ok Lnat ->
  realize_struct (struct_flags partial packed) u decl rep = Ok L -> L = report_layout rep.
Proof. exact struct_layout_is_report. Qed.
Print Assumptions C12_struct_layout_is_report.

(* ---- non-vacuity *)
(* struct { int a; long b; } against C "struct { int a; long b; }" (agree), against
   "struct { int a; int pad; long b; }" (same layout: accepted), against
   "struct { long b; int a; }" (differs) *)
Example C12_example_struct :
  let decl := [mkfdecl 4 4; mkfdecl 8 8] in
  natural false false decl = Ok (mklayout [(0, 4); (8, 8)] 16 8) /\
  realize_struct (struct_flags false false) false decl (mkreport [mkfrep 0 4; mkfrep 8 8] 16 8)
    = Ok (mklayout [(0, 4); (8, 8)] 16 8) /\
  realize_struct (struct_flags false false) false decl (mkreport [mkfrep 8 4; mkfrep 0 8] 16 8)
    = Err FFIError /\
  realize_struct (struct_flags true false) false decl (mkreport [mkfrep 8 4; mkfrep 0 8] 16 8)
    = Ok (mklayout [(8, 4); (0, 8)] 16 8) /\
  realize_struct (struct_flags true false) false decl (mkreport [mkfrep 8 8; mkfrep 0 8] 16 8)
    = Err FFIError /\
  realize_struct (struct_flags false true) false decl (mkreport [mkfrep 0 4; mkfrep 4 8] 12 1)
    = Ok (mklayout [(0, 4); (4, 8)] 12 1).
Proof. vm_compute. repeat split; reflexivity. Qed.

Example C12_example_const :
  lib_constant KMacro s32 (-5) (Some (-5)) = Some (Ok (-5)) /\
  lib_constant KMacro s32 (-5) (Some 5) = Some (Err FFIError) /\
  lib_constant KMacro u64 (2 ^ 64 - 1) (Some (-1)) = Some (Err FFIError) /\
  lib_constant KMacro s64 (- 2 ^ 63) (Some (- 2 ^ 63)) = Some (Ok (- 2 ^ 63)) /\
  lib_constant KMacro u32 0 (Some 0) = Some (Ok 0) /\
  lib_constant KMacro s32 1 (Some (2 ^ 64 + 1)) = Some (Err BuildError).
Proof. vm_compute. repeat split; reflexivity. Qed.

Example C12_example_array_length :
  const_array_length KMacro s32 6 (Some 6) = Some (Ok (PSLen 6)) /\
  const_array_length KMacro s32 9 (Some 6) = Some (Ok (PSErr PSDisagree)) /\
  const_array_length KMacro s32 3 (Some 12) = Some (Ok (PSErr PSDisagree)) /\
  const_array_length KMacro s32 (-2) (Some 5) = Some (Ok (PSErr PSDisagree)) /\
  const_array_length KMacro s32 0 (Some 5) = Some (Ok (PSErr PSDisagree)) /\
  const_array_length KMacro s32 0 (Some 0) = Some (Ok (PSLen 0)) /\
  const_array_length KMacro s32 (-3) (Some (-3)) = Some (Ok (PSErr PSNotPositive)) /\
  const_array_length KMacro s32 9 None = Some (Ok (PSLen 9)) /\
  const_array_length KMacro u64 (2 ^ 63) None = Some (Ok (PSErr PSTooLarge)) /\
  const_array_length KMacro s64 (2 ^ 63 - 1) (Some (2 ^ 63 - 1)) = Some (Ok (PSLen (2 ^ 63 - 1))) /\
  const_array_length KEnumerator s32 7 (Some 5) = Some (Ok (PSLen 7)) /\
  check_value_of KMacro None = None /\ check_value_of KEnumerator (Some 5) = None.
Proof. vm_compute. repeat split; reflexivity. Qed.
