(* C12 — API-mode modules faithfully reflect the C source and detect mismatches.
   Statements only; proofs are in C12/Proofs.v (constants) and C12/Proofs2.v (structs).
   The C expressions and the macro that the constant theorems talk about are the regenerated
   definitions of C12/Gen.v (text of /repo at the time of the run). *)
From Coq Require Import ZArith List Bool.
Import ListNotations.
From Cffi Require Import C12.Spec C12.Gen C12.Model C12.Proofs C12.Proofs2.
Local Open Scope Z_scope.

(* (a) "#define X <e>" / checked integer constant: for every C constant expression of any
   promoted integer type T (int, unsigned, long, unsigned long [long long]) with any value c of
   that type — i.e. every c in [-2^63, 2^64) — and every cdef value e that can be written as a
   C literal (-2^64 < e < 2^64): reading lib.X returns c when c = e and raises ffi.error
   otherwise.  In particular the cdef's value is never returned in place of the compiler's. *)
Theorem C12_const_check_iff : forall T c e,
  promoted T -> in_range T c -> - 2 ^ 64 < e < 2 ^ 64 ->
  lib_constant KMacro T c (Some e) = Some (if c =? e then Ok c else Err FFIError).
Proof. exact const_check_iff. Qed.
Print Assumptions C12_const_check_iff.

(* "#define X ..." : the compiler's value, silently, for every value *)
Theorem C12_const_dotdotdot : forall k T c,
  promoted T -> in_range T c -> lib_constant k T c None = Some (Ok c).
Proof. exact const_dotdotdot. Qed.
Print Assumptions C12_const_dotdotdot.

(* enumerators: the generated getter carries no check (recompiler.py:1112 passes no
   check_value; Gen.gen_enumerator_checked = false), hence the compiler's value is used whatever
   the cdef says.  The property text asks for an error on disagreement: this is the
   known finding "enumerator-unchecked" (the cdef's value is nevertheless never used). *)
Theorem C12_enumerator_uses_compiler_value : forall T c cdef,
  promoted T -> in_range T c -> lib_constant KEnumerator T c cdef = Some (Ok c).
Proof. exact enumerator_unchecked. Qed.
Print Assumptions C12_enumerator_uses_compiler_value.

(* hence the statement "a disagreeing enumerator value raises" is false of the faithful model;
   the witness (cdef 'enum e { A = 5 }', C source 'enum e { A = 6 }') is replayed on the real
   code by every run (findings/C12.json, key enumerator-unchecked) *)
Theorem C12_enumerator_check_refuted :
  exists T c e, promoted T /\ in_range T c /\ c <> e /\
                lib_constant KEnumerator T c (Some e) = Some (Ok c).
Proof.
  exists s32, 6, 5. split; [left; reflexivity|]. split; [vm_compute; split; discriminate|].
  split; [discriminate | vm_compute; reflexivity].
Qed.
Print Assumptions C12_enumerator_check_refuted.

(* cdef values outside (-2^64, 2^64) are not C literals (gcc would truncate them with a
   warning): the recompiler refuses to generate the module, so the declaration is not silently
   accepted.  (The guard is the fix of finding const-beyond-64bit, /repo 52726e0; it is part of the
   regenerated Gen.gen_check_in_domain.) *)
Theorem C12_const_literal_outside_C : forall T c e, e <= - 2 ^ 64 \/ 2 ^ 64 <= e ->
  lib_constant KMacro T c (Some e) = Some (Err BuildError).
Proof. exact const_literal_outside_C. Qed.
Print Assumptions C12_const_literal_outside_C.

(* What is NOT a theorem here and is decided by the correspondence run only (tools/props/c12.py):
   "calls return what the C function returns", "globals read and write the C object", "global
   addresses are the compiler's", typedef sizes, and everything about bitfields and anonymous
   nested structs/unions.  Unions ARE covered by the struct theorems below (parameter [u]). *)

(* (b) structs/unions of named non-bitfield fields.  [decl] = per field the size and alignment
   of the type the cdef declares; [rep] = what the C compiler reports (offsetof, sizeof per
   field; sizeof and alignment of the struct).  [natural] = the layout the cdef implies (the
   layout function run with nothing forced).

   Without "...": realisation succeeds iff the report equals the cdef's natural layout in
   every field offset, every field size, the total size and the alignment; the result is then
   the report; any difference raises ffi.error.  The alignment is part of the comparison
   because the backend compares it: b_complete_struct_or_union, _cffi_backend.c:5500
   detect_custom_layout(ct, sflags, alignment, totalalignment, "wrong total alignment"). *)
Theorem C12_struct_checked : forall packed u decl rep Lnat,
  length decl = length (r_fields rep) -> wf_report rep ->
  Forall (fun d => pow2 (fd_align d)) decl ->
  natural packed u decl = Ok Lnat ->
  (report_layout rep = Lnat ->
     realize_struct (struct_flags false packed) u decl rep = Ok (report_layout rep)) /\
  (report_layout rep <> Lnat ->
     realize_struct (struct_flags false packed) u decl rep = Err FFIError).
Proof. exact struct_checked. Qed.
Print Assumptions C12_struct_checked.

(* With "...": offsets, total size and alignment are taken from the report whatever they
   are; what is still compared is each declared field's size (documented: "you must use the
   correct type for those you declare") — a difference raises ffi.error — and a total size
   smaller than the end of the last field (impossible for a truthful compiler) raises
   TypeError. *)
Theorem C12_struct_partial : forall packed u decl rep,
  length decl = length (r_fields rep) -> wf_report rep ->
  (map fd_size decl <> map fr_size (r_fields rep) ->
     realize_struct (struct_flags true packed) u decl rep = Err FFIError) /\
  (map fd_size decl = map fr_size (r_fields rep) -> r_size rep < rep_end (r_fields rep) ->
     realize_struct (struct_flags true packed) u decl rep = Err TypeError) /\
  (map fd_size decl = map fr_size (r_fields rep) -> rep_end (r_fields rep) <= r_size rep ->
     realize_struct (struct_flags true packed) u decl rep = Ok (report_layout rep)).
Proof. exact struct_partial. Qed.
Print Assumptions C12_struct_partial.

(* in every case a layout that comes out is the compiler's, never the cdef's *)
Theorem C12_struct_layout_is_report : forall partial packed u decl rep Lnat L,
  length decl = length (r_fields rep) -> wf_report rep ->
  Forall (fun d => pow2 (fd_align d)) decl ->
  natural packed u decl = Ok Lnat ->
  realize_struct (struct_flags partial packed) u decl rep = Ok L -> L = report_layout rep.
Proof. exact struct_layout_is_report. Qed.
Print Assumptions C12_struct_layout_is_report.

(* ---- non-vacuity *)
(* struct { int a; long b; } against C "struct { int a; long b; }" (agree), against
   "struct { int a; int pad; long b; }" (same layout: accepted), against
   "struct { long b; int a; }" (differs) *)
Example C12_example_struct :
  let decl := [mkfdecl 4 4; mkfdecl 8 8] in
  natural false false decl = Ok (mklayout [(0, 4); (8, 8)] 16 8) /\
  realize_struct (struct_flags false false) false decl (mkreport [mkfrep 0 4; mkfrep 8 8] 16 8)
    = Ok (mklayout [(0, 4); (8, 8)] 16 8) /\
  realize_struct (struct_flags false false) false decl (mkreport [mkfrep 8 4; mkfrep 0 8] 16 8)
    = Err FFIError /\
  realize_struct (struct_flags true false) false decl (mkreport [mkfrep 8 4; mkfrep 0 8] 16 8)
    = Ok (mklayout [(8, 4); (0, 8)] 16 8) /\
  realize_struct (struct_flags true false) false decl (mkreport [mkfrep 8 8; mkfrep 0 8] 16 8)
    = Err FFIError /\
  realize_struct (struct_flags false true) false decl (mkreport [mkfrep 0 4; mkfrep 4 8] 12 1)
    = Ok (mklayout [(0, 4); (4, 8)] 12 1).
Proof. vm_compute. repeat split; reflexivity. Qed.

Example C12_example_const :
  lib_constant KMacro s32 (-5) (Some (-5)) = Some (Ok (-5)) /\
  lib_constant KMacro s32 (-5) (Some 5) = Some (Err FFIError) /\
  lib_constant KMacro u64 (2 ^ 64 - 1) (Some (-1)) = Some (Err FFIError) /\
  lib_constant KMacro s64 (- 2 ^ 63) (Some (- 2 ^ 63)) = Some (Ok (- 2 ^ 63)) /\
  lib_constant KMacro u32 0 (Some 0) = Some (Ok 0) /\
  lib_constant KMacro s32 1 (Some (2 ^ 64 + 1)) = Some (Err BuildError).
Proof. vm_compute. repeat split; reflexivity. Qed.
