(* C12 — proofs, part (b): struct realisation with and without _CFFI_F_CHECK_FIELDS. *)
From Coq Require Import ZArith List Bool Lia ZifyBool.
Import ListNotations.
From Cffi Require Import C12.Spec C12.Gen C12.Model.
Local Open Scope Z_scope.

Definition pow2 (a : Z) : Prop := exists k, 0 <= k /\ a = 2 ^ k.

(* ---- roundup *)
Lemma roundup_pow2 x k : 0 <= k -> roundup x (2 ^ k) = ((x + 2 ^ k - 1) / 2 ^ k) * 2 ^ k.
Proof.
  intros Hk. unfold roundup.
  replace (2 ^ k - 1) with (Z.ones k) by (rewrite Z.ones_equiv; lia).
  rewrite <- Z.ldiff_land, Z.ldiff_ones_r by exact Hk.
  rewrite Z.shiftr_div_pow2, Z.shiftl_mul_pow2 by exact Hk. reflexivity.
Qed.

Lemma roundup_ge x a : pow2 a -> x <= roundup x a.
Proof.
  intros (k & Hk & ->). rewrite roundup_pow2 by exact Hk.
  assert (0 < 2 ^ k) by (apply Z.pow_pos_nonneg; lia).
  pose proof (Z.div_mod (x + 2 ^ k - 1) (2 ^ k) ltac:(lia)).
  pose proof (Z.mod_pos_bound (x + 2 ^ k - 1) (2 ^ k) ltac:(lia)). lia.
Qed.

(* ---- detect_custom_layout *)
Definition std (sflags : Z) : bool := negb (Z.land sflags SF_STD_FIELD_POS =? 0).

Lemma detect_std sflags a b : std sflags = true ->
  detect_custom_layout sflags a b = if b =? a then Ok false else Err FFIError.
Proof.
  unfold std, detect_custom_layout. intros ->. destruct (b =? a); reflexivity.
Qed.

Lemma detect_nostd sflags a b : std sflags = false ->
  exists x, detect_custom_layout sflags a b = Ok x.
Proof.
  unfold std, detect_custom_layout. intros ->. destruct (b =? a); cbn; eauto.
Qed.

(* ---- the per-field size check of do_realize_lazy_struct *)
Lemma realize_fields_spec : forall decl reps,
  length decl = length reps -> Forall (fun r => 0 <= fr_off r) reps ->
  (realize_fields (combine decl reps) = Ok tt /\ map fd_size decl = map fr_size reps) \/
  (realize_fields (combine decl reps) = Err FFIError /\ map fd_size decl <> map fr_size reps).
Proof.
  induction decl as [| d decl IH]; intros [| r reps] Hlen Hoff; cbn in Hlen; try discriminate.
  - left. split; reflexivity.
  - inversion Hoff as [| ? ? Hr Hrest]; subst.
    cbn [combine realize_fields map].
    assert (Hm1 : (fr_off r =? -1) = false) by lia. rewrite Hm1.
    change realize_field_check_sflags with SF_STD_FIELD_POS.
    rewrite detect_std by reflexivity.
    destruct (Z.eqb_spec (fr_size r) (fd_size d)) as [Heq | Hne].
    + destruct (IH reps ltac:(lia) Hrest) as [[H1 H2] | [H1 H2]].
      * left. split; [exact H1 | congruence].
      * right. split; [exact H1 | intros H; inversion H; contradiction].
    + right. split; [reflexivity | intros H; inversion H; congruence].
Qed.

(* ---- the field loop: natural run (no forced offsets) versus checked run *)
Lemma loop_sizes : forall sflags pack u fs bo bm al bm' al' l,
  fields_loop sflags pack u fs bo bm al = Ok (bm', al', l) ->
  map snd l = map (fun p => fd_size (fst p)) fs.
Proof.
  induction fs as [| [d o] fs IH]; intros bo bm al bm' al' l H; cbn [fields_loop] in H.
  - inversion H. reflexivity.
  - destruct (_ && _) in H; [discriminate|].
    destruct (if o >=? 0 then _ else _) in H; [|discriminate].
    match type of H with
    | match ?X with _ => _ end = _ => destruct X as [[[bm1 al1] l1] |] eqn:E; [|discriminate]
    end.
    inversion H; subst. cbn [map snd fst]. f_equal. eapply IH; eassumption.
Qed.

Lemma loop_checked : forall sn sf pack u decl offs bo bm al bm' al' l',
  length decl = length offs -> Forall (fun o => 0 <= o) offs -> std sf = true ->
  fields_loop sn pack u (map (fun d => (d, -1)) decl) bo bm al = Ok (bm', al', l') ->
  (offs = map fst l' -> fields_loop sf pack u (combine decl offs) bo bm al = Ok (bm', al', l')) /\
  (offs <> map fst l' -> fields_loop sf pack u (combine decl offs) bo bm al = Err FFIError).
Proof.
  induction decl as [| d decl IH]; intros [| o offs] bo bm al bm' al' l' Hlen Hoff Hstd Hnat;
    cbn in Hlen; try discriminate.
  - cbn in Hnat. inversion Hnat; subst. cbn. split; [reflexivity | congruence].
  - inversion Hoff as [| ? ? Ho Hrest]; subst.
    cbn [map fields_loop] in Hnat. cbn [combine fields_loop].
    change (-1 =? -1) with true in Hnat. change (-1 >=? 0) with false in Hnat.
    cbv iota in Hnat.
    assert (Ho1 : (o =? -1) = false) by lia. assert (Ho2 : (o >=? 0) = true) by lia.
    rewrite Ho1, Ho2. cbn [negb]. rewrite orb_true_r. cbn [negb]. rewrite andb_false_r.
    destruct (_ && _) in Hnat; [discriminate|].
    set (bo1 := roundup (if u then 0 else bo) (if pack <? fd_align d then pack else fd_align d)) in *.
    set (al1 := if al <? (if pack <? fd_align d then pack else fd_align d)
                then (if pack <? fd_align d then pack else fd_align d) else al) in *.
    rewrite detect_std by exact Hstd.
    match type of Hnat with
    | match ?X with _ => _ end = _ => destruct X as [[[bm1 a1] l1] |] eqn:E; [|discriminate]
    end.
    inversion Hnat; subst bm' al' l'. cbn [map fst].
    destruct (Z.eqb_spec o bo1) as [-> | Hne].
    + destruct (IH offs _ _ _ _ _ _ ltac:(lia) Hrest Hstd E) as [IH1 IH2].
      split; intros H.
      * inversion H as [Ht]. rewrite <- Ht at 1. rewrite (IH1 Ht). reflexivity.
      * assert (Ht : offs <> map fst l1) by (intros Hc; apply H; congruence).
        rewrite (IH2 Ht). reflexivity.
    + split; intros H; [inversion H; contradiction | reflexivity].
Qed.

(* checked or not, with forced offsets the loop never reports an unknown-size field, and
   without SF_STD_FIELD_POS it never fails *)
Definition step_end (m : Z) (p : fdecl * Z) : Z :=
  let e := if fd_size (fst p) >=? 0 then snd p + fd_size (fst p) else snd p in
  if e >? m then e else m.

Lemma loop_unchecked : forall sf pack u decl offs bo bm al,
  length decl = length offs -> Forall (fun o => 0 <= o) offs -> std sf = false ->
  exists al', fields_loop sf pack u (combine decl offs) bo bm al =
              Ok (fold_left step_end (combine decl offs) bm, al',
                  map (fun p => (snd p, fd_size (fst p))) (combine decl offs)).
Proof.
  induction decl as [| d decl IH]; intros [| o offs] bo bm al Hlen Hoff Hstd;
    cbn in Hlen; try discriminate.
  - cbn. eauto.
  - inversion Hoff as [| ? ? Ho Hrest]; subst.
    cbn [combine fields_loop fold_left map fst snd].
    assert (Ho1 : (o =? -1) = false) by lia. assert (Ho2 : (o >=? 0) = true) by lia.
    rewrite Ho1, Ho2. cbn [negb]. rewrite orb_true_r. cbn [negb]. rewrite andb_false_r.
    destruct (detect_nostd sf (roundup (if u then 0 else bo)
                (if pack <? fd_align d then pack else fd_align d)) o Hstd) as [x ->].
    edestruct (IH offs) as [al' ->]; [lia | exact Hrest | exact Hstd |].
    eexists. unfold step_end at 2. cbn [fst snd]. reflexivity.
Qed.

(* the alignment computed by the loop is a power of two *)
Lemma loop_align_pow2 : forall sflags pack u fs bo bm al bm' al' l,
  pow2 pack -> pow2 al -> Forall (fun p => pow2 (fd_align (fst p))) fs ->
  fields_loop sflags pack u fs bo bm al = Ok (bm', al', l) -> pow2 al'.
Proof.
  induction fs as [| [d o] fs IH]; intros bo bm al bm' al' l Hp Ha Hf H; cbn [fields_loop] in H.
  - inversion H; subst; exact Ha.
  - inversion Hf as [| ? ? Hd Hrest]; subst. cbn [fst] in Hd.
    destruct (_ && _) in H; [discriminate|].
    destruct (if o >=? 0 then _ else _) in H; [|discriminate].
    match type of H with
    | match ?X with _ => _ end = _ => destruct X as [[[bm1 al1] l1] |] eqn:E; [|discriminate]
    end.
    inversion H; subst. eapply IH; [exact Hp | | exact Hrest | exact E].
    destruct (al <? _); [destruct (pack <? fd_align d)|]; assumption.
Qed.

Lemma loop_max_ge : forall sflags pack u fs bo bm al bm' al' l,
  fields_loop sflags pack u fs bo bm al = Ok (bm', al', l) -> bm <= bm'.
Proof.
  induction fs as [| [d o] fs IH]; intros bo bm al bm' al' l H; cbn [fields_loop] in H.
  - inversion H; lia.
  - destruct (_ && _) in H; [discriminate|].
    destruct (if o >=? 0 then _ else _) in H; [|discriminate].
    match type of H with
    | match ?X with _ => _ end = _ => destruct X as [[[bm1 al1] l1] |] eqn:E; [|discriminate]
    end.
    inversion H; subst. apply IH in E.
    match type of E with (if ?c then _ else _) <= _ => destruct c eqn:?; lia end.
Qed.

(* ---- lists *)
Lemma zip_eq : forall (reps : list frep) (l : list (Z * Z)),
  map fr_off reps = map fst l -> map fr_size reps = map snd l ->
  map (fun r => (fr_off r, fr_size r)) reps = l.
Proof.
  induction reps as [| r reps IH]; intros [| [a b] l] H1 H2; cbn in *; try discriminate.
  - reflexivity.
  - inversion H1; inversion H2; subst. f_equal. apply IH; assumption.
Qed.

Lemma Forall_map_iff {A B} (f : A -> B) (P : B -> Prop) l :
  Forall P (map f l) <-> Forall (fun x => P (f x)) l.
Proof. induction l; cbn; split; intros H; try constructor; inversion H; subst; auto; apply IHl; auto. Qed.

(* ---- flags *)
Lemma sflags_checked packed :
  let f := struct_flags false packed in
  Z.lor (if has_flag f F_CHECK_FIELDS then SF_STD_FIELD_POS else 0)
        (if has_flag f F_PACKED then SF_PACKED else 0)
  = Z.lor SF_STD_FIELD_POS (if packed then SF_PACKED else 0).
Proof. destruct packed; reflexivity. Qed.

Lemma sflags_partial packed :
  let f := struct_flags true packed in
  Z.lor (if has_flag f F_CHECK_FIELDS then SF_STD_FIELD_POS else 0)
        (if has_flag f F_PACKED then SF_PACKED else 0)
  = (if packed then SF_PACKED else 0).
Proof. destruct packed; reflexivity. Qed.

Definition wf_report (rep : report) : Prop :=
  Forall (fun r => 0 <= fr_off r) (r_fields rep) /\ 0 <= r_size rep /\ 0 <= r_align rep.

(* ---- main theorem, checked structs *)
Theorem struct_checked : forall packed u decl rep Lnat,
  length decl = length (r_fields rep) -> wf_report rep ->
  Forall (fun d => pow2 (fd_align d)) decl ->
  natural packed u decl = Ok Lnat ->
  (report_layout rep = Lnat ->
     realize_struct (struct_flags false packed) u decl rep = Ok (report_layout rep)) /\
  (report_layout rep <> Lnat ->
     realize_struct (struct_flags false packed) u decl rep = Err FFIError).
Proof.
  intros packed u decl rep Lnat Hlen (Hoff & Hsz & Hal) Hpow Hnat.
  unfold realize_struct. rewrite sflags_checked.
  unfold natural, complete in Hnat.
  set (sn := if packed then SF_PACKED else 0) in *.
  set (sf := Z.lor SF_STD_FIELD_POS sn).
  assert (Hpack : (if negb (Z.land sf SF_PACKED =? 0) then 1 else SF_DEFAULT_PACKING)
                  = (if negb (Z.land sn SF_PACKED =? 0) then 1 else SF_DEFAULT_PACKING))
    by (subst sf sn; destruct packed; reflexivity).
  assert (Hstd : std sf = true) by (subst sf sn; destruct packed; reflexivity).
  set (pack := if negb (Z.land sn SF_PACKED =? 0) then 1 else SF_DEFAULT_PACKING) in *.
  assert (Hppow : pow2 pack).
  { subst pack sn. destruct packed; cbn; [exists 0 | exists 30]; split; try lia; reflexivity. }
  destruct (fields_loop sn pack u (map (fun d => (d, -1)) decl) 0 0 1)
    as [[[bm al] l] |] eqn:Eloop; [|discriminate].
  change (-1 <? 0) with true in Hnat. cbv iota in Hnat.
  set (asz := if roundup bm al =? 0 then 1 else roundup bm al) in *.
  inversion Hnat; subst Lnat; clear Hnat.
  pose proof (loop_sizes _ _ _ _ _ _ _ _ _ _ Eloop) as Hsizes.
  rewrite map_map in Hsizes. cbn [fst] in Hsizes.
  assert (Halpow : pow2 al).
  { eapply loop_align_pow2; [exact Hppow | exists 0; split; [lia | reflexivity] | | exact Eloop].
    apply Forall_map_iff. cbn [fst]. exact Hpow. }
  pose proof (loop_max_ge _ _ _ _ _ _ _ _ _ _ Eloop) as Hbm.
  assert (Hasz : bm <= asz).
  { subst asz. pose proof (roundup_ge bm al Halpow). destruct (Z.eqb_spec (roundup bm al) 0); lia. }
  unfold report_layout.
  destruct (realize_fields_spec decl (r_fields rep) Hlen Hoff) as [[Hrf Hsz_eq] | [Hrf Hsz_ne]];
    rewrite Hrf.
  2:{ split; intros H; [|reflexivity]. exfalso. apply Hsz_ne.
      inversion H as [[H1 H2 H3]].
      transitivity (map snd l); [symmetry; exact Hsizes | rewrite <- H1, map_map; reflexivity]. }
  unfold complete. rewrite Hpack. fold pack.
  destruct (loop_checked sn sf pack u decl (map fr_off (r_fields rep)) 0 0 1 bm al l
              ltac:(rewrite map_length; exact Hlen)
              ltac:(apply Forall_map_iff; exact Hoff) Hstd Eloop) as [Lok Lbad].
  destruct (list_eq_dec Z.eq_dec (map fr_off (r_fields rep)) (map fst l)) as [Hoffs | Hoffs].
  2:{ rewrite (Lbad Hoffs). split; intros H; [|reflexivity]. exfalso. apply Hoffs.
      inversion H as [[H1 H2 H3]]. try rewrite <- H1. rewrite map_map. reflexivity. }
  rewrite (Lok Hoffs). fold asz.
  assert (Hs0 : (r_size rep <? 0) = false) by lia. rewrite Hs0.
  assert (Ha0 : (r_align rep <? 0) = false) by lia. rewrite Ha0.
  rewrite !detect_std by exact Hstd.
  assert (Hfields : map (fun r => (fr_off r, fr_size r)) (r_fields rep) = l).
  { apply zip_eq; [exact Hoffs | rewrite <- Hsz_eq; symmetry; exact Hsizes]. }
  destruct (Z.eqb_spec (r_size rep) asz) as [Hs | Hs].
  2:{ split; intros H; [|reflexivity]. inversion H; contradiction. }
  assert (Hs1 : (r_size rep <? bm) = false) by lia. rewrite Hs1.
  destruct (Z.eqb_spec (r_align rep) al) as [Ha | Ha].
  2:{ split; intros H; [|reflexivity]. inversion H; contradiction. }
  split; intros H; [| exfalso; apply H; congruence].
  rewrite Hfields. reflexivity.
Qed.

(* ---- main theorem, partial structs ("...") *)
Definition rep_end (reps : list frep) : Z :=
  fold_left (fun m r => let e := if fr_size r >=? 0 then fr_off r + fr_size r else fr_off r in
                        if e >? m then e else m) reps 0.

Lemma fold_end_eq : forall decl reps m,
  length decl = length reps -> map fd_size decl = map fr_size reps ->
  fold_left step_end (combine decl (map fr_off reps)) m
  = fold_left (fun m r => let e := if fr_size r >=? 0 then fr_off r + fr_size r else fr_off r in
                          if e >? m then e else m) reps m.
Proof.
  induction decl as [| d decl IH]; intros [| r reps] m Hlen Hs; cbn in *; try discriminate.
  - reflexivity.
  - inversion Hs as [[H1 H2]]. rewrite IH by (auto; lia). unfold step_end. cbn [fst snd].
    rewrite H1. reflexivity.
Qed.

Theorem struct_partial : forall packed u decl rep,
  length decl = length (r_fields rep) -> wf_report rep ->
  (map fd_size decl <> map fr_size (r_fields rep) ->
     realize_struct (struct_flags true packed) u decl rep = Err FFIError) /\
  (map fd_size decl = map fr_size (r_fields rep) -> r_size rep < rep_end (r_fields rep) ->
     realize_struct (struct_flags true packed) u decl rep = Err TypeError) /\
  (map fd_size decl = map fr_size (r_fields rep) -> rep_end (r_fields rep) <= r_size rep ->
     realize_struct (struct_flags true packed) u decl rep = Ok (report_layout rep)).
Proof.
  intros packed u decl rep Hlen (Hoff & Hsz & Hal).
  unfold realize_struct. rewrite sflags_partial.
  set (sf := if packed then SF_PACKED else 0).
  assert (Hstd : std sf = false) by (subst sf; destruct packed; reflexivity).
  destruct (realize_fields_spec decl (r_fields rep) Hlen Hoff) as [[Hrf Hs] | [Hrf Hs]]; rewrite Hrf.
  2:{ repeat split; intros; try reflexivity; contradiction. }
  split; [intros; contradiction|].
  unfold complete.
  edestruct (loop_unchecked sf (if negb (Z.land sf SF_PACKED =? 0) then 1 else SF_DEFAULT_PACKING)
               u decl (map fr_off (r_fields rep)) 0 0 1) as [al' ->];
    [rewrite map_length; exact Hlen | apply Forall_map_iff; exact Hoff | exact Hstd |].
  rewrite (fold_end_eq decl (r_fields rep) 0 Hlen Hs). fold (rep_end (r_fields rep)).
  assert (Hs0 : (r_size rep <? 0) = false) by lia. rewrite Hs0.
  assert (Ha0 : (r_align rep <? 0) = false) by lia. rewrite Ha0.
  match goal with |- context [detect_custom_layout sf ?a (r_size rep)] =>
    destruct (detect_nostd sf a (r_size rep) Hstd) as [x1 ->] end.
  destruct (detect_nostd sf al' (r_align rep) Hstd) as [x2 Hx2].
  split; intros _ Hend; unfold rep_end in Hend.
  - match goal with |- context [r_size rep <? ?e] =>
      assert (Hlt : (r_size rep <? e) = true) by (apply Z.ltb_lt; exact Hend); rewrite Hlt end. reflexivity.
  - match goal with |- context [r_size rep <? ?e] =>
      assert (Hlt : (r_size rep <? e) = false) by (apply Z.ltb_ge; exact Hend); rewrite Hlt end.
    rewrite Hx2. unfold report_layout. f_equal. f_equal.
    clear - Hlen Hs. revert Hlen Hs. generalize (r_fields rep) as reps.
    induction decl as [| d decl IH]; intros [| r reps] Hlen Hs; cbn in *; try discriminate.
    + reflexivity.
    + inversion Hs. f_equal. apply IH; [lia | assumption].
Qed.

(* whatever the flags, a successful realisation yields the compiler's report, never the
   cdef's own layout *)
Theorem struct_layout_is_report : forall partial packed u decl rep Lnat L,
  length decl = length (r_fields rep) -> wf_report rep ->
  Forall (fun d => pow2 (fd_align d)) decl ->
  natural packed u decl = Ok Lnat ->
  realize_struct (struct_flags partial packed) u decl rep = Ok L -> L = report_layout rep.
Proof.
  intros [|] packed u decl rep Lnat L Hlen Hwf Hpow Hnat H.
  - destruct (struct_partial packed u decl rep Hlen Hwf) as (H1 & H2 & H3).
    destruct (list_eq_dec Z.eq_dec (map fd_size decl) (map fr_size (r_fields rep))) as [E | E].
    + destruct (Z_lt_le_dec (r_size rep) (rep_end (r_fields rep))) as [Hl | Hl].
      * rewrite (H2 E Hl) in H. discriminate.
      * rewrite (H3 E Hl) in H. congruence.
    + rewrite (H1 E) in H. discriminate.
  - destruct (struct_checked packed u decl rep Lnat Hlen Hwf Hpow Hnat) as [H1 H2].
    assert (Hd : {report_layout rep = Lnat} + {report_layout rep <> Lnat}).
    { destruct Lnat as [lf ls la]. unfold report_layout.
      destruct (list_eq_dec (fun a b : Z * Z =>
                  ltac:(decide equality; apply Z.eq_dec) : {a = b} + {a <> b})
                  (map (fun r => (fr_off r, fr_size r)) (r_fields rep)) lf);
      destruct (Z.eq_dec (r_size rep) ls); destruct (Z.eq_dec (r_align rep) la);
        try (left; congruence); right; congruence. }
    destruct Hd as [E | E].
    + rewrite (H1 E) in H. congruence.
    + rewrite (H2 E) in H. discriminate.
Qed.
