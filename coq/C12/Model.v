(* C12 — model of the API-mode checks.

   (a) integer constants / macros / enumerators
       generated getter        src/cffi/recompiler.py:1054  Recompiler._generate_cpy_const
             static int _cffi_const_X(unsigned long long *o) {
               int n = (X) <= 0;
               *o = (unsigned long long)((X) | 0);
               if (!_cffi_check_int(*o, n, <check_value>))    -- only when a check_value is passed
                 n |= 2;
               return n; }
         the two expressions, the literal rule ('%dU' when > 0) and the macro _cffi_check_int
         (src/cffi/_cffi_include.h:385) are NOT written here: they are the regenerated
         definitions of C12/Gen.v, interpreted by Spec.ceval.
       decision at run time    src/c/realize_c_type.c:228    realize_global_int
                               src/c/lib_obj.c:292           lib_build_and_cache_attr (calls it)

   (b) structs and unions
       table emitted by        src/cffi/recompiler.py:894    Recompiler._struct_ctx
             per field  offsetof(S, f), sizeof(((S *)0)->f);  per struct sizeof(S),
             offsetof(struct _cffi_align_S, y);  flags _CFFI_F_CHECK_FIELDS unless partial ("...")
       consumed by             src/c/realize_c_type.c:785    do_realize_lazy_struct_lock_held
                               src/c/_cffi_backend.c:5123    detect_custom_layout
                               src/c/_cffi_backend.c:5149    b_complete_struct_or_union_lock_held
       Scope of (b): named fields that are not bitfields (bitfields and the fields of unnamed
       structs carry offset (size_t)-1 and are laid out by the ABI algorithm without any check —
       the [fr_off = -1] branch of [realize_fields] is kept, the bit cursor is not modelled;
       that algorithm is the subject of C01/C02).  Nested anonymous struct fields are not
       modelled either (such structs never get _CFFI_F_CHECK_FIELDS, recompiler.py:908). *)
From Coq Require Import ZArith List Bool Lia.
Import ListNotations.
From Cffi Require Import C12.Spec C12.Gen.
Local Open Scope Z_scope.

Inductive errclass := FFIError | TypeError
  | BuildError.   (* VerificationError raised while the module is generated/compiled *)
Inductive res (A : Type) := Ok (a : A) | Err (e : errclass).
Arguments Ok {A} a.
Arguments Err {A} e.

(* ------------------------------------------------------------------ (a) constants *)

(* what C sees for Python's '%dU' % v (v > 0) resp. '%d' % v: a negative number is unary
   minus applied to a decimal literal *)
Definition check_literal (v : Z) : cexpr :=
  let u := gen_check_suffixU v in
  if v <? 0 then ENeg (ELit u (- v)) else ELit u v.

(* the generated getter, for a C constant expression X of (promoted) type T and value c;
   chk = Some e when the cdef gives the value e, None for '...' and for declarations that
   pass no check_value.  Result: (return value n, *o).  None = outside the modelled C. *)
Definition rho_X (T : cty) (c : Z) : env :=
  fun v => match v with VX => Some (T, c) | _ => None end.
Definition rho_check (o n : Z) (lv : cty * Z) : env :=
  fun v => match v with
           | Vgot => Some (u64, o)            (* *o : unsigned long long *)
           | Vgot_nonpos => Some (s32, n)     (* n : int *)
           | Vexpected => Some lv             (* the literal; it has no side effect, so binding
                                                 its typed value equals textual substitution *)
           | VX => None
           end.

Definition const_getter (T : cty) (c : Z) (chk : option Z) : option (Z * Z) :=
  let rho0 := rho_X T c in
  match ceval rho0 gen_const_n, ceval rho0 gen_const_o with
  | Some (_, n0), Some (_, o0) =>
      let n := conv s32 n0 in            (* int n = ...; *)
      let o := conv u64 o0 in            (* *o = ...;  o is unsigned long long* *)
      match chk with
      | None => Some (n, o)
      | Some e =>
          match ceval rho0 (check_literal e) with
          | Some lv =>
              match ceval (rho_check o n lv) macro_cffi_check_int with
              | Some (_, ok) => Some (if ok =? 0 then Z.lor n gen_check_fail_bits else n, o)
              | None => None
              end
          | None => None
          end
      end
  | _, _ => None
  end.

Definition LONG_MAX : Z := 2 ^ 63 - 1.
Definition LONG_MIN : Z := - 2 ^ 63.

(* realize_c_type.c:228-269 *)
Definition realize_global_int (neg value : Z) : res Z :=
  if neg =? 0 then
    (if value <=? LONG_MAX then Ok (conv s64 value)        (* PyLong_FromLong((long)value) *)
     else Ok value)                                        (* PyLong_FromUnsignedLongLong *)
  else if neg =? 1 then
    (if conv s64 value >=? LONG_MIN then Ok (conv s64 value)
     else Ok (conv s64 value))                             (* PyLong_FromLongLong *)
  else Err FFIError.                                       (* "the C compiler says ... but the cdef disagrees" *)

Inductive const_kind :=
| KMacro                (* '#define X <value>' / '#define X ...' / 'static const <int type> X;' *)
| KEnumerator           (* enumerator of an enum declared without '...' *)
| KEnumeratorPartial.   (* enumerator of 'enum e { A = 5, ... };' *)

(* which value the recompiler passes as check_value *)
Definition check_value_of (k : const_kind) (cdef : option Z) : option Z :=
  match k with
  | KMacro => if gen_macro_checked then cdef else None
  | KEnumerator => if gen_enumerator_checked then cdef else None
  | KEnumeratorPartial => if gen_partial_enumerator_checked then cdef else None
  end.

(* lib.X for a constant X of kind k whose C value is c (of promoted type T), declared in the
   cdef with value [cdef] (None = '...') *)
Definition lib_constant (k : const_kind) (T : cty) (c : Z) (cdef : option Z) : option (res Z) :=
  match check_value_of k cdef with
  | Some e =>
      if negb (gen_check_in_domain e) then Some (Err BuildError)   (* recompiler refuses to emit it *)
      else match const_getter T c (Some e) with
           | Some (n, o) => Some (realize_global_int n o)
           | None => None
           end
  | None =>
      match const_getter T c None with
      | Some (n, o) => Some (realize_global_int n o)
      | None => None
      end
  end.

(* ------------------------------------------------------------------ (c) a constant as array length

   src/c/parse_c_type.c:404-428  parse_sequel(), `case TOK_IDENTIFIER:` between '[' and ']':
   ffi.typeof("char[N]"), ffi.new("char[N]"), ffi.cast("int( * )[N]", p), ffi.sizeof("char[N]") on the
   ffi of an API-mode module look N up among the module's globals (search_in_globals); for an
   integer constant / macro (_CFFI_OP_CONSTANT_INT) or an enumerator (_CFFI_OP_ENUM) the SAME
   generated getter as for lib.N is called, and its return code and value are interpreted by the
   statements regenerated as Gen.gen_ps_const_length.  (A name that is not such a global gives
   "expected a positive integer constant"; not modelled: it is not a constant.) *)
Definition const_array_length (k : const_kind) (T : cty) (c : Z) (cdef : option Z)
  : option (res ps_len) :=
  let accepted := match k with
                  | KMacro => gen_ps_length_from_constant_int
                  | KEnumerator | KEnumeratorPartial => gen_ps_length_from_enumerator
                  end in
  if negb accepted then Some (Ok (PSErr PSNotPositive))
  else
    match check_value_of k cdef with
    | Some e =>
        if negb (gen_check_in_domain e) then Some (Err BuildError)
        else match const_getter T c (Some e) with
             | Some (n, o) => Some (Ok (gen_ps_const_length n o))
             | None => None
             end
    | None =>
        match const_getter T c None with
        | Some (n, o) => Some (Ok (gen_ps_const_length n o))
        | None => None
        end
    end.

(* what an array length given by a constant of C value c must be: the value itself when it is a
   valid length (0 <= c <= SSIZE_MAX), an error otherwise *)
Definition SSIZE_MAX : Z := 2 ^ 63 - 1.
Definition length_of_value (c : Z) : ps_len :=
  if c <? 0 then PSErr PSNotPositive
  else if c <=? SSIZE_MAX then PSLen c
  else PSErr PSTooLarge.

(* ------------------------------------------------------------------ (b) structs *)

Record fdecl := mkfdecl { fd_size : Z;     (* ct_size of the declared field type; -1 for T[] *)
                          fd_align : Z }.  (* its alignment *)
Record frep := mkfrep { fr_off : Z;        (* offsetof, from the C compiler *)
                        fr_size : Z }.     (* sizeof the field, from the C compiler *)
Record report := mkreport { r_fields : list frep; r_size : Z; r_align : Z }.
Record layout := mklayout { l_fields : list (Z * Z);   (* offset, size *)
                            l_size : Z; l_align : Z }.

(* _cffi_backend.c:5123; the result tells whether CT_CUSTOM_FIELD_POS gets set *)
Definition detect_custom_layout (sflags cdef_value compiler_value : Z) : res bool :=
  if negb (compiler_value =? cdef_value) then
    (if negb (Z.land sflags SF_STD_FIELD_POS =? 0) then Err FFIError else Ok true)
  else Ok false.

(* realize_c_type.c:821-866: the loop over the fields, before the call to
   b_complete_struct_or_union_lock_held *)
Fixpoint realize_fields (fs : list (fdecl * frep)) : res unit :=
  match fs with
  | [] => Ok tt
  | (d, r) :: fs' =>
      if fr_off r =? -1 then realize_fields fs'      (* positions and sizes not checked *)
      else
        match detect_custom_layout realize_field_check_sflags (fd_size d) (fr_size r) with
        | Err e => Err e
        | Ok _ => realize_fields fs'
        end
  end.

Definition SF_DEFAULT_PACKING : Z := 1073741824.    (* 0x40000000 *)

(* (x + a-1) & ~(a-1) *)
Definition roundup (x a : Z) : Z := Z.land (x + a - 1) (Z.lnot (a - 1)).

(* _cffi_backend.c:5194-5472 restricted to fbitsize < 0 and named fields.
   fs: (declared field, forced offset or -1).  State: byteoffset, byteoffsetmax, alignment.
   Result: byteoffsetmax, alignment, the fields (offset, size). *)
Fixpoint fields_loop (sflags pack : Z) (is_union : bool) (fs : list (fdecl * Z))
         (byteoffset byteoffsetmax alignment : Z) : res (Z * Z * list (Z * Z)) :=
  match fs with
  | [] => Ok (byteoffsetmax, alignment, [])
  | (d, foffset) :: fs' =>
      let is_last := match fs' with [] => true | _ => false end in
      if (fd_size d <? 0) && negb (is_last || negb (foffset =? -1)) then
        Err TypeError                                (* "has ctype ... of unknown size" *)
      else
        let byteoffset := if is_union then 0 else byteoffset in
        let falignorg := fd_align d in
        let falign := if pack <? falignorg then pack else falignorg in
        let alignment := if alignment <? falign then falign else alignment in
        let byteoffset := roundup byteoffset falign in
        match (if foffset >=? 0 then detect_custom_layout sflags byteoffset foffset
               else Ok false) with
        | Err e => Err e
        | Ok _ =>
            let byteoffset := if foffset >=? 0 then foffset else byteoffset in
            let fld := (byteoffset, fd_size d) in
            let byteoffset := if fd_size d >=? 0 then byteoffset + fd_size d else byteoffset in
            let byteoffsetmax := if byteoffset >? byteoffsetmax then byteoffset else byteoffsetmax in
            match fields_loop sflags pack is_union fs' byteoffset byteoffsetmax alignment with
            | Err e => Err e
            | Ok (bm, al, l) => Ok (bm, al, fld :: l)
            end
        end
  end.

(* _cffi_backend.c:5149 with pack = 0 (what do_realize_lazy_struct passes) *)
Definition complete (sflags : Z) (is_union : bool) (fs : list (fdecl * Z))
           (totalsize totalalignment : Z) : res layout :=
  let pack := if negb (Z.land sflags SF_PACKED =? 0) then 1 else SF_DEFAULT_PACKING in
  match fields_loop sflags pack is_union fs 0 0 1 with
  | Err e => Err e
  | Ok (byteoffsetmax, alignment, l) =>
      let alignedsize := roundup byteoffsetmax alignment in
      let alignedsize := if alignedsize =? 0 then 1 else alignedsize in
      match (if totalsize <? 0 then Ok alignedsize
             else match detect_custom_layout sflags alignedsize totalsize with
                  | Err e => Err e
                  | Ok _ => if totalsize <? byteoffsetmax then Err TypeError else Ok totalsize
                  end) with
      | Err e => Err e
      | Ok totalsize =>
          match (if totalalignment <? 0 then Ok alignment
                 else match detect_custom_layout sflags alignment totalalignment with
                      | Err e => Err e
                      | Ok _ => Ok totalalignment
                      end) with
          | Err e => Err e
          | Ok ta => Ok (mklayout l totalsize ta)
          end
      end
  end.

Definition has_flag (flags f : Z) : bool := negb (Z.land flags f =? 0).

(* do_realize_lazy_struct_lock_held, for the table entry (flags, fields, size, alignment)
   that the C compiler produced from the recompiler's output *)
Definition realize_struct (flags : Z) (is_union : bool) (decl : list fdecl) (rep : report)
  : res layout :=
  match realize_fields (combine decl (r_fields rep)) with
  | Err e => Err e
  | Ok _ =>
      let sflags := Z.lor (if has_flag flags F_CHECK_FIELDS then SF_STD_FIELD_POS else 0)
                          (if has_flag flags F_PACKED then SF_PACKED else 0) in
      complete sflags is_union (combine decl (map fr_off (r_fields rep)))
               (r_size rep) (r_align rep)
  end.

(* _struct_ctx: which flags a (non-opaque, non-included) struct declaration gets *)
Definition struct_flags (partial packed : bool) : Z :=
  Z.lor (if partial then 0 else F_CHECK_FIELDS) (if packed then F_PACKED else 0).

(* "what the cdef implies": the same layout function with no forced offset, no forced size
   and no forced alignment (this is what ABI mode computes; C01 compares it with gcc) *)
Definition natural (packed is_union : bool) (decl : list fdecl) : res layout :=
  complete (if packed then SF_PACKED else 0) is_union (map (fun d => (d, -1)) decl) (-1) (-1).

Definition report_layout (rep : report) : layout :=
  mklayout (map (fun r => (fr_off r, fr_size r)) (r_fields rep)) (r_size rep) (r_align rep).

(* ------------------------------------------------------------------ comparison helpers
   used by the correspondence run (outputs of the implementation are written as these) *)
Definition err_eqb (a b : errclass) : bool :=
  match a, b with FFIError, FFIError | TypeError, TypeError | BuildError, BuildError => true | _, _ => false end.

Definition resZ_eqb (a b : option (res Z)) : bool :=
  match a, b with
  | Some (Ok x), Some (Ok y) => x =? y
  | Some (Err x), Some (Err y) => err_eqb x y
  | None, None => true
  | _, _ => false
  end.

Fixpoint zz_list_eqb (a b : list (Z * Z)) : bool :=
  match a, b with
  | [], [] => true
  | (x1, y1) :: a', (x2, y2) :: b' => (x1 =? x2) && (y1 =? y2) && zz_list_eqb a' b'
  | _, _ => false
  end.

Definition layout_eqb (a b : layout) : bool :=
  zz_list_eqb (l_fields a) (l_fields b) && (l_size a =? l_size b) && (l_align a =? l_align b).

Definition reslayout_eqb (a b : res layout) : bool :=
  match a, b with
  | Ok x, Ok y => layout_eqb x y
  | Err x, Err y => err_eqb x y
  | _, _ => false
  end.

Definition ps_err_eqb (a b : ps_err) : bool :=
  match a, b with
  | PSTooLarge, PSTooLarge | PSDisagree, PSDisagree | PSNotPositive, PSNotPositive => true
  | _, _ => false
  end.

Definition reslen_eqb (a b : option (res ps_len)) : bool :=
  match a, b with
  | Some (Ok (PSLen x)), Some (Ok (PSLen y)) => x =? y
  | Some (Ok (PSErr x)), Some (Ok (PSErr y)) => ps_err_eqb x y
  | Some (Err x), Some (Err y) => err_eqb x y
  | None, None => true
  | _, _ => false
  end.
