(* C12 — proofs, part (c): a constant's name used as an array length in a run-time type string
   (parse_c_type.c parse_sequel; the decision is the regenerated Gen.gen_ps_const_length). *)
From Coq Require Import ZArith List Bool Lia ZifyBool.
Import ListNotations.
From Cffi Require Import C12.Spec C12.Gen C12.Model C12.Proofs.
Local Open Scope Z_scope.
Ltac Zify.zify_post_hook ::= Z.to_euclidean_division_equations.

Lemma max_ssize_t_value : gen_MAX_SSIZE_T = 2 ^ 63 - 1.
Proof. reflexivity. Qed.

Ltac ps_fin :=
  split_ifs; try reflexivity; try (exfalso; lia); try (f_equal; lia).

(* the decision, for every return code and every value *)
Lemma ps_decision : forall neg value,
  - 2 ^ 31 <= neg < 2 ^ 31 -> 0 <= value < 2 ^ 64 ->
  gen_ps_const_length neg value =
    if neg =? 0 then (if value <=? 2 ^ 63 - 1 then PSLen value else PSErr PSTooLarge)
    else if neg =? 1 then (if value =? 0 then PSLen 0 else PSErr PSNotPositive)
    else PSErr PSDisagree.
Proof.
  intros neg value Hn Hv. unfold gen_ps_const_length. rewrite max_ssize_t_value.
  pows. pows. ps_fin.
Qed.

(* return codes other than 0 and 1 (the getter's "the C compiler disagrees with the cdef":
   2 = disagreement on a positive value, 3 = on a value <= 0) never give a length *)
Lemma ps_mismatch_code : forall neg value,
  - 2 ^ 31 <= neg < 2 ^ 31 -> 0 <= value < 2 ^ 64 -> neg <> 0 -> neg <> 1 ->
  gen_ps_const_length neg value = PSErr PSDisagree.
Proof.
  intros neg value Hn Hv N0 N1. rewrite ps_decision by lia. ps_fin.
Qed.

(* a length that comes out is gc.value, it is a valid ssize_t, and the return code said
   "agrees" (0 or 1) *)
Lemma ps_length_is_value : forall neg value n,
  - 2 ^ 31 <= neg < 2 ^ 31 -> 0 <= value < 2 ^ 64 ->
  gen_ps_const_length neg value = PSLen n ->
  n = value /\ 0 <= n <= 2 ^ 63 - 1 /\ (neg = 0 \/ neg = 1).
Proof.
  intros neg value n Hn Hv. rewrite ps_decision by lia. pows.
  split_ifs; intros H; inversion H; subst; lia.
Qed.

Lemma b2z_range b : - 2 ^ 31 <= b2z b < 2 ^ 31.
Proof. destruct b; unfold b2z; pows; lia. Qed.

Lemma lor_fail_range b : - 2 ^ 31 <= Z.lor (b2z b) gen_check_fail_bits < 2 ^ 31.
Proof.
  destruct b; unfold b2z;
    [change (Z.lor 1 gen_check_fail_bits) with 3 | change (Z.lor 0 gen_check_fail_bits) with 2];
    pows; lia.
Qed.

Lemma ps_of_agreeing c : - 2 ^ 63 <= c < 2 ^ 64 ->
  gen_ps_const_length (b2z (c <=? 0)) (c mod 2 ^ 64) = length_of_value c.
Proof.
  intros C. rewrite ps_decision by (try apply b2z_range; pows; lia).
  unfold length_of_value, SSIZE_MAX, b2z. pows.
  destruct (Z.leb_spec c 0).
  - change (1 =? 0) with false. change (1 =? 1) with true. cbv iota.
    destruct (Z.eqb_spec c 0) as [-> | N]; [reflexivity|].
    ps_fin.
  - change (0 =? 0) with true. cbv iota.
    assert (Hm : c mod 18446744073709551616 = c) by lia. rewrite Hm. ps_fin.
Qed.

Lemma ps_of_disagreeing c : - 2 ^ 63 <= c < 2 ^ 64 ->
  gen_ps_const_length (Z.lor (b2z (c <=? 0)) gen_check_fail_bits) (c mod 2 ^ 64) =
  PSErr PSDisagree.
Proof.
  intros C. apply ps_mismatch_code; try apply lor_fail_range; try (pows; lia);
    destruct (c <=? 0); cbn [b2z];
      [change (Z.lor 1 gen_check_fail_bits) with 3 | change (Z.lor 0 gen_check_fail_bits) with 2
      | change (Z.lor 1 gen_check_fail_bits) with 3 | change (Z.lor 0 gen_check_fail_bits) with 2];
      discriminate.
Qed.

(* ---- the statements used by Props.v *)

(* checked '#define N <e>' *)
Theorem array_length_checked : forall T c e,
  promoted T -> in_range T c -> - 2 ^ 64 < e < 2 ^ 64 ->
  const_array_length KMacro T c (Some e) =
    Some (Ok (if c =? e then length_of_value c else PSErr PSDisagree)).
Proof.
  intros T c e P R E. unfold const_array_length, check_value_of.
  change gen_ps_length_from_constant_int with true. change gen_macro_checked with true.
  cbv iota. cbn [negb]. cbv iota.
  rewrite (proj2 (in_domain_spec e) E). cbn [negb].
  rewrite (getter_checked T c e P R E).
  pose proof (in_range_promoted T c P R) as C.
  destruct (c =? e).
  - rewrite ps_of_agreeing by exact C. reflexivity.
  - rewrite ps_of_disagreeing by exact C. reflexivity.
Qed.

Theorem array_length_mismatch_raises : forall T c e,
  promoted T -> in_range T c -> - 2 ^ 64 < e < 2 ^ 64 -> c <> e ->
  const_array_length KMacro T c (Some e) = Some (Ok (PSErr PSDisagree)).
Proof.
  intros T c e P R E N. rewrite (array_length_checked T c e P R E).
  destruct (Z.eqb_spec c e); [contradiction|]. reflexivity.
Qed.

(* '#define N ...', 'static const int N;' and (whatever the cdef says) enumerators *)
Theorem array_length_unchecked : forall k T c cdef,
  promoted T -> in_range T c -> check_value_of k cdef = None ->
  const_array_length k T c cdef = Some (Ok (length_of_value c)).
Proof.
  intros k T c cdef P R H. unfold const_array_length. rewrite H.
  assert (A : (match k with KMacro => gen_ps_length_from_constant_int
                        | KEnumerator | KEnumeratorPartial => gen_ps_length_from_enumerator end) = true)
    by (destruct k; reflexivity).
  rewrite A. cbn [negb]. cbv iota.
  rewrite (getter_unchecked T c P R), ps_of_agreeing by exact (in_range_promoted T c P R).
  reflexivity.
Qed.

Theorem array_length_literal_outside_C : forall T c e, e <= - 2 ^ 64 \/ 2 ^ 64 <= e ->
  const_array_length KMacro T c (Some e) = Some (Err BuildError).
Proof.
  intros T c e E. unfold const_array_length, check_value_of.
  change gen_ps_length_from_constant_int with true. change gen_macro_checked with true.
  cbv iota. cbn [negb]. cbv iota.
  assert (D : gen_check_in_domain e = false).
  { destruct (gen_check_in_domain e) eqn:G; [|reflexivity]. apply in_domain_spec in G. lia. }
  rewrite D. reflexivity.
Qed.

(* ---- every kind of declaration for which the recompiler passes a check value (today: macros
   only; enumerators would be covered as soon as _generate_cpy_enum_decl passed their value) *)
Lemma length_accepted k :
  (match k with KMacro => gen_ps_length_from_constant_int
           | KEnumerator | KEnumeratorPartial => gen_ps_length_from_enumerator end) = true.
Proof. destruct k; reflexivity. Qed.

Theorem checked_kind_iff : forall k T c cdef e,
  promoted T -> in_range T c -> - 2 ^ 64 < e < 2 ^ 64 -> check_value_of k cdef = Some e ->
  lib_constant k T c cdef = Some (if c =? e then Ok c else Err FFIError) /\
  const_array_length k T c cdef =
    Some (Ok (if c =? e then length_of_value c else PSErr PSDisagree)).
Proof.
  intros k T c cdef e P R E H. pose proof (in_range_promoted T c P R) as C. split.
  - unfold lib_constant. rewrite H, (proj2 (in_domain_spec e) E). cbn [negb].
    rewrite (getter_checked T c e P R E).
    destruct (c =? e); [rewrite realize_ok by exact C | rewrite realize_fail]; reflexivity.
  - unfold const_array_length. rewrite H, length_accepted, (proj2 (in_domain_spec e) E).
    cbn [negb]. rewrite (getter_checked T c e P R E).
    destruct (c =? e); [rewrite ps_of_agreeing by exact C | rewrite ps_of_disagreeing by exact C];
      reflexivity.
Qed.

Theorem unchecked_kind_value : forall k T c cdef,
  promoted T -> in_range T c -> check_value_of k cdef = None ->
  lib_constant k T c cdef = Some (Ok c).
Proof.
  intros k T c cdef P R H. unfold lib_constant.
  rewrite H, (getter_unchecked T c P R), realize_ok by exact (in_range_promoted T c P R).
  reflexivity.
Qed.

(* the enumerators of a non-partial enum, whatever the regenerated flag says: checked like a macro
   when the recompiler passes their value, the compiler's value silently when it does not *)
Theorem enumerator_by_flag : forall T c e,
  promoted T -> in_range T c -> - 2 ^ 64 < e < 2 ^ 64 ->
  lib_constant KEnumerator T c (Some e) =
    Some (if gen_enumerator_checked then (if c =? e then Ok c else Err FFIError) else Ok c).
Proof.
  intros T c e P R E.
  destruct gen_enumerator_checked eqn:G.
  - apply (checked_kind_iff KEnumerator T c (Some e) e P R E).
    unfold check_value_of. rewrite G. reflexivity.
  - apply unchecked_kind_value; [exact P | exact R |].
    unfold check_value_of. rewrite G. reflexivity.
Qed.

(* enumerators of 'enum e { A = 5, ... }': the compiler's value, silently *)
Theorem partial_enumerator_value : forall T c cdef,
  promoted T -> in_range T c ->
  lib_constant KEnumeratorPartial T c cdef = Some (Ok c) /\
  const_array_length KEnumeratorPartial T c cdef = Some (Ok (length_of_value c)).
Proof.
  intros T c cdef P R. split.
  - apply unchecked_kind_value; [exact P | exact R | reflexivity].
  - apply array_length_unchecked; [exact P | exact R | reflexivity].
Qed.
