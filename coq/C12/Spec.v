(* C12 — specification of the external things the model talks about, written independently
   of the model:

   (1) a deep embedding of the integer C expressions that occur in the generated constant
       getter (recompiler.py:_generate_cpy_const) and in the macro _cffi_check_int
       (_cffi_include.h:385), with an evaluator [ceval] that gives them the meaning gcc gives
       them on an LP64 target: integer types are (signedness, width) with width 32, 64 or 128;
       the usual arithmetic conversions; decimal literals typed as gcc types them
       (unsuffixed: int, long, then __int128 with a warning for 2^63..2^64-1 [observed: sizeof is 16];
       suffix U: unsigned int, unsigned
       long; anything larger is outside C and evaluates to [None]);
       signed overflow of unary minus is undefined behaviour ([None]).
       Types narrower than int never reach the evaluator: every operand is either a
       variable whose value has already been promoted, or a literal.

   (2) nothing else: "what the compiler reports" for a struct is an input of the model
       (Model.report), and "what the cdef implies" is the layout function run without forced
       offsets (Model.natural) — its agreement with gcc is property C01's subject and is
       re-checked against gcc on every case of the C12 correspondence run. *)
From Coq Require Import ZArith List Bool Lia.
Import ListNotations.
Local Open Scope Z_scope.

Record cty := mkty { ty_signed : bool; ty_bits : Z }.

Definition s32 := mkty true 32.
Definition u32 := mkty false 32.
Definition s64 := mkty true 64.
Definition u64 := mkty false 64.
Definition s128 := mkty true 128.

Definition ty_min (t : cty) : Z := if ty_signed t then - 2 ^ (ty_bits t - 1) else 0.
Definition ty_max (t : cty) : Z := if ty_signed t then 2 ^ (ty_bits t - 1) - 1 else 2 ^ ty_bits t - 1.
Definition in_range (t : cty) (z : Z) : Prop := ty_min t <= z <= ty_max t.
Definition in_rangeb (t : cty) (z : Z) : bool := (ty_min t <=? z) && (z <=? ty_max t).

(* conversion to an integer type: modulo 2^bits (for signed targets this is gcc's
   implementation-defined behaviour) *)
Definition conv (t : cty) (z : Z) : Z :=
  let m := 2 ^ ty_bits t in
  let r := z mod m in
  if ty_signed t then (if r <? m / 2 then r else r - m) else r.

(* usual arithmetic conversions for operands that are already promoted *)
Definition uac (a b : cty) : cty :=
  if Bool.eqb (ty_signed a) (ty_signed b) then mkty (ty_signed a) (Z.max (ty_bits a) (ty_bits b))
  else
    let s := if ty_signed a then a else b in
    let u := if ty_signed a then b else a in
    if ty_bits s <=? ty_bits u then mkty false (ty_bits u) else mkty true (ty_bits s).

Inductive var := VX | Vgot | Vgot_nonpos | Vexpected.

Inductive cexpr :=
| EVar (v : var)
| ELit (suffixU : bool) (n : Z)        (* decimal literal, n >= 0 *)
| ENeg (e : cexpr)                     (* unary - *)
| ELe (a b : cexpr)                    (* <= *)
| EEq (a b : cexpr)                    (* == *)
| ELand (a b : cexpr)                  (* && *)
| EBor (a b : cexpr)                   (* | *)
| ECast (t : cty) (e : cexpr).

Definition lit_type (suffixU : bool) (n : Z) : option cty :=
  if n <? 0 then None
  else if suffixU then
    (if n <? 2 ^ 32 then Some u32 else if n <? 2 ^ 64 then Some u64 else None)
  else
    (if n <? 2 ^ 31 then Some s32 else if n <? 2 ^ 63 then Some s64
     else if n <? 2 ^ 64 then Some s128 else None).

Definition env := var -> option (cty * Z).

Definition b2z (b : bool) : Z := if b then 1 else 0.

Fixpoint ceval (rho : env) (e : cexpr) : option (cty * Z) :=
  match e with
  | EVar v => rho v
  | ELit u n => match lit_type u n with Some t => Some (t, n) | None => None end
  | ENeg a =>
      match ceval rho a with
      | Some (t, v) =>
          if ty_signed t then (if in_rangeb t (- v) then Some (t, - v) else None)
          else Some (t, conv t (- v))
      | None => None
      end
  | ELe a b =>
      match ceval rho a, ceval rho b with
      | Some (ta, va), Some (tb, vb) =>
          let t := uac ta tb in Some (s32, b2z (conv t va <=? conv t vb))
      | _, _ => None
      end
  | EEq a b =>
      match ceval rho a, ceval rho b with
      | Some (ta, va), Some (tb, vb) =>
          let t := uac ta tb in Some (s32, b2z (conv t va =? conv t vb))
      | _, _ => None
      end
  | ELand a b =>
      match ceval rho a, ceval rho b with
      | Some (_, va), Some (_, vb) => Some (s32, b2z (negb (va =? 0) && negb (vb =? 0)))
      | _, _ => None
      end
  | EBor a b =>
      match ceval rho a, ceval rho b with
      | Some (ta, va), Some (tb, vb) =>
          let t := uac ta tb in Some (t, conv t (Z.lor (conv t va) (conv t vb)))
      | _, _ => None
      end
  | ECast t a =>
      match ceval rho a with
      | Some (_, v) => Some (t, conv t v)
      | None => None
      end
  end.

(* (3) the outcome of using an identifier as an array length inside a type string given at run
   time to ffi.typeof()/new()/cast()/sizeof() (parse_c_type.c, parse_sequel): a length, or one of
   the three parse errors of that branch (all raised as ffi.error; they differ by message:
   "integer constant too large", "disagreement about this constant's value", "expected a
   positive integer constant") *)
Inductive ps_err := PSTooLarge | PSDisagree | PSNotPositive.
Inductive ps_len := PSLen (n : Z) | PSErr (e : ps_err).
