(* C12/Gen.v — REGENERATED on every run by tools/props/c12.py:regen from
     /repo/src/cffi/recompiler.py   (Recompiler._generate_cpy_const, _generate_cpy_enum_decl,
                                     _generate_cpy_macro_decl)
     /repo/src/cffi/_cffi_include.h (#define _cffi_check_int)
     /repo/src/cffi/parse_c_type.h  (_CFFI_F_CHECK_FIELDS, _CFFI_F_PACKED)
     /repo/src/c/_cffi_backend.c    (SF_PACKED, SF_STD_FIELD_POS)
     /repo/src/c/realize_c_type.c   (flag passed to the per-field size check)
     /repo/src/c/parse_c_type.c     (parse_sequel: array length given by a constant's name; MAX_SSIZE_T)
   Do not edit: this committed copy is the snapshot used when the translator fails. *)
From Coq Require Import ZArith Bool.
From Cffi Require Import C12.Spec.
Local Open Scope Z_scope.

(* _cffi_include.h: #define _cffi_check_int(got, got_nonpos, expected) ((got_nonpos) == (expected <= 0) && (got) == (unsigned long long)expected) *)
Definition macro_cffi_check_int : cexpr :=
  (ELand (EEq (EVar Vgot_nonpos) (ELe (EVar Vexpected) (ELit false 0))) (EEq (EVar Vgot) (ECast (mkty false 64) (EVar Vexpected)))).

(* recompiler.py: int n = (%s) <= 0; *)
Definition gen_const_n : cexpr :=
  (ELe (EVar VX) (ELit false 0)).

(* recompiler.py: *o = (unsigned long long)((%s) | 0); *)
Definition gen_const_o : cexpr :=
  (ECast (mkty false 64) (EBor (EVar VX) (ELit false 0))).

(* recompiler.py: if check_value > 0: check_value = '%dU' % (check_value,) *)
Definition gen_check_suffixU (check_value : Z) : bool := Z.gtb check_value 0.

(* recompiler.py: if not (-(1 << 64) < check_value < (1 << 64)): raise VerificationError(...) *)
Definition gen_check_in_domain (check_value : Z) : bool :=
  Z.ltb (- (Z.shiftl 1 64)) check_value && Z.ltb check_value (Z.shiftl 1 64).

(* recompiler.py: if (!_cffi_check_int( *o, n, <literal>)) n |= 2; *)
Definition gen_check_fail_bits : Z := 2.

(* which declarations pass a check_value to _generate_cpy_const *)
Definition gen_macro_checked : bool := true.
Definition gen_enumerator_checked : bool := false.          (* enum e { A = 5 }; *)
Definition gen_partial_enumerator_checked : bool := false.  (* enum e { A = 5, ... }; *)

Definition F_CHECK_FIELDS : Z := 2.
Definition F_PACKED : Z := 4.
Definition SF_PACKED : Z := 8.
Definition SF_STD_FIELD_POS : Z := 128.
(* realize_c_type.c: detect_custom_layout(ct, SF_STD_FIELD_POS, ctf->ct_size, fld->field_size, ...) *)
Definition realize_field_check_sflags : Z := SF_STD_FIELD_POS.

(* ---- /repo/src/c/parse_c_type.c parse_sequel(): an array length written as the NAME of an integer
   constant or enumerator (globals of kind _CFFI_OP_CONSTANT_INT or _CFFI_OP_ENUM).  The statements
   after `neg = g->address(&gc)`, translated one by one by tools/props/c12_regen.py; neg : int,
   value = gc.value : unsigned long long.  Source text:
     if (neg == 0 && gc.value > MAX_SSIZE_T) return parse_error(tok, "integer constant too large"); if (neg == 0 || (neg == 1 && gc.value == 0)) { length = (size_t)gc.value; break; } if (neg != 1) return parse_error(tok, "disagreement about" " this constant's value");
   then: default: return parse_error(tok, "expected a positive integer constant") *)
(* #define MAX_SSIZE_T (((size_t)-1) >> 1), size_t = unsigned 64-bit *)
Definition gen_MAX_SSIZE_T : Z := Z.shiftr (2 ^ 64 - 1) 1.

Definition gen_ps_const_length (neg value : Z) : ps_len :=
  let v_neg := neg in
  if ((v_neg =? 0) && (value >? gen_MAX_SSIZE_T)) then PSErr PSTooLarge else
  if ((v_neg =? 0) || ((v_neg =? 1) && (value =? 0))) then PSLen value else
  if (negb (v_neg =? 1)) then PSErr PSDisagree else
  PSErr PSNotPositive.

(* the globals that take this branch *)
Definition gen_ps_length_from_constant_int : bool := true.
Definition gen_ps_length_from_enumerator : bool := true.
