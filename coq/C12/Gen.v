(* C12/Gen.v — REGENERATED on every run by tools/props/c12.py:regen from
     /repo/src/cffi/recompiler.py   (Recompiler._generate_cpy_const, _generate_cpy_enum_decl,
                                     _generate_cpy_macro_decl)
     /repo/src/cffi/_cffi_include.h (#define _cffi_check_int)
     /repo/src/cffi/parse_c_type.h  (_CFFI_F_CHECK_FIELDS, _CFFI_F_PACKED)
     /repo/src/c/_cffi_backend.c    (SF_PACKED, SF_STD_FIELD_POS)
     /repo/src/c/realize_c_type.c   (flag passed to the per-field size check)
   Do not edit: this committed copy is the snapshot used when the translator fails. *)
From Coq Require Import ZArith Bool.
From Cffi Require Import C12.Spec.
Local Open Scope Z_scope.

(* _cffi_include.h: #define _cffi_check_int(got, got_nonpos, expected) ((got_nonpos) == (expected <= 0) && (got) == (unsigned long long)expected) *)
Definition macro_cffi_check_int : cexpr :=
  (ELand (EEq (EVar Vgot_nonpos) (ELe (EVar Vexpected) (ELit false 0))) (EEq (EVar Vgot) (ECast (mkty false 64) (EVar Vexpected)))).

(* recompiler.py: int n = (%s) <= 0; *)
Definition gen_const_n : cexpr :=
  (ELe (EVar VX) (ELit false 0)).

(* recompiler.py: *o = (unsigned long long)((%s) | 0); *)
Definition gen_const_o : cexpr :=
  (ECast (mkty false 64) (EBor (EVar VX) (ELit false 0))).

(* recompiler.py: if check_value > 0: check_value = '%dU' % (check_value,) *)
Definition gen_check_suffixU (check_value : Z) : bool := Z.gtb check_value 0.

(* recompiler.py: if not (-(1 << 64) < check_value < (1 << 64)): raise VerificationError(...) *)
Definition gen_check_in_domain (check_value : Z) : bool :=
  Z.ltb (- (Z.shiftl 1 64)) check_value && Z.ltb check_value (Z.shiftl 1 64).

(* recompiler.py: if (!_cffi_check_int( *o, n, <literal>)) n |= 2; *)
Definition gen_check_fail_bits : Z := 2.

(* which declarations pass a check_value to _generate_cpy_const *)
Definition gen_macro_checked : bool := true.
Definition gen_enumerator_checked : bool := false.

Definition F_CHECK_FIELDS : Z := 2.
Definition F_PACKED : Z := 4.
Definition SF_PACKED : Z := 8.
Definition SF_STD_FIELD_POS : Z := 128.
(* realize_c_type.c: detect_custom_layout(ct, SF_STD_FIELD_POS, ctf->ct_size, fld->field_size, ...) *)
Definition realize_field_check_sflags : Z := SF_STD_FIELD_POS.
