(* REGENERATED on every run from more_core() in src/c/malloc_closure.h by tools/props/c29.py
   (translate_more_core); the committed copy is Gen.v.snapshot.  Do not edit. *)
From Coq Require Import ZArith List.
Import ListNotations.
From Cffi Require Import C29.Prog.
Open Scope Z_scope.

Definition more_core_prog : list stmt :=
  [ SAssign VPages (EAdd (EInt 1) (ETruncMulRat (EV VPages) 13 10));
    SAssign VCount (EDiv (EMul (EV VPages) EPagesize) ESizeofBlock);
    SMmap (EMul (EV VPages) EPagesize);
    SThread (EV VCount) ].
