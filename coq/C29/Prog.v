(* C29 — a tiny statement language for the allocation arithmetic of more_core()
   (src/c/malloc_closure.h), its interpreter, and the search for the first growth step at which
   the items threaded onto the free list no longer fit into the block just mapped.
   coq/C29/Gen.v (regenerated from the source text on every run) is a program in this language. *)
From Coq Require Import ZArith NArith List Bool.
Import ListNotations.
Open Scope Z_scope.

Inductive var := VPages | VCount.          (* allocate_num_pages, count *)
Inductive expr :=
| EInt (z : Z)
| EV (v : var)
| EPagesize                                 (* _pagesize *)
| ESizeofBlock                              (* sizeof(union mmapped_block) *)
| EAdd (a b : expr) | ESub (a b : expr) | EMul (a b : expr) | EDiv (a b : expr)
| ETruncMulRat (e : expr) (num den : Z).    (* (Py_ssize_t)(e * <decimal literal num/den>) *)
Inductive cmp := CGt | CGe | CLt | CLe.
Inductive stmt :=
| SAssign (v : var) (e : expr)                        (* v = e; *)
| SIf (c : cmp) (a b : expr) (v : var) (e : expr)     (* if (a c b) v = e; *)
| SMmap (size : expr)                                 (* item = mmap(NULL, size, ...) *)
| SThread (bound : expr).                             (* for (i = 0; i < bound; ++i) { push item; ++item; } *)

Record mstate := { m_pages : Z; m_count : Z; m_mapped : Z; m_threaded : Z }.

Section Exec.
Variables (ps bs : Z).                      (* page size, sizeof(union mmapped_block) *)

Fixpoint eval (s : mstate) (e : expr) : Z :=
  match e with
  | EInt z => z
  | EV VPages => m_pages s
  | EV VCount => m_count s
  | EPagesize => ps
  | ESizeofBlock => bs
  | EAdd a b => eval s a + eval s b
  | ESub a b => eval s a - eval s b
  | EMul a b => eval s a * eval s b
  | EDiv a b => eval s a / eval s b           (* C division on the non-negative values that occur *)
  | ETruncMulRat a n d => (eval s a * n) / d
  end.

Definition test (c : cmp) (x y : Z) : bool :=
  match c with CGt => y <? x | CGe => y <=? x | CLt => x <? y | CLe => x <=? y end.

Definition set (s : mstate) (v : var) (z : Z) : mstate :=
  match v with
  | VPages => {| m_pages := z; m_count := m_count s; m_mapped := m_mapped s; m_threaded := m_threaded s |}
  | VCount => {| m_pages := m_pages s; m_count := z; m_mapped := m_mapped s; m_threaded := m_threaded s |}
  end.

Definition exec1 (s : mstate) (st : stmt) : mstate :=
  match st with
  | SAssign v e => set s v (eval s e)
  | SIf c a b v e => if test c (eval s a) (eval s b) then set s v (eval s e) else s
  | SMmap e => {| m_pages := m_pages s; m_count := m_count s; m_mapped := eval s e; m_threaded := m_threaded s |}
  | SThread e => {| m_pages := m_pages s; m_count := m_count s; m_mapped := m_mapped s; m_threaded := eval s e |}
  end.

(* one call of more_core() entered with allocate_num_pages = n *)
Definition exec (prog : list stmt) (n : Z) : mstate :=
  fold_left exec1 prog {| m_pages := n; m_count := 0; m_mapped := 0; m_threaded := 0 |}.

(* successive calls of more_core(): the first one whose threaded items do not fit into its mapping.
   Result: (number of that growth step, counted from 1; closures handed out by the earlier blocks;
            items that fit into the bad block; items threaded for it) *)
Fixpoint first_overflow (prog : list stmt) (fuel : nat) (step : N) (n total : Z) : option (N * Z * Z * Z) :=
  match fuel with
  | O => None
  | S f =>
      let r := exec prog n in
      if m_mapped r <? m_threaded r * bs
      then Some (N.succ step, total, m_mapped r / bs, m_threaded r)
      else first_overflow prog f (N.succ step) (m_pages r) (total + m_threaded r)
  end.

(* the sizes of the successive blocks, for comparing with observed address patterns *)
Fixpoint block_counts (prog : list stmt) (fuel : nat) (n : Z) : list Z :=
  match fuel with
  | O => []
  | S f => let r := exec prog n in m_threaded r :: block_counts prog f (m_pages r)
  end.
End Exec.
