(* C29 — obligations on the REGENERATED text of more_core() (C29/Gen.v):
   (1) every item it threads onto the free list lies inside the block it has just mapped;
   (2) it computes what the hand model (C29.Model.more_core: grow, count_of) says it computes.
   Both are re-checked on every run against the current source text. *)
From Coq Require Import ZArith NArith List Bool Lia.
Import ListNotations.
From Cffi Require Import C29.Prog C29.Gen C29.Model.
Open Scope Z_scope.

Lemma exec_gen ps bs n :
  exec ps bs more_core_prog n =
  {| m_pages := grow n; m_count := (grow n * ps) / bs; m_mapped := grow n * ps; m_threaded := (grow n * ps) / bs |}.
Proof. unfold exec, more_core_prog, grow. cbn. reflexivity. Qed.

(* for every call of more_core(), whatever allocate_num_pages is on entry: the count items pushed
   onto the free list, each sizeof(union mmapped_block) bytes, fit into the bytes just mapped *)
Theorem gen_threaded_inside_mapping ps bs n :
  0 < ps -> 0 < bs -> 0 <= n ->
  let r := exec ps bs more_core_prog n in
  0 <= m_threaded r /\ m_threaded r * bs <= m_mapped r.
Proof.
  intros Hps Hbs Hn. rewrite exec_gen. cbn [m_threaded m_mapped].
  assert (G : 0 <= grow n) by (unfold grow; assert (0 <= n * 13 / 10) by (apply Z.div_pos; lia); lia).
  generalize dependent (grow n). intros g G.
  split.
  - apply Z.div_pos; [apply Z.mul_nonneg_nonneg; lia|lia].
  - rewrite Z.mul_comm. apply Z.mul_div_le. lia.
Qed.

(* the source text and the hand model agree on the new page count and on the number of items *)
Theorem gen_matches_model c n :
  0 < pagesize c -> 0 < blocksize c -> 0 <= n ->
  let r := exec (pagesize c) (blocksize c) more_core_prog n in
  m_pages r = grow n /\ Z.to_N (m_threaded r) = count_of c (grow n).
Proof. intros Hp Hb Hn. rewrite exec_gen. cbn. split; reflexivity. Qed.

(* hence no growth step ever overflows its mapping *)
Theorem gen_no_overflow ps bs : 0 < ps -> 0 < bs ->
  forall fuel step n total, 0 <= n -> first_overflow ps bs more_core_prog fuel step n total = None.
Proof.
  intros Hps Hbs. induction fuel as [|f IH]; intros step n total Hn; cbn [first_overflow]; auto.
  pose proof (gen_threaded_inside_mapping ps bs n Hps Hbs Hn) as H. cbv zeta in H. destruct H as [_ H].
  apply Z.ltb_ge in H. rewrite H.
  apply IH. rewrite exec_gen. cbn [m_pages]. unfold grow. assert (0 <= n * 13 / 10) by (apply Z.div_pos; lia). lia.
Qed.
