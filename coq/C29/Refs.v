(* C29 — the info tuple of every live callback stays alive: a reference-count layer on top of the
   allocator model.  The tuple built by b_callback is owned by closure->user_data alone (count 1); every
   invocation of the closure runs general_invoke_callback, whose effect on that count is read from the
   regenerated C29/GenInvoke.v (path 0: normal; path k: the k-th `goto error` taken — e.g. an argument
   coming from C that convert_to_object rejects); cdataowninggc_dealloc drops the owning reference.
   If the count reaches 0 the tuple is freed although the closure is still live: the next callback's
   tuple may occupy its memory and the old closure then runs the new callback's function. *)
From Coq Require Import ZArith NArith List Bool Lia.
Import ListNotations.
From Cffi Require Import C29.Model C29.Proofs C29.Invoke C29.GenInvoke.
Open Scope Z_scope.

Record rstate := { base : state; trefs : list (addr * Z) }.   (* closure address -> count of its tuple *)
Definition rinit : rstate := {| base := init; trefs := [] |}.

Fixpoint tremove (a : addr) (l : list (addr * Z)) : list (addr * Z) :=
  match l with
  | [] => []
  | (a', r) :: t => if addr_eqb a a' then tremove a t else (a', r) :: tremove a t
  end.

Inductive rop :=
| RBase (o : op)                (* Create / CreateFail / Drop; Call h = RInvoke h 0 *)
| RInvoke (h : N) (k : nat).    (* the closure of h is invoked and general_invoke_callback takes path k *)

Definition invoke (c : config) (rs : rstate) (h : N) (k : nat) : rstate * out :=
  match lookup N.eqb h (live (base rs)) with
  | None => (rs, OBad)
  | Some a =>
      match lookup addr_eqb a (trefs rs), lookup addr_eqb a (udata (base rs)) with
      | Some r, Some f =>
          let r' := r + delta (path invoke_events (Nat.min k (nfails invoke_events))) in
          (* (there are nfails `goto error` exits; larger k mean the last one) *)
          ({| base := base rs;
              trefs := if r' <=? 0 then tremove a (trefs rs) else (a, r') :: tremove a (trefs rs) |}, OFn f)
      | _, _ => (rs, OBad)        (* the tuple is gone: use after free *)
      end
  end.

Definition rstep (c : config) (rs : rstate) (o : rop) : rstate * out :=
  match o with
  | RInvoke h k => invoke c rs h k
  | RBase (Call h) => invoke c rs h 0
  | RBase (Drop h) =>
      match lookup N.eqb h (live (base rs)) with
      | Some a => let '(s', r) := step c (base rs) (Drop h) in
                  ({| base := s'; trefs := tremove a (trefs rs) |}, r)     (* Py_XDECREF(closure->user_data) *)
      | None => (rs, OBad)
      end
  | RBase o' =>
      let '(s', r) := step c (base rs) o' in
      match r with
      | OAddr a => ({| base := s'; trefs := (a, 1) :: tremove a (trefs rs) |}, r)   (* new tuple, count 1 *)
      | _ => ({| base := s'; trefs := trefs rs |}, r)
      end
  end.

Fixpoint rrun (c : config) (rs : rstate) (h : list rop) : rstate :=
  match h with [] => rs | o :: h' => rrun c (fst (rstep c rs o)) h' end.

Definition rreachable (c : config) (rs : rstate) : Prop := exists h, rs = rrun c rinit h.

(* ---------- the regenerated general_invoke_callback leaves the count unchanged on every path *)
Lemma paths_balanced : all_paths_balanced invoke_events = true.
Proof. reflexivity. Qed.

Lemma delta_zero k : delta (path invoke_events (Nat.min k (nfails invoke_events))) = 0.
Proof.
  pose proof paths_balanced as H. unfold all_paths_balanced in H. rewrite forallb_forall in H.
  assert (Hin : In (Nat.min k (nfails invoke_events)) (seq 0 (S (nfails invoke_events)))) by (apply in_seq; lia).
  specialize (H _ Hin). unfold balanced in H. apply andb_true_iff in H as [H _]. apply Z.eqb_eq in H. exact H.
Qed.

(* ---------- invariant of the layer *)
Definition RInv (rs : rstate) : Prop :=
  Inv (base rs) /\
  forall h a, In (h, a) (live (base rs)) -> exists r, lookup addr_eqb a (trefs rs) = Some r /\ 1 <= r.

Lemma tlookup_remove_other a b l : a <> b -> lookup addr_eqb b (tremove a l) = lookup addr_eqb b l.
Proof.
  intros Hne. induction l as [|[a' r] l IH]; cbn; auto.
  destruct (addr_eqb_spec a a').
  - subst. destruct (addr_eqb_spec b a'); [congruence|auto].
  - cbn. destruct (addr_eqb_spec b a'); auto.
Qed.

Lemma step_create_live c s h f s' a :
  Inv s -> step c s (Create h f) = (s', OAddr a) ->
  live s' = (h, a) :: live s /\ ~ In a (live_addrs s).
Proof.
  intros HI H. cbn [step] in H. destruct (lookup N.eqb h (live s)); [inversion H|].
  destruct (closure_alloc c s) as [[a' s1]|] eqn:Ha; [|inversion H].
  inversion H; subst; clear H. destruct (closure_alloc_inv _ _ _ _ HI Ha) as (A1 & _ & A3 & _).
  cbn. rewrite A3. auto.
Qed.

Lemma step_other_live c s o s' r :
  (forall h f, o <> Create h f) -> (forall h, o <> Drop h) -> step c s o = (s', r) ->
  live s' = live s /\ (forall a, r <> OAddr a).
Proof.
  intros Hc Hd H. destruct o as [h f| |h|h]; cbn [step] in H.
  - exfalso; eapply Hc; eauto.
  - destruct (closure_alloc c s) as [[a s1]|] eqn:Ha; inversion H; subst; cbn.
    + split; [eapply alloc_live; eauto|discriminate].
    + split; [auto|discriminate].
  - exfalso; eapply Hd; eauto.
  - destruct (lookup N.eqb h (live s)); [destruct (lookup addr_eqb a (udata s))|]; inversion H; subst;
      split; auto; discriminate.
Qed.

Lemma rstep_inv c rs o : RInv rs -> RInv (fst (rstep c rs o)).
Proof.
  intros [HI HT].
  assert (INV : forall h k, RInv (fst (invoke c rs h k))).
  { intros h k. unfold invoke. destruct (lookup N.eqb h (live (base rs))) as [a|] eqn:Hh; [|cbn [fst]; split; auto].
    destruct (lookup addr_eqb a (trefs rs)) as [r|] eqn:Hr; [|cbn [fst]; split; auto].
    destruct (lookup addr_eqb a (udata (base rs))) as [f|]; [|cbn [fst]; split; auto].
    rewrite delta_zero, Z.add_0_r. apply lookup_In in Hh. destruct (HT _ _ Hh) as (r0 & Hr0 & Hge).
    assert (r0 = r) by congruence. subst.
    destruct (Z.leb_spec r 0); [lia|]. split; cbn [fst base trefs]; auto.
    intros h' a' Hin. cbn. destruct (addr_eqb_spec a' a) as [->|Hne]; [eauto|].
    rewrite tlookup_remove_other by congruence. eapply HT; eauto. }
  destruct o as [o|h k]; [|apply INV]. destruct o as [h f| |h|h]; cbn [rstep].
  - (* Create *)
    destruct (step c (base rs) (Create h f)) as [s' r] eqn:Hs.
    pose proof (step_inv c (base rs) (Create h f) HI) as HI'. rewrite Hs in HI'. cbn in HI'.
    destruct r as [a| | | |]; split; cbn [fst base trefs]; auto.
    + destruct (step_create_live _ _ _ _ _ _ HI Hs) as [Hl Hn]. rewrite Hl. intros h' a' [E|Hin].
      * inversion E; subst. exists 1. cbn. destruct (addr_eqb_spec a' a'); [split; [auto|lia]|congruence].
      * cbn. destruct (addr_eqb_spec a' a) as [->|Hne].
        -- exfalso. apply Hn. apply (in_map snd) in Hin. exact Hin.
        -- rewrite tlookup_remove_other by congruence. eapply HT; eauto.
    + cbn [step] in Hs. destruct (lookup N.eqb h (live (base rs))); [inversion Hs|].
      destruct (closure_alloc c (base rs)) as [[a s1]|]; inversion Hs.
    + cbn [step] in Hs. destruct (lookup N.eqb h (live (base rs))); [inversion Hs|].
      destruct (closure_alloc c (base rs)) as [[a s1]|]; inversion Hs.
    + cbn [step] in Hs. destruct (lookup N.eqb h (live (base rs))); [inversion Hs|].
      destruct (closure_alloc c (base rs)) as [[a s1]|] eqn:Ha; inversion Hs; subst. auto.
    + cbn [step] in Hs. destruct (lookup N.eqb h (live (base rs))) eqn:Hh; [inversion Hs; subst; auto|].
      destruct (closure_alloc c (base rs)) as [[a s1]|]; inversion Hs.
  - (* CreateFail *)
    destruct (step c (base rs) CreateFail) as [s' r] eqn:Hs.
    pose proof (step_inv c (base rs) CreateFail HI) as HI'. rewrite Hs in HI'. cbn in HI'.
    assert (Hl : live s' = live (base rs) /\ (forall a, r <> OAddr a)).
    { eapply step_other_live; eauto; discriminate. }
    destruct Hl as [Hl Hna]. destruct r as [a| | | |]; [exfalso; eapply Hna; eauto| | | |];
      split; cbn [fst base trefs]; auto; rewrite Hl; auto.
  - (* Drop *)
    destruct (lookup N.eqb h (live (base rs))) as [a|] eqn:Hh; [|cbn [fst]; split; auto].
    destruct (step c (base rs) (Drop h)) as [s' r] eqn:Hs.
    pose proof (step_inv c (base rs) (Drop h) HI) as HI'. rewrite Hs in HI'. cbn in HI'.
    split; cbn [fst base trefs]; auto.
    cbn [step] in Hs. rewrite Hh in Hs. inversion Hs; subst; clear Hs. cbn [closure_free live].
    intros h' a' Hin. apply In_remove_key in Hin as [Hin Hne].
    assert (a' <> a).
    { intros ->. apply Hne. destruct HI as [_ I2 _ _ _ _]. apply lookup_In in Hh.
      eapply snd_inj_of_NoDup; eauto. }
    rewrite tlookup_remove_other by congruence. eapply HT; eauto.
  - apply INV.
Qed.

Lemma rinv_init : RInv rinit.
Proof. split; [apply inv_init|]. cbn. tauto. Qed.

Lemma rrun_inv c h : forall rs, RInv rs -> RInv (rrun c rs h).
Proof. induction h as [|o h IH]; cbn; intros; auto. apply IH. apply rstep_inv; auto. Qed.

(* the info tuple of every live callback is alive, after any history of creations, failed creations,
   drops and invocations along any path of general_invoke_callback — in particular after invocations
   whose arguments could not be converted *)
Theorem tuple_alive_while_live c rs h a :
  rreachable c rs -> In (h, a) (live (base rs)) ->
  exists r, lookup addr_eqb a (trefs rs) = Some r /\ 1 <= r.
Proof. intros [hh ->] Hin. destruct (rrun_inv c hh rinit rinv_init) as [_ HT]; eauto. Qed.

(* hence an invocation of a live callback — whatever path the previous invocations took — finds its
   tuple and runs the function the callback was created with *)
Theorem invoke_runs_own c rs h a k :
  rreachable c rs -> In (h, a) (live (base rs)) ->
  exists f, lookup N.eqb h (made (base rs)) = Some f /\ snd (rstep c rs (RInvoke h k)) = OFn f.
Proof.
  intros [hh ->] Hin. destruct (rrun_inv c hh rinit rinv_init) as [HI HT].
  destruct (HT _ _ Hin) as (r & Hr & Hge).
  destruct HI as [I1 I2 I3 I4 I5 I6]. destruct (I6 _ _ Hin) as (f & F1 & F2).
  exists f. split; auto. cbn [rstep]. unfold invoke.
  rewrite (In_lookup _ _ _ I5 Hin), Hr, F2. reflexivity.
Qed.
