(* C29 — the info tuple of a callback stays alive while it is needed: a reference-count layer on top of the
   allocator model, with invocations that are IN FLIGHT while other operations happen.

   The tuple built by b_callback is owned by closure->user_data alone (count 1).  An invocation of the closure
   runs general_invoke_callback on that tuple; its events (INCREF / DECREF of the tuple, reads of the tuple or
   through pointers borrowed from it, call-outs during which arbitrary Python code runs) come from the
   regenerated C29/GenInvoke.v.  An invocation is suspended at every call-out ([RInvokeEnter] runs it up to its
   first call-out, [RInvokeExit] resumes the innermost one up to its next call-out or its return); while it is
   suspended ANY operation may happen — in particular [Drop h] of the very callback that is running
   (cdataowninggc_dealloc: Py_XDECREF(closure->user_data); cffi_closure_free), creations that take over the
   freed closure address, and nested invocations (also of the same callback).
   Tuples therefore have their own identity (a closure address can be given to a new callback while an
   invocation of its previous owner is still in flight).  Reading a tuple whose count has reached 0 sets
   [uaf]: the next 4-tuple (e.g. the next callback's info tuple) may occupy its memory and the running
   invocation would then use that callback's function, error value and onerror handler. *)
From Coq Require Import ZArith NArith List Bool Lia.
Import ListNotations.
From Cffi Require Import C29.Model C29.Proofs C29.Invoke C29.GenInvoke.
Open Scope Z_scope.

Record frame := { f_tup : N;               (* the tuple (cb_args) this invocation works on *)
                  f_own : Z;               (* ghost: references it holds itself (INCREFs - DECREFs so far) *)
                  f_rest : list gev }.     (* the events still to come on its path *)

Record rstate := {
  base : state;
  tupof : list (addr * N);       (* closure->user_data: closure address -> tuple *)
  trefs : list (N * Z);          (* allocated tuples and their reference counts (absent = freed) *)
  ntup : N;                      (* next tuple identity *)
  frames : list frame;           (* invocations in flight, innermost first *)
  uaf : bool }.                  (* some invocation touched a freed tuple *)
Definition rinit : rstate :=
  {| base := init; tupof := []; trefs := []; ntup := 0; frames := []; uaf := false |}.

Fixpoint tremove (t : N) (l : list (N * Z)) : list (N * Z) :=
  match l with
  | [] => []
  | (t', r) :: l' => if N.eqb t t' then tremove t l' else (t', r) :: tremove t l'
  end.
Definition tset (t : N) (r : Z) (l : list (N * Z)) : list (N * Z) :=
  if r <=? 0 then tremove t l else (t, r) :: tremove t l.            (* count 0: tuple_dealloc *)
Definition tdec (t : N) (l : list (N * Z)) : list (N * Z) :=
  match lookup N.eqb t l with Some r => tset t (r - 1) l | None => l end.
Fixpoint aremove (a : addr) (l : list (addr * N)) : list (addr * N) :=
  match l with
  | [] => []
  | (a', t) :: l' => if addr_eqb a a' then aremove a l' else (a', t) :: aremove a l'
  end.

(* run the events of one invocation on tuple t up to (and including) the next call-out, or to the end.
   Result: the counts, the invocation's own references, Some rest (suspended) / None (returned), and
   whether every touch of the tuple found it allocated *)
Fixpoint advance (t : N) (p : list gev) (tr : list (N * Z)) (own : Z)
  : list (N * Z) * Z * option (list gev) * bool :=
  match p with
  | [] => (tr, own, None, true)
  | e :: p' =>
      match e with
      | GInc => match lookup N.eqb t tr with
                | Some r => advance t p' (tset t (r + 1) tr) (own + 1)
                | None => (tr, own, None, false) end
      | GDec => match lookup N.eqb t tr with
                | Some r => advance t p' (tset t (r - 1) tr) (own - 1)
                | None => (tr, own, None, false) end
      | GUse => match lookup N.eqb t tr with
                | Some _ => advance t p' tr own
                | None => (tr, own, None, false) end
      | GCall => match lookup N.eqb t tr with
                 | Some _ => (tr, own, Some p', true)
                 | None => (tr, own, None, false) end
      | _ => advance t p' tr own
      end
  end.

Inductive rop :=
| RBase (o : op)                  (* Create / CreateFail / Drop / Call (Call: which function is bound, no counts) *)
| RInvokeEnter (h : N) (k : nat)  (* the closure of h is entered; general_invoke_callback takes path k and runs
                                     up to its first call-out *)
| RInvokeExit.                    (* the Python code run by the innermost invocation in flight returns: that
                                     invocation continues to its next call-out, or returns to its C caller *)

Definition finish (rs : rstate) (t : N) (fs : list frame)
                  (res : list (N * Z) * Z * option (list gev) * bool) : rstate :=
  let '(tr, own, rest, ok) := res in
  {| base := base rs; tupof := tupof rs; trefs := tr; ntup := ntup rs;
     frames := match rest with
               | Some q => {| f_tup := t; f_own := own; f_rest := q |} :: fs
               | None => fs end;
     uaf := uaf rs || negb ok |}.

Section Layer.
Variable ev : list gev.           (* the events of general_invoke_callback (instantiated with GenInvoke.invoke_events) *)

Definition enter (rs : rstate) (h : N) (k : nat) : rstate * out :=
  match lookup N.eqb h (live (base rs)) with
  | None => (rs, OBad)
  | Some a =>
      match lookup addr_eqb a (tupof rs), lookup addr_eqb a (udata (base rs)) with
      | Some t, Some f =>
          (* (there are nfails `goto error` exits; larger k mean the last one) *)
          (finish rs t (frames rs) (advance t (path ev (Nat.min k (nfails ev))) (trefs rs) 0), OFn f)
      | _, _ => (rs, OBad)
      end
  end.

Definition resume (rs : rstate) : rstate * out :=
  match frames rs with
  | [] => (rs, OBad)
  | fr :: fs => (finish rs (f_tup fr) fs (advance (f_tup fr) (f_rest fr) (trefs rs) (f_own fr)), ONone)
  end.

Definition rstep (c : config) (rs : rstate) (o : rop) : rstate * out :=
  match o with
  | RInvokeEnter h k => enter rs h k
  | RInvokeExit => resume rs
  | RBase (Drop h) =>
      match lookup N.eqb h (live (base rs)) with
      | Some a =>
          let '(s', r) := step c (base rs) (Drop h) in
          ({| base := s'; tupof := aremove a (tupof rs);                  (* closure->user_data = NULL *)
              trefs := match lookup addr_eqb a (tupof rs) with            (* Py_XDECREF(closure->user_data) *)
                       | Some t => tdec t (trefs rs) | None => trefs rs end;
              ntup := ntup rs; frames := frames rs; uaf := uaf rs |}, r)
      | None => (rs, OBad)
      end
  | RBase o' =>
      let '(s', r) := step c (base rs) o' in
      match r with
      | OAddr a =>                                                        (* new tuple, count 1 *)
          ({| base := s'; tupof := (a, ntup rs) :: aremove a (tupof rs);
              trefs := (ntup rs, 1) :: trefs rs; ntup := N.succ (ntup rs);
              frames := frames rs; uaf := uaf rs |}, r)
      | _ => ({| base := s'; tupof := tupof rs; trefs := trefs rs; ntup := ntup rs;
                 frames := frames rs; uaf := uaf rs |}, r)
      end
  end.

Fixpoint rrun (c : config) (rs : rstate) (h : list rop) : rstate :=
  match h with [] => rs | o :: h' => rrun c (fst (rstep c rs o)) h' end.

Definition rreachable (c : config) (rs : rstate) : Prop := exists h, rs = rrun c rinit h.
End Layer.

(* ---------- bookkeeping: who holds references to tuple t *)
Fixpoint osum (t : N) (l : list (addr * N)) : Z :=            (* closures whose user_data is t *)
  match l with [] => 0 | (_, t') :: l' => (if N.eqb t' t then 1 else 0) + osum t l' end.
Fixpoint fsum (t : N) (fs : list frame) : Z :=                (* references held by invocations in flight *)
  match fs with [] => 0 | fr :: fs' => (if N.eqb (f_tup fr) t then f_own fr else 0) + fsum t fs' end.

Lemma osum_nonneg t l : 0 <= osum t l.
Proof. induction l as [|[a t'] l IH]; cbn; [lia|]. destruct (N.eqb t' t); lia. Qed.

Lemma osum_lookup a t l : lookup addr_eqb a l = Some t -> 1 <= osum t l.
Proof.
  induction l as [|[a' t'] l IH]; cbn; [discriminate|].
  destruct (addr_eqb a a').
  - intros H; inversion H; subst. rewrite N.eqb_refl. pose proof (osum_nonneg t l). lia.
  - intros H. specialize (IH H). destruct (N.eqb t' t); lia.
Qed.

Lemma osum_aremove_le a t l : osum t (aremove a l) <= osum t l.
Proof.
  induction l as [|[a' t'] l IH]; cbn; [lia|].
  destruct (addr_eqb a a'); cbn; destruct (N.eqb t' t); lia.
Qed.

Lemma osum_aremove_lt a t l : lookup addr_eqb a l = Some t -> osum t (aremove a l) <= osum t l - 1.
Proof.
  induction l as [|[a' t'] l IH]; cbn; [discriminate|].
  destruct (addr_eqb a a').
  - intros H; inversion H; subst. rewrite N.eqb_refl. pose proof (osum_aremove_le a t l). lia.
  - intros H. specialize (IH H). cbn. destruct (N.eqb t' t); lia.
Qed.

Lemma osum_fresh n l : (forall a t, In (a, t) l -> (t < n)%N) -> osum n l = 0.
Proof.
  induction l as [|[a t'] l IH]; cbn; auto. intros H.
  destruct (N.eqb_spec t' n) as [->|_].
  - specialize (H a n (or_introl eq_refl)). lia.
  - rewrite IH; [reflexivity|]. intros a0 t0 Hin. apply (H a0 t0). right; auto.
Qed.

Lemma fsum_fresh n fs : (forall fr, In fr fs -> (f_tup fr < n)%N) -> fsum n fs = 0.
Proof.
  induction fs as [|fr fs IH]; cbn; auto. intros H.
  destruct (N.eqb_spec (f_tup fr) n) as [E|_].
  - specialize (H fr (or_introl eq_refl)). lia.
  - rewrite IH; [reflexivity|]. intros fr0 Hin. apply H. right; auto.
Qed.

Lemma fsum_nonneg t fs : (forall fr, In fr fs -> 1 <= f_own fr) -> 0 <= fsum t fs.
Proof.
  induction fs as [|fr fs IH]; cbn; [lia|]. intros H.
  pose proof (H fr (or_introl eq_refl)). assert (0 <= fsum t fs) by (apply IH; auto).
  destruct (N.eqb (f_tup fr) t); lia.
Qed.

Lemma fsum_member fr fs : (forall fr, In fr fs -> 1 <= f_own fr) -> In fr fs -> f_own fr <= fsum (f_tup fr) fs.
Proof.
  induction fs as [|fr' fs IH]; cbn; [tauto|]. intros H [->|Hin].
  - rewrite N.eqb_refl. assert (0 <= fsum (f_tup fr) fs) by (apply fsum_nonneg; auto). lia.
  - assert (f_own fr <= fsum (f_tup fr) fs) by (apply IH; auto).
    pose proof (H fr' (or_introl eq_refl)). destruct (N.eqb (f_tup fr') (f_tup fr)); lia.
Qed.

Lemma alookup_In a t (l : list (addr * N)) : lookup addr_eqb a l = Some t -> In (a, t) l.
Proof.
  induction l as [|[a' t'] l IH]; cbn; [discriminate|].
  destruct (addr_eqb_spec a a'); intros H; [inversion H; subst; auto|auto].
Qed.

Lemma alookup_aremove_other a b (l : list (addr * N)) :
  a <> b -> lookup addr_eqb b (aremove a l) = lookup addr_eqb b l.
Proof.
  intros Hne. induction l as [|[a' t] l IH]; cbn; auto.
  destruct (addr_eqb_spec a a').
  - subst. destruct (addr_eqb_spec b a'); [congruence|auto].
  - cbn. destruct (addr_eqb_spec b a'); auto.
Qed.

Lemma In_aremove a x (l : list (addr * N)) : In x (aremove a l) -> In x l.
Proof.
  induction l as [|[a' t] l IH]; cbn; auto.
  destruct (addr_eqb a a'); cbn; intros H; [auto|]. destruct H; auto.
Qed.

Lemma tlookup_remove_same t l : lookup N.eqb t (tremove t l) = None.
Proof.
  induction l as [|[t' r] l IH]; cbn; auto.
  destruct (N.eqb_spec t t'); auto. cbn. destruct (N.eqb_spec t t'); [congruence|auto].
Qed.

Lemma tlookup_remove_other t t' l : t' <> t -> lookup N.eqb t' (tremove t l) = lookup N.eqb t' l.
Proof.
  intros Hne. induction l as [|[t'' r] l IH]; cbn; auto.
  destruct (N.eqb_spec t t'').
  - subst. destruct (N.eqb_spec t' t''); [congruence|auto].
  - cbn. destruct (N.eqb_spec t' t''); auto.
Qed.

Lemma tlookup_set_same t r l : 1 <= r -> lookup N.eqb t (tset t r l) = Some r.
Proof. intros H. unfold tset. destruct (Z.leb_spec r 0); [lia|]. cbn. rewrite N.eqb_refl. reflexivity. Qed.

Lemma tlookup_set_other t t' r l : t' <> t -> lookup N.eqb t' (tset t r l) = lookup N.eqb t' l.
Proof.
  intros Hne. unfold tset. destruct (r <=? 0); [apply tlookup_remove_other; auto|].
  cbn. destruct (N.eqb_spec t' t); [congruence|apply tlookup_remove_other; auto].
Qed.

Lemma tlookup_dec_other t t' l : t' <> t -> lookup N.eqb t' (tdec t l) = lookup N.eqb t' l.
Proof. intros Hne. unfold tdec. destruct (lookup N.eqb t l); auto. apply tlookup_set_other; auto. Qed.

(* ---------- one stretch of an invocation, between two call-outs.
   E = the references to t held by everybody else (closures owning it, other invocations in flight) *)
Lemma advance_ok t : forall p tr own dropped E,
  safe p own dropped = true -> 0 <= E -> (dropped = false -> 1 <= E) -> 0 <= own ->
  (1 <= E + own -> exists r, lookup N.eqb t tr = Some r /\ E + own <= r) ->
  exists tr' own' rest, advance t p tr own = (tr', own', rest, true) /\
    (forall t', t' <> t -> lookup N.eqb t' tr' = lookup N.eqb t' tr) /\
    (1 <= E + own' -> exists r, lookup N.eqb t tr' = Some r /\ E + own' <= r) /\
    match rest with Some q => 1 <= own' /\ safe q own' true = true | None => own' = 0 end.
Proof.
  induction p as [|e p IH]; intros tr own dropped E Hs HE Hd Ho Hc.
  - cbn in Hs. apply Z.eqb_eq in Hs. subst. exists tr, 0, None. cbn. repeat split; auto.
  - assert (Hheld : negb dropped || (1 <=? own) = true -> 1 <= E + own).
    { intros H. apply orb_true_iff in H as [H|H].
      - apply negb_true_iff in H. specialize (Hd H). lia.
      - apply Z.leb_le in H. lia. }
    destruct e; cbn [safe advance] in *;
      try (destruct (IH tr own dropped E Hs HE Hd Ho Hc) as (tr' & own' & rest & A1 & A2 & A3 & A4);
           exists tr', own', rest; repeat split; auto; fail).
    + (* GInc *)
      apply andb_true_iff in Hs as [H1 H2]. destruct (Hc (Hheld H1)) as (r & Hr & Hge). rewrite Hr.
      destruct (IH (tset t (r + 1) tr) (own + 1) dropped E H2 HE Hd ltac:(lia)) as (tr' & own' & rest & A1 & A2 & A3 & A4).
      { intros _. exists (r + 1). split; [apply tlookup_set_same; lia|lia]. }
      exists tr', own', rest. repeat split; auto.
      intros t' Hne. rewrite A2 by auto. apply tlookup_set_other; auto.
    + (* GDec *)
      apply andb_true_iff in Hs as [H1 H2]. apply Z.leb_le in H1.
      destruct (Hc ltac:(lia)) as (r & Hr & Hge). rewrite Hr.
      destruct (IH (tset t (r - 1) tr) (own - 1) dropped E H2 HE Hd ltac:(lia)) as (tr' & own' & rest & A1 & A2 & A3 & A4).
      { intros Hpos. exists (r - 1). split; [apply tlookup_set_same; lia|lia]. }
      exists tr', own', rest. repeat split; auto.
      intros t' Hne. rewrite A2 by auto. apply tlookup_set_other; auto.
    + (* GCall *)
      apply andb_true_iff in Hs as [H1 H2]. apply Z.leb_le in H1.
      destruct (Hc ltac:(lia)) as (r & Hr & Hge). rewrite Hr.
      exists tr, own, (Some p). repeat split; auto.
    + (* GUse *)
      apply andb_true_iff in Hs as [H1 H2]. destruct (Hc (Hheld H1)) as (r & Hr & Hge). rewrite Hr.
      destruct (IH tr own dropped E H2 HE Hd Ho Hc) as (tr' & own' & rest & A1 & A2 & A3 & A4).
      exists tr', own', rest. repeat split; auto.
Qed.

(* ---------- invariant of the layer *)
Record RInv (rs : rstate) : Prop := {
  R1 : Inv (base rs);
  R2 : forall h a, In (h, a) (live (base rs)) -> exists t, lookup addr_eqb a (tupof rs) = Some t;
  R3 : forall t, 1 <= osum t (tupof rs) + fsum t (frames rs) ->
       exists r, lookup N.eqb t (trefs rs) = Some r /\ osum t (tupof rs) + fsum t (frames rs) <= r;
  R4 : forall fr, In fr (frames rs) -> 1 <= f_own fr /\ safe (f_rest fr) (f_own fr) true = true;
  R5 : forall a t, In (a, t) (tupof rs) -> (t < ntup rs)%N;
  R6 : forall fr, In fr (frames rs) -> (f_tup fr < ntup rs)%N;
  R7 : uaf rs = false }.

Lemma finish_inv rs t fs p own dropped :
  Inv (base rs) ->
  (forall h a, In (h, a) (live (base rs)) -> exists t, lookup addr_eqb a (tupof rs) = Some t) ->
  (forall a t, In (a, t) (tupof rs) -> (t < ntup rs)%N) ->
  uaf rs = false ->
  (forall fr, In fr fs -> 1 <= f_own fr /\ safe (f_rest fr) (f_own fr) true = true) ->
  (forall fr, In fr fs -> (f_tup fr < ntup rs)%N) ->
  (t < ntup rs)%N ->
  (forall t', 1 <= osum t' (tupof rs) + ((if N.eqb t t' then own else 0) + fsum t' fs) ->
     exists r, lookup N.eqb t' (trefs rs) = Some r /\
               osum t' (tupof rs) + ((if N.eqb t t' then own else 0) + fsum t' fs) <= r) ->
  safe p own dropped = true -> 0 <= own -> (dropped = false -> 1 <= osum t (tupof rs)) ->
  RInv (finish rs t fs (advance t p (trefs rs) own)).
Proof.
  intros H1 H2 H5 H7 H4 H6 Ht H3 Hs Ho Hd.
  assert (F0 : 0 <= fsum t fs) by (apply fsum_nonneg; intros fr Hin; apply H4; auto).
  pose proof (osum_nonneg t (tupof rs)) as O0.
  destruct (advance_ok t p (trefs rs) own dropped (osum t (tupof rs) + fsum t fs) Hs ltac:(lia)
              ltac:(intros Hx; specialize (Hd Hx); lia) Ho)
    as (tr' & own' & rest & A1 & A2 & A3 & A4).
  { intros Hpos. specialize (H3 t). rewrite N.eqb_refl in H3.
    destruct H3 as (r & Hr & Hge); [lia|]. exists r. split; [auto|lia]. }
  rewrite A1. unfold finish. rewrite H7. cbn [negb orb].
  constructor; cbn [base tupof trefs ntup frames uaf]; auto.
  - (* R3 *)
    intros t' Hpos. destruct (N.eqb t t') eqn:Ett.
    + apply N.eqb_eq in Ett. subst t'. destruct rest as [q|].
      * cbn [fsum f_tup f_own] in *. rewrite N.eqb_refl in *.
        destruct A3 as (r & Hr & Hge); [lia|]. exists r. split; [auto|lia].
      * subst own'. destruct A3 as (r & Hr & Hge); [lia|]. exists r. split; [auto|lia].
    + assert (Hne : t' <> t) by (apply N.eqb_neq in Ett; congruence).
      rewrite A2 by auto. specialize (H3 t'). rewrite Ett in H3.
      destruct rest as [q|]; cbn [fsum f_tup f_own] in *; try rewrite Ett in *; apply H3; lia.
  - (* R4 *)
    destruct rest as [q|]; [|auto]. intros fr [<-|Hin]; [cbn; tauto|auto].
  - (* R6 *)
    destruct rest as [q|]; [|auto]. intros fr [<-|Hin]; [cbn; auto|auto].
Qed.

Lemma step_create_live c s h f s' a :
  Inv s -> step c s (Create h f) = (s', OAddr a) ->
  live s' = (h, a) :: live s /\ ~ In a (live_addrs s).
Proof.
  intros HI H. cbn [step] in H. destruct (lookup N.eqb h (live s)); [inversion H|].
  destruct (closure_alloc c s) as [[a' s1]|] eqn:Ha; [|inversion H].
  inversion H; subst; clear H. destruct (closure_alloc_inv _ _ _ _ HI Ha) as (A1 & _ & A3 & _).
  cbn. rewrite A3. auto.
Qed.

Lemma step_nonaddr_live c s o s' r :
  (forall h, o <> Drop h) -> (forall a, r <> OAddr a) -> step c s o = (s', r) -> live s' = live s.
Proof.
  intros Hd Hr H. destruct o as [h f| |h|h]; cbn [step] in H.
  - destruct (lookup N.eqb h (live s)); [inversion H; auto|].
    destruct (closure_alloc c s) as [[a s1]|]; inversion H; subst; auto. exfalso; eapply Hr; eauto.
  - destruct (closure_alloc c s) as [[a s1]|] eqn:Ha; inversion H; subst; cbn; auto.
    eapply alloc_live; eauto.
  - exfalso; eapply Hd; eauto.
  - destruct (lookup N.eqb h (live s)); [destruct (lookup addr_eqb a (udata s))|]; inversion H; subst; auto.
Qed.

Section LayerProofs.
Variable ev : list gev.
Hypothesis Hheld : held_at_uses ev = true.

Lemma path_safe k : safe (path ev (Nat.min k (nfails ev))) 0 false = true.
Proof.
  unfold held_at_uses in Hheld. rewrite forallb_forall in Hheld. apply Hheld. apply in_seq. lia.
Qed.

Lemma rstep_inv c rs o : RInv rs -> RInv (fst (rstep ev c rs o)).
Proof.
  intros HR. pose proof HR as [H1 H2 H3 H4 H5 H6 H7].
  destruct o as [o|h k|].
  - destruct o as [h f| |h|h]; cbn [rstep].
    + (* Create *)
      destruct (step c (base rs) (Create h f)) as [s' r] eqn:Hs.
      pose proof (step_inv c (base rs) (Create h f) H1) as HI'. rewrite Hs in HI'. cbn [fst] in HI'.
      destruct r as [a| | | |].
      * destruct (step_create_live _ _ _ _ _ _ H1 Hs) as [Hl Hn].
        constructor; cbn [fst base tupof trefs ntup frames uaf]; auto.
        -- rewrite Hl. intros h' a' [E|Hin].
           ++ inversion E; subst. exists (ntup rs). cbn. destruct (addr_eqb_spec a' a'); [auto|congruence].
           ++ cbn. destruct (addr_eqb_spec a' a) as [->|Hne]; [eauto|].
              rewrite alookup_aremove_other by congruence. eauto.
        -- intros t Hpos. cbn [osum lookup] in *.
           pose proof (osum_aremove_le a t (tupof rs)) as Hle.
           destruct (N.eqb_spec (ntup rs) t) as [E|Hne].
           ++ subst t. rewrite N.eqb_refl. exists 1. split; auto.
              rewrite (osum_fresh (ntup rs) (tupof rs)) in Hle by auto.
              rewrite (fsum_fresh (ntup rs) (frames rs)) by auto.
              pose proof (osum_nonneg (ntup rs) (aremove a (tupof rs))). lia.
           ++ destruct (N.eqb_spec t (ntup rs)); [congruence|].
              destruct (H3 t) as (r & Hr & Hge); [lia|]. exists r. split; [auto|lia].
        -- intros a' t [E|Hin]; [inversion E; lia|]. apply In_aremove in Hin. specialize (H5 _ _ Hin). lia.
        -- intros fr Hin. specialize (H6 _ Hin). lia.
      * assert (Hl : live s' = live (base rs)) by (eapply step_nonaddr_live; eauto; discriminate).
        constructor; cbn [fst base tupof trefs ntup frames uaf]; auto. rewrite Hl; auto.
      * assert (Hl : live s' = live (base rs)) by (eapply step_nonaddr_live; eauto; discriminate).
        constructor; cbn [fst base tupof trefs ntup frames uaf]; auto. rewrite Hl; auto.
      * assert (Hl : live s' = live (base rs)) by (eapply step_nonaddr_live; eauto; discriminate).
        constructor; cbn [fst base tupof trefs ntup frames uaf]; auto. rewrite Hl; auto.
      * assert (Hl : live s' = live (base rs)) by (eapply step_nonaddr_live; eauto; discriminate).
        constructor; cbn [fst base tupof trefs ntup frames uaf]; auto. rewrite Hl; auto.
    + (* CreateFail *)
      destruct (step c (base rs) CreateFail) as [s' r] eqn:Hs.
      pose proof (step_inv c (base rs) CreateFail H1) as HI'. rewrite Hs in HI'. cbn [fst] in HI'.
      assert (Hna : forall a, r <> OAddr a).
      { cbn [step] in Hs. destruct (closure_alloc c (base rs)) as [[a s1]|]; inversion Hs; discriminate. }
      assert (Hl : live s' = live (base rs)) by (eapply step_nonaddr_live; eauto; discriminate).
      destruct r as [a| | | |]; [exfalso; eapply Hna; eauto| | | |];
        constructor; cbn [fst base tupof trefs ntup frames uaf]; auto; rewrite Hl; auto.
    + (* Drop *)
      destruct (lookup N.eqb h (live (base rs))) as [a|] eqn:Hh; [|cbn [fst]; auto].
      destruct (step c (base rs) (Drop h)) as [s' r] eqn:Hs.
      pose proof (step_inv c (base rs) (Drop h) H1) as HI'. rewrite Hs in HI'. cbn [fst] in HI'.
      cbn [step] in Hs. rewrite Hh in Hs. inversion Hs; subst; clear Hs.
      pose proof (lookup_In _ _ _ Hh) as Hin0. destruct (H2 _ _ Hin0) as (t0 & Ht0). rewrite Ht0.
      constructor; cbn [fst base tupof trefs ntup frames uaf closure_free live]; auto.
      * intros h' a' Hin. apply In_remove_key in Hin as [Hin Hne].
        assert (a' <> a).
        { intros ->. apply Hne. destruct H1 as [_ I2 _ _ _ _]. eapply snd_inj_of_NoDup; eauto. }
        rewrite alookup_aremove_other by congruence. eauto.
      * intros t Hpos. destruct (N.eqb_spec t t0) as [->|Hne].
        -- pose proof (osum_aremove_lt a t0 (tupof rs) Ht0) as Hlt.
           destruct (H3 t0) as (r & Hr & Hge); [lia|].
           unfold tdec. rewrite Hr. exists (r - 1). split; [apply tlookup_set_same; lia|lia].
        -- pose proof (osum_aremove_le a t (tupof rs)) as Hle.
           rewrite tlookup_dec_other by auto.
           destruct (H3 t) as (r & Hr & Hge); [lia|]. exists r. split; [auto|lia].
      * intros a' t Hin. apply In_aremove in Hin. eauto.
    + (* Call *)
      destruct (step c (base rs) (Call h)) as [s' r] eqn:Hs.
      pose proof (step_inv c (base rs) (Call h) H1) as HI'. rewrite Hs in HI'. cbn [fst] in HI'.
      assert (Hna : forall a, r <> OAddr a).
      { cbn [step] in Hs. destruct (lookup N.eqb h (live (base rs)));
          [destruct (lookup addr_eqb a (udata (base rs)))|]; inversion Hs; discriminate. }
      assert (Hl : live s' = live (base rs)) by (eapply step_nonaddr_live; eauto; discriminate).
      destruct r as [a| | | |]; [exfalso; eapply Hna; eauto| | | |];
        constructor; cbn [fst base tupof trefs ntup frames uaf]; auto; rewrite Hl; auto.
  - (* RInvokeEnter *)
    cbn [rstep]. unfold enter.
    destruct (lookup N.eqb h (live (base rs))) as [a|] eqn:Hh; [|cbn [fst]; auto].
    destruct (lookup addr_eqb a (tupof rs)) as [t|] eqn:Ht; [|cbn [fst]; auto].
    destruct (lookup addr_eqb a (udata (base rs))) as [f|]; [|cbn [fst]; auto].
    cbn [fst]. apply finish_inv with (dropped := false); auto.
    + eapply H5. apply alookup_In; eauto.
    + intros t' Hpos. destruct (N.eqb t t'); apply H3; lia.
    + apply path_safe.
    + lia.
    + intros _. eapply osum_lookup; eauto.
  - (* RInvokeExit *)
    cbn [rstep]. unfold resume. destruct (frames rs) as [|fr fs] eqn:Hf; [cbn [fst]; auto|].
    cbn [fst]. destruct (H4 fr (or_introl eq_refl)) as [Hown Hsafe].
    apply finish_inv with (dropped := true); auto.
    + intros fr' Hin. apply H4. right; auto.
    + intros fr' Hin. apply H6. right; auto.
    + apply H6. left; auto.
    + lia.
    + discriminate.
Qed.

Lemma rinv_init : RInv rinit.
Proof. constructor; cbn; try tauto; try lia; auto. apply inv_init. Qed.

Lemma rrun_inv c h : forall rs, RInv rs -> RInv (rrun ev c rs h).
Proof. induction h as [|o h IH]; cbn; intros; auto. apply IH. apply rstep_inv; auto. Qed.

Lemma rreachable_inv c rs : rreachable ev c rs -> RInv rs.
Proof. intros [hh ->]. apply rrun_inv. apply rinv_init. Qed.

(* THE CALLBACK THAT DROPS ITSELF WHILE RUNNING: whatever happens while an invocation is suspended in a
   call-out — its own callback dropped, its closure address given to a new callback, nested invocations —
   the tuple it works on is allocated, with a strictly positive count *)
Theorem tuple_alive_during_call c rs fr :
  rreachable ev c rs -> In fr (frames rs) ->
  exists r, lookup N.eqb (f_tup fr) (trefs rs) = Some r /\ 1 <= r.
Proof.
  intros HR Hin. destruct (rreachable_inv c rs HR) as [H1 H2 H3 H4 H5 H6 H7].
  assert (Hm : f_own fr <= fsum (f_tup fr) (frames rs)) by (apply fsum_member; auto; intros x Hx; apply H4; auto).
  destruct (H4 _ Hin) as [Ho _]. pose proof (osum_nonneg (f_tup fr) (tupof rs)).
  destruct (H3 (f_tup fr)) as (r & Hr & Hge); [lia|]. exists r. split; [auto|lia].
Qed.

(* and no invocation ever touches a freed tuple, over all histories *)
Theorem no_use_after_free c rs : rreachable ev c rs -> uaf rs = false.
Proof. intros HR. destruct (rreachable_inv c rs HR); auto. Qed.

(* the info tuple of every live callback is alive, after any history of creations, failed creations,
   drops and (possibly still unfinished) invocations along any path of general_invoke_callback *)
Theorem tuple_alive_while_live c rs h a :
  rreachable ev c rs -> In (h, a) (live (base rs)) ->
  exists t r, lookup addr_eqb a (tupof rs) = Some t /\ lookup N.eqb t (trefs rs) = Some r /\ 1 <= r.
Proof.
  intros HR Hin. destruct (rreachable_inv c rs HR) as [H1 H2 H3 H4 H5 H6 H7].
  destruct (H2 _ _ Hin) as (t & Ht). pose proof (osum_lookup _ _ _ Ht).
  assert (0 <= fsum t (frames rs)) by (apply fsum_nonneg; intros x Hx; apply H4; auto).
  destruct (H3 t) as (r & Hr & Hge); [lia|]. exists t, r. repeat split; auto. lia.
Qed.

(* hence an invocation of a live callback — whatever the previous invocations did — finds its tuple and
   runs the function the callback was created with *)
Theorem invoke_runs_own c rs h a k :
  rreachable ev c rs -> In (h, a) (live (base rs)) ->
  exists f, lookup N.eqb h (made (base rs)) = Some f /\ snd (rstep ev c rs (RInvokeEnter h k)) = OFn f.
Proof.
  intros HR Hin. destruct (rreachable_inv c rs HR) as [H1 H2 H3 H4 H5 H6 H7].
  destruct (H2 _ _ Hin) as (t & Ht).
  destruct H1 as [I1 I2 I3 I4 I5 I6]. destruct (I6 _ _ Hin) as (f & F1 & F2).
  exists f. split; auto. cbn [rstep]. unfold enter.
  rewrite (In_lookup _ _ _ I5 Hin), Ht, F2. reflexivity.
Qed.
End LayerProofs.

(* ---------- the regenerated general_invoke_callback *)
Lemma paths_balanced : all_paths_balanced invoke_events = true.
Proof. vm_compute. reflexivity. Qed.

Lemma held_invoke : held_at_uses invoke_events = true.
Proof. vm_compute. reflexivity. Qed.
