(* C29 — Callback closures stay distinct and bound to their own function.  Statements only.
   [reachable c s]: s is the allocator + callback state after ANY history of
   Create / CreateFail / Drop / Call from the initial state (any number alive, any page growth). *)
From Coq Require Import ZArith NArith List Bool.
Import ListNotations.
From Cffi Require Import C29.Model C29.Proofs C29.Prog C29.Gen C29.GenProofs C29.Invoke C29.GenInvoke C29.Refs.
Open Scope Z_scope.

(* the invariant: free list duplicate-free, live closure addresses duplicate-free, the two
   disjoint, everything inside an mmap()ed block, user_data of every live closure = the function
   its callback was created with *)
Theorem C29_invariant : forall c s, reachable c s ->
  NoDup (free_list s) /\ NoDup (live_addrs s) /\
  (forall a, In a (free_list s) -> ~ In a (live_addrs s)) /\
  (forall a, In a (free_list s) \/ In a (live_addrs s) -> (fst a < nblocks s)%N) /\
  (forall h a, In (h, a) (live s) ->
     exists f, lookup N.eqb h (made s) = Some f /\ lookup addr_eqb a (udata s) = Some f).
Proof. intros c s HR. destruct (reachable_inv c s HR). repeat split; auto. Qed.
Print Assumptions C29_invariant.

(* every successful ffi.callback() gets an address no live callback has *)
Theorem C29_create_fresh : forall c s h f a,
  reachable c s -> snd (step c s (Create h f)) = OAddr a ->
  ~ In a (live_addrs s) /\ live s = remove_key h (live (fst (step c s (Create h f)))) /\
  In (h, a) (live (fst (step c s (Create h f)))).
Proof. exact create_fresh. Qed.
Print Assumptions C29_create_fresh.

(* live callbacks have pairwise distinct addresses *)
Theorem C29_live_distinct : forall c s h1 h2 a,
  reachable c s -> In (h1, a) (live s) -> In (h2, a) (live s) -> h1 = h2.
Proof. exact live_distinct. Qed.
Print Assumptions C29_live_distinct.

(* from its creation until it is dropped, calling a callback (the closure at its address) runs
   exactly the function it was created with, whatever happens to other callbacks in between.
   Reading of "its own Python function with its own signature": b_callback binds ONE object to the
   closure, the infotuple (signature ctype, Python function, error value, onerror); [f] stands for
   that tuple, so function and signature are bound together.  "From C or through the cdata": both
   routes jump to the same closure address and differ only inside libffi / cdata_call, which are
   not modelled — [Call h] is "control reaches the closure of h"; that the two real routes (and a
   cast function pointer) behave alike is decided by the correspondence run only. *)
Theorem C29_call_runs_creator : forall c h1 hh f a h2,
  let s1 := fst (run c init h1) in
  snd (step c s1 (Create hh f)) = OAddr a ->
  (forall o, In o h2 -> o <> Drop hh /\ forall f', o <> Create hh f') ->
  let s := fst (run c (fst (step c s1 (Create hh f))) h2) in
  step c s (Call hh) = (s, OFn f).
Proof. exact call_runs_creator. Qed.
Print Assumptions C29_call_runs_creator.

(* reuse is LIFO: the closure freed last is handed out next *)
Theorem C29_lifo_reuse : forall c s h a h' f,
  reachable c s -> In (h, a) (live s) ->
  lookup N.eqb h' (live (fst (step c s (Drop h)))) = None ->
  snd (step c (fst (step c s (Drop h))) (Create h' f)) = OAddr a.
Proof. exact lifo_reuse. Qed.
Print Assumptions C29_lifo_reuse.

(* the error path of ffi.callback() gives the closure back *)
Theorem C29_create_fail_no_leak : forall c s,
  reachable c s ->
  live (fst (step c s CreateFail)) = live s /\
  (forall a s1, closure_alloc c s = Some (a, s1) -> free_list (fst (step c s CreateFail)) = a :: free_list s1).
Proof. exact create_fail_no_leak. Qed.
Print Assumptions C29_create_fail_no_leak.

(* page growth: only on an empty free list; 1 + floor(1.3 n) pages, pages*pagesize/blocksize items *)
Theorem C29_grows_only_when_empty : forall c s a s1,
  closure_alloc c s = Some (a, s1) -> free_list s <> [] -> nblocks s1 = nblocks s /\ npages s1 = npages s.
Proof. exact grows_only_when_empty. Qed.
Print Assumptions C29_grows_only_when_empty.
Theorem C29_growth_amount : forall c s,
  free_list s = [] ->
  length (free_list (more_core c s)) = N.to_nat (count_of c (grow (npages s))) /\
  npages (more_core c s) = 1 + (npages s * 13) / 10.
Proof. exact growth_amount. Qed.
Print Assumptions C29_growth_amount.

(* ---- obligations on the source TEXT of more_core(), regenerated into C29/Gen.v on every run
   (assignments to allocate_num_pages and count, the mmap() size, the threading-loop bound): *)

(* every item threaded onto the free list lies inside the block just mapped — for every call,
   whatever allocate_num_pages is on entry (this is what C29_invariant's "inside a block" and the
   (block, slot) addresses of the hand model rest on) *)
Theorem C29_gen_threaded_inside_mapping : forall ps bs n,
  0 < ps -> 0 < bs -> 0 <= n ->
  let r := exec ps bs more_core_prog n in
  0 <= m_threaded r /\ m_threaded r * bs <= m_mapped r.
Proof. exact gen_threaded_inside_mapping. Qed.
Print Assumptions C29_gen_threaded_inside_mapping.

(* the text computes exactly the hand model's growth: new page count and number of items *)
Theorem C29_gen_matches_model : forall c n,
  0 < pagesize c -> 0 < blocksize c -> 0 <= n ->
  let r := exec (pagesize c) (blocksize c) more_core_prog n in
  m_pages r = grow n /\ Z.to_N (m_threaded r) = count_of c (grow n).
Proof. exact gen_matches_model. Qed.
Print Assumptions C29_gen_matches_model.

Theorem C29_gen_no_overflow : forall ps bs, 0 < ps -> 0 < bs ->
  forall fuel step n total, 0 <= n -> first_overflow ps bs more_core_prog fuel step n total = None.
Proof. exact gen_no_overflow. Qed.
Print Assumptions C29_gen_no_overflow.

(* ---- the info tuple (signature ctype, Python function, error value, onerror) bound to a closure is
   owned by closure->user_data alone; general_invoke_callback() borrows it.  Its Py_INCREF / Py_DECREF, its
   reads of the tuple (and through pointers borrowed from it), its call-outs (during which Python code runs)
   and its `goto error` exits are regenerated into C29/GenInvoke.v on every run, in source order. *)

(* every path through general_invoke_callback — normal, or leaving through any of its `goto error`s
   (PyTuple_New failing, an ARGUMENT COMING FROM C that convert_to_object rejects, the Python function
   raising, the result not convertible) — leaves the tuple's reference count as it found it and never
   goes below it *)
Theorem C29_gen_invoke_paths_balanced : all_paths_balanced invoke_events = true.
Proof. exact paths_balanced. Qed.
Print Assumptions C29_gen_invoke_paths_balanced.

(* on every path, the function itself HOLDS a reference (own INCREFs - own DECREFs >= 1) at every call-out and,
   from its first call-out on, at every read of the tuple / through a pointer borrowed from it, and it holds
   none when it returns.  (An event list without INCREF/DECREF is balanced but not held: see
   C29_example_no_incref_is_caught.) *)
Theorem C29_gen_invoke_held_at_uses : held_at_uses invoke_events = true.
Proof. exact held_invoke. Qed.
Print Assumptions C29_gen_invoke_held_at_uses.

(* THE CALLBACK THAT DROPS ITSELF WHILE RUNNING.  [rreachable invoke_events c rs]: rs is reached by ANY history
   of Create / CreateFail / Drop / Call / RInvokeEnter h k (enter the closure of h, path k, run to the first
   call-out) / RInvokeExit (the innermost invocation in flight continues to its next call-out or returns) —
   so between Enter and Exit anything may happen: Drop of the callback that is running (its
   cdataowninggc_dealloc decrements the tuple), creations re-using its closure address, nested and recursive
   invocations.  For every invocation in flight, the tuple it works on is allocated with a count >= 1. *)
Theorem C29_tuple_alive_during_call : forall c rs fr,
  rreachable invoke_events c rs -> In fr (frames rs) ->
  exists r, lookup N.eqb (f_tup fr) (trefs rs) = Some r /\ 1 <= r.
Proof. exact (tuple_alive_during_call invoke_events held_invoke). Qed.
Print Assumptions C29_tuple_alive_during_call.

(* and no invocation, on any path, ever reads / INCREFs / DECREFs / calls out on a tuple that has been freed *)
Theorem C29_no_use_after_free : forall c rs, rreachable invoke_events c rs -> uaf rs = false.
Proof. exact (no_use_after_free invoke_events held_invoke). Qed.
Print Assumptions C29_no_use_after_free.

(* the two theorems above rest on nothing but [held_at_uses] of the event list *)
Theorem C29_held_at_uses_suffices : forall ev, held_at_uses ev = true ->
  forall c rs, rreachable ev c rs ->
  uaf rs = false /\
  forall fr, In fr (frames rs) -> exists r, lookup N.eqb (f_tup fr) (trefs rs) = Some r /\ 1 <= r.
Proof.
  intros ev H c rs HR. split; [exact (no_use_after_free ev H c rs HR)|].
  intros fr. exact (tuple_alive_during_call ev H c rs fr HR).
Qed.
Print Assumptions C29_held_at_uses_suffices.

(* user_data's tuple is alive as long as the closure is live: after ANY such history (so no later
   ffi.callback() can have its tuple placed in the memory of a live callback's tuple) *)
Theorem C29_tuple_alive_while_live : forall c rs h a,
  rreachable invoke_events c rs -> In (h, a) (live (base rs)) ->
  exists t r, lookup addr_eqb a (tupof rs) = Some t /\ lookup N.eqb t (trefs rs) = Some r /\ 1 <= r.
Proof. exact (tuple_alive_while_live invoke_events held_invoke). Qed.
Print Assumptions C29_tuple_alive_while_live.

Theorem C29_invoke_runs_own : forall c rs h a k,
  rreachable invoke_events c rs -> In (h, a) (live (base rs)) ->
  exists f, lookup N.eqb h (made (base rs)) = Some f /\
            snd (rstep invoke_events c rs (RInvokeEnter h k)) = OFn f.
Proof. exact (invoke_runs_own invoke_events held_invoke). Qed.
Print Assumptions C29_invoke_runs_own.

(* non-vacuity, on the regenerated events: callback 1 is entered (normal path; suspended in PyObject_Call), its
   Python function drops callback 1 and creates callback 2, which gets the SAME closure address; the
   invocation of 1 is still in flight on tuple 0, count 1 (its own INCREF); callback 2 owns tuple 1; after the
   remaining call-outs the invocation returns and tuple 0 is freed *)
Example C29_example_self_drop :
  let c := {| pagesize := 16; blocksize := 4 |} in
  let rs := rrun invoke_events c rinit
              [RBase (Create 1 10); RInvokeEnter 1 0; RBase (Drop 1); RBase (Create 2 20)]%N in
  map f_tup (frames rs) = [0%N] /\ map f_own (frames rs) = [1] /\ trefs rs = [(1%N, 1); (0%N, 1)] /\
  map snd (live (base rs)) = map fst (tupof rs) /\ tupof rs = [((0, 3), 1)]%N /\ uaf rs = false /\
  let rs' := rrun invoke_events c rs [RInvokeExit; RInvokeExit; RInvokeExit; RInvokeExit] in
  frames rs' = [] /\ trefs rs' = [(1%N, 1)] /\ uaf rs' = false.
Proof. vm_compute. repeat split; reflexivity. Qed.

(* non-vacuity of held_at_uses (REVIEW3): general_invoke_callback WITHOUT its Py_INCREF / Py_DECREF pair is
   accepted by all_paths_balanced, rejected by held_at_uses, and in the model the self-dropping callback then
   reads a freed tuple as soon as its Python function returns *)
Example C29_example_no_incref_is_caught :
  let ev := filter (fun e => negb (gev_eqb e GInc || gev_eqb e GDec)) invoke_events in
  all_paths_balanced ev = true /\ held_at_uses ev = false /\
  let c := {| pagesize := 16; blocksize := 4 |} in
  uaf (rrun ev c rinit [RBase (Create 1 10); RInvokeEnter 1 0; RBase (Drop 1)]%N) = false /\
  uaf (rrun ev c rinit [RBase (Create 1 10); RInvokeEnter 1 0; RBase (Drop 1); RInvokeExit]%N) = true /\
  (* the same when the Python function raises (path 3: the `goto error` after PyObject_Call) *)
  uaf (rrun ev c rinit [RBase (Create 1 10); RInvokeEnter 1 3; RBase (Drop 1); RInvokeExit]%N) = true /\
  (* a DECREF moved above the Py_XDECREF(py_res) of the done: part is rejected too *)
  held_at_uses [GUse; GInc; GCall; GUse; GDoneLabel; GDec; GCall; GReturn; GErrorLabel; GGotoDone] = false.
Proof. vm_compute. repeat split; reflexivity. Qed.

(* non-vacuity: with the INCREF moved below the argument conversion, the path through the second
   `goto error` (an argument that cannot be converted) drops a reference it never took *)
Example C29_example_unbalanced_path :
  let ev := [GFail; GFail; GInc; GFail; GFail; GDoneLabel; GDec; GReturn; GErrorLabel; GGotoDone] in
  all_paths_balanced ev = false /\ delta (path ev 2) = -1 /\ delta (path ev 0) = 0 /\ delta (path ev 3) = 0.
Proof. vm_compute. repeat split; reflexivity. Qed.

(* non-vacuity of the search: a program that caps the page count AFTER computing count (and before
   mmap) overflows at its 14th growth step, after 17694 closures: 4681 items fit, 5924 are threaded *)
Example C29_example_overflow_found :
  first_overflow 4096 56
    [ SAssign VPages (EAdd (EInt 1) (ETruncMulRat (EV VPages) 13 10));
      SAssign VCount (EDiv (EMul (EV VPages) EPagesize) ESizeofBlock);
      SIf CGt (EV VPages) (EInt 64) VPages (EInt 64);
      SMmap (EMul (EV VPages) EPagesize);
      SThread (EV VCount) ] 40 0 0 0 = Some (14%N, 17694, 4681, 5924).
Proof. vm_compute. reflexivity. Qed.

(* non-vacuity: 4-item pages; fill the first block, spill into the second, drop two, fail once,
   re-create (LIFO), call *)
Example C29_example :
  run_case ({| pagesize := 16; blocksize := 4 |},
            [Create 1 10; Create 2 20; Create 3 30; Create 4 40; Create 5 50; Call 5; Call 1;
             Drop 2; Drop 4; CreateFail; Create 6 60; Create 7 70; Create 8 80; Call 6; Call 7; Call 3; Drop 1;
             Create 2 21; Call 2]%N)
  = ([CAddr 0; CAddr 1; CAddr 2; CAddr 3; CAddr 4; CFn 50; CFn 10; CNone; CNone; CErr;
      CAddr 3; CAddr 1; CAddr 5; CFn 60; CFn 70; CFn 30; CNone; CAddr 0; CFn 21]%N, 2%N).
Proof. vm_compute. reflexivity. Qed.
