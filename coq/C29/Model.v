(* C29 — callback closures stay distinct and bound to their own function.

   Model of src/c/malloc_closure.h (free_list, more_core, cffi_closure_alloc, cffi_closure_free)
   and of its two clients in src/c/_cffi_backend.c: b_callback (:6418) and
   cdataowninggc_dealloc (:1978).

   An address is (block, slot): the slot-th item of the block-th mmap() made by more_core.
   That two different mmap()s never overlap is the one thing assumed about the OS (it is built into
   this representation).  The closure memory itself is modelled for the one field that matters,
   ffi_closure.user_data (which Python function libffi's trampoline at that address will run):
   [udata] is that memory, it survives cffi_closure_free (stale) exactly like the real one. *)
From Coq Require Import ZArith NArith List Bool Lia.
Import ListNotations.
Open Scope Z_scope.

Definition addr := (N * N)%type.
Definition addr_eqb (a b : addr) : bool := N.eqb (fst a) (fst b) && N.eqb (snd a) (snd b).

Record config := { pagesize : Z; blocksize : Z }.       (* _pagesize, sizeof(union mmapped_block) *)

Record state := {
  free_list : list addr;             (* head = free_list; tail = chain of ->next *)
  npages : Z;                        (* allocate_num_pages *)
  nblocks : N;                       (* number of mmap()s made so far *)
  udata : list (addr * N);           (* closure->user_data per address (latest write first) *)
  live : list (N * addr);            (* live callback cdata: handle -> closure address *)
  made : list (N * N)                (* ghost: handle -> function it was created with *)
}.

Definition init : state :=
  {| free_list := []; npages := 0; nblocks := 0; udata := []; live := []; made := [] |}.

(* more_core():  allocate_num_pages = 1 + (Py_ssize_t)(allocate_num_pages * 1.3);
                 count = allocate_num_pages * _pagesize / sizeof(union mmapped_block);
                 for (i = 0; i < count; ++i) { item->next = free_list; free_list = item; ++item; }
   (n * 1.3 in double arithmetic truncates to floor(13 n / 10) for every n below 2^40) *)
Definition grow (n : Z) : Z := 1 + (n * 13) / 10.
Definition count_of (c : config) (np : Z) : N := Z.to_N ((np * pagesize c) / blocksize c).

Fixpoint push_items (b : N) (i : N) (n : nat) (fl : list addr) : list addr :=
  match n with
  | O => fl
  | S n' => push_items b (N.succ i) n' ((b, i) :: fl)
  end.

Definition more_core (c : config) (s : state) : state :=
  let np := grow (npages s) in
  let cnt := count_of c np in
  {| free_list := push_items (nblocks s) 0 (N.to_nat cnt) (free_list s);
     npages := np; nblocks := N.succ (nblocks s);
     udata := udata s; live := live s; made := made s |}.

(* cffi_closure_alloc(): if (!free_list) more_core(); if (!free_list) return NULL;
                         item = free_list; free_list = item->next; *)
Definition closure_alloc (c : config) (s : state) : option (addr * state) :=
  let s1 := match free_list s with [] => more_core c s | _ => s end in
  match free_list s1 with
  | [] => None
  | a :: rest =>
      Some (a, {| free_list := rest; npages := npages s1; nblocks := nblocks s1;
                  udata := udata s1; live := live s1; made := made s1 |})
  end.

(* cffi_closure_free(p): item->next = free_list; free_list = item; *)
Definition closure_free (s : state) (a : addr) : state :=
  {| free_list := a :: free_list s; npages := npages s; nblocks := nblocks s;
     udata := udata s; live := live s; made := made s |}.

Fixpoint lookup {A} (eqb : A -> A -> bool) {B} (k : A) (l : list (A * B)) : option B :=
  match l with
  | [] => None
  | (k', v) :: t => if eqb k k' then Some v else lookup eqb k t
  end.
Fixpoint remove_key {B} (k : N) (l : list (N * B)) : list (N * B) :=
  match l with
  | [] => []
  | (k', v) :: t => if N.eqb k k' then remove_key k t else (k', v) :: remove_key k t
  end.

Inductive op :=
| Create (h f : N)       (* cb_h = ffi.callback(sig, function f) *)
| CreateFail             (* ffi.callback("int(int, ...)", f): closure allocated, then error path frees it *)
| Drop (h : N)           (* last reference to cb_h dropped: cdataowninggc_dealloc *)
| Call (h : N).          (* call cb_h (through the cdata or from C): which function runs? *)

Inductive out :=
| OAddr (a : addr)       (* Create: the address of the new callback *)
| OFn (f : N)            (* Call: the Python function that ran *)
| ONone
| OErr                   (* NotImplementedError / MemoryError *)
| OBad.                  (* the harness broke the protocol (unknown or duplicate handle) *)

Definition step (c : config) (s : state) (o : op) : state * out :=
  match o with
  | Create h f =>
      match lookup N.eqb h (live s) with
      | Some _ => (s, OBad)
      | None =>
          match closure_alloc c s with
          | None => (s, OErr)
          | Some (a, s1) =>
              (* closure->user_data = NULL; ... ffi_prep_closure(closure, cif, invoke_callback, infotuple) *)
              ({| free_list := free_list s1; npages := npages s1; nblocks := nblocks s1;
                  udata := (a, f) :: udata s1; live := (h, a) :: live s1;
                  made := (h, f) :: remove_key h (made s1) |}, OAddr a)
          end
      end
  | CreateFail =>
      match closure_alloc c s with
      | None => (s, OErr)
      | Some (a, s1) => (closure_free s1 a, OErr)
      end
  | Drop h =>
      match lookup N.eqb h (live s) with
      | None => (s, OBad)
      | Some a =>
          (closure_free {| free_list := free_list s; npages := npages s; nblocks := nblocks s;
                           udata := udata s; live := remove_key h (live s); made := made s |} a, ONone)
      end
  | Call h =>
      match lookup N.eqb h (live s) with
      | None => (s, OBad)
      | Some a => match lookup addr_eqb a (udata s) with
                  | Some f => (s, OFn f)
                  | None => (s, OBad)
                  end
      end
  end.

Fixpoint run (c : config) (s : state) (h : list op) : state * list out :=
  match h with
  | [] => (s, [])
  | o :: h' => let '(s1, r) := step c s o in
               let '(s2, rs) := run c s1 h' in (s2, r :: rs)
  end.

(* ---- for the correspondence: addresses are reported as first-appearance numbers *)
Inductive cout := CAddr (id : N) | CFn (f : N) | CNone | CErr | CBad.

Fixpoint index_of (a : addr) (seen : list addr) (i : N) : option N :=
  match seen with
  | [] => None
  | x :: t => if addr_eqb a x then Some i else index_of a t (N.succ i)
  end.

(* seen is kept in REVERSE order of first appearance (newest first); n = length seen *)
Fixpoint canon (seen : list addr) (n : N) (rs : list out) : list cout :=
  match rs with
  | [] => []
  | OAddr a :: t =>
      match index_of a seen 0 with
      | Some i => CAddr (n - 1 - i) :: canon seen n t
      | None => CAddr n :: canon (a :: seen) (N.succ n) t
      end
  | OFn f :: t => CFn f :: canon seen n t
  | ONone :: t => CNone :: canon seen n t
  | OErr :: t => CErr :: canon seen n t
  | OBad :: t => CBad :: canon seen n t
  end.

Definition cout_eqb (a b : cout) : bool :=
  match a, b with
  | CAddr x, CAddr y | CFn x, CFn y => N.eqb x y
  | CNone, CNone | CErr, CErr | CBad, CBad => true
  | _, _ => false
  end.

Definition run_case (x : config * list op) : list cout * N :=
  let '(c, h) := x in
  let '(s, rs) := run c init h in (canon [] 0 rs, nblocks s).

(* index of the first output on which the model and the reported outputs differ (for shrinking) *)
Fixpoint first_diff (a b : list cout) (i : N) : option N :=
  match a, b with
  | [], [] => None
  | x :: a', y :: b' => if cout_eqb x y then first_diff a' b' (N.succ i) else Some i
  | _, _ => Some i
  end.
Definition first_diff_case (x : config * list op) (expected : list cout) : option N :=
  first_diff (fst (run_case x)) expected 0.
