(* C29 — proofs: the allocator invariant over all histories and its consequences *)
From Coq Require Import ZArith NArith List Bool Lia.
Import ListNotations.
From Cffi Require Import C29.Model.
Open Scope Z_scope.

(* ---------- association lists keyed by N *)
Lemma lookup_In {B} h (l : list (N * B)) a : lookup N.eqb h l = Some a -> In (h, a) l.
Proof.
  induction l as [|[k v] l IH]; cbn; [discriminate|].
  destruct (N.eqb_spec h k); intros H; [inversion H; subst; auto|auto].
Qed.

Lemma lookup_None {B} h (l : list (N * B)) : lookup N.eqb h l = None -> ~ In h (map fst l).
Proof.
  induction l as [|[k v] l IH]; cbn; auto.
  destruct (N.eqb_spec h k); [discriminate|]. intros H [E|E]; [congruence|]. apply IH; auto.
Qed.

Lemma In_lookup {B} h a (l : list (N * B)) : NoDup (map fst l) -> In (h, a) l -> lookup N.eqb h l = Some a.
Proof.
  induction l as [|[k v] l IH]; cbn; [tauto|]. intros Hnd [E|E].
  - inversion E; subst. rewrite N.eqb_refl. reflexivity.
  - inversion Hnd; subst. destruct (N.eqb_spec h k).
    + subst. exfalso. apply H1. apply (in_map fst) in E. exact E.
    + auto.
Qed.

Lemma In_remove_key {B} h (l : list (N * B)) k v : In (k, v) (remove_key h l) <-> In (k, v) l /\ k <> h.
Proof.
  induction l as [|[k' v'] l IH]; cbn; [tauto|].
  destruct (N.eqb_spec h k').
  - subst. rewrite IH. split; [tauto|]. intros [[E|E] Hn]; [inversion E; congruence|tauto].
  - cbn. rewrite IH. split.
    + intros [E|[E Hn]]; [inversion E; subst; split; auto|tauto].
    + intros [[E|E] Hn]; [auto|tauto].
Qed.

Lemma lookup_remove_key_other {B} h k (l : list (N * B)) : k <> h -> lookup N.eqb k (remove_key h l) = lookup N.eqb k l.
Proof.
  intros Hne. induction l as [|[k' v'] l IH]; cbn; auto.
  destruct (N.eqb_spec h k').
  - subst. destruct (N.eqb_spec k k'); [congruence|auto].
  - cbn. destruct (N.eqb_spec k k'); auto.
Qed.

Lemma remove_key_fst_incl {B} h (l : list (N * B)) x : In x (map fst (remove_key h l)) -> In x (map fst l) /\ x <> h.
Proof.
  intros H. apply in_map_iff in H as [[k v] [E H]]. cbn in E; subst.
  apply In_remove_key in H as [H Hn]. split; auto. apply (in_map fst) in H. exact H.
Qed.

Lemma NoDup_remove_key_fst {B} h (l : list (N * B)) : NoDup (map fst l) -> NoDup (map fst (remove_key h l)).
Proof.
  induction l as [|[k v] l IH]; cbn; auto. intros Hnd. inversion Hnd; subst.
  destruct (N.eqb_spec h k); auto. cbn. constructor; auto.
  intros Hin. apply remove_key_fst_incl in Hin. tauto.
Qed.

Lemma NoDup_remove_key_snd {B} h (l : list (N * B)) : NoDup (map snd l) -> NoDup (map snd (remove_key h l)).
Proof.
  induction l as [|[k v] l IH]; cbn; auto. intros Hnd. inversion Hnd; subst.
  destruct (N.eqb_spec h k); auto. cbn. constructor; auto.
  intros Hin. apply H1. apply in_map_iff in Hin as [[k' v'] [E H]]. cbn in E; subst.
  apply In_remove_key in H as [H _]. apply (in_map snd) in H. exact H.
Qed.

Lemma snd_inj_of_NoDup {B} (l : list (N * B)) h k a :
  NoDup (map snd l) -> In (h, a) l -> In (k, a) l -> h = k.
Proof.
  induction l as [|[k' v'] l IH]; cbn; [tauto|]. intros Hnd H1 H2. inversion Hnd; subst.
  destruct H1 as [E1|H1], H2 as [E2|H2].
  - congruence.
  - inversion E1; subst. exfalso. apply H3. apply (in_map snd) in H2. exact H2.
  - inversion E2; subst. exfalso. apply H3. apply (in_map snd) in H1. exact H1.
  - eauto.
Qed.

Lemma addr_eqb_spec a b : reflect (a = b) (addr_eqb a b).
Proof.
  destruct a as [a1 a2], b as [b1 b2]. unfold addr_eqb; cbn.
  destruct (N.eqb_spec a1 b1), (N.eqb_spec a2 b2); cbn; constructor; congruence.
Qed.

(* ---------- more_core *)
Lemma In_push_items b n : forall i fl a,
  In a (push_items b i n fl) <-> In a fl \/ (fst a = b /\ (i <= snd a < i + N.of_nat n)%N).
Proof.
  induction n as [|n IH]; intros i fl a; cbn [push_items].
  - split; [auto|]. intros [H|[_ H]]; [auto|lia].
  - rewrite IH. cbn [In]. split.
    + intros [[E|H]|[E H]]; [subst; cbn; right; split; [auto|lia]|auto|right; split; [auto|lia]].
    + intros [H|[E H]]; [auto|].
      destruct (N.eq_dec (snd a) i) as [Ei|Ni].
      * left; left. destruct a; cbn in *; congruence.
      * right. split; [auto|lia].
Qed.

Lemma NoDup_push_items b n : forall i fl,
  NoDup fl -> (forall a, In a fl -> fst a <> b \/ (snd a < i)%N) -> NoDup (push_items b i n fl).
Proof.
  induction n as [|n IH]; intros i fl Hnd Hfl; cbn [push_items]; auto.
  apply IH.
  - constructor; auto. intros Hin. destruct (Hfl _ Hin) as [H|H]; cbn in H; [congruence|lia].
  - intros a [E|Hin]; [subst; cbn; right; lia|]. destruct (Hfl _ Hin); [auto|right; lia].
Qed.

(* ---------- the invariant *)
Definition live_addrs (s : state) : list addr := map snd (live s).

Record Inv (s : state) : Prop := {
  inv_free_nodup : NoDup (free_list s);
  inv_live_nodup : NoDup (live_addrs s);
  inv_disjoint : forall a, In a (free_list s) -> ~ In a (live_addrs s);
  inv_blocks : forall a, In a (free_list s) \/ In a (live_addrs s) -> (fst a < nblocks s)%N;
  inv_handles : NoDup (map fst (live s));
  inv_bound : forall h a, In (h, a) (live s) ->
              exists f, lookup N.eqb h (made s) = Some f /\ lookup addr_eqb a (udata s) = Some f
}.

Lemma inv_init : Inv init.
Proof. constructor; cbn; try constructor; try tauto. Qed.

Lemma more_core_inv c s : Inv s -> Inv (more_core c s).
Proof.
  intros [I1 I2 I3 I4 I5 I6]. constructor; cbn [more_core free_list live_addrs live nblocks udata made]; auto.
  - apply NoDup_push_items; auto. intros a Ha. left. specialize (I4 a (or_introl Ha)). lia.
  - intros a Ha Hl. apply In_push_items in Ha as [Ha|[Eb _]].
    + eapply I3; eauto.
    + specialize (I4 a (or_intror Hl)). lia.
  - intros a [Ha|Hl].
    + apply In_push_items in Ha as [Ha|[Eb _]]; [specialize (I4 a (or_introl Ha))|]; lia.
    + specialize (I4 a (or_intror Hl)). lia.
Qed.

Lemma closure_alloc_inv c s a s1 :
  Inv s -> closure_alloc c s = Some (a, s1) ->
  ~ In a (live_addrs s) /\ ~ In a (free_list s1) /\ live s1 = live s /\ udata s1 = udata s /\ made s1 = made s /\
  (forall x, In x (free_list s1) -> ~ In x (live_addrs s)) /\ NoDup (free_list s1) /\
  (fst a < nblocks s1)%N /\ (forall x, In x (free_list s1) \/ In x (live_addrs s) -> (fst x < nblocks s1)%N).
Proof.
  intros HI H. unfold closure_alloc in H.
  set (s0 := match free_list s with [] => more_core c s | _ :: _ => s end) in *.
  assert (HI0 : Inv s0) by (subst s0; destruct (free_list s); [apply more_core_inv|]; auto).
  assert (Hl : live s0 = live s /\ udata s0 = udata s /\ made s0 = made s)
    by (subst s0; destruct (free_list s); cbn; auto).
  destruct Hl as (Hl & Hu & Hm).
  destruct (free_list s0) as [|x rest] eqn:Hf; [discriminate|]. inversion H; subst; clear H.
  destruct HI0 as [I1 I2 I3 I4 I5 I6]. rewrite Hf in *. unfold live_addrs in *. rewrite Hl in *.
  cbn [free_list live udata made nblocks]. inversion I1; subst.
  repeat split; auto.
  - apply I3. left; auto.
  - intros y Hy. apply I3. right; auto.
  - apply I4. left; left; auto.
  - intros y [Hy|Hy]; apply I4; [left; right|right]; auto.
Qed.

Lemma step_inv c s o : Inv s -> Inv (fst (step c s o)).
Proof.
  intros HI. destruct o as [h f| |h|h]; cbn [step].
  - (* Create *)
    destruct (lookup N.eqb h (live s)) eqn:Hh; [auto|].
    destruct (closure_alloc c s) as [[a s1]|] eqn:Ha; [|auto].
    destruct (closure_alloc_inv _ _ _ _ HI Ha) as (A1 & A2 & A3 & A4 & A5 & A6 & A7 & A8 & A9).
    destruct HI as [I1 I2 I3 I4 I5 I6]. apply lookup_None in Hh.
    constructor; unfold live_addrs in *; cbn [fst free_list live nblocks udata made map snd];
      rewrite ?A3, ?A4, ?A5 in *; auto.
    + constructor; auto.
    + intros x Hx [E|Hl]; [subst; auto|]. eapply A6; eauto.
    + intros x [Hx|[E|Hl]]; [apply A9; auto|subst; auto|apply A9; auto].
    + cbn. constructor; auto.
    + intros h' a' [E|Hin].
      * inversion E; subst. exists f. cbn. rewrite N.eqb_refl.
        destruct (addr_eqb_spec a' a'); [auto|congruence].
      * destruct (I6 _ _ Hin) as (f' & F1 & F2). exists f'. cbn.
        assert (h' <> h) by (intros ->; apply Hh; apply (in_map fst) in Hin; exact Hin).
        destruct (N.eqb_spec h' h); [congruence|]. rewrite lookup_remove_key_other by auto.
        destruct (addr_eqb_spec a' a); [|auto].
        subst. exfalso. apply A1. apply (in_map snd) in Hin. exact Hin.
  - (* CreateFail *)
    destruct (closure_alloc c s) as [[a s1]|] eqn:Ha; [|auto].
    destruct (closure_alloc_inv _ _ _ _ HI Ha) as (A1 & A2 & A3 & A4 & A5 & A6 & A7 & A8 & A9).
    destruct HI as [I1 I2 I3 I4 I5 I6].
    constructor; unfold live_addrs in *; cbn [fst closure_free free_list live nblocks udata made];
      rewrite ?A3, ?A4, ?A5 in *; auto.
    + constructor; auto.
    + intros x [E|Hx]; [subst; auto|auto].
    + intros x [[E|Hx]|Hl]; [subst; auto|apply A9; auto|apply A9; auto].
  - (* Drop *)
    destruct (lookup N.eqb h (live s)) as [a|] eqn:Hh; [|auto].
    apply lookup_In in Hh. destruct HI as [I1 I2 I3 I4 I5 I6].
    assert (Hna : ~ In a (map snd (remove_key h (live s)))).
    { intros Hin. apply in_map_iff in Hin as [[k v] [E Hin]]. cbn in E; subst.
      apply In_remove_key in Hin as [Hin Hne]. apply Hne.
      eapply snd_inj_of_NoDup; eauto. }
    constructor; unfold live_addrs in *; cbn [fst closure_free free_list live nblocks udata made].
    + constructor; auto. intros Hin. apply (I3 _ Hin). apply (in_map snd) in Hh. exact Hh.
    + apply NoDup_remove_key_snd; auto.
    + intros x [E|Hx] Hl; [subst; auto|].
      apply (I3 _ Hx). apply in_map_iff in Hl as [[k v] [E Hin]]. cbn in E; subst.
      apply In_remove_key in Hin as [Hin _]. apply (in_map snd) in Hin. exact Hin.
    + intros x [[E|Hx]|Hl].
      * subst. apply I4. right. apply (in_map snd) in Hh. exact Hh.
      * apply I4; auto.
      * apply I4. right. apply in_map_iff in Hl as [[k v] [E Hin]]. cbn in E; subst.
        apply In_remove_key in Hin as [Hin _]. apply (in_map snd) in Hin. exact Hin.
    + apply NoDup_remove_key_fst; auto.
    + intros h' a' Hin. apply In_remove_key in Hin as [Hin _]. auto.
  - (* Call *)
    destruct (lookup N.eqb h (live s)); [|auto]. destruct (lookup addr_eqb a (udata s)); auto.
Qed.

Lemma run_inv c h : forall s, Inv s -> Inv (fst (run c s h)).
Proof.
  induction h as [|o h IH]; cbn; intros s HI; auto.
  destruct (step c s o) as [s1 r] eqn:Hs. destruct (run c s1 h) as [s2 rs] eqn:Hr. cbn.
  change s2 with (fst (s2, rs)). rewrite <- Hr. apply IH.
  change s1 with (fst (s1, r)). rewrite <- Hs. apply step_inv; auto.
Qed.

Definition reachable (c : config) (s : state) : Prop := exists h, s = fst (run c init h).

Lemma reachable_inv c s : reachable c s -> Inv s.
Proof. intros [h ->]. apply run_inv. apply inv_init. Qed.

(* ---------- consequences *)

(* every allocation returns an address that no live callback has, and the new set of live
   addresses is again duplicate-free *)
Theorem create_fresh c s h f a :
  reachable c s -> snd (step c s (Create h f)) = OAddr a ->
  ~ In a (live_addrs s) /\ live s = remove_key h (live (fst (step c s (Create h f)))) /\
  In (h, a) (live (fst (step c s (Create h f)))).
Proof.
  intros HR H. apply reachable_inv in HR. cbn [step] in *.
  destruct (lookup N.eqb h (live s)) eqn:Hh; [discriminate|].
  destruct (closure_alloc c s) as [[a' s1]|] eqn:Ha; [|discriminate]. cbn in H. inversion H; subst.
  destruct (closure_alloc_inv _ _ _ _ HR Ha) as (A1 & A2 & A3 & _). cbn [fst live]. rewrite A3.
  repeat split; auto.
  - cbn. rewrite N.eqb_refl. apply lookup_None in Hh.
    clear -Hh. induction (live s) as [|[k v] l IH]; cbn in *; auto.
    destruct (N.eqb_spec h k); [subst; tauto|]. f_equal. apply IH. tauto.
  - left; auto.
Qed.

(* live callbacks have pairwise distinct addresses *)
Theorem live_distinct c s h1 h2 a :
  reachable c s -> In (h1, a) (live s) -> In (h2, a) (live s) -> h1 = h2.
Proof.
  intros HR H1 H2. apply reachable_inv in HR. destruct HR. eapply snd_inj_of_NoDup; eauto.
Qed.

(* calling a live callback runs the function it was created with *)
Theorem call_own c s h a :
  reachable c s -> In (h, a) (live s) ->
  exists f, lookup N.eqb h (made s) = Some f /\ step c s (Call h) = (s, OFn f).
Proof.
  intros HR Hin. apply reachable_inv in HR. destruct HR as [I1 I2 I3 I4 I5 I6].
  destruct (I6 _ _ Hin) as (f & F1 & F2). exists f. split; auto.
  cbn [step]. rewrite (In_lookup _ _ _ I5 Hin), F2. reflexivity.
Qed.

(* ... and that function is the one given to the Create that made the handle, as long as the
   handle has not been re-created *)
Lemma made_after_create c s h f a :
  snd (step c s (Create h f)) = OAddr a -> lookup N.eqb h (made (fst (step c s (Create h f)))) = Some f.
Proof.
  cbn [step]. destruct (lookup N.eqb h (live s)); [discriminate|].
  destruct (closure_alloc c s) as [[a' s1]|]; [|discriminate]. cbn. rewrite N.eqb_refl. reflexivity.
Qed.

Lemma alloc_made c s a s1 : closure_alloc c s = Some (a, s1) -> made s1 = made s.
Proof.
  unfold closure_alloc.
  set (s0 := match free_list s with [] => more_core c s | _ :: _ => s end).
  assert (Hm : made s0 = made s) by (subst s0; destruct (free_list s); reflexivity).
  destruct (free_list s0); [discriminate|]. intros H; inversion H; subst. cbn. exact Hm.
Qed.

Lemma made_stable c s o h :
  (forall f, o <> Create h f) -> lookup N.eqb h (made (fst (step c s o))) = lookup N.eqb h (made s).
Proof.
  intros Hn. destruct o as [h' f'| |h'|h']; cbn [step].
  - destruct (lookup N.eqb h' (live s)); [reflexivity|].
    destruct (closure_alloc c s) as [[a s1]|] eqn:Ha; [|reflexivity]. cbn.
    assert (h <> h') by (intros ->; eapply Hn; eauto).
    destruct (N.eqb_spec h h'); [congruence|]. rewrite lookup_remove_key_other by auto.
    rewrite (alloc_made _ _ _ _ Ha). reflexivity.
  - destruct (closure_alloc c s) as [[a s1]|] eqn:Ha; [|reflexivity]. cbn.
    rewrite (alloc_made _ _ _ _ Ha). reflexivity.
  - destruct (lookup N.eqb h' (live s)); reflexivity.
  - destruct (lookup N.eqb h' (live s)); [|reflexivity]. destruct (lookup addr_eqb a (udata s)); reflexivity.
Qed.

(* reuse is LIFO: the closure freed last is the one handed out next *)
Theorem lifo_reuse c s h a h' f :
  reachable c s -> In (h, a) (live s) ->
  lookup N.eqb h' (live (fst (step c s (Drop h)))) = None ->
  snd (step c (fst (step c s (Drop h))) (Create h' f)) = OAddr a.
Proof.
  intros HR Hin Hh'. apply reachable_inv in HR. destruct HR as [I1 I2 I3 I4 I5 I6].
  cbn [step] in *. rewrite (In_lookup _ _ _ I5 Hin) in *. cbn [fst closure_free live] in *.
  rewrite Hh'. unfold closure_alloc. cbn. reflexivity.
Qed.

(* a failed ffi.callback() leaves the allocator as it would be after alloc+free: the next
   successful one gets the very address the failed one had used *)
Theorem create_fail_no_leak c s :
  reachable c s ->
  live (fst (step c s CreateFail)) = live s /\
  (forall a s1, closure_alloc c s = Some (a, s1) -> free_list (fst (step c s CreateFail)) = a :: free_list s1).
Proof.
  intros HR. cbn [step]. destruct (closure_alloc c s) as [[a s1]|] eqn:Ha.
  - apply reachable_inv in HR. destruct (closure_alloc_inv _ _ _ _ HR Ha) as (_ & _ & A3 & _).
    cbn. split; auto. intros a' s1' E. inversion E; subst. reflexivity.
  - split; auto. intros; discriminate.
Qed.

(* more_core runs only on an empty free list, and hands out count_of(grow npages) new items *)
Theorem grows_only_when_empty c s a s1 :
  closure_alloc c s = Some (a, s1) -> free_list s <> [] -> nblocks s1 = nblocks s /\ npages s1 = npages s.
Proof.
  unfold closure_alloc. destruct (free_list s) eqn:Hf; [congruence|]. cbn. rewrite Hf.
  intros H _. inversion H; subst. auto.
Qed.

Lemma push_items_length b n : forall i fl, length (push_items b i n fl) = (n + length fl)%nat.
Proof. induction n; intros; cbn; auto. rewrite IHn. cbn. lia. Qed.

Theorem growth_amount c s :
  free_list s = [] ->
  length (free_list (more_core c s)) = N.to_nat (count_of c (grow (npages s))) /\
  npages (more_core c s) = 1 + (npages s * 13) / 10.
Proof. intros Hf. cbn. rewrite push_items_length, Hf. cbn. split; [lia|reflexivity]. Qed.

(* ---------- binding over a whole history: from its creation until it is dropped, calling a
   callback runs the function it was created with — whatever else is created, fails to be
   created, dropped or called in between *)
Lemma alloc_live c s a s1 : closure_alloc c s = Some (a, s1) -> live s1 = live s.
Proof.
  unfold closure_alloc.
  set (s0 := match free_list s with [] => more_core c s | _ :: _ => s end).
  assert (Hm : live s0 = live s) by (subst s0; destruct (free_list s); reflexivity).
  destruct (free_list s0); [discriminate|]. intros H; inversion H; subst. cbn. exact Hm.
Qed.

Lemma live_stable c s o h a :
  o <> Drop h -> In (h, a) (live s) -> In (h, a) (live (fst (step c s o))).
Proof.
  intros Hn Hin. destruct o as [h' f'| |h'|h']; cbn [step].
  - destruct (lookup N.eqb h' (live s)); [auto|].
    destruct (closure_alloc c s) as [[a' s1]|] eqn:Ha; [|auto]. cbn. right.
    rewrite (alloc_live _ _ _ _ Ha). auto.
  - destruct (closure_alloc c s) as [[a' s1]|] eqn:Ha; [|auto]. cbn.
    rewrite (alloc_live _ _ _ _ Ha). auto.
  - destruct (lookup N.eqb h' (live s)); [|auto]. cbn. apply In_remove_key. split; auto. congruence.
  - destruct (lookup N.eqb h' (live s)); [|auto]. destruct (lookup addr_eqb a0 (udata s)); auto.
Qed.

Lemma reachable_step c s o : reachable c s -> reachable c (fst (step c s o)).
Proof.
  intros [h ->]. exists (h ++ [o]).
  assert (G : forall h s0, fst (run c s0 (h ++ [o])) = fst (step c (fst (run c s0 h)) o)).
  { induction h0 as [|o' h0 IH]; intros s0; cbn.
    - destruct (step c s0 o); reflexivity.
    - destruct (step c s0 o') as [s1 r]. specialize (IH s1).
      destruct (run c s1 (h0 ++ [o])); destruct (run c s1 h0); cbn in *. auto. }
  rewrite G. reflexivity.
Qed.

Theorem call_runs_creator c h1 hh f a : forall h2,
  let s1 := fst (run c init h1) in
  snd (step c s1 (Create hh f)) = OAddr a ->
  (forall o, In o h2 -> o <> Drop hh /\ forall f', o <> Create hh f') ->
  let s := fst (run c (fst (step c s1 (Create hh f))) h2) in
  step c s (Call hh) = (s, OFn f).
Proof.
  intros h2 s1 Hc.
  assert (HR1 : reachable c s1) by (exists h1; reflexivity).
  destruct (create_fresh _ _ _ _ _ HR1 Hc) as (_ & _ & Hin).
  pose proof (made_after_create _ _ _ _ _ Hc) as Hm.
  pose proof (reachable_step c s1 (Create hh f) HR1) as HR2.
  revert Hin Hm HR2. generalize (fst (step c s1 (Create hh f))). clear Hc HR1.
  induction h2 as [|o h2 IH]; intros s0 Hin Hm HR Hall; cbn [run fst].
  - destruct (call_own _ _ _ _ HR Hin) as (f' & F1 & F2). rewrite F2. congruence.
  - destruct (step c s0 o) as [s2 r] eqn:Hs. destruct (run c s2 h2) as [s3 rs] eqn:Hr. cbn [fst].
    change s3 with (fst (s3, rs)). rewrite <- Hr.
    destruct (Hall o (or_introl eq_refl)) as [Hd Hcr].
    apply IH.
    + change s2 with (fst (s2, r)). rewrite <- Hs. apply live_stable; auto.
    + change s2 with (fst (s2, r)). rewrite <- Hs. rewrite made_stable; auto.
    + change s2 with (fst (s2, r)). rewrite <- Hs. apply reachable_step; auto.
    + intros o' Ho'. apply Hall. right; auto.
Qed.
