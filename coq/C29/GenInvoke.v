(* REGENERATED on every run by tools/props/c29.py (translate_invoke) from general_invoke_callback() in
   src/c/_cffi_backend.c, in source order: Py_INCREF(cb_args) / Py_DECREF(cb_args); every read of the info
   tuple cb_args or through a pointer borrowed from it (GUse: PyTuple_GET_ITEM(cb_args, i), SIGNATURE(i),
   ct, signature, py_ob, py_rawerr, onerror_cb, ... found by following `x = PyTuple_GET_ITEM(borrowed, i)` /
   `x = borrowed->field`); every call-out during which Python code may run (GCall: every call of a function
   outside a short list of known-pure ones); every `goto error;` of the main part, the labels done: / error:,
   `return;` and `goto done;`.  The two branches of an if/else are listed one after the other.
   The committed copy is GenInvoke.v.snapshot.  Do not edit. *)
From Coq Require Import List.
Import ListNotations.
From Cffi Require Import C29.Invoke.

Definition invoke_events : list gev :=
  [ GUse; GUse; GUse; GInc; GUse; GFail; GUse; GUse; GUse; GFail; GCall; GUse; GFail; GCall; GUse;
    GFail; GDoneLabel; GCall; GCall; GDec; GReturn; GErrorLabel; GUse; GUse; GUse; GUse; GUse;
    GUse; GCall; GCall; GUse; GCall; GCall; GCall; GUse; GCall; GUse; GUse; GUse; GUse; GUse;
    GCall; GCall; GCall; GCall; GCall; GCall; GUse; GCall; GCall; GGotoDone ].
