(* REGENERATED on every run by tools/props/c29.py (regen) from general_invoke_callback() in
   src/c/_cffi_backend.c: Py_INCREF(cb_args) / Py_DECREF(cb_args), every `goto error;` of the main part,
   the labels done: / error:, `return;` and `goto done;`, in source order.  The committed copy is
   GenInvoke.v.snapshot.  Do not edit. *)
From Coq Require Import List.
Import ListNotations.
From Cffi Require Import C29.Invoke.

Definition invoke_events : list gev :=
  [ GInc; GFail; GFail; GFail; GFail; GDoneLabel; GDec; GReturn; GErrorLabel; GGotoDone ].
