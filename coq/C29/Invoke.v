(* C29 — reference count of a callback's info tuple along general_invoke_callback()
   (src/c/_cffi_backend.c).  The tuple (ctype, Python function, error value, onerror) is owned by
   closure->user_data only; general_invoke_callback takes a temporary reference.  Its INCREF / DECREF
   positions relative to the `goto error` exits and the `done:` / `error:` labels are regenerated from the
   source into C29/GenInvoke.v as a list of events; here: the paths through that list and their effect. *)
From Coq Require Import ZArith NArith List Bool Lia.
Import ListNotations.
Open Scope Z_scope.

Inductive gev :=
| GInc            (* Py_INCREF(cb_args) *)
| GDec            (* Py_DECREF(cb_args) *)
| GFail           (* a `goto error;` in the main part (PyTuple_New, convert_to_object of an argument,
                     PyObject_Call, convert_from_object of the result) *)
| GDoneLabel      (* done: *)
| GReturn         (* return; *)
| GErrorLabel     (* error: *)
| GGotoDone.      (* goto done; *)

Definition gev_eqb (a b : gev) : bool :=
  match a, b with
  | GInc, GInc | GDec, GDec | GFail, GFail | GDoneLabel, GDoneLabel | GReturn, GReturn
  | GErrorLabel, GErrorLabel | GGotoDone, GGotoDone => true
  | _, _ => false
  end.

(* events after the first occurrence of label lbl, up to (excluding) the first stop event *)
Fixpoint after (lbl : gev) (l : list gev) : list gev :=
  match l with [] => [] | x :: t => if gev_eqb x lbl then t else after lbl t end.
Fixpoint until (stop : gev) (l : list gev) : list gev :=
  match l with [] => [] | x :: t => if gev_eqb x stop then [] else x :: until stop t end.

(* the main part up to (excluding) the k-th `goto error` (k >= 1); earlier ones were not taken *)
Fixpoint upto_fail (k : nat) (l : list gev) : list gev :=
  match l with
  | [] => []
  | GFail :: t => match k with O => [] | S O => [] | S k' => upto_fail k' t end
  | x :: t => x :: upto_fail k t
  end.

(* path 0: no failure; path k: the k-th `goto error` is taken, then error: ... goto done, then done: ... return *)
Definition path (ev : list gev) (k : nat) : list gev :=
  match k with
  | O => filter (fun x => negb (gev_eqb x GFail)) (until GReturn ev)
  | S _ => upto_fail k ev ++ until GGotoDone (after GErrorLabel ev) ++ until GReturn (after GDoneLabel ev)
  end.

Definition nfails (ev : list gev) : nat := length (filter (gev_eqb GFail) (until GDoneLabel ev)).

(* net effect on the reference count, and the lowest point reached *)
Fixpoint walk (p : list gev) (cur low : Z) : Z * Z :=
  match p with
  | [] => (cur, low)
  | GInc :: t => walk t (cur + 1) low
  | GDec :: t => walk t (cur - 1) (Z.min low (cur - 1))
  | _ :: t => walk t cur low
  end.
Definition delta (p : list gev) : Z := fst (walk p 0 0).
Definition balanced (p : list gev) : bool := (delta p =? 0) && (0 <=? snd (walk p 0 0)).

(* every path leaves the count as it found it and never goes below it *)
Definition all_paths_balanced (ev : list gev) : bool :=
  forallb (fun k => balanced (path ev k)) (seq 0 (S (nfails ev))).
