(* C29 — reference count of a callback's info tuple along general_invoke_callback()
   (src/c/_cffi_backend.c).  The tuple (ctype, Python function, error value, onerror) is owned by
   closure->user_data only; general_invoke_callback takes a temporary reference.  Its INCREF / DECREF
   positions relative to the `goto error` exits and the `done:` / `error:` labels are regenerated from the
   source into C29/GenInvoke.v as a list of events; here: the paths through that list and their effect. *)
From Coq Require Import ZArith NArith List Bool Lia.
Import ListNotations.
Open Scope Z_scope.

Inductive gev :=
| GInc            (* Py_INCREF(cb_args) *)
| GDec            (* Py_DECREF(cb_args) *)
| GFail           (* a `goto error;` in the main part (PyTuple_New, convert_to_object of an argument,
                     PyObject_Call, convert_from_object of the result) *)
| GDoneLabel      (* done: *)
| GReturn         (* return; *)
| GErrorLabel     (* error: *)
| GGotoDone       (* goto done; *)
| GCall           (* a call-out during which arbitrary Python code may run — PyObject_Call(py_ob, ...), the onerror
                     handler, sys.unraisablehook, __int__/__float__ of the result, finalizers run by a Py_DECREF of
                     another object — and so may drop the callback's last reference (its cdataowninggc_dealloc
                     does Py_XDECREF(closure->user_data)) *)
| GUse.           (* a read of the info tuple or through a pointer borrowed from it: PyTuple_GET_ITEM(cb_args, i),
                     SIGNATURE(i), ct->..., py_ob, py_rawerr, onerror_cb *)

Definition gev_eqb (a b : gev) : bool :=
  match a, b with
  | GInc, GInc | GDec, GDec | GFail, GFail | GDoneLabel, GDoneLabel | GReturn, GReturn
  | GErrorLabel, GErrorLabel | GGotoDone, GGotoDone | GCall, GCall | GUse, GUse => true
  | _, _ => false
  end.

(* events after the first occurrence of label lbl, up to (excluding) the first stop event *)
Fixpoint after (lbl : gev) (l : list gev) : list gev :=
  match l with [] => [] | x :: t => if gev_eqb x lbl then t else after lbl t end.
Fixpoint until (stop : gev) (l : list gev) : list gev :=
  match l with [] => [] | x :: t => if gev_eqb x stop then [] else x :: until stop t end.

(* the main part up to (excluding) the k-th `goto error` (k >= 1); earlier ones were not taken *)
Fixpoint upto_fail (k : nat) (l : list gev) : list gev :=
  match l with
  | [] => []
  | GFail :: t => match k with O => [] | S O => [] | S k' => upto_fail k' t end
  | x :: t => x :: upto_fail k t
  end.

(* path 0: no failure; path k: the k-th `goto error` is taken, then error: ... goto done, then done: ... return *)
Definition path (ev : list gev) (k : nat) : list gev :=
  match k with
  | O => filter (fun x => negb (gev_eqb x GFail)) (until GReturn ev)
  | S _ => upto_fail k ev ++ until GGotoDone (after GErrorLabel ev) ++ until GReturn (after GDoneLabel ev)
  end.

Definition nfails (ev : list gev) : nat := length (filter (gev_eqb GFail) (until GDoneLabel ev)).

(* net effect on the reference count, and the lowest point reached *)
Fixpoint walk (p : list gev) (cur low : Z) : Z * Z :=
  match p with
  | [] => (cur, low)
  | GInc :: t => walk t (cur + 1) low
  | GDec :: t => walk t (cur - 1) (Z.min low (cur - 1))
  | _ :: t => walk t cur low
  end.
Definition delta (p : list gev) : Z := fst (walk p 0 0).
Definition balanced (p : list gev) : bool := (delta p =? 0) && (0 <=? snd (walk p 0 0)).

(* every path leaves the count as it found it and never goes below it *)
Definition all_paths_balanced (ev : list gev) : bool :=
  forallb (fun k => balanced (path ev k)) (seq 0 (S (nfails ev))).

(* ---------- the tuple is HELD at every use.
   [own] = references general_invoke_callback itself holds at this point (its INCREFs minus its DECREFs);
   [dropped] = a call-out has happened, so the owner's reference (closure->user_data) may be gone.
   Before the first call-out the caller's reference is still there; from the first call-out on, every read
   of the tuple (or through a pointer borrowed from it), every further call-out and every INCREF/DECREF
   needs own >= 1; a call-out itself needs own >= 1 (py_ob, borrowed from the tuple, is running);
   at the end the function holds nothing. *)
Fixpoint safe (p : list gev) (own : Z) (dropped : bool) : bool :=
  match p with
  | [] => own =? 0
  | GInc :: t => (negb dropped || (1 <=? own)) && safe t (own + 1) dropped
  | GDec :: t => (1 <=? own) && safe t (own - 1) dropped
  | GCall :: t => (1 <=? own) && safe t own true
  | GUse :: t => (negb dropped || (1 <=? own)) && safe t own dropped
  | _ :: t => safe t own dropped
  end.

Definition held_at_uses (ev : list gev) : bool :=
  forallb (fun k => safe (path ev k) 0 false) (seq 0 (S (nfails ev))).
