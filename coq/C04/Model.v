(* C04 — model of ffi.cast to integer / character types.

   Hand-transcribed (tied by the correspondence run of tools/props/c04.py):
     cast_to_integer_or_char                 src/c/_cffi_backend.c:4032
     _my_PyObject_AsBool                                           :3967
     _my_PyLong_AsUnsignedLongLong(ob, 0) (masking; floats via nb_int = truncation)  :869
     write_raw_integer_data                                        :970   (shared with C03)
     cdata_int (what int() of the result returns)                  :2308
     do_cast, pointer branch                                       :4128
   Sources: Python int (bool = 0/1), finite float m*2^e, 1-byte bytes, one-character str,
   pointer/array/function cdata (its address).  x86-64: ffi_arg/pointers 64 bit, little endian. *)
From Coq Require Import ZArith List Bool.
From Cffi Require Import C03.Mem.
Import ListNotations.
Open Scope Z_scope.

Inductive src :=
| SInt (v : Z)
| SFloat (m e : Z)            (* finite: m * 2^e *)
| SBytes (b : Z)              (* 0..255 *)
| SStr (cp : Z)               (* code point 0..0x10FFFF *)
| SPtr (addr : Z).            (* 0 <= addr < 2^64 *)

(* target ctypes of cast_to_integer_or_char *)
Inductive tkind := KSigned | KUnsigned | KBool | KChar (signed_wchar : bool).
Record cty := mk_cty { ckind : tkind; csize : nat }.

(* float.__int__: truncation toward zero *)
Definition float_to_int (m e : Z) : Z :=
  if 0 <=? e then m * 2 ^ e else Z.quot m (2 ^ (- e)).

Definition to_u64 (z : Z) : Z := z mod 2 ^ 64.

(* _my_PyObject_AsBool *)
Definition as_bool (s : src) : Z :=
  match s with
  | SInt v => if v =? 0 then 0 else 1
  | SFloat m _ => if m =? 0 then 0 else 1
  | _ => 0   (* not reached: str/bytes/pointers are taken by earlier branches *)
  end.

(* the `unsigned long long value` computed by cast_to_integer_or_char before got_value *)
Definition cast_value (T : cty) (s : src) : Z :=
  match s with
  | SPtr a => to_u64 a                                  (* (Py_intptr_t)c_data *)
  | SStr cp =>
      match ckind T with
      | KChar true => to_u64 ((cp + 2 ^ 31) mod 2 ^ 32 - 2 ^ 31)   (* value = (wchar_t)ordinal *)
      | _ => cp
      end
  | SBytes b => b mod 256                               (* (unsigned char)res *)
  | SInt v =>
      match ckind T with
      | KBool => as_bool s
      | _ => to_u64 v                                   (* PyLong_AsUnsignedLongLongMask *)
      end
  | SFloat m e =>
      match ckind T with
      | KBool => as_bool s
      | _ => to_u64 (float_to_int m e)                  (* nb_int, then the mask *)
      end
  end.

Definition cast_bytes (T : cty) (s : src) : list Z :=
  let value := cast_value T s in
  let value := match ckind T with KBool => if value =? 0 then 0 else 1 | _ => value end in   (* !!value *)
  write_raw (csize T) value.

(* cdata_int *)
Definition cdata_int (T : cty) (bs : list Z) : Z :=
  match ckind T with
  | KSigned => read_raw_signed bs
  | KUnsigned | KBool => read_raw_unsigned bs
  | KChar sw => if sw && (csize T =? 4)%nat then read_raw_signed bs else read_raw_unsigned bs
  end.

Definition int_of_cast (T : cty) (s : src) : Z := cdata_int T (cast_bytes T s).

(* do_cast, pointer branch with an int source: (char * )(Py_intptr_t)AsUnsignedLongLongMask(v) *)
Definition cast_int_to_ptr (v : Z) : Z := to_u64 v.

(* ---- for the correspondence run: kind code 0 signed, 1 unsigned, 2 bool, 3 char, 4 signed wchar;
        source code 0 int, 1 float(m,e), 2 bytes, 3 str, 4 pointer *)
Definition kind_of (k : Z) : tkind :=
  if k =? 0 then KSigned else if k =? 1 then KUnsigned else if k =? 2 then KBool
  else if k =? 3 then KChar false else KChar true.
Definition src_of (c a b : Z) : src :=
  if c =? 0 then SInt a else if c =? 1 then SFloat a b else if c =? 2 then SBytes a
  else if c =? 3 then SStr a else SPtr a.
Definition cast_obs (k size c a b : Z) : Z :=
  int_of_cast (mk_cty (kind_of k) (Z.to_nat size)) (src_of c a b).
