(* C04 — model of ffi.cast to integer / character types.

   Hand-transcribed (tied by the correspondence run of tools/props/c04.py):
     cast_to_integer_or_char                 src/c/_cffi_backend.c:4068
     _my_PyObject_AsBool                                           :4003
     _my_PyLong_AsUnsignedLongLong(ob, 0) (masking; floats via nb_int = truncation)  :869
     write_raw_integer_data                                        :970   (C03/Mem.v)
     cdata_int (what int() of the result returns)                  :2332
     do_cast, pointer branch                                       :4160
   Sources the property lists: Python int (bool = 0/1), finite float m*2^e, 1-byte bytes,
   one-character str, pointer/array/function cdata (its address).  The other outcomes of the real
   code are explicit as well: infinities/NaN, bytes/str of another length, objects without
   nb_int/nb_float raise; nothing is totalised away.  x86-64, little endian. *)
From Coq Require Import ZArith List Bool.
From Cffi Require Import C03.Mem.
Import ListNotations.
Open Scope Z_scope.

Inductive src :=
| SInt (v : Z)
| SFloat (m e : Z)            (* finite: m * 2^e *)
| SBytes (b : Z)              (* bytes of length 1; 0..255 *)
| SStr (cp : Z)               (* str of length 1; code point 0..0x10FFFF *)
| SPtr (addr : Z)             (* pointer/array/function cdata; 0 <= addr < 2^64 *)
(* not listed by the property *)
| SFloatInf                   (* +-inf *)
| SFloatNan
| SBytesLen (n : Z)           (* bytes of length n <> 1 *)
| SStrLen (n : Z)             (* str of length n <> 1 *)
| SOther.                     (* None, list, ...: neither nb_int nor nb_float *)

Inductive cexc := CTypeError | COverflowError | CValueError.
Inductive cres (A : Type) := COk (a : A) | CErr (e : cexc).
Arguments COk {A} a.
Arguments CErr {A} e.

(* target ctypes of cast_to_integer_or_char *)
Inductive tkind := KSigned | KUnsigned | KBool | KChar (signed_wchar : bool).
Record cty := mk_cty { ckind : tkind; csize : nat }.

(* float.__int__: truncation toward zero *)
Definition float_to_int (m e : Z) : Z :=
  if 0 <=? e then m * 2 ^ e else Z.quot m (2 ^ (- e)).

Definition to_u64 (z : Z) : Z := z mod 2 ^ 64.
Definition nonzero (z : Z) : Z := if z =? 0 then 0 else 1.

(* the `unsigned long long value` computed by cast_to_integer_or_char before got_value;
   branch order as in the code: pointer-like cdata, str, bytes, _Bool target, everything else *)
Definition cast_value (T : cty) (s : src) : cres Z :=
  match s with
  | SPtr a => COk (to_u64 a)                                  (* (Py_intptr_t)c_data *)
  | SStr cp =>
      match ckind T with
      | KChar true => COk (to_u64 ((cp + 2 ^ 31) mod 2 ^ 32 - 2 ^ 31))   (* value = (wchar_t)ordinal *)
      | _ => COk cp
      end
  | SStrLen _ => CErr CTypeError                              (* _my_PyUnicode_AsSingleChar32 fails *)
  | SBytes b => COk (b mod 256)                               (* (unsigned char)res *)
  | SBytesLen _ => CErr CTypeError                            (* _convert_to_char fails *)
  | SInt v =>
      match ckind T with
      | KBool => COk (nonzero v)                              (* _PyLong_Sign(ob) != 0 *)
      | _ => COk (to_u64 v)                                   (* PyLong_AsUnsignedLongLongMask *)
      end
  | SFloat m e =>
      match ckind T with
      | KBool => COk (nonzero m)                              (* PyFloat_AS_DOUBLE(ob) != 0.0 *)
      | _ => COk (to_u64 (float_to_int m e))                  (* nb_int, then the mask *)
      end
  | SFloatInf =>
      match ckind T with
      | KBool => COk 1
      | _ => CErr COverflowError                              (* float.__int__ of an infinity *)
      end
  | SFloatNan =>
      match ckind T with
      | KBool => COk 1                                        (* nan != 0.0 *)
      | _ => CErr CValueError
      end
  | SOther => CErr CTypeError
  end.

Definition cast_bytes (T : cty) (s : src) : cres (list Z) :=
  match cast_value T s with
  | COk value =>
      let value := match ckind T with KBool => nonzero value | _ => value end in   (* !!value *)
      COk (write_raw (csize T) value)
  | CErr e => CErr e
  end.

(* cdata_int *)
Definition cdata_int (T : cty) (bs : list Z) : Z :=
  match ckind T with
  | KSigned => read_raw_signed bs
  | KUnsigned | KBool => read_raw_unsigned bs
  | KChar sw => if sw && (csize T =? 4)%nat then read_raw_signed bs else read_raw_unsigned bs
  end.

(* int(ffi.cast(T, x)) *)
Definition int_of_cast (T : cty) (s : src) : cres Z :=
  match cast_bytes T s with
  | COk bs => COk (cdata_int T bs)
  | CErr e => CErr e
  end.

(* do_cast, pointer branch with an int source: (char * )(Py_intptr_t)AsUnsignedLongLongMask(v),
   on a platform whose pointers have psize bytes *)
Definition cast_int_to_ptr (psize : nat) (v : Z) : Z := (to_u64 v) mod 2 ^ (8 * Z.of_nat psize).

(* ---- for the correspondence run: kind code 0 signed, 1 unsigned, 2 bool, 3 char, 4 signed wchar;
        source code 0 int, 1 float(m,e), 2 bytes, 3 str, 4 pointer, 5 inf, 6 nan, 7 bytes of
        length a, 8 str of length a, 9 other.  Result (0, value) or (1 TypeError | 2 OverflowError |
        3 ValueError, 0). *)
Definition kind_of (k : Z) : tkind :=
  if k =? 0 then KSigned else if k =? 1 then KUnsigned else if k =? 2 then KBool
  else if k =? 3 then KChar false else KChar true.
Definition src_of (c a b : Z) : src :=
  if c =? 0 then SInt a else if c =? 1 then SFloat a b else if c =? 2 then SBytes a
  else if c =? 3 then SStr a else if c =? 4 then SPtr a else if c =? 5 then SFloatInf
  else if c =? 6 then SFloatNan else if c =? 7 then SBytesLen a else if c =? 8 then SStrLen a else SOther.
Definition cast_obs (k size c a b : Z) : Z * Z :=
  match int_of_cast (mk_cty (kind_of k) (Z.to_nat size)) (src_of c a b) with
  | COk z => (0, z)
  | CErr CTypeError => (1, 0)
  | CErr COverflowError => (2, 0)
  | CErr CValueError => (3, 0)
  end.
