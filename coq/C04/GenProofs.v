(* C04 — the regenerated structure of cast_to_integer_or_char gives exactly the hand model. *)
From Coq Require Import ZArith List Bool Lia.
From Cffi Require Import C03.Mem C04.IR C04.Gen C04.Model C04.Interp.
Import ListNotations.
Open Scope Z_scope.

Lemma nonzero_idem z : nonzero (nonzero z) = nonzero z.
Proof. unfold nonzero. destruct (z =? 0); reflexivity. Qed.

Theorem gen_cast_value_refines T s : gen_cast_value T s = cast_value T s.
Proof.
  unfold gen_cast_value, cast_branches, cast_value.
  destruct s; cbn [first_branch branch_applies branch_value as_ull]; unfold cast_number_strict;
    destruct (ckind T) as [| | |[|]]; reflexivity.
Qed.

Theorem gen_cast_bytes_refines T s : gen_cast_bytes T s = cast_bytes T s.
Proof.
  unfold gen_cast_bytes, cast_bytes. rewrite gen_cast_value_refines.
  destruct (cast_value T s) as [value|e]; [|reflexivity].
  unfold cast_tail. cbn [exec_tail]. unfold is_bool.
  destruct (ckind T); reflexivity.
Qed.

(* the conversion in the final else is the masking one (so that any int is accepted) *)
Lemma gen_cast_not_strict : cast_number_strict = false.
Proof. reflexivity. Qed.
