(* C04 — vocabulary for the facts regenerated from cast_to_integer_or_char (tools/props/c04_regen.py) *)
Inductive cast_branch :=
| CBPointer      (* CData_Check(ob) && c_type->ct_flags & (CT_POINTER|CT_FUNCTIONPTR|CT_ARRAY) *)
| CBUnicode      (* PyUnicode_Check(ob) *)
| CBBytes        (* PyBytes_Check(ob) *)
| CBBool         (* ct->ct_flags & CT_IS_BOOL *)
| CBNumber.      (* the final else: _my_PyLong_AsUnsignedLongLong(ob, strict) *)

(* statements after the label got_value: *)
Inductive tstmt :=
| TNormalizeValue   (* if (ct->ct_flags & CT_IS_BOOL) value = !!value; *)
| TAlloc            (* cd = _new_casted_primitive(ct); *)
| TWrite            (* [if (cd != NULL)] write_raw_integer_data(cd->c_data, value, ct->ct_size); *)
| TNormalizeByte0   (* if (ct->ct_flags & CT_IS_BOOL) cd->c_data[0] = (cd->c_data[0] != 0); *)
| TReturn.          (* return cd; *)
