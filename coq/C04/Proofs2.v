(* C04 — the cast and the C03 store write the same bytes (link between C04/Model.v and C03/Store.v),
   and the int -> pointer conversion of do_cast over its regenerated strict flag. *)
From Coq Require Import ZArith Znumtheory List Bool Lia.
From Cffi Require Import C03.Mem C03.MemProofs C03.Store C03.StoreProofs.
From Cffi Require Import C04.Spec C04.IR C04.Gen C04.Model C04.Interp C04.Proofs.
Import ListNotations.
Open Scope Z_scope.

(* the C03 integer ctype of a C04 integer / _Bool target (same size; CT_PRIMITIVE_SIGNED; CT_IS_BOOL) *)
Definition ity_of (T : cty) : ity :=
  mk_ity (csize T)
         (match ckind T with KSigned => true | _ => false end)
         (match ckind T with KBool => true | _ => false end).

Definition int_target (T : cty) : Prop := ckind T = KSigned \/ ckind T = KUnsigned \/ ckind T = KBool.

Lemma wf_ity_of T : wf_cty T -> wf_ity (ity_of T).
Proof.
  intros [Hs _]. split; cbn [ity_of isize ibool isigned]; [exact Hs|].
  destruct (ckind T); intros; try discriminate; reflexivity.
Qed.

(* only the low 8n bits of the source reach an n-byte little-endian write *)
Lemma encode_le_mod n z : encode_le n (z mod 2 ^ (8 * Z.of_nat n)) = encode_le n z.
Proof.
  revert z; induction n; intros z; [reflexivity|].
  cbn [encode_le].
  replace (8 * Z.of_nat (S n)) with (8 + 8 * Z.of_nat n) by lia.
  rewrite Z.pow_add_r by lia. change (2 ^ 8) with 256.
  assert (0 < 2 ^ (8 * Z.of_nat n)) as P by (apply Z.pow_pos_nonneg; lia).
  rewrite Z.rem_mul_r by lia.
  set (q := (z / 256) mod 2 ^ (8 * Z.of_nat n)).
  assert ((z mod 256 + 256 * q) mod 256 = z mod 256) as ->.
  { replace (z mod 256 + 256 * q) with (z mod 256 + q * 256) by lia.
    rewrite Z.mod_add by lia. apply Z.mod_mod. lia. }
  assert ((z mod 256 + 256 * q) / 256 = q) as ->.
  { replace (z mod 256 + 256 * q) with (z mod 256 + q * 256) by lia.
    rewrite Z.div_add by lia.
    rewrite (Z.div_small (z mod 256)) by (apply Z.mod_pos_bound; lia). lia. }
  unfold q. rewrite IHn. reflexivity.
Qed.

Lemma write_raw_congr s a b : (s <= 8)%nat ->
  a mod 2 ^ (8 * Z.of_nat s) = b mod 2 ^ (8 * Z.of_nat s) -> write_raw s a = write_raw s b.
Proof.
  intros Hs E. unfold write_raw.
  rewrite <- (encode_le_mod s (a mod 2 ^ 64)), <- (encode_le_mod s (b mod 2 ^ 64)).
  rewrite !mod64_mod by assumption. rewrite E. reflexivity.
Qed.

Lemma reduce_mod sg bits z : 0 < bits -> reduce sg bits z mod 2 ^ bits = z mod 2 ^ bits.
Proof.
  intros Hb. destruct (reduce_congruent sg bits z Hb) as [k ->].
  apply Z.mod_add. assert (0 < 2 ^ bits) by (apply Z.pow_pos_nonneg; lia). lia.
Qed.

(* in_range of C03 (boolean, closed upper bound) against in_range_bits of C04/Spec.v *)
Lemma in_range_of_bits T v : ckind T = KSigned \/ ckind T = KUnsigned ->
  in_range_bits (isigned (ity_of T)) (tbits (ity_of T)) v -> in_range (ity_of T) v = true.
Proof.
  intros K H. unfold in_range, in_range_bits, tbits in *. cbn [ity_of isize ibool isigned] in *.
  destruct K as [K | K]; rewrite K in *; cbn match in *.
  - apply andb_true_intro. split; [apply Z.leb_le|apply Z.leb_le]; lia.
  - apply andb_true_intro. split; [apply Z.leb_le|apply Z.leb_le]; lia.
Qed.

(* ---- general form: casting any Python int to a signed / unsigned integer type writes exactly the
        bytes that the C03 store writes for the reduced value (which the store accepts) *)
Theorem cast_is_store_of_reduced T v data : wf_cty T -> ckind T = KSigned \/ ckind T = KUnsigned ->
  let r := reduce (isigned (ity_of T)) (tbits (ity_of T)) v in
  cast_bytes T (SInt v) = COk (encode_int (ity_of T) r) /\
  convert_from_object_int (ity_of T) r data = (Ok tt, encode_int (ity_of T) r).
Proof.
  intros W K r.
  assert (0 < tbits (ity_of T)) as Hb by (unfold tbits; cbn [ity_of isize]; destruct W as [? _]; lia).
  split.
  - unfold cast_bytes, cast_value, encode_int, to_u64. cbn [ity_of isize].
    assert (forall x, match ckind T with KBool => nonzero x | _ => x end = x) as E
      by (intros x; destruct K as [K | K]; rewrite K; reflexivity).
    assert (match ckind T with KBool => COk (nonzero v) | _ => COk (v mod 2 ^ 64) end = @COk Z (v mod 2 ^ 64)) as ->
      by (destruct K as [K | K]; rewrite K; reflexivity).
    rewrite E. f_equal. apply write_raw_congr; [destruct W as [? _]; lia|].
    rewrite mod64_mod by (destruct W as [? _]; lia).
    unfold r. symmetry. apply (reduce_mod _ _ v Hb).
  - rewrite store_exact by (apply wf_ity_of; exact W).
    rewrite in_range_of_bits; [reflexivity|exact K|]. apply reduce_in_range. exact Hb.
Qed.

(* ---- the statement of REVIEW3: on an in-range Python int, the cast and the store agree byte for
        byte (integer and _Bool targets), and the store succeeds *)
Theorem cast_agrees_with_store T v data : wf_cty T -> int_target T -> in_range (ity_of T) v = true ->
  cast_bytes T (SInt v) = COk (encode_int (ity_of T) v) /\
  convert_from_object_int (ity_of T) v data = (Ok tt, encode_int (ity_of T) v).
Proof.
  intros W K R. split.
  2:{ rewrite store_exact by (apply wf_ity_of; exact W). rewrite R. reflexivity. }
  destruct K as [K | [K | K]].
  - destruct (cast_is_store_of_reduced T v data W (or_introl K)) as [-> _].
    rewrite reduce_id; [reflexivity|unfold tbits; cbn [ity_of isize]; destruct W as [? _]; lia|].
    unfold in_range, in_range_bits, tbits in *. cbn [ity_of isize ibool isigned] in *. rewrite K in *.
    apply andb_prop in R. destruct R as [R1 R2]. apply Z.leb_le in R1, R2. lia.
  - destruct (cast_is_store_of_reduced T v data W (or_intror K)) as [-> _].
    rewrite reduce_id; [reflexivity|unfold tbits; cbn [ity_of isize]; destruct W as [? _]; lia|].
    unfold in_range, in_range_bits, tbits in *. cbn [ity_of isize ibool isigned] in *. rewrite K in *.
    apply andb_prop in R. destruct R as [R1 R2]. apply Z.leb_le in R1, R2. lia.
  - unfold in_range in R. cbn [ity_of ibool] in R. rewrite K in R.
    apply andb_prop in R. destruct R as [R1 R2]. apply Z.leb_le in R1, R2.
    unfold cast_bytes, cast_value, encode_int. cbn [ity_of isize]. rewrite K.
    assert (v = 0 \/ v = 1) as [-> | ->] by lia; reflexivity.
Qed.

(* ---------------------------------------------------------------- int -> pointer over the regenerated flag *)

(* with the strict flag as it stands in do_cast, the conversion never fails and is the hand model's
   masking conversion *)
Lemma gen_ptr_refines psize v : gen_cast_int_to_ptr psize v = COk (cast_int_to_ptr psize v).
Proof. reflexivity. Qed.

Lemma gen_ptr_not_strict : cast_ptr_strict = false.
Proof. reflexivity. Qed.

(* pointer -> intptr_t / uintptr_t -> pointer through the regenerated conversion: succeeds and
   returns the address (a strict conversion would raise OverflowError on the negative intptr_t
   values of the upper half of the address space) *)
Theorem gen_ptr_roundtrip (sg : bool) (psize : nat) a : (1 <= psize <= 8)%nat -> 0 <= a < 2 ^ (8 * Z.of_nat psize) ->
  exists z, int_of_cast (mk_cty (if sg then KSigned else KUnsigned) psize) (SPtr a) = COk z /\
            gen_cast_int_to_ptr psize z = COk a.
Proof.
  intros Hp Ha. destruct (ptr_roundtrip sg psize a Hp Ha) as [z [H1 H2]].
  exists z. split; [exact H1|]. rewrite gen_ptr_refines, H2. reflexivity.
Qed.

(* any Python int can be cast to a pointer: the result is the int modulo 2^(8 psize) *)
Theorem gen_int_to_ptr_total psize v : (1 <= psize <= 8)%nat ->
  gen_cast_int_to_ptr psize v = COk (v mod 2 ^ (8 * Z.of_nat psize)).
Proof.
  intros Hp. rewrite gen_ptr_refines. unfold cast_int_to_ptr, to_u64. rewrite mod64_mod by lia. reflexivity.
Qed.
