(* C04 — ffi.cast to integer and character types follows C conversion rules.  Statements only.

   T: target ctype of cast_to_integer_or_char (signed / unsigned / _Bool / char-like, 1..8 bytes;
   a signed wchar_t is 4 bytes).  s: any source — a Python int of any magnitude (bool = 0/1), any
   finite float m*2^e, a 1-byte bytes, a one-character str, the address of a pointer/array/function
   cdata.  `reduce sg bits z` (C04/Spec.v) is C's conversion result: the unique value of the
   target's range congruent to z modulo 2^bits (C04_reduce_canonical). *)
From Coq Require Import ZArith List Bool Lia.
From Cffi Require Import C03.Mem C03.Store C03.StoreProofs.
From Cffi Require Import C04.Spec C04.IR C04.Gen C04.Model C04.Interp C04.Proofs C04.GenProofs C04.Proofs2.
Import ListNotations.
Open Scope Z_scope.

(* "ffi.cast(T, x) succeeds": for every source kind the property lists (valid_src) and every
   target, the result is COk — the model has explicit error outcomes (CErr) for everything else *)
Theorem C04_cast_succeeds : forall T s, valid_src s -> wf_cty T -> exists z, int_of_cast T s = COk z.
Proof. exact cast_succeeds. Qed.
Print Assumptions C04_cast_succeeds.

(* int(ffi.cast(T, x)) = x truncated toward zero (code point / address), reduced modulo
   2^(8 sizeof T) into T's signed or unsigned range.  Reading for the character types: cffi's
   `char`, char16_t, char32_t are unsigned code units (int(ffi.cast("char", -1)) == 255, as
   cffi documents and its own tests assert); wchar_t has the platform's signedness. *)
Theorem C04_cast_exact : forall T s, valid_src s -> wf_cty T -> ckind T <> KBool ->
  int_of_cast T s = COk (reduce (tsigned T) (8 * Z.of_nat (csize T)) (src_value s)).
Proof. exact cast_exact. Qed.
Print Assumptions C04_cast_exact.

(* _Bool: 0/1 by non-zeroness of x itself (0.5 gives 1 although it truncates to 0) *)
Theorem C04_cast_bool : forall T s, valid_src s -> (1 <= csize T <= 8)%nat -> ckind T = KBool ->
  int_of_cast T s = COk (if src_nonzero s then 1 else 0).
Proof. exact cast_bool. Qed.
Print Assumptions C04_cast_bool.

(* the sources outside the property's list: str/bytes of another length and objects that are not
   numbers raise TypeError; infinities OverflowError and NaN ValueError (except into _Bool) *)
Theorem C04_cast_unlisted : forall T,
  int_of_cast T SOther = CErr CTypeError /\
  (forall n, int_of_cast T (SBytesLen n) = CErr CTypeError) /\
  (forall n, int_of_cast T (SStrLen n) = CErr CTypeError) /\
  (ckind T <> KBool -> int_of_cast T SFloatInf = CErr COverflowError /\ int_of_cast T SFloatNan = CErr CValueError).
Proof. exact cast_unlisted. Qed.
Print Assumptions C04_cast_unlisted.

(* the specification is canonical: in range, congruent, and unique with these two properties *)
Theorem C04_reduce_canonical : forall sg bits z, 0 < bits ->
  in_range_bits sg bits (reduce sg bits z) /\
  (exists k, reduce sg bits z = z + k * 2 ^ bits) /\
  (forall r, in_range_bits sg bits r -> (exists k, r = z + k * 2 ^ bits) -> r = reduce sg bits z).
Proof.
  intros sg bits z Hb. split; [apply reduce_in_range; assumption|].
  split; [apply reduce_congruent; assumption|]. intros r. apply reduce_unique. assumption.
Qed.
Print Assumptions C04_reduce_canonical.

(* values already in T's range are unchanged *)
Theorem C04_cast_in_range_id : forall T s, valid_src s -> wf_cty T -> ckind T <> KBool ->
  in_range_bits (tsigned T) (8 * Z.of_nat (csize T)) (src_value s) ->
  int_of_cast T s = COk (src_value s).
Proof. exact cast_in_range_id. Qed.
Print Assumptions C04_cast_in_range_id.

(* pointer -> intptr_t / uintptr_t -> pointer yields the same address, for pointers of any size
   psize (8 here) converted through the signed or unsigned integer type of that size *)
Theorem C04_ptr_roundtrip : forall (sg : bool) (psize : nat) a,
  (1 <= psize <= 8)%nat -> 0 <= a < 2 ^ (8 * Z.of_nat psize) ->
  exists z, int_of_cast (mk_cty (if sg then KSigned else KUnsigned) psize) (SPtr a) = COk z /\
            cast_int_to_ptr psize z = a.
Proof. exact ptr_roundtrip. Qed.
Print Assumptions C04_ptr_roundtrip.

(* the decisive structure of cast_to_integer_or_char as it stands in the source (regenerated into
   C04/Gen.v: order of the source-kind tests, strict flag of the final integer conversion, the
   statement sequence after got_value: — in particular `value = !!value` BEFORE the truncating
   store), run inside the hand-written branch bodies, is exactly the model the theorems above are
   about *)
Theorem C04_gen_cast_refines : forall T s, gen_cast_bytes T s = cast_bytes T s.
Proof. exact gen_cast_bytes_refines. Qed.
Print Assumptions C04_gen_cast_refines.

Theorem C04_gen_cast_not_strict : cast_number_strict = false.
Proof. exact gen_cast_not_strict. Qed.
Print Assumptions C04_gen_cast_not_strict.

(* ---- link with the C03 store model (C03/Store.v, convert_from_object integer branches).
   ity_of T is the C03 integer ctype of the same size / signedness / _Bool-ness; encode_int is the
   byte content C03_store_exact speaks about.  For an integer or _Bool target and a Python int in
   T's range, ffi.cast(T, v) holds exactly the bytes that `p[0] = v` stores (and that store
   succeeds, whatever the target held before). *)
Theorem C04_cast_agrees_with_store : forall T v data, wf_cty T -> int_target T ->
  in_range (ity_of T) v = true ->
  cast_bytes T (SInt v) = COk (encode_int (ity_of T) v) /\
  convert_from_object_int (ity_of T) v data = (Ok tt, encode_int (ity_of T) v).
Proof. exact cast_agrees_with_store. Qed.
Print Assumptions C04_cast_agrees_with_store.

(* general form, any Python int v: the cast holds the bytes that the store writes for v reduced
   into T's range (C04/Spec.v reduce), a value the store accepts *)
Theorem C04_cast_is_store_of_reduced : forall T v data, wf_cty T -> ckind T = KSigned \/ ckind T = KUnsigned ->
  let r := reduce (isigned (ity_of T)) (tbits (ity_of T)) v in
  cast_bytes T (SInt v) = COk (encode_int (ity_of T) r) /\
  convert_from_object_int (ity_of T) r data = (Ok tt, encode_int (ity_of T) r).
Proof. exact cast_is_store_of_reduced. Qed.
Print Assumptions C04_cast_is_store_of_reduced.

(* ---- do_cast, pointer branch, over the strict flag regenerated from the source
   (C04.Gen.cast_ptr_strict; Interp.gen_cast_int_to_ptr consumes it): the conversion is the masking
   one of the hand model (never fails), so any Python int can be cast to a pointer, and
   pointer -> intptr_t / uintptr_t -> pointer gives the address back.  With the flag set to 1 in the
   source, gen_cast_int_to_ptr raises OverflowError on negative ints: these three proofs fail. *)
Theorem C04_gen_ptr_refines : forall psize v, gen_cast_int_to_ptr psize v = COk (cast_int_to_ptr psize v).
Proof. exact gen_ptr_refines. Qed.
Print Assumptions C04_gen_ptr_refines.

Theorem C04_gen_int_to_ptr_total : forall psize v, (1 <= psize <= 8)%nat ->
  gen_cast_int_to_ptr psize v = COk (v mod 2 ^ (8 * Z.of_nat psize)).
Proof. exact gen_int_to_ptr_total. Qed.
Print Assumptions C04_gen_int_to_ptr_total.

Theorem C04_gen_ptr_roundtrip : forall (sg : bool) (psize : nat) a,
  (1 <= psize <= 8)%nat -> 0 <= a < 2 ^ (8 * Z.of_nat psize) ->
  exists z, int_of_cast (mk_cty (if sg then KSigned else KUnsigned) psize) (SPtr a) = COk z /\
            gen_cast_int_to_ptr psize z = COk a.
Proof. exact gen_ptr_roundtrip. Qed.
Print Assumptions C04_gen_ptr_roundtrip.

(* non-vacuity and a few readings of the statement *)
Example C04_ex_wf : wf_cty (mk_cty KSigned 2) /\ wf_cty (mk_cty (KChar true) 4) /\ wf_cty (mk_cty (KChar false) 1).
Proof. unfold wf_cty; cbn; repeat split; try lia; try discriminate; intros; try lia;
       match goal with H : _ = _ |- _ => try (inversion H; fail); try lia end. Qed.
Example C04_ex_wrap : int_of_cast (mk_cty KSigned 2) (SInt 40000) = COk (-25536) /\
                      int_of_cast (mk_cty KUnsigned 1) (SInt (-1)) = COk 255 /\
                      int_of_cast (mk_cty KUnsigned 8) (SInt (2 ^ 100 + 5)) = COk 5.
Proof. vm_compute. repeat split. Qed.
Example C04_ex_float : int_of_cast (mk_cty KSigned 4) (SFloat (-7) (-1)) = COk (-3) /\      (* -3.5 -> -3 *)
                       int_of_cast (mk_cty KUnsigned 4) (SFloat (-3) (-1)) = COk 4294967295 /\  (* -1.5 -> -1 -> 2^32-1 *)
                       int_of_cast (mk_cty KBool 1) (SFloat 1 (-1)) = COk 1.             (* 0.5 -> true *)
Proof. vm_compute. repeat split. Qed.
Example C04_ex_ptr : int_of_cast (mk_cty KSigned 8) (SPtr (2 ^ 64 - 16)) = COk (-16) /\
                     cast_int_to_ptr 8 (-16) = 2 ^ 64 - 16.
Proof. vm_compute. split; reflexivity. Qed.
Example C04_ex_errors : int_of_cast (mk_cty KSigned 4) (SStrLen 2) = CErr CTypeError /\
                        int_of_cast (mk_cty KBool 1) SFloatNan = COk 1.
Proof. vm_compute. split; reflexivity. Qed.
Example C04_ex_gen : gen_cast_bytes (mk_cty KBool 1) (SPtr 256) = COk [1] /\
                     gen_cast_bytes (mk_cty KSigned 2) (SInt (-2)) = COk [254; 255].
Proof. vm_compute. split; reflexivity. Qed.
Example C04_ex_store_hyps :
  wf_cty (mk_cty KSigned 2) /\ int_target (mk_cty KSigned 2) /\ in_range (ity_of (mk_cty KSigned 2)) (-2) = true /\
  wf_cty (mk_cty KBool 1) /\ int_target (mk_cty KBool 1) /\ in_range (ity_of (mk_cty KBool 1)) 1 = true /\
  in_range (ity_of (mk_cty KBool 1)) 2 = false.
Proof. unfold wf_cty, int_target; cbn; repeat split; try lia; try discriminate; auto; intros; try discriminate; lia. Qed.
Example C04_ex_store : cast_bytes (mk_cty KSigned 2) (SInt (-2)) = COk [254; 255] /\
                       convert_from_object_int (ity_of (mk_cty KSigned 2)) (-2) [7; 7] = (Ok tt, [254; 255]) /\
                       cast_bytes (mk_cty KUnsigned 1) (SInt 257) = COk (encode_int (ity_of (mk_cty KUnsigned 1)) 1) /\
                       convert_from_object_int (ity_of (mk_cty KUnsigned 1)) 257 [7] = (Err OverflowError, [7]).
Proof. vm_compute. repeat split. Qed.
Example C04_ex_gen_ptr : gen_cast_int_to_ptr 8 (-16) = COk (2 ^ 64 - 16) /\ gen_cast_int_to_ptr 8 (2 ^ 64 + 3) = COk 3.
Proof. vm_compute. split; reflexivity. Qed.
