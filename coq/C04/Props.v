(* C04 — ffi.cast to integer and character types follows C conversion rules.  Statements only.

   T: target ctype of cast_to_integer_or_char (signed / unsigned / _Bool / char-like, 1..8 bytes;
   a signed wchar_t is 4 bytes).  s: any source — a Python int of any magnitude (bool = 0/1), any
   finite float m*2^e, a 1-byte bytes, a one-character str, the address of a pointer/array/function
   cdata.  `reduce sg bits z` (C04/Spec.v) is C's conversion result: the unique value of the
   target's range congruent to z modulo 2^bits (C04_reduce_canonical). *)
From Coq Require Import ZArith List Bool Lia.
From Cffi Require Import C03.Mem C04.Spec C04.Model C04.Proofs.
Import ListNotations.
Open Scope Z_scope.

(* int(ffi.cast(T, x)) = x truncated toward zero (code point / address), reduced modulo
   2^(8 sizeof T) into T's signed or unsigned range *)
Theorem C04_cast_exact : forall T s, valid_src s -> wf_cty T -> ckind T <> KBool ->
  int_of_cast T s = reduce (tsigned T) (8 * Z.of_nat (csize T)) (src_value s).
Proof. exact cast_exact. Qed.
Print Assumptions C04_cast_exact.

(* _Bool: 0/1 by non-zeroness of x itself (0.5 gives 1 although it truncates to 0) *)
Theorem C04_cast_bool : forall T s, valid_src s -> (1 <= csize T <= 8)%nat -> ckind T = KBool ->
  int_of_cast T s = if src_nonzero s then 1 else 0.
Proof. exact cast_bool. Qed.
Print Assumptions C04_cast_bool.

(* the specification is canonical: in range, congruent, and unique with these two properties *)
Theorem C04_reduce_canonical : forall sg bits z, 0 < bits ->
  in_range_bits sg bits (reduce sg bits z) /\
  (exists k, reduce sg bits z = z + k * 2 ^ bits) /\
  (forall r, in_range_bits sg bits r -> (exists k, r = z + k * 2 ^ bits) -> r = reduce sg bits z).
Proof.
  intros sg bits z Hb. split; [apply reduce_in_range; assumption|].
  split; [apply reduce_congruent; assumption|]. intros r. apply reduce_unique. assumption.
Qed.
Print Assumptions C04_reduce_canonical.

(* values already in T's range are unchanged *)
Theorem C04_cast_in_range_id : forall T s, valid_src s -> wf_cty T -> ckind T <> KBool ->
  in_range_bits (tsigned T) (8 * Z.of_nat (csize T)) (src_value s) ->
  int_of_cast T s = src_value s.
Proof. exact cast_in_range_id. Qed.
Print Assumptions C04_cast_in_range_id.

(* pointer -> intptr_t / uintptr_t -> pointer yields the same address *)
Theorem C04_ptr_roundtrip : forall (sg : bool) a, 0 <= a < 2 ^ 64 ->
  cast_int_to_ptr (int_of_cast (mk_cty (if sg then KSigned else KUnsigned) 8) (SPtr a)) = a.
Proof. exact ptr_roundtrip. Qed.
Print Assumptions C04_ptr_roundtrip.

(* non-vacuity and a few readings of the statement *)
Example C04_ex_wf : wf_cty (mk_cty KSigned 2) /\ wf_cty (mk_cty (KChar true) 4) /\ wf_cty (mk_cty (KChar false) 1).
Proof. unfold wf_cty; cbn; repeat split; try lia; try discriminate; intros; try lia;
       match goal with H : _ = _ |- _ => try (inversion H; fail); try lia end. Qed.
Example C04_ex_wrap : int_of_cast (mk_cty KSigned 2) (SInt 40000) = -25536 /\
                      int_of_cast (mk_cty KUnsigned 1) (SInt (-1)) = 255 /\
                      int_of_cast (mk_cty KUnsigned 8) (SInt (2 ^ 100 + 5)) = 5.
Proof. vm_compute. repeat split. Qed.
Example C04_ex_float : int_of_cast (mk_cty KSigned 4) (SFloat (-7) (-1)) = -3 /\      (* -3.5 -> -3 *)
                       int_of_cast (mk_cty KUnsigned 4) (SFloat (-3) (-1)) = 4294967295 /\  (* -1.5 -> -1 -> 2^32-1 *)
                       int_of_cast (mk_cty KBool 1) (SFloat 1 (-1)) = 1.             (* 0.5 -> true *)
Proof. vm_compute. repeat split. Qed.
Example C04_ex_ptr : cast_int_to_ptr (int_of_cast (mk_cty KSigned 8) (SPtr (2 ^ 64 - 16))) = 2 ^ 64 - 16 /\
                     int_of_cast (mk_cty KSigned 8) (SPtr (2 ^ 64 - 16)) = -16.
Proof. vm_compute. split; reflexivity. Qed.
