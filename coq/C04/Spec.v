(* C04 — specification of C's conversion to an integer type (C11 6.3.1.3/6.3.1.4 with gcc's
   modulo choice for signed targets), written independently of the cffi model:
   the result is THE value of T's range congruent to the truncated source modulo 2^bits. *)
From Coq Require Import ZArith Bool.
Open Scope Z_scope.

(* a finite binary float is m * 2^e *)
Definition trunc_float (m e : Z) : Z :=
  if 0 <=? e then m * 2 ^ e else Z.quot m (2 ^ (- e)).

Definition in_range_bits (sg : bool) (bits : Z) (z : Z) : Prop :=
  if sg then - 2 ^ (bits - 1) <= z < 2 ^ (bits - 1) else 0 <= z < 2 ^ bits.

Definition reduce (sg : bool) (bits : Z) (z : Z) : Z :=
  if sg then (z + 2 ^ (bits - 1)) mod 2 ^ bits - 2 ^ (bits - 1) else z mod 2 ^ bits.
